(* Characterisation of rules_to_frame_buffer: the frame buffer and the target -> (index, sub) table. *)
From Coq Require Import List Permutation Bool Arith.
From Ruler Require Import Tactics Bytes SortList BytesFacts SortListFacts RuleSyntax TopoSort TopoSpec
     TopoSortBasic.
Import ListNotations.
Local Open Scope nat_scope.

(* ---------- generic list facts ---------- *)

Lemma NoDup_rev_iff {A} (l : list A) : NoDup (rev l) <-> NoDup l.
Proof.
  split; intro H.
  - eapply Permutation_NoDup; [apply Permutation_sym, Permutation_rev | exact H].
  - eapply Permutation_NoDup; [apply Permutation_rev | exact H].
Qed.

Lemma NoDup_app_iff {A} (l1 l2 : list A) :
  NoDup (l1 ++ l2) <-> NoDup l1 /\ NoDup l2 /\ (forall x, In x l1 -> ~ In x l2).
Proof.
  induction l1 as [|a l1 IH]; cbn [app].
  - split; [intro H; repeat split; auto; constructor | intros (_ & H & _); exact H].
  - split.
    + intro H. inversion H as [|? ? Hn Hd]; subst. apply IH in Hd as (H1 & H2 & H3).
      repeat split; auto.
      * constructor; auto. intro Hi. apply Hn. apply in_or_app; auto.
      * intros x [->|Hx]; [intro Hi; apply Hn; apply in_or_app; auto | apply H3; exact Hx].
    + intros (H1 & H2 & H3). inversion H1 as [|? ? Hn Hd]; subst. constructor.
      * intro Hi. apply in_app_or in Hi as [Hi|Hi]; [contradiction|]. apply (H3 a); [left; reflexivity | exact Hi].
      * apply IH. repeat split; auto. intros x Hx. apply H3. right; exact Hx.
Qed.

Lemma flat_map_perm_pointwise {A B} (f g : A -> list B) l :
  (forall a, In a l -> Permutation (f a) (g a)) -> Permutation (flat_map f l) (flat_map g l).
Proof.
  induction l as [|a l IH]; intro H; cbn [flat_map]; [reflexivity|].
  apply Permutation_app; [apply H; left; reflexivity | apply IH; intros b Hb; apply H; right; exact Hb].
Qed.

(* a value occurring in the images of two positions of a duplicate-free flat_map: same position *)
Lemma NoDup_flat_map_same_index {A B} (f : A -> list B) l : NoDup (flat_map f l) ->
  forall i j a b x, nth_error l i = Some a -> nth_error l j = Some b -> In x (f a) -> In x (f b) -> i = j.
Proof.
  induction l as [|c l IH]; intros Hnd i j a b x Hi Hj Ha Hb; [destruct i; discriminate|].
  cbn [flat_map] in Hnd. apply NoDup_app_iff in Hnd as (H1 & H2 & H3).
  destruct i as [|i], j as [|j]; cbn [nth_error] in Hi, Hj.
  - reflexivity.
  - injection Hi as ->. exfalso. apply (H3 x Ha). apply in_flat_map. exists b. split; [eapply nth_error_In; eauto | exact Hb].
  - injection Hj as ->. exfalso. apply (H3 x Hb). apply in_flat_map. exists a. split; [eapply nth_error_In; eauto | exact Ha].
  - f_equal. eapply IH; eauto.
Qed.

(* ---------- the table ---------- *)

Lemma tbi_get_none m k : tbi_get m k = None <-> ~ In k (map fst m).
Proof.
  induction m as [|[k' v] m IH]; cbn [tbi_get map fst In]; [tauto|].
  destruct (bytes_eqb k k') eqn:E.
  - apply bytes_eqb_eq in E. subst. split; [discriminate | intro H; exfalso; apply H; auto].
  - apply bytes_eqb_neq in E. rewrite IH. split; [intros H [H1|H1]; [congruence | contradiction] | tauto].
Qed.

Lemma tbi_get_some_in m k v : tbi_get m k = Some v -> In (k, v) m.
Proof.
  induction m as [|[k' v'] m IH]; cbn [tbi_get In]; [discriminate|].
  destruct (bytes_eqb k k') eqn:E.
  - apply bytes_eqb_eq in E. subst. intro H; injection H as ->. auto.
  - auto.
Qed.

Lemma tbi_get_in_nodup m k v : NoDup (map fst m) -> In (k, v) m -> tbi_get m k = Some v.
Proof.
  induction m as [|[k' v'] m IH]; cbn [tbi_get In map fst]; intros Hnd Hin; [contradiction|].
  inversion Hnd as [|? ? Hn Hd]; subst.
  destruct Hin as [Hin|Hin].
  - injection Hin as -> ->. rewrite bytes_eqb_refl. reflexivity.
  - destruct (bytes_eqb k k') eqn:E; [|auto].
    apply bytes_eqb_eq in E. subst. exfalso. apply Hn. apply in_map_iff. exists (k', v). auto.
Qed.

Fixpoint ents_rule (bi sub : nat) (ts : list bytes) : tbi :=
  match ts with
  | [] => []
  | t :: r => (t, (bi, sub)) :: ents_rule bi (S sub) r
  end.

Fixpoint ents (bi : nat) (crs : list rule) : tbi :=
  match crs with
  | [] => []
  | r :: rest => ents_rule bi 0 (r_targets r) ++ ents (S bi) rest
  end.

Fixpoint frames_from (bi : nat) (crs : list rule) : list (option frame) :=
  match crs with
  | [] => []
  | r :: rest => Some (mk_frame r bi 0 false) :: frames_from (S bi) rest
  end.

Lemma ents_rule_keys bi sub ts : map fst (ents_rule bi sub ts) = ts.
Proof. revert sub; induction ts as [|t ts IH]; intro sub; cbn [ents_rule map fst]; [reflexivity|]. rewrite IH; reflexivity. Qed.

Lemma ents_keys bi crs : map fst (ents bi crs) = all_targets crs.
Proof.
  revert bi; induction crs as [|r crs IH]; intro bi; cbn [ents all_targets flat_map]; [reflexivity|].
  rewrite map_app, ents_rule_keys, IH. reflexivity.
Qed.

Lemma ents_rule_in bi sub ts s b i :
  In (s, (b, i)) (ents_rule bi sub ts) <-> b = bi /\ sub <= i /\ nth_error ts (i - sub) = Some s.
Proof.
  revert sub; induction ts as [|t ts IH]; intro sub; cbn [ents_rule In].
  - split; [contradiction|]. intros (_ & _ & H). destruct (i - sub); discriminate.
  - rewrite IH. split.
    + intros [H|(H1 & H2 & H3)].
      * injection H as -> -> ->. rewrite Nat.sub_diag. repeat split; auto.
      * repeat split; auto; [lia|]. replace (i - sub) with (S (i - S sub)) by lia. exact H3.
    + intros (H1 & H2 & H3). destruct (Nat.eq_dec i sub) as [->|Hne].
      * rewrite Nat.sub_diag in H3. cbn [nth_error] in H3. injection H3 as ->. left. subst; reflexivity.
      * right. repeat split; auto; [lia|]. replace (i - sub) with (S (i - S sub)) in H3 by lia. exact H3.
Qed.

Lemma ents_in bi crs s b i :
  In (s, (b, i)) (ents bi crs) <->
  bi <= b /\ exists r, nth_error crs (b - bi) = Some r /\ nth_error (r_targets r) i = Some s.
Proof.
  revert bi; induction crs as [|r crs IH]; intro bi; cbn [ents].
  - cbn [In]. split; [contradiction|]. intros (_ & r & H & _). destruct (b - bi); discriminate.
  - rewrite in_app_iff, ents_rule_in, IH. split.
    + intros [(H1 & _ & H3)|(H1 & r' & H2 & H3)].
      * subst. rewrite Nat.sub_diag, Nat.sub_0_r in *. split; [lia|]. exists r. auto.
      * split; [lia|]. exists r'. replace (b - bi) with (S (b - S bi)) by lia. auto.
    + intros (H1 & r' & H2 & H3). destruct (Nat.eq_dec b bi) as [->|Hne].
      * rewrite Nat.sub_diag in H2. cbn [nth_error] in H2. injection H2 as ->.
        left. rewrite Nat.sub_0_r. repeat split; auto. lia.
      * right. split; [lia|]. exists r'. replace (b - bi) with (S (b - S bi)) in H2 by lia. auto.
Qed.

Lemma frames_from_length bi crs : length (frames_from bi crs) = length crs.
Proof. revert bi; induction crs as [|r crs IH]; intro bi; cbn [frames_from length]; [reflexivity|]. rewrite IH; reflexivity. Qed.

Lemma frames_from_nth bi crs k :
  nth_error (frames_from bi crs) k =
  match nth_error crs k with Some r => Some (Some (mk_frame r (bi + k) 0 false)) | None => None end.
Proof.
  revert bi k; induction crs as [|r crs IH]; intros bi [|k]; cbn [frames_from nth_error]; try reflexivity.
  - rewrite Nat.add_0_r. reflexivity.
  - rewrite IH. replace (S bi + k) with (bi + S k) by lia. reflexivity.
Qed.

Lemma add_targets_ok ts : forall m bi sub m',
  add_targets m bi sub ts = Ok m' ->
  m' = rev (ents_rule bi sub ts) ++ m /\ NoDup ts /\ (forall t, In t ts -> ~ In t (map fst m)).
Proof.
  induction ts as [|t ts IH]; intros m bi sub m' H; cbn [add_targets] in H.
  - injection H as <-. repeat split; [constructor | intros t []].
  - destruct (tbi_get m t) eqn:Et; [discriminate|].
    apply IH in H as (H1 & H2 & H3). apply tbi_get_none in Et.
    cbn [ents_rule rev]. rewrite <- app_assoc. cbn [app]. repeat split.
    + exact H1.
    + constructor; [|exact H2]. intro Hi. apply (H3 t Hi). cbn [map fst]. left; reflexivity.
    + intros t' [<-|Hi]; [exact Et|]. intro Hm. apply (H3 t' Hi). cbn [map fst]. right; exact Hm.
Qed.

Lemma add_targets_err ts : forall m bi sub e,
  add_targets m bi sub ts = Err e ->
  exists t p q, e = TargetInMultipleRules t /\ ts = p ++ t :: q /\ (In t (map fst m) \/ In t p).
Proof.
  induction ts as [|t ts IH]; intros m bi sub e H; cbn [add_targets] in H; [discriminate|].
  destruct (tbi_get m t) eqn:Et.
  - injection H as <-. exists t, [], ts. repeat split. left.
    destruct (in_dec (list_eq_dec N.eq_dec) t (map fst m)) as [Hi|Hn]; [exact Hi|].
    apply tbi_get_none in Hn. congruence.
  - apply IH in H as (t' & p & q & -> & -> & Hor).
    exists t', (t :: p), q. repeat split. cbn [map fst In] in Hor.
    destruct Hor as [[->|Hm]|Hp]; [right; left; reflexivity | left; exact Hm | right; right; exact Hp].
Qed.

Lemma frames_of_ok rs : forall m bi acc buf m',
  frames_of m bi rs acc = Ok (buf, m') ->
  m' = rev (ents bi (map canon_rule rs)) ++ m /\
  buf = rev acc ++ frames_from bi (map canon_rule rs) /\
  (NoDup (map fst m) -> NoDup (map fst m')).
Proof.
  induction rs as [|r rs IH]; intros m bi acc buf m' H; cbn [frames_of] in H.
  - injection H as <- <-. cbn [map ents frames_from rev app]. rewrite app_nil_r. auto.
  - destruct (add_targets m bi 0 (r_targets (canon_rule r))) as [m1|e] eqn:Ea; [|discriminate].
    apply add_targets_ok in Ea as (E1 & E2 & E3).
    apply IH in H as (H1 & H2 & H3).
    cbn [map ents frames_from]. rewrite rev_app_distr, <- app_assoc, <- E1.
    repeat split; [exact H1 | |].
    + rewrite H2. cbn [rev]. rewrite <- app_assoc. reflexivity.
    + intro Hnd. apply H3. rewrite E1, map_app, map_rev, ents_rule_keys.
      apply NoDup_app_iff. repeat split; [apply NoDup_rev_iff; exact E2 | exact Hnd |].
      intros x Hx. apply in_rev in Hx. apply E3; exact Hx.
Qed.

Lemma frames_of_err rs : forall m bi acc e,
  frames_of m bi rs acc = Err e ->
  exists t p q, e = TargetInMultipleRules t /\ all_targets (map canon_rule rs) = p ++ t :: q /\
                (In t (map fst m) \/ In t p).
Proof.
  induction rs as [|r rs IH]; intros m bi acc e H; cbn [frames_of] in H; [discriminate|].
  destruct (add_targets m bi 0 (r_targets (canon_rule r))) as [m1|e1] eqn:Ea.
  - pose proof (add_targets_ok _ _ _ _ _ Ea) as (E1 & _ & _).
    apply IH in H as (t & p & q & -> & Hq & Hor).
    exists t, (r_targets (canon_rule r) ++ p), q. repeat split.
    + cbn [map all_targets flat_map]. fold (all_targets (map canon_rule rs)). rewrite Hq, app_assoc. reflexivity.
    + rewrite E1, map_app, map_rev, ents_rule_keys in Hor. rewrite in_app_iff in Hor. rewrite in_app_iff.
      destruct Hor as [[Hr|Hm]|Hp]; [right; left; apply in_rev; exact Hr | left; exact Hm | right; right; exact Hp].
  - injection H as <-. apply add_targets_err in Ea as (t & p & q & -> & Hq & Hor).
    exists t, p, (q ++ all_targets (map canon_rule rs)). repeat split; [|exact Hor].
    cbn [map all_targets flat_map]. fold (all_targets (map canon_rule rs)). rewrite Hq, <- app_assoc. reflexivity.
Qed.

(* ---------- canonical targets versus declared targets ---------- *)

Lemma all_targets_canon_perm rs :
  Permutation (all_targets (map canon_rule (sort_rules rs))) (all_targets rs).
Proof.
  unfold all_targets. rewrite flat_map_concat_map, map_map, <- flat_map_concat_map.
  transitivity (flat_map r_targets (sort_rules rs)).
  - apply flat_map_perm_pointwise. intros a _. cbn [canon_rule r_targets]. apply sort_strs_perm.
  - apply Permutation_flat_map, sort_rules_perm.
Qed.

Lemma all_targets_canon_in rs s :
  In s (all_targets (map canon_rule (sort_rules rs))) <-> In s (all_targets rs).
Proof.
  split; apply Permutation_in; [apply all_targets_canon_perm | apply Permutation_sym, all_targets_canon_perm].
Qed.

(* ---------- summary ---------- *)

Record build_ok (crs : list rule) (buf : list (option frame)) (t : tbi) : Prop := {
  bo_nodup : NoDup (all_targets crs);
  bo_buf : buf = frames_from 0 crs;
  bo_some : forall s b i, tbi_get t s = Some (b, i) <->
                          exists r, nth_error crs b = Some r /\ nth_error (r_targets r) i = Some s;
  bo_none : forall s, tbi_get t s = None <-> ~ In s (all_targets crs)
}.

Lemma rules_to_frame_buffer_ok rs buf t :
  rules_to_frame_buffer rs = Ok (buf, t) -> build_ok (map canon_rule (sort_rules rs)) buf t.
Proof.
  unfold rules_to_frame_buffer. intro H. apply frames_of_ok in H as (H1 & H2 & H3).
  rewrite app_nil_r in H1. cbn [rev app] in H2.
  assert (Hk : map fst t = rev (all_targets (map canon_rule (sort_rules rs)))).
  { rewrite H1, map_rev, ents_keys. reflexivity. }
  assert (Hnd : NoDup (map fst t)) by (apply H3; constructor).
  split.
  - apply NoDup_rev_iff. rewrite <- Hk. exact Hnd.
  - exact H2.
  - intros s b i. split.
    + intro Hg. apply tbi_get_some_in in Hg. rewrite H1 in Hg. apply in_rev in Hg.
      apply ents_in in Hg as (_ & r & Hr1 & Hr2). rewrite Nat.sub_0_r in Hr1. exists r; auto.
    + intros (r & Hr1 & Hr2). apply tbi_get_in_nodup; [exact Hnd|].
      rewrite H1. apply (proj1 (in_rev _ _)). apply ents_in. split; [lia|].
      exists r. rewrite Nat.sub_0_r. auto.
  - intro s. rewrite tbi_get_none, Hk. split; intros Hn Hi; apply Hn; [apply (proj1 (in_rev _ _)); exact Hi|].
    apply (proj2 (in_rev _ _)). exact Hi.
Qed.

Lemma rules_to_frame_buffer_err rs e :
  rules_to_frame_buffer rs = Err e ->
  exists t l1 l2 l3, e = TargetInMultipleRules t /\
    all_targets (map canon_rule (sort_rules rs)) = l1 ++ t :: l2 ++ t :: l3.
Proof.
  unfold rules_to_frame_buffer. intro H. apply frames_of_err in H as (t & p & q & -> & Hq & Hor).
  cbn [map In] in Hor. destruct Hor as [[]|Hp].
  apply in_split in Hp as (l1 & l2 & ->).
  exists t, l1, l2, q. split; [reflexivity|]. rewrite Hq, <- app_assoc. reflexivity.
Qed.
