(* C10, part 2: the leaves, main's join loop, and the summary of a successful build: its trace, seen
   from the world the build leaves behind. *)
From Coq Require Import Relations.Relation_Operators Relations.Operators_Properties.
From Ruler Require Import Tactics Bytes AList RuleSyntax Parser TopoSort TopoSpec World Cmdlang Work Build Ops Inv
     BuildSpec Ideal BytesFacts InvFacts TopoSortFacts ParserFacts BuildFacts C01Script C01Hist C01Build C01Plan C10Facts.
Local Open Scope N_scope.

Section Summary.
  Variable T : Type.
  Variable teqb : T -> T -> bool.
  Variable hc : bytes -> T.
  Variable hl : list T -> T.
  Variable hr : rule -> T.
  Hypothesis teqb_spec : forall a b, teqb a b = true <-> a = b.
  Hypothesis hr_inj : forall a b, hr a = hr b -> a = b.

  Notation world := (world T).
  Notation fstate := (fstate T).
  Notation state_ok := (state_ok teqb hc).
  Notation disk_inv := (disk_inv teqb hc).
  Notation steps := (clos_refl_trans world (step teqb hc)).
  Notation blob_ok := (InvProofs.blob_ok T teqb hc).
  Notation tbl_ok := (InvProofs.tbl_ok T teqb hc).
  Notation has_hash := (has_hash T hc).
  Notation rs_inv := (InvProofs.rs_inv T teqb hc).
  Notation has_err := (has_err T).
  Notation hist_at := (hist_at T teqb).
  Notation hist_of := (hist_of T).
  Notation run_leaf := (run_leaf T teqb hc).
  Notation run_node := (run_node T teqb hc hl hr).
  Notation run_nodes := (run_nodes T teqb hc hl hr).
  Notation join_one := (join_one T teqb hr).
  Notation tk_of := (tk_of T hc).
  Notation trace_ok := (trace_ok T teqb hl).
  Notation entry_hashes := (entry_hashes T hc).
  Notation build := (build teqb hc hl hr).

  (* ================================================================== *)
  (* the leaves                                                           *)
  (* ================================================================== *)

  Definition leaf_res (x : option rule * thread_result T) : Prop :=
    fst x = None /\ exists wr, snd x = TOk wr /\ wr_option wr = SourceOnly.

  Lemma run_leaf_node_sent st leaf : rs_node_sent T (run_leaf st leaf) = rs_node_sent T st.
  Proof.
    unfold Build.run_leaf. destruct (take_blob T hc (rs_table T st) [leaf]) as [b t'].
    destruct (handle_leaf teqb hc (rs_world T st) b); reflexivity.
  Qed.

  Lemma run_leaves_node_sent leaves : forall st,
    rs_node_sent T (fold_left run_leaf leaves st) = rs_node_sent T st.
  Proof.
    induction leaves as [|l r IH]; intro st; cbn [fold_left]; [reflexivity|].
    rewrite IH. apply run_leaf_node_sent.
  Qed.

  Lemma run_leaf_char (w0 : world) st leaf :
    disk_inv w0 -> rs_inv w0 st ->
    (content_at (rs_world T st) leaf = None /\
     exists e, rs_results T (run_leaf st leaf) = rs_results T st ++ [(None, TErr e)]) \/
    (exists c wr, content_at (rs_world T st) leaf = Some c /\
       rs_leaf_sent T (run_leaf st leaf) = rs_leaf_sent T st ++ [Some [hc c]] /\
       rs_results T (run_leaf st leaf) = rs_results T st ++ [(None, TOk wr)] /\ wr_option wr = SourceOnly).
  Proof.
    intros Hinv0 (Hsteps & Htbl & _).
    pose proof (inv_steps T teqb hc teqb_spec _ _ Hinv0 Hsteps) as Hinv.
    unfold Build.run_leaf.
    destruct (take_blob T hc (rs_table T st) [leaf]) as [b t'] eqn:Etb.
    pose proof (C01Build.take_blob_fst T hc _ _ _ _ Etb) as Hfst.
    assert (clock_ok teqb (rs_world T st)) as Hk by apply Hinv.
    destruct (InvProofs.take_blob_ok T teqb hc teqb_spec _ _ _ _ _ Htbl Etb) as [Hb _].
    destruct b as [|[p a] b]; [discriminate|]. destruct b as [|x b]; [|discriminate].
    cbn in Hfst. injection Hfst as ->.
    apply InvProofs.blob_ok_cons in Hb as [Hok _].
    unfold handle_leaf. cbn [current_tickets].
    destruct (get_file_ticket teqb hc (rs_world T st) leaf a) as [t|] eqn:Eg.
    - right. destruct (gft_hash T teqb hc _ _ _ _ Hok Eg) as (c & Hc & ->).
      exists c. eexists. cbn. split; [exact Hc|]. split; [reflexivity|]. split; reflexivity.
    - left. split; [eapply gft_none; eauto|]. eexists. reflexivity.
  Qed.

  Lemma run_leaves_exist (w0 : world) leaves : forall st,
    disk_inv w0 -> rs_inv w0 st ->
    (forall l, In l leaves -> content_at (rs_world T st) l <> None) ->
    rs_leaf_sent T (fold_left run_leaf leaves st) =
      rs_leaf_sent T st ++ map (fun l => Some [tk_of (rs_world T st) l]) leaves /\
    exists lr, rs_results T (fold_left run_leaf leaves st) = rs_results T st ++ lr /\ Forall leaf_res lr.
  Proof.
    induction leaves as [|l leaves IH]; intros st Hinv0 Hrs Hex; cbn [fold_left map].
    - rewrite app_nil_r. split; [reflexivity|]. exists []. rewrite app_nil_r. split; [reflexivity | constructor].
    - pose proof (InvProofs.run_leaf_inv T teqb hc teqb_spec w0 st l Hinv0 Hrs) as Hrs1.
      pose proof (run_leaf_world T teqb hc st l) as Hw1.
      destruct (run_leaf_char w0 st l Hinv0 Hrs) as [[Hn _] | (c & wr & Hc & Hls & Hres & Hopt)].
      { exfalso. apply (Hex l); [left; reflexivity | exact Hn]. }
      destruct (IH (run_leaf st l) Hinv0 Hrs1) as (I1 & lr & I2 & I3).
      { intros l' Hl'. rewrite Hw1. apply Hex. right. exact Hl'. }
      rewrite Hw1 in I1. split.
      + rewrite I1, Hls, <- app_assoc. cbn [app]. unfold C10Facts.tk_of. rewrite Hc. reflexivity.
      + exists ((None, TOk wr) :: lr). split.
        * rewrite I2, Hres, <- app_assoc. reflexivity.
        * constructor; [|exact I3]. split; [reflexivity|]. exists wr. auto.
  Qed.

  Lemma run_leaves_err_or_exist (w0 : world) leaves : forall st,
    disk_inv w0 -> rs_inv w0 st ->
    has_err (rs_results T (fold_left run_leaf leaves st)) \/
    forall l, In l leaves -> content_at (rs_world T st) l <> None.
  Proof.
    induction leaves as [|l leaves IH]; intros st Hinv0 Hrs; cbn [fold_left]; [right; intros l []|].
    pose proof (InvProofs.run_leaf_inv T teqb hc teqb_spec w0 st l Hinv0 Hrs) as Hrs1.
    pose proof (run_leaf_world T teqb hc st l) as Hw1.
    destruct (run_leaf_char w0 st l Hinv0 Hrs) as [[_ (e & He)] | (c & wr & Hc & _)].
    - left. destruct (run_leaves_results T teqb hc leaves (run_leaf st l)) as (lr & -> & _).
      apply has_err_more. rewrite He. exists None, e. apply in_or_app. right. left. reflexivity.
    - destruct (IH (run_leaf st l) Hinv0 Hrs1) as [He | Hex]; [left; exact He|].
      right. intros l' [<- | Hl']; [rewrite Hc; discriminate|]. rewrite <- Hw1. apply Hex. exact Hl'.
  Qed.

  Lemma leaves_leaf_ok (w : world) leaves :
    (forall l, In l leaves -> content_at w l <> None) ->
    Forall2 (leaf_ok T hc w) leaves (map (fun l => Some [tk_of w l]) leaves).
  Proof.
    induction leaves as [|l leaves IH]; intro Hex; cbn [map]; constructor.
    - cbn [leaf_ok]. unfold C10Facts.tk_of. destruct (content_at w l) as [c|] eqn:Ec.
      + exists c. auto.
      + exfalso. apply (Hex l); [left; reflexivity | exact Ec].
    - apply IH. intros l' Hl'. apply Hex. right. exact Hl'.
  Qed.

  Lemma leaves_all_sent (w : world) leaves : all_sent T (map (fun l => Some [tk_of w l]) leaves).
  Proof. unfold all_sent. apply Forall_forall. intros o Ho. apply in_map_iff in Ho as (l & <- & _). discriminate. Qed.

  (* ================================================================== *)
  (* main's join loop: which history file a rule ends up with             *)
  (* ================================================================== *)

  Lemma join_one_hist_some js res :
    hist_of (js_world T js) <> None -> hist_of (js_world T (join_one js res)) <> None.
  Proof.
    intro H. unfold Build.join_one. destruct (snd res) as [wr|e|]; cbn [js_world]; try exact H.
    destruct (fst res) as [r|]; [|exact H]. destruct (wr_history wr) as [h|]; [|exact H].
    unfold write_history, BuildFacts.hist_of in *.
    destruct (rd_hist (w_rd (js_world T js))) eqn:E; [cbn; discriminate | contradiction].
  Qed.

  Lemma join_hist_final (k : T) (h' : history T) results : forall js,
    hist_of (js_world T js) <> None ->
    (hist_at (js_world T js) k = Some (SF_ok h') \/
     exists r wr, In (Some r, TOk wr) results /\ hr r = k /\ wr_history wr = Some h') ->
    (forall r2 wr2, In (Some r2, TOk wr2) results -> hr r2 = k -> wr_history wr2 = Some h') ->
    hist_at (js_world T (fold_left join_one results js)) k = Some (SF_ok h').
  Proof.
    induction results as [|res rest IH]; intros js Hsome Hor Huniq; cbn [fold_left].
    - destruct Hor as [H | (r & wr & [] & _)]. exact H.
    - apply IH; [apply join_one_hist_some; exact Hsome | | intros r2 wr2 Hin; apply Huniq; right; exact Hin].
      destruct res as [ro tr].
      assert ((exists r2 wr2, ro = Some r2 /\ tr = TOk wr2 /\ hr r2 = k) \/
              (forall r2 wr2, (ro, tr) = (Some r2, TOk wr2) -> hr r2 <> k)) as [(r2 & wr2 & -> & -> & Hk) | Hno].
      { destruct ro as [r2|]; [|right; intros r2 wr2 E; discriminate].
        destruct tr as [wr2|e|]; try (right; intros r3 wr3 E; discriminate).
        destruct (teqb (hr r2) k) eqn:Ek.
        - left. apply teqb_spec in Ek. eauto.
        - right. intros r3 wr3 E X. injection E as <- <-. apply teqb_spec in X. congruence. }
      + left. pose proof (Huniq r2 wr2 (or_introl eq_refl) Hk) as Hw.
        unfold Build.join_one. cbn [fst snd js_world]. rewrite Hw. rewrite <- Hk.
        destruct (hist_of (js_world T js)) as [hs|] eqn:Ehs; [|contradiction].
        eapply write_history_hist_at_eq; eauto.
      + rewrite (join_one_hist_at_neq T teqb hr teqb_spec js (ro, tr) k Hno).
        destruct Hor as [H | (r & wr & [E | Hin] & Hk & Hw)]; [left; exact H | | right; eauto].
        exfalso. apply (Hno r wr E Hk).
  Qed.

  (* ================================================================== *)
  (* the summary of a successful build                                    *)
  (* ================================================================== *)

  Lemma get_nodes_rules_nodup (w1 : world) rp goal pack :
    get_nodes T w1 rp goal = Ok pack -> NoDup (map n_rule (p_nodes pack)).
  Proof.
    intro H. apply get_nodes_inv in H as (f & rs & _ & Hp & Ht).
    assert (plan_ok rs goal pack) as (Hnd & _).
    { apply c12_plan_correct; [|exact Ht]. eapply parse_targets_nonempty; eauto. }
    exact Hnd.
  Qed.

  Lemma det_nodes_confined ns : Forall det_node ns -> Forall node_confined ns.
  Proof. intro H. eapply Forall_impl; [|exact H]. intros n Hn. apply node_confined_of_det. exact Hn. Qed.

  Definition entry_hist (W : world) (e : tentry T) : Prop :=
    forall h', wr_history (snd e) = Some h' -> hist_at W (hr (n_rule (fst e))) = Some (SF_ok h').

  Theorem build_summary (w : world) rp goal w1 tbl pack :
    disk_inv w -> init_dir T w = Ok (w1, tbl) -> get_nodes T w1 rp goal = Ok pack ->
    Forall det_node (p_nodes pack) ->
    o_verdict (build w rp goal) = VOk ->
    exists tr,
      map fst tr = p_nodes pack /\
      (forall l, In l (p_leaves pack) -> content_at (o_world (build w rp goal)) l <> None) /\
      trace_ok (map (fun l => Some [tk_of (o_world (build w rp goal)) l]) (p_leaves pack)) [] tr /\
      Forall (entry_hashes (o_world (build w rp goal))) tr /\
      Forall (entry_hist (o_world (build w rp goal))) tr /\
      exists tbl', rd_table (w_rd (o_world (build w rp goal))) = Some (SF_ok tbl').
  Proof.
    intros Hinv Hi Hg Hdet. rewrite build_eq, Hi, Hg. cbv zeta.
    destruct (run_nodes (st_leaves T teqb hc w1 tbl pack) (p_nodes pack)) as [st2|] eqn:ER; [|cbn; discriminate].
    cbn [o_verdict o_world]. intro Hv.
    pose proof (get_nodes_plan_wf T _ _ _ _ Hg) as Hwf.
    pose proof (get_nodes_rules_nodup _ _ _ _ Hg) as Hndr.
    destruct (InvProofs.init_dir_rs_inv T teqb hc teqb_spec _ _ _ Hinv Hi) as [Hs1 Ht1].
    destruct (init_dir_ok T teqb _ _ _ Hi) as (Hfiles & _ & _ & Hhsome).
    set (st0 := mk_rs T w1 tbl [] [] [] []).
    assert (rs_inv w st0) as H0. { split; [exact Hs1|]. split; [exact Ht1|]. intros r wr []. }
    set (st1 := st_leaves T teqb hc w1 tbl pack) in *.
    assert (st1 = fold_left run_leaf (p_leaves pack) st0) as Est1 by reflexivity.
    pose proof (InvProofs.run_leaves_inv T teqb hc teqb_spec w (p_leaves pack) st0 Hinv H0) as Hrs1.
    rewrite <- Est1 in Hrs1.
    set (js := joined T teqb hr st2) in *.
    assert (~ has_err (rs_results T st2)) as Hnoerr.
    { intro He. apply (join_all_errors T teqb hr (rs_results T st2) (mk_js T (rs_world T st2) (rs_table T st2) [] []));
        [right; exact He|].
      change (js_errors T js = []). destruct (js_errors T js); [reflexivity | discriminate]. }
    destruct (run_nodes_spec T teqb hc hl hr _ _ _ ER) as (_ & _ & (trs & _ & Hres2) & Hhist2 & _).
    (* the leaves all exist and sent their hashes *)
    destruct (run_leaves_err_or_exist w (p_leaves pack) st0 Hinv H0) as [He | Hex].
    { exfalso. apply Hnoerr. rewrite Hres2. apply has_err_more. rewrite Est1. exact He. }
    cbn [rs_world st0] in Hex.
    destruct (run_leaves_exist w (p_leaves pack) st0 Hinv H0 Hex) as (HLS & lr & Hlr & Hleafres).
    rewrite <- Est1 in HLS, Hlr. cbn [rs_leaf_sent rs_results rs_world st0 app] in HLS, Hlr.
    set (LS := map (fun l => Some [tk_of w1 l]) (p_leaves pack)) in *.
    assert (forall p, content_at w1 p = content_at w p) as Hc1.
    { intro p. apply content_at_files. exact Hfiles. }
    assert (rs_world T st1 = w1) as Hw1 by apply st_leaves_world.
    assert (inv1 T teqb hc hl w pack LS lr [] st1) as Hi1.
    { constructor.
      - exact Hrs1.
      - intros p _. rewrite Hw1. apply Hc1.
      - exact HLS.
      - right. exists []. cbn [map]. rewrite app_nil_r. split; [reflexivity|].
        split; [rewrite Est1; apply run_leaves_node_sent|]. split; [exact Hlr|]. split; [exact I | constructor]. }
    assert (Forall2 (leaf_ok T hc w) (p_leaves pack) LS) as HleafW.
    { eapply leaf_ok_transport; [|apply leaves_leaf_ok; exact Hex]. intros l _. symmetry. apply Hc1. }
    pose proof (run_nodes_inv1 T teqb hc hl hr teqb_spec w pack LS lr Hinv Hwf Hdet HleafW
                  (or_intror (leaves_all_sent w1 _)) (p_nodes pack) [] st1 st2 eq_refl Hi1 ER)
      as [_ Hframe2 _ Htr2].
    destruct Htr2 as [He | (tr & Htrd & _ & Hrr & Htok & Hhash)]; [contradiction|].
    set (W := write_table T (js_world T js) (js_table T js)).
    assert (forall p, content_at W p = content_at (rs_world T st2) p) as HcW.
    { intro p. apply content_at_files. unfold W, js, joined. cbn. rewrite BuildFacts.join_all_files. reflexivity. }
    pose proof Hwf as (_ & Hleafnt & _).
    assert (forall l, In l (p_leaves pack) -> content_at W l = content_at w1 l) as HleafW1.
    { intros l Hl. rewrite HcW, Hframe2, Hc1; [reflexivity | apply Hleafnt; exact Hl]. }
    exists tr. split; [exact Htrd|]. split; [|split; [|split; [|split]]].
    - intros l Hl. rewrite (HleafW1 l Hl). apply Hex. exact Hl.
    - replace (map (fun l => Some [tk_of W l]) (p_leaves pack)) with LS; [exact Htok|].
      unfold LS. apply map_ext_in. intros l Hl. do 2 f_equal. symmetry. apply tk_of_content. apply HleafW1. exact Hl.
    - eapply Forall_impl; [|exact Hhash]. intros e He. unfold C10Facts.entry_hashes in *.
      eapply Forall2_impl; [|exact He]. intros t tk Hh. eapply has_hash_content; [|exact Hh]. apply HcW.
    - apply Forall_forall. intros e Hin h' Hh'.
      change (hist_at (js_world T js) (hr (n_rule (fst e))) = Some (SF_ok h')).
      unfold js, joined. apply join_hist_final.
      + cbn [js_world]. rewrite Hhist2. unfold st1. rewrite st_leaves_world. exact Hhsome.
      + right. exists (n_rule (fst e)), (snd e). split; [|auto].
        rewrite Hrr. apply in_or_app. right. apply in_map_iff. exists e. auto.
      + intros r2 wr2 Hin2 Hk. rewrite Hrr in Hin2. apply in_app_or in Hin2 as [Hin2 | Hin2].
        * rewrite Forall_forall in Hleafres. destruct (Hleafres _ Hin2) as [X _]. discriminate.
        * apply in_map_iff in Hin2 as (e2 & E2 & Hin2). unfold res_of in E2. injection E2 as <- <-.
          apply hr_inj in Hk.
          assert (e2 = e) as ->; [|exact Hh'].
          assert (NoDup (map (fun x : tentry T => n_rule (fst x)) tr)) as Hnd2.
          { rewrite <- Htrd in Hndr. rewrite map_map in Hndr. exact Hndr. }
          exact (NoDup_map_eq (fun x : tentry T => n_rule (fst x)) tr e2 e Hnd2 Hin2 Hin Hk).
    - eexists. reflexivity.
  Qed.
End Summary.
