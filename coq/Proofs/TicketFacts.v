From Ruler Require Import Tactics Bytes Sha256 BytesFacts TicketModel.
Local Open Scope N_scope.

Lemma file_ticket_chunked_correct (content : bytes) (chunks : list bytes) :
  concat chunks = content -> file_ticket_chunked chunks = sha256 content.
Proof. intros <-. reflexivity. Qed.

(* ---------- directory preimage: the newline-count argument ---------- *)

Definition count_nl (l : bytes) : nat := length (filter (N.eqb NL) l).

Lemma count_nl_app a b : count_nl (a ++ b) = (count_nl a + count_nl b)%nat.
Proof. unfold count_nl. rewrite filter_app, app_length. reflexivity. Qed.

Lemma count_nl_free n : ~ In NL n -> count_nl n = 0%nat.
Proof.
  unfold count_nl. induction n as [|c n IH]; intros H; cbn [filter]; [reflexivity|].
  destruct (NL =? c) eqn:E.
  - apply N.eqb_eq in E. exfalso; apply H; left; congruence.
  - apply IH. intro Hin; apply H; right; exact Hin.
Qed.

Lemma count_nl_join names :
  Forall (fun n => ~ In NL n) names -> count_nl (join_with [NL] names) = pred (length names).
Proof.
  induction 1 as [|n names Hn Hall IH]; [reflexivity|].
  destruct names as [|m names'].
  - cbn [join_with length pred]. apply count_nl_free; exact Hn.
  - rewrite join_with_cons2, !count_nl_app, IH, (count_nl_free n Hn).
    change (count_nl [NL]) with 1%nat. cbn [length pred]. lia.
Qed.

Lemma concat_length32 (ts : list bytes) :
  Forall (fun t => length t = 32%nat) ts -> length (concat ts) = (32 * length ts)%nat.
Proof.
  induction 1 as [|t ts Ht Hall IH]; [reflexivity|].
  cbn [concat length]. rewrite app_length, IH, Ht. lia.
Qed.

Lemma app_inj_len {A} (a b c d : list A) :
  length a = length c -> a ++ b = c ++ d -> a = c /\ b = d.
Proof.
  revert c; induction a as [|x a IH]; intros [|y c] L E; try discriminate.
  - split; [reflexivity | exact E].
  - cbn [app] in E. injection E as -> E. injection L as L.
    destruct (IH c L E) as [-> ->]. split; reflexivity.
Qed.

Lemma concat_inj32 (ts1 ts2 : list bytes) :
  Forall (fun t => length t = 32%nat) ts1 -> Forall (fun t => length t = 32%nat) ts2 ->
  concat ts1 = concat ts2 -> ts1 = ts2.
Proof.
  intros H1; revert ts2; induction H1 as [|t ts1 Ht Hall IH]; intros ts2 H2 E.
  - destruct H2 as [|u ts2 Hu _]; [reflexivity|].
    cbn [concat] in E. apply (f_equal (@length N)) in E. rewrite app_length, Hu in E. cbn in E. lia.
  - destruct H2 as [|u ts2 Hu H2].
    + cbn [concat] in E. apply (f_equal (@length N)) in E. rewrite app_length, Ht in E. cbn in E. lia.
    + cbn [concat] in E.
      assert (t = u /\ concat ts1 = concat ts2) as [-> E'].
      { apply app_inj_len; [congruence | exact E]. }
      f_equal. apply IH; assumption.
Qed.

Lemma dir_preimage_prefix_case J1 C1 J2 C2 l names1 names2 (tickets1 tickets2 : list bytes) :
  J1 = join_with [NL] names1 -> J2 = join_with [NL] names2 ->
  C1 = concat tickets1 -> C2 = concat tickets2 ->
  Forall (fun n => ~ In NL n) names1 -> Forall (fun n => ~ In NL n) names2 ->
  length names1 = length tickets1 -> length names2 = length tickets2 ->
  Forall (fun t => length t = 32%nat) tickets1 -> Forall (fun t => length t = 32%nat) tickets2 ->
  J1 = J2 ++ l -> C2 = l ++ C1 -> l = [].
Proof.
  intros -> -> -> -> Hn1 Hn2 Hl1 Hl2 Ht1 Ht2 EJ EC.
  pose proof (f_equal (@length N) EC) as LC. rewrite app_length, !concat_length32 in LC by assumption.
  pose proof (f_equal count_nl EJ) as CJ. rewrite count_nl_app, !count_nl_join in CJ by assumption.
  destruct l as [|x l]; [reflexivity|exfalso]. cbn [length] in LC.
  destruct names1 as [|n1 names1].
  - cbn [join_with] in EJ. destruct (join_with [NL] names2); discriminate.
  - destruct names2 as [|n2 names2]; cbn [length pred] in *; lia.
Qed.

Lemma app_eq_app_split {A} (a b c d : list A) :
  a ++ b = c ++ d -> exists l, (a = c ++ l /\ d = l ++ b) \/ (c = a ++ l /\ b = l ++ d).
Proof.
  revert c; induction a as [|x a IH]; intros c E.
  - exists c. right. split; [reflexivity | exact E].
  - destruct c as [|y c].
    + exists (x :: a). left. split; [reflexivity | symmetry; exact E].
    + cbn [app] in E. injection E as -> E. destruct (IH c E) as [l [[-> ->]|[-> ->]]]; exists l; [left|right]; split; reflexivity.
Qed.

Lemma join_names_inj names1 names2 :
  Forall (fun n => ~ In NL n) names1 -> Forall (fun n => ~ In NL n) names2 ->
  length names1 = length names2 ->
  join_with [NL] names1 = join_with [NL] names2 -> names1 = names2.
Proof.
  intros H1 H2 L E.
  destruct names1 as [|a r1]; destruct names2 as [|b r2]; try discriminate; [reflexivity|].
  rewrite <- (split_join NL (a :: r1)) by (try discriminate; assumption).
  rewrite <- (split_join NL (b :: r2)) by (try discriminate; assumption).
  rewrite E. reflexivity.
Qed.

Lemma dir_preimage_injective names1 tickets1 names2 tickets2 :
  Forall (fun n => ~ In NL n) names1 -> Forall (fun n => ~ In NL n) names2 ->
  length names1 = length tickets1 -> length names2 = length tickets2 ->
  Forall (fun t => length t = 32%nat) tickets1 -> Forall (fun t => length t = 32%nat) tickets2 ->
  dir_preimage names1 tickets1 = dir_preimage names2 tickets2 ->
  names1 = names2 /\ tickets1 = tickets2.
Proof.
  intros Hn1 Hn2 Hl1 Hl2 Ht1 Ht2 E. unfold dir_preimage in E.
  destruct (app_eq_app_split _ _ _ _ E) as [l [[EJ EC]|[EJ EC]]].
  - assert (l = []) as -> by
      (eapply (dir_preimage_prefix_case _ _ _ _ l names1 names2 tickets1 tickets2); eauto).
    rewrite app_nil_r in EJ. cbn [app] in EC.
    assert (tickets1 = tickets2) as <- by (apply concat_inj32; auto).
    split; [|reflexivity]. apply join_names_inj; auto. congruence.
  - assert (l = []) as -> by
      (eapply (dir_preimage_prefix_case _ _ _ _ l names2 names1 tickets2 tickets1); eauto).
    rewrite app_nil_r in EJ. cbn [app] in EC.
    assert (tickets1 = tickets2) as <- by (apply concat_inj32; auto).
    split; [|reflexivity]. apply join_names_inj; auto. congruence.
Qed.
