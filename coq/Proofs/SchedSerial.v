(* SCHED, part 2 (S1): build_ord with the spawn order is Build.build. *)
From Coq Require Import Relations.Relation_Operators Relations.Operators_Properties.
From Ruler Require Import Tactics Bytes AList RuleSyntax TopoSort World Cmdlang Work Build Ops Inv
     BuildSpec Ideal Sched BytesFacts InvFacts BuildFacts C01Script C01Hist C01Build C01Plan C04Facts SchedBasic.
Local Open Scope nat_scope.

Lemma skipn_nth_error {A} (l : list A) k x : nth_error l k = Some x -> skipn k l = x :: skipn (S k) l.
Proof.
  revert k. induction l as [|a l IH]; intros [|k] H; cbn in *; try discriminate.
  - injection H as <-. reflexivity.
  - apply IH. exact H.
Qed.

Lemma skipn_cons_nth {A} (l : list A) k x r d : skipn k l = x :: r -> nth k l d = x /\ skipn (S k) l = r.
Proof.
  revert k. induction l as [|a l IH]; intros [|k] H; cbn in *; try discriminate.
  - injection H as <- <-. split; reflexivity.
  - apply IH. exact H.
Qed.

Lemma set_nth_app_repeat' {A} (xs : list A) k v d m :
  length xs = k -> set_nth k v (xs ++ repeat d (S m)) = (xs ++ [v]) ++ repeat d m.
Proof. intros <-. apply set_nth_app_repeat. Qed.

Section Serial.
  Variable T : Type.
  Variable teqb : T -> T -> bool.
  Variable hc : bytes -> T.
  Variable hl : list T -> T.
  Variable hr : rule -> T.

  Notation world := (world T).
  Notation sstate := (sstate T).
  Notation run_state := (run_state T).
  Notation has_worked := (has_worked T).
  Notation work_step := (work_step teqb hc hl).

  Variable pack : node_pack.
  Variable w1 : world.
  Variable hists : list (history T).
  Variable blobs : list (blob T).
  Variable t' : table T.
  Hypothesis Hwf : plan_wf pack.
  Hypothesis Hhists : read_histories T teqb hr w1 (p_nodes pack) = Some hists.

  Let nl := length (p_leaves pack).
  Let n := nworkers pack.

  (* the serial state after the first k workers, and the scheduled state after the steps 0..k-1 *)
  Record sim (k : nat) (rs : run_state) (ss : sstate) : Prop := mk_sim {
    sim_world : ss_world ss = rs_world T rs;
    sim_cmds : ss_commands ss = rs_commands T rs;
    sim_sent : ss_sent ss = map Some (rs_leaf_sent T rs ++ rs_node_sent T rs) ++ repeat None (n - k);
    sim_res : ss_res ss = map Some (rs_results T rs) ++ repeat None (n - k);
    sim_len_res : length (rs_results T rs) = k;
    sim_len_leaf : length (rs_leaf_sent T rs) = Nat.min k nl;
    sim_len_node : length (rs_node_sent T rs) = k - nl;
    sim_blobs : take_blobs T hc (rs_table T rs) (skipn k (worker_paths pack)) = (skipn k blobs, t');
    sim_hist : rd_hist (w_rd (rs_world T rs)) = rd_hist (w_rd w1)
  }.

  Lemma sim_unworked k rs ss : sim k rs ss -> has_worked ss k = false.
  Proof.
    intro H. unfold Sched.has_worked. rewrite (sim_res _ _ _ H).
    rewrite nth_app_repeat_none; [reflexivity|]. rewrite map_length, (sim_len_res _ _ _ H). lia.
  Qed.

  Lemma sim_worked k rs ss d : sim k rs ss -> d < k -> has_worked ss d = true.
  Proof.
    intros H Hd. unfold Sched.has_worked. rewrite (sim_res _ _ _ H).
    rewrite (nth_map_some_app _ _ _ (None, TCanceled)); [reflexivity|]. rewrite (sim_len_res _ _ _ H). exact Hd.
  Qed.

  Lemma sim_take k rs ss ps :
    sim k rs ss -> nth_error (worker_paths pack) k = Some ps ->
    exists t1, take_blob T hc (rs_table T rs) ps = (nth k blobs [], t1) /\
               take_blobs T hc t1 (skipn (S k) (worker_paths pack)) = (skipn (S k) blobs, t').
  Proof.
    intros H Hps. pose proof (sim_blobs _ _ _ H) as Hb. rewrite (skipn_nth_error _ _ _ Hps) in Hb.
    cbn [take_blobs] in Hb. destruct (take_blob T hc (rs_table T rs) ps) as [b t1] eqn:Eb.
    destruct (take_blobs T hc t1 (skipn (S k) (worker_paths pack))) as [bs t2] eqn:Ebs.
    injection Hb as Hb Ht. symmetry in Hb. destruct (skipn_cons_nth _ _ _ _ [] Hb) as [E1 E2].
    exists t1. split; [f_equal; symmetry; exact E1 | rewrite Ebs; f_equal; [symmetry; exact E2 | exact Ht]].
  Qed.

  Lemma worker_paths_leaf i l : nth_error (p_leaves pack) i = Some l -> nth_error (worker_paths pack) i = Some [l].
  Proof.
    intro H. unfold worker_paths. rewrite nth_error_app1.
    - rewrite nth_error_map, H. reflexivity.
    - rewrite map_length. apply nth_error_Some. rewrite H. discriminate.
  Qed.

  Lemma worker_paths_node j nd :
    nth_error (p_nodes pack) j = Some nd -> nth_error (worker_paths pack) (nl + j) = Some (n_targets nd).
  Proof.
    intro H. unfold worker_paths. rewrite nth_error_app2 by (rewrite map_length; unfold nl; lia).
    rewrite map_length. replace (nl + j - length (p_leaves pack)) with j by (unfold nl; lia).
    rewrite nth_error_map, H. reflexivity.
  Qed.

  (* ---------- the leaves ---------- *)

  Lemma sim_leaf_step k rs ss l :
    sim k rs ss -> nth_error (p_leaves pack) k = Some l ->
    sim (S k) (run_leaf T teqb hc rs l) (work_step pack blobs hists ss k).
  Proof.
    intros H Hl.
    assert (k < nl) as Hk by (apply nth_error_Some; rewrite Hl; discriminate).
    assert (k < n) as Hkn by (unfold n, nworkers; fold nl; lia).
    destruct (sim_take _ _ _ _ H (worker_paths_leaf _ _ Hl)) as (t1 & Htb & Hrest).
    assert (rs_node_sent T rs = []) as Hnode.
    { pose proof (sim_len_node _ _ _ H) as E. replace (k - nl) with 0 in E by lia.
      destruct (rs_node_sent T rs); [reflexivity | discriminate]. }
    unfold Sched.work_step. rewrite (sim_unworked _ _ _ H). rewrite (deps_leaf _ _ Hk). cbn [forallb negb].
    fold nl. apply Nat.ltb_lt in Hk. rewrite Hk. apply Nat.ltb_lt in Hk.
    unfold run_leaf. rewrite Htb. rewrite (sim_world _ _ _ H).
    rewrite (sim_sent _ _ _ H), (sim_res _ _ _ H), (sim_cmds _ _ _ H).
    replace (n - k) with (S (n - S k)) by lia.
    pose proof (sim_len_leaf _ _ _ H) as Hll. rewrite Nat.min_l in Hll by lia.
    pose proof (sim_len_res _ _ _ H) as Hlr.
    rewrite Hnode, app_nil_r.
    destruct (handle_leaf teqb hc (rs_world T rs) (nth k blobs [])) as [wr|e];
      rewrite !set_nth_app_repeat' by (rewrite map_length; assumption);
      (constructor; cbn [ss_world ss_commands ss_sent ss_res rs_world rs_commands rs_leaf_sent rs_node_sent rs_results rs_table];
       [reflexivity | reflexivity | rewrite app_nil_r, map_app; reflexivity | rewrite map_app; reflexivity
        | rewrite app_length, (sim_len_res _ _ _ H); cbn [length]; lia
        | rewrite app_length, Hll; cbn [length]; lia
        | cbn [length]; lia
        | exact Hrest
        | apply (sim_hist _ _ _ H)]).
  Qed.

  Lemma sim_leaves : forall ls pre rs ss,
    p_leaves pack = pre ++ ls -> sim (length pre) rs ss ->
    sim nl (fold_left (run_leaf T teqb hc) ls rs)
        (fold_left (work_step pack blobs hists) (seq (length pre) (length ls)) ss).
  Proof.
    induction ls as [|l ls IH]; intros pre rs ss E H; cbn [fold_left seq length].
    - unfold nl. rewrite E, app_nil_r. exact H.
    - replace (S (length pre)) with (length (pre ++ [l])) by (rewrite app_length; cbn [length]; lia).
      apply IH; [rewrite <- app_assoc; exact E|].
      rewrite app_length. cbn [length]. replace (length pre + 1) with (S (length pre)) by lia.
      apply sim_leaf_step; [exact H|]. rewrite E, nth_error_app2 by lia. rewrite Nat.sub_diag. reflexivity.
  Qed.

  (* ---------- the rule nodes ---------- *)

  Lemma read_histories_nth j nd :
    nth_error (p_nodes pack) j = Some nd ->
    read_history T teqb hr w1 (n_rule nd) = Some (nth j hists []).
  Proof.
    intro Hn. unfold read_histories in Hhists. pose proof (all_some_nth _ _ Hhists j) as E.
    rewrite nth_error_map, Hn in E. cbn [option_map] in E.
    destruct (nth_error hists j) as [h|] eqn:Eh; [|discriminate]. cbn in E. injection E as ->.
    f_equal. symmetry. apply nth_error_nth. exact Eh.
  Qed.

  Lemma read_history_same (w w' : world) r :
    rd_hist (w_rd w) = rd_hist (w_rd w') -> read_history T teqb hr w r = read_history T teqb hr w' r.
  Proof. intro E. unfold read_history. rewrite E. reflexivity. Qed.

  Lemma sreceived_received k rs ss j s si :
    sim k rs ss -> k = nl + j -> bind_ok pack j s si ->
    sreceived nl (ss_sent ss) si = received T (rs_leaf_sent T rs) (rs_node_sent T rs) si.
  Proof.
    intros H Hk Hb. rewrite (sim_sent _ _ _ H).
    pose proof (sim_len_leaf _ _ _ H) as Hll. rewrite Nat.min_r in Hll by lia.
    pose proof (sim_len_node _ _ _ H) as Hln. replace (k - nl) with j in Hln by lia.
    destruct si as [i | i sub]; cbn [sreceived received bind_ok] in *.
    - assert (i < nl) as Hi by (apply nth_error_Some; fold nl; rewrite Hb; discriminate).
      rewrite (nth_map_some_app _ _ _ None) by (rewrite app_length; lia).
      rewrite app_nth1 by lia. reflexivity.
    - destruct Hb as (Hlt & _).
      rewrite (nth_map_some_app _ _ _ None) by (rewrite app_length; lia).
      rewrite app_nth2 by lia. rewrite Hll. replace (nl + i - nl) with i by lia.
      reflexivity.
  Qed.

  Lemma sim_node_step j rs ss nd :
    sim (nl + j) rs ss -> nth_error (p_nodes pack) j = Some nd ->
    exists rs', run_node T teqb hc hl hr rs nd = Some rs' /\
                sim (S (nl + j)) rs' (work_step pack blobs hists ss (nl + j)).
  Proof.
    intros H Hn. set (k := nl + j) in *.
    assert (j < length (p_nodes pack)) as Hj by (apply nth_error_Some; rewrite Hn; discriminate).
    assert (k < n) as Hkn by (unfold n, nworkers; fold nl; lia).
    destruct (sim_take _ _ _ _ H (worker_paths_node _ _ Hn)) as (t1 & Htb & Hrest). fold k in Htb, Hrest.
    pose proof Hwf as (_ & _ & Hbind). specialize (Hbind _ _ Hn).
    unfold Sched.work_step. rewrite (sim_unworked _ _ _ H).
    assert (forallb (has_worked ss) (deps pack k) = true) as ->.
    { apply forallb_forall. intros d Hd. eapply sim_worked; [exact H|]. eapply deps_lt; eauto. }
    cbn [negb]. fold nl. assert (Nat.ltb k nl = false) as -> by (apply Nat.ltb_ge; lia).
    replace (k - nl) with j by lia. rewrite Hn.
    unfold run_node. rewrite Htb.
    rewrite (read_history_same _ w1 _ (sim_hist _ _ _ H)), (read_histories_nth _ _ Hn).
    assert (all_some (map (sreceived nl (ss_sent ss)) (n_source_indices nd)) =
            all_some (map (received T (rs_leaf_sent T rs) (rs_node_sent T rs)) (n_source_indices nd))) as ->.
    { apply all_some_ext. intros si Hsi. destruct (Forall2_in_r _ _ _ _ Hbind Hsi) as (s & _ & Hb).
      eapply sreceived_received; [exact H | reflexivity | exact Hb]. }
    rewrite (sim_world _ _ _ H), (sim_sent _ _ _ H), (sim_res _ _ _ H), (sim_cmds _ _ _ H).
    replace (n - k) with (S (n - S k)) by lia.
    pose proof (sim_len_leaf _ _ _ H) as Hll. rewrite Nat.min_r in Hll by lia.
    pose proof (sim_len_node _ _ _ H) as Hln. replace (k - nl) with j in Hln by lia.
    pose proof (sim_len_res _ _ _ H) as Hlr.
    destruct (all_some (map (received T (rs_leaf_sent T rs) (rs_node_sent T rs)) (n_source_indices nd))) as [tickets|];
      [|rewrite !set_nth_app_repeat' by (rewrite map_length, ?app_length; lia)].
    - destruct (handle_rule teqb hc (rs_world T rs) (nth k blobs []) (nth j hists []) (hl tickets) (n_command nd))
        as [[res w'] script] eqn:Eh.
      pose proof (BuildFacts.handle_rule_hist T teqb hc _ _ _ _ _ _ _ _ Eh) as Hh. unfold hist_of in Hh.
      destruct res as [wr|e]; rewrite !set_nth_app_repeat' by (rewrite map_length, ?app_length; lia);
        eexists; (split; [reflexivity|]);
        (constructor; cbn [ss_world ss_commands ss_sent ss_res rs_world rs_commands rs_leaf_sent rs_node_sent rs_results rs_table];
         [reflexivity | reflexivity | rewrite !map_app; cbn [map]; rewrite <- ?app_assoc; reflexivity | rewrite map_app; reflexivity
          | rewrite app_length, (sim_len_res _ _ _ H); cbn [length]; lia
          | rewrite Hll; lia
          | rewrite app_length, Hln; cbn [length]; lia
          | exact Hrest
          | rewrite Hh; apply (sim_hist _ _ _ H)]).
    - eexists; (split; [reflexivity|]).
      constructor; cbn [ss_world ss_commands ss_sent ss_res rs_world rs_commands rs_leaf_sent rs_node_sent rs_results rs_table].
      + reflexivity.
      + reflexivity.
      + rewrite !map_app; cbn [map]; rewrite <- ?app_assoc; reflexivity.
      + rewrite map_app. reflexivity.
      + rewrite app_length, (sim_len_res _ _ _ H). cbn [length]. lia.
      + rewrite Hll. lia.
      + rewrite app_length, Hln. cbn [length]. lia.
      + exact Hrest.
      + apply (sim_hist _ _ _ H).
  Qed.

  Lemma sim_nodes : forall ns pre rs ss,
    p_nodes pack = pre ++ ns -> sim (nl + length pre) rs ss ->
    exists rs', run_nodes T teqb hc hl hr rs ns = Some rs' /\
                sim n rs' (fold_left (work_step pack blobs hists) (seq (nl + length pre) (length ns)) ss).
  Proof.
    induction ns as [|nd ns IH]; intros pre rs ss E H; cbn [fold_left seq length run_nodes].
    - exists rs. split; [reflexivity|]. unfold n, nworkers. fold nl. rewrite E, app_nil_r. exact H.
    - assert (nth_error (p_nodes pack) (length pre) = Some nd) as Hn.
      { rewrite E, nth_error_app2 by lia. rewrite Nat.sub_diag. reflexivity. }
      destruct (sim_node_step _ _ _ _ H Hn) as (rs1 & Hrun & H1). rewrite Hrun.
      replace (S (nl + length pre)) with (nl + length (pre ++ [nd])) in * by (rewrite app_length; cbn [length]; lia).
      apply IH; [rewrite <- app_assoc; exact E | exact H1].
  Qed.

  Lemma sim_all (t : table T) :
    take_blobs T hc t (worker_paths pack) = (blobs, t') ->
    exists rs2,
      run_nodes T teqb hc hl hr (st_leaves T teqb hc w1 t pack) (p_nodes pack) = Some rs2 /\
      sim n rs2 (fold_left (work_step pack blobs hists) (spawn_order pack) (st_init T w1 pack)).
  Proof.
    intro Htb. unfold spawn_order. fold n.
    assert (n = nl + length (p_nodes pack)) as En by reflexivity.
    rewrite En, seq_app, fold_left_app. cbn [Nat.add].
    assert (sim 0 (mk_rs T w1 t [] [] [] []) (st_init T w1 pack)) as H0.
    { constructor; cbn; try reflexivity; try (rewrite Nat.sub_0_r; reflexivity). exact Htb. }
    pose proof (sim_leaves (p_leaves pack) [] _ _ eq_refl H0) as H1. cbn [length] in H1. fold nl in H1.
    replace nl with (nl + length (@nil node)) in H1 at 1 by (cbn [length]; lia).
    destruct (sim_nodes (p_nodes pack) [] _ _ eq_refl H1) as (rs2 & Hrun & H2).
    exists rs2. split; [exact Hrun|]. cbn [length] in H2. rewrite Nat.add_0_r in H2. rewrite <- En. exact H2.
  Qed.
End Serial.

Section S1.
  Variable T : Type.
  Variable teqb : T -> T -> bool.
  Variable hc : bytes -> T.
  Variable hl : list T -> T.
  Variable hr : rule -> T.

  Lemma flat_map_some {A} (l : list A) :
    flat_map (fun o : option A => match o with Some r => [r] | None => [] end) (map Some l ++ repeat None 0) = l.
  Proof. cbn [repeat]. rewrite app_nil_r. induction l as [|x l IH]; cbn; [reflexivity | f_equal; exact IH]. Qed.

  (* S1 *)
  Theorem build_ord_spawn_order : forall (w : world T) rp goal w1 t pack,
    init_dir T w = Ok (w1, t) -> get_nodes T w1 rp goal = Ok pack ->
    build_ord teqb hc hl hr (spawn_order pack) w rp goal = build teqb hc hl hr w rp goal.
  Proof.
    intros w rp goal w1 t pack Hi Hg. unfold build_ord. rewrite Hi, Hg.
    destruct (read_histories T teqb hr w1 (p_nodes pack)) as [hists|] eqn:Eh; [|reflexivity].
    destruct (take_blobs T hc t (worker_paths pack)) as [blobs t'] eqn:Etb.
    pose proof (get_nodes_plan_wf T _ _ _ _ Hg) as Hwf.
    assert (table_rest T hc t pack = t') as Etr by (unfold table_rest; rewrite Etb; reflexivity).
    destruct (sim_all T teqb hc hl hr pack (write_table T w1 t') hists blobs t' Hwf Eh t Etb) as (rs2 & Hrun & H).
    rewrite (build_eq0 T teqb hc hl hr), Hi, Hg. cbv zeta. rewrite Etr, Hrun.
    fold (st_init T (write_table T w1 t') pack).
    set (st1 := fold_left (work_step teqb hc hl pack blobs hists) (spawn_order pack) (st_init T (write_table T w1 t') pack)) in *.
    rewrite (sim_res _ _ _ _ _ _ _ _ _ H), Nat.sub_diag, flat_map_some.
    rewrite (sim_world _ _ _ _ _ _ _ _ _ H), (sim_cmds _ _ _ _ _ _ _ _ _ H).
    pose proof (sim_blobs _ _ _ _ _ _ _ _ _ H) as Hb.
    rewrite skipn_all2 in Hb by (unfold worker_paths, nworkers; rewrite app_length, !map_length; lia).
    cbn [take_blobs] in Hb. injection Hb as _ <-. reflexivity.
  Qed.
End S1.
