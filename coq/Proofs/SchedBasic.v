(* SCHED, part 1: Model/Sched.v, definitional facts.
   - the shape of one work step (work_step_cases), stability of what a worker has recorded;
   - a valid order makes every worker work (valid_all_worked); the spawn order is valid;
   - S4: failure containment on every schedule (sched_failure_containment and the one-step facts);
   - S1: build_ord with the spawn order is Build.build (build_ord_spawn_order). *)
From Coq Require Import Relations.Relation_Operators Relations.Operators_Properties.
From Ruler Require Import Tactics Bytes AList RuleSyntax TopoSort World Cmdlang Work Build Ops Inv
     BuildSpec Ideal Sched BytesFacts InvFacts BuildFacts C01Script C01Hist C01Build C01Plan C04Facts.
Local Open Scope nat_scope.

(* ================================================================== *)
(* lists                                                                *)
(* ================================================================== *)

Lemma set_nth_length {A} k (v : A) l : length (set_nth k v l) = length l.
Proof. revert k. induction l as [|x l IH]; intros [|k]; cbn; auto. Qed.

Lemma nth_set_nth_eq {A} k (v d : A) l : k < length l -> nth k (set_nth k v l) d = v.
Proof.
  revert k. induction l as [|x l IH]; intros [|k] H; cbn in *; try lia; auto. apply IH. lia.
Qed.

Lemma nth_set_nth_neq {A} k j (v d : A) l : j <> k -> nth j (set_nth k v l) d = nth j l d.
Proof.
  revert k j. induction l as [|x l IH]; intros [|k] [|j] H; cbn; auto; try lia.
Qed.

Lemma set_nth_app_repeat {A} (xs : list A) v d m :
  set_nth (length xs) v (xs ++ repeat d (S m)) = (xs ++ [v]) ++ repeat d m.
Proof. induction xs as [|x xs IH]; cbn; [reflexivity|]. f_equal. exact IH. Qed.

Lemma nth_map_some_app {A} (l : list A) r i d :
  i < length l -> nth i (map Some l ++ r) None = Some (nth i l d).
Proof.
  revert i. induction l as [|x l IH]; intros [|i] H; cbn in *; try lia; auto. apply IH. lia.
Qed.

Lemma nth_app_repeat_none {A} (l : list (option A)) m i :
  length l <= i -> nth i (l ++ repeat None m) None = None.
Proof.
  intro H. rewrite app_nth2 by exact H.
  destruct (Nat.lt_ge_cases (i - length l) m) as [Hlt | Hge].
  - apply nth_repeat.
  - apply nth_overflow. rewrite repeat_length. exact Hge.
Qed.

Lemma all_some_nth {A} (l : list (option A)) xs :
  all_some l = Some xs -> forall i, nth_error l i = option_map Some (nth_error xs i).
Proof.
  revert xs. induction l as [|o l IH]; intros xs; cbn [all_some].
  - intro H. injection H as <-. intros [|i]; reflexivity.
  - destruct o as [x|]; [|discriminate]. destruct (all_some l) as [ys|]; [|discriminate].
    intro H. injection H as <-. intros [|i]; cbn; [reflexivity | apply IH; reflexivity].
Qed.

Lemma all_some_length {A} (l : list (option A)) xs : all_some l = Some xs -> length xs = length l.
Proof.
  revert xs. induction l as [|o l IH]; intros xs; cbn [all_some].
  - intro H. injection H as <-. reflexivity.
  - destruct o as [x|]; [|discriminate]. destruct (all_some l) as [ys|]; [|discriminate].
    intro H. injection H as <-. cbn. f_equal. apply IH. reflexivity.
Qed.

Lemma all_some_ext {A B} (f g : B -> option A) l :
  (forall x, In x l -> f x = g x) -> all_some (map f l) = all_some (map g l).
Proof.
  induction l as [|x l IH]; intro H; cbn [map all_some]; [reflexivity|].
  rewrite (H x (or_introl eq_refl)). rewrite IH; [reflexivity|]. intros y Hy. apply H. right. exact Hy.
Qed.

Lemma all_some_none_iff {A} (l : list (option A)) : all_some l = None <-> In None l.
Proof.
  induction l as [|o l IH]; cbn [all_some]; [split; [discriminate | intros []]|].
  destruct o as [x|].
  - destruct (all_some l) as [ys|].
    + split; [discriminate|]. intros [E | H]; [discriminate|]. apply IH in H. discriminate.
    + split; [|reflexivity]. intros _. right. apply IH. reflexivity.
  - split; [|reflexivity]. intros _. left. reflexivity.
Qed.

Lemma Forall2_in_r {A B} (R : A -> B -> Prop) l m b :
  Forall2 R l m -> In b m -> exists a, In a l /\ R a b.
Proof.
  induction 1 as [|x y l m Hxy _ IH]; intros Hin; [destruct Hin|].
  destruct Hin as [<- | Hin].
  - exists x. split; [left; reflexivity | exact Hxy].
  - destruct (IH Hin) as (a & Ha & HR). exists a. split; [right; exact Ha | exact HR].
Qed.

Lemma existsb_eqb_in k l : existsb (Nat.eqb k) l = true <-> In k l.
Proof.
  rewrite existsb_exists. split.
  - intros (x & Hx & E). apply Nat.eqb_eq in E. subst x. exact Hx.
  - intro H. exists k. split; [exact H | apply Nat.eqb_refl].
Qed.

(* ---------- the plan's wiring ---------- *)

Lemma deps_leaf pack k : k < length (p_leaves pack) -> deps pack k = [].
Proof. intro H. unfold deps. apply Nat.ltb_lt in H. rewrite H. reflexivity. Qed.

Definition si_dep (nl : nat) (si : source_index) : nat :=
  match si with Leaf i => i | Pair i _ => nl + i end.

Lemma deps_node pack j n :
  nth_error (p_nodes pack) j = Some n ->
  deps pack (length (p_leaves pack) + j) = map (si_dep (length (p_leaves pack))) (n_source_indices n).
Proof.
  intro H. unfold deps. assert (Nat.ltb (length (p_leaves pack) + j) (length (p_leaves pack)) = false) as ->.
  { apply Nat.ltb_ge. lia. }
  replace (length (p_leaves pack) + j - length (p_leaves pack)) with j by lia. rewrite H. reflexivity.
Qed.

Lemma bind_ok_dep pack j s si :
  bind_ok pack j s si -> si_dep (length (p_leaves pack)) si < length (p_leaves pack) + j.
Proof.
  destruct si as [i | i sub]; cbn [bind_ok si_dep].
  - intro H. assert (i < length (p_leaves pack)); [|lia]. apply nth_error_Some. rewrite H. discriminate.
  - intros [H _]. lia.
Qed.

Lemma deps_lt pack k d : plan_wf pack -> In d (deps pack k) -> d < k.
Proof.
  intros (_ & _ & Hbind) Hd. unfold deps in Hd.
  destruct (Nat.ltb k (length (p_leaves pack))) eqn:Ek; [destruct Hd|]. apply Nat.ltb_ge in Ek.
  destruct (nth_error (p_nodes pack) (k - length (p_leaves pack))) as [n|] eqn:En; [|destruct Hd].
  apply in_map_iff in Hd as (si & <- & Hsi).
  destruct (Forall2_in_r _ _ _ _ (Hbind _ _ En) Hsi) as (s & _ & Hb).
  apply bind_ok_dep in Hb. fold (si_dep (length (p_leaves pack)) si). lia.
Qed.

Lemma order_okb_seq pack : plan_wf pack -> forall m a done,
  (forall d, d < a -> In d done) -> (forall d, In d done -> d < a) ->
  order_okb pack done (seq a m) = true.
Proof.
  intros Hwf. induction m as [|m IH]; intros a done H1 H2; [reflexivity|].
  cbn [seq order_okb]. apply andb_true_iff. split; [apply andb_true_iff; split|].
  - apply negb_true_iff. destruct (existsb (Nat.eqb a) done) eqn:E; [|reflexivity].
    apply existsb_eqb_in in E. apply H2 in E. lia.
  - apply forallb_forall. intros d Hd. apply existsb_eqb_in. apply H1. eapply deps_lt; eauto.
  - apply IH.
    + intros d Hd. destruct (Nat.eq_dec d a) as [-> | Hne]; [left; reflexivity | right; apply H1; lia].
    + intros d [<- | Hd]; [lia|]. apply H2 in Hd. lia.
Qed.

Theorem spawn_order_valid pack : plan_wf pack -> valid_order pack (spawn_order pack).
Proof.
  intro Hwf. unfold valid_order, valid_orderb, spawn_order.
  rewrite seq_length, Nat.eqb_refl. cbn [andb]. apply andb_true_iff. split.
  - apply forallb_forall. intros k Hk. apply in_seq in Hk. apply Nat.ltb_lt. lia.
  - apply order_okb_seq; [exact Hwf | intros d Hd; lia | intros d []].
Qed.

(* ================================================================== *)
(* one work step                                                        *)
(* ================================================================== *)

Section SchedBasic.
  Variable T : Type.
  Variable teqb : T -> T -> bool.
  Variable hc : bytes -> T.
  Variable hl : list T -> T.
  Variable hr : rule -> T.

  Notation world := (world T).
  Notation sstate := (sstate T).
  Notation has_worked := (has_worked T).
  Notation work_step := (work_step teqb hc hl).
  Notation thread_result := (thread_result T).

  Definition res_sent (res : result (work_result T) work_err) : option (list T) :=
    match res with Ok wr => Some (wr_tickets wr) | Err _ => None end.

  Definition res_tr (res : result (work_result T) work_err) : thread_result :=
    match res with Ok wr => TOk wr | Err e => TErr e end.

  (* worker k can work now: it has not yet, and everything it waits for has been sent *)
  Definition ready (pack : node_pack) (st : sstate) (k : nat) : Prop :=
    has_worked st k = false /\ forallb (has_worked st) (deps pack k) = true.

  Definition upd (st : sstate) (w' : world) (k : nat) (o : option (list T)) (r : option rule)
             (tr : thread_result) (script : list bytes) : sstate :=
    mk_ss w' (set_nth k (Some o) (ss_sent st)) (set_nth k (Some (r, tr)) (ss_res st)) (ss_commands st ++ script).

  Definition node_tickets (pack : node_pack) (st : sstate) (n : node) : option (list T) :=
    all_some (map (sreceived (length (p_leaves pack)) (ss_sent st)) (n_source_indices n)).

  Lemma work_step_cases pack blobs hists st k :
    let nl := length (p_leaves pack) in
    work_step pack blobs hists st k = st \/
    (ready pack st k /\ k < nl /\
     work_step pack blobs hists st k =
     upd st (ss_world st) k (res_sent (handle_leaf teqb hc (ss_world st) (nth k blobs [])))
         None (res_tr (handle_leaf teqb hc (ss_world st) (nth k blobs []))) []) \/
    (ready pack st k /\ nl <= k /\ exists n, nth_error (p_nodes pack) (k - nl) = Some n /\
     ((node_tickets pack st n = None /\
       work_step pack blobs hists st k = upd st (ss_world st) k None (Some (n_rule n)) TCanceled []) \/
      (exists tickets res w' script,
         node_tickets pack st n = Some tickets /\
         handle_rule teqb hc (ss_world st) (nth k blobs []) (nth (k - nl) hists []) (hl tickets) (n_command n)
         = (res, w', script) /\
         work_step pack blobs hists st k = upd st w' k (res_sent res) (Some (n_rule n)) (res_tr res) script))).
  Proof.
    intro nl. unfold Sched.work_step. fold nl.
    destruct (Sched.has_worked T st k) eqn:Ew; [left; reflexivity|].
    destruct (forallb (Sched.has_worked T st) (deps pack k)) eqn:Ed; cbn [negb]; [|left; reflexivity].
    assert (ready pack st k) as Hr by (split; assumption).
    destruct (Nat.ltb k nl) eqn:Ek.
    - apply Nat.ltb_lt in Ek. right. left. split; [exact Hr|]. split; [exact Ek|].
      unfold upd. rewrite app_nil_r.
      destruct (handle_leaf teqb hc (ss_world st) (nth k blobs [])) as [wr|e]; reflexivity.
    - apply Nat.ltb_ge in Ek.
      destruct (nth_error (p_nodes pack) (k - nl)) as [n|] eqn:En; [|left; reflexivity].
      right. right. split; [exact Hr|]. split; [exact Ek|]. exists n. split; [reflexivity|].
      unfold node_tickets. fold nl.
      destruct (all_some (map (sreceived nl (ss_sent st)) (n_source_indices n))) as [tickets|] eqn:Ea.
      + right.
        destruct (handle_rule teqb hc (ss_world st) (nth k blobs []) (nth (k - nl) hists []) (hl tickets) (n_command n))
          as [[res w'] script] eqn:Eh.
        exists tickets, res, w', script. split; [reflexivity|]. split; [exact Eh|].
        destruct res as [wr|e]; reflexivity.
      + left. split; [reflexivity|]. unfold upd. rewrite app_nil_r. reflexivity.
  Qed.

  (* every step that is not a no-op has this shape *)
  Lemma work_step_shape pack blobs hists st k :
    work_step pack blobs hists st k = st \/
    (ready pack st k /\ k < nworkers pack /\ exists w' o r tr script,
       work_step pack blobs hists st k = upd st w' k o r tr script /\
       match tr with TOk wr => o = Some (wr_tickets wr) | _ => o = None end).
  Proof.
    destruct (work_step_cases pack blobs hists st k) as [H | [(Hr & Hk & H) | (Hr & Hk & n & Hn & H)]].
    - left. exact H.
    - right. split; [exact Hr|]. split; [unfold nworkers; lia|]. rewrite H.
      do 5 eexists. split; [reflexivity|].
      destruct (handle_leaf teqb hc (ss_world st) (nth k blobs [])); reflexivity.
    - right. split; [exact Hr|]. split.
      { unfold nworkers. assert (k - length (p_leaves pack) < length (p_nodes pack)); [|lia].
        apply nth_error_Some. rewrite Hn. discriminate. }
      destruct H as [[_ H] | (tickets & res & w' & script & _ & _ & H)]; rewrite H.
      + do 5 eexists. split; reflexivity.
      + do 5 eexists. split; [reflexivity|]. destruct res; reflexivity.
  Qed.

  (* ---------- what has been recorded stays ---------- *)

  Definition lens (pack : node_pack) (st : sstate) : Prop :=
    length (ss_sent st) = nworkers pack /\ length (ss_res st) = nworkers pack.

  Lemma work_step_lens pack blobs hists st k : lens pack st -> lens pack (work_step pack blobs hists st k).
  Proof.
    intros [H1 H2]. destruct (work_step_shape pack blobs hists st k) as [-> | (_ & _ & w' & o & r & tr & s & -> & _)].
    - split; assumption.
    - unfold upd, lens. cbn [ss_sent ss_res]. rewrite !set_nth_length. split; assumption.
  Qed.

  Lemma has_worked_upd st w' k o r tr s j :
    k < length (ss_res st) ->
    has_worked (upd st w' k o r tr s) j = if Nat.eqb j k then true else has_worked st j.
  Proof.
    intro Hk. unfold Sched.has_worked, upd. cbn [ss_res].
    destruct (Nat.eqb j k) eqn:E.
    - apply Nat.eqb_eq in E. subst j. rewrite nth_set_nth_eq by exact Hk. reflexivity.
    - apply Nat.eqb_neq in E. rewrite nth_set_nth_neq by exact E. reflexivity.
  Qed.

  Lemma work_step_stable pack blobs hists st k j :
    has_worked st j = true ->
    nth j (ss_res (work_step pack blobs hists st k)) None = nth j (ss_res st) None /\
    nth j (ss_sent (work_step pack blobs hists st k)) None = nth j (ss_sent st) None.
  Proof.
    intro Hj. destruct (work_step_shape pack blobs hists st k) as [-> | ([Hr _] & _ & w' & o & r & tr & s & -> & _)].
    - split; reflexivity.
    - assert (j <> k) as Hne by (intros ->; congruence).
      unfold upd. cbn [ss_res ss_sent]. rewrite !nth_set_nth_neq by exact Hne. split; reflexivity.
  Qed.

  Lemma work_step_worked_mono pack blobs hists st k j :
    has_worked st j = true -> has_worked (work_step pack blobs hists st k) j = true.
  Proof.
    intro Hj. unfold Sched.has_worked in *.
    destruct (work_step_stable pack blobs hists st k j Hj) as [-> _]. exact Hj.
  Qed.

  Lemma work_step_works pack blobs hists st k :
    lens pack st -> k < nworkers pack -> forallb (has_worked st) (deps pack k) = true ->
    has_worked (work_step pack blobs hists st k) k = true.
  Proof.
    intros [_ Hl] Hk Hd. destruct (has_worked st k) eqn:Ew; [apply work_step_worked_mono; exact Ew|].
    destruct (work_step_cases pack blobs hists st k) as [H | [(_ & _ & H) | (_ & _ & n & _ & H)]].
    - (* a no-op although ready: only past the last node *)
      exfalso. revert H. unfold Sched.work_step. rewrite Ew, Hd. cbn [negb].
      destruct (Nat.ltb k (length (p_leaves pack))) eqn:Ek.
      + destruct (handle_leaf teqb hc (ss_world st) (nth k blobs [])); intro H;
          apply (f_equal (fun s => Sched.has_worked T s k)) in H; rewrite Ew in H;
          unfold Sched.has_worked in H; cbn [ss_res] in H; rewrite nth_set_nth_eq in H by lia; discriminate.
      + apply Nat.ltb_ge in Ek.
        destruct (nth_error (p_nodes pack) (k - length (p_leaves pack))) as [n|] eqn:En.
        * destruct (all_some _).
          -- destruct (handle_rule _ _ _ _ _ _ _) as [[[wr|e] w'] s]; intro H;
               apply (f_equal (fun s => Sched.has_worked T s k)) in H; rewrite Ew in H;
               unfold Sched.has_worked in H; cbn [ss_res] in H; rewrite nth_set_nth_eq in H by lia; discriminate.
          -- intro H. apply (f_equal (fun s => Sched.has_worked T s k)) in H. rewrite Ew in H.
             unfold Sched.has_worked in H. cbn [ss_res] in H. rewrite nth_set_nth_eq in H by lia. discriminate.
        * apply nth_error_None in En. unfold nworkers in Hk. lia.
    - rewrite H, has_worked_upd by lia. rewrite Nat.eqb_refl. reflexivity.
    - destruct H as [[_ H] | (tickets & res & w' & script & _ & _ & H)]; rewrite H, has_worked_upd by lia;
        rewrite Nat.eqb_refl; reflexivity.
  Qed.

  (* ---------- folds ---------- *)

  Lemma fold_step_ind (P : sstate -> Prop) pack blobs hists :
    (forall st k, P st -> P (work_step pack blobs hists st k)) ->
    forall ord st, P st -> P (fold_left (work_step pack blobs hists) ord st).
  Proof.
    intros Hstep. induction ord as [|k ord IH]; intros st H; cbn [fold_left]; [exact H|].
    apply IH. apply Hstep. exact H.
  Qed.

  Definition st_init (w1 : world) (pack : node_pack) : sstate :=
    mk_ss w1 (repeat None (nworkers pack)) (repeat None (nworkers pack)) [].

  Lemma st_init_lens w1 pack : lens pack (st_init w1 pack).
  Proof. split; cbn; apply repeat_length. Qed.

  Lemma st_init_unworked w1 pack k : has_worked (st_init w1 pack) k = false.
  Proof.
    unfold Sched.has_worked, st_init. cbn [ss_res].
    destruct (Nat.lt_ge_cases k (nworkers pack)) as [H | H].
    - rewrite nth_repeat. reflexivity.
    - rewrite nth_overflow; [reflexivity|]. rewrite repeat_length. exact H.
  Qed.

  (* ---------- valid orders ---------- *)


  Lemma order_all_worked pack blobs hists : forall ord done st,
    lens pack st -> (forall d, In d done -> has_worked st d = true) ->
    order_okb pack done ord = true -> (forall k, In k ord -> k < nworkers pack) ->
    forall k, In k ord \/ In k done -> has_worked (fold_left (work_step pack blobs hists) ord st) k = true.
  Proof.
    induction ord as [|k0 ord IH]; intros done st Hl Hdone Hok Hlt k Hk; cbn [fold_left].
    - destruct Hk as [[] | Hk]. apply Hdone. exact Hk.
    - cbn [order_okb] in Hok. apply andb_true_iff in Hok as [Hok Hrest]. apply andb_true_iff in Hok as [_ Hdeps].
      assert (forallb (has_worked st) (deps pack k0) = true) as Hd.
      { rewrite forallb_forall in *. intros d Hd. apply Hdone. apply existsb_eqb_in. apply Hdeps. exact Hd. }
      apply (IH (k0 :: done)).
      + apply work_step_lens. exact Hl.
      + intros d [<- | Hd'].
        * apply work_step_works; [exact Hl | apply Hlt; left; reflexivity | exact Hd].
        * apply work_step_worked_mono. apply Hdone. exact Hd'.
      + exact Hrest.
      + intros j Hj. apply Hlt. right. exact Hj.
      + destruct Hk as [[<- | Hk] | Hk]; [right; left; reflexivity | left; exact Hk | right; right; exact Hk].
  Qed.

  Lemma order_okb_nodup pack : forall ord done,
    order_okb pack done ord = true -> NoDup ord /\ forall k, In k ord -> ~ In k done.
  Proof.
    induction ord as [|k0 ord IH]; intros done Hok; [split; [constructor | intros k []]|].
    cbn [order_okb] in Hok. apply andb_true_iff in Hok as [Hok Hrest]. apply andb_true_iff in Hok as [Hnot _].
    destruct (IH _ Hrest) as [Hnd Hdis]. apply negb_true_iff in Hnot.
    assert (~ In k0 done) as Hk0.
    { intro H. apply existsb_eqb_in in H. congruence. }
    split.
    - constructor; [|exact Hnd]. intro H. apply (Hdis k0 H). left. reflexivity.
    - intros k [<- | Hk]; [exact Hk0|]. intro H. apply (Hdis k Hk). right. exact H.
  Qed.

  Lemma valid_order_facts pack ord :
    valid_order pack ord ->
    length ord = nworkers pack /\ (forall k, In k ord -> k < nworkers pack) /\ order_okb pack [] ord = true /\
    forall k, k < nworkers pack -> In k ord.
  Proof.
    unfold valid_order, valid_orderb. intro H. apply andb_true_iff in H as [H Hok]. apply andb_true_iff in H as [Hlen Hlt].
    apply Nat.eqb_eq in Hlen. rewrite forallb_forall in Hlt.
    assert (forall k, In k ord -> k < nworkers pack) as Hlt'.
    { intros k Hk. apply Nat.ltb_lt. apply Hlt. exact Hk. }
    split; [exact Hlen|]. split; [exact Hlt'|]. split; [exact Hok|].
    destruct (order_okb_nodup _ _ _ Hok) as [Hnd _].
    assert (incl (seq 0 (nworkers pack)) ord) as Hincl.
    { apply NoDup_length_incl; [exact Hnd | rewrite seq_length; lia|].
      intros k Hk. apply in_seq. split; [lia|]. cbn. apply Hlt'. exact Hk. }
    intros k Hk. apply Hincl. apply in_seq. lia.
  Qed.

  Theorem valid_all_worked pack blobs hists w1 ord :
    valid_order pack ord ->
    forall k, k < nworkers pack ->
      has_worked (fold_left (work_step pack blobs hists) ord (st_init w1 pack)) k = true.
  Proof.
    intros Hv k Hk. destruct (valid_order_facts _ _ Hv) as (_ & Hlt & Hok & Hall).
    apply (order_all_worked pack blobs hists ord [] _ (st_init_lens w1 pack)); auto.
  Qed.


  (* ================================================================== *)
  (* S4: failure containment on every schedule                            *)
  (* ================================================================== *)

  (* the blobs handed to the workers are those of their paths *)
  Definition blobs_shaped (pack : node_pack) (blobs : list (blob T)) : Prop :=
    map (map fst) blobs = worker_paths pack.

  Lemma take_blobs_shaped pathss : forall (t : table T) blobs t',
    take_blobs T hc t pathss = (blobs, t') -> map (map fst) blobs = pathss.
  Proof.
    induction pathss as [|ps rest IH]; intros t blobs t'; cbn [take_blobs].
    - intro H. injection H as <- _. reflexivity.
    - destruct (take_blob T hc t ps) as [b t1] eqn:E1. destruct (take_blobs T hc t1 rest) as [bs t2] eqn:E2.
      intro H. injection H as <- _. cbn [map]. f_equal; [|eapply IH; eauto].
      eapply C01Build.take_blob_fst; eauto.
  Qed.

  Lemma blobs_shaped_leaf pack blobs k l :
    blobs_shaped pack blobs -> nth_error (p_leaves pack) k = Some l -> map fst (nth k blobs []) = [l].
  Proof.
    intros Hs Hl.
    assert (nth k (map (map fst) blobs) [] = map fst (nth k blobs [])) as <- by (apply (map_nth (map fst) blobs [] k)).
    rewrite Hs. unfold worker_paths.
    assert (k < length (p_leaves pack)) as Hk by (apply nth_error_Some; rewrite Hl; discriminate).
    rewrite app_nth1 by (rewrite map_length; exact Hk).
    apply nth_error_nth. rewrite nth_error_map, Hl. reflexivity.
  Qed.

  Lemma blobs_shaped_node pack blobs j n :
    blobs_shaped pack blobs -> nth_error (p_nodes pack) j = Some n ->
    map fst (nth (length (p_leaves pack) + j) blobs []) = n_targets n.
  Proof.
    intros Hs Hn.
    assert (nth (length (p_leaves pack) + j) (map (map fst) blobs) [] = map fst (nth (length (p_leaves pack) + j) blobs []))
      as <- by (apply (map_nth (map fst) blobs [] (length (p_leaves pack) + j))).
    rewrite Hs.
    unfold worker_paths. rewrite app_nth2 by (rewrite map_length; lia). rewrite map_length.
    replace (length (p_leaves pack) + j - length (p_leaves pack)) with j by lia.
    apply nth_error_nth. rewrite nth_error_map, Hn. reflexivity.
  Qed.

  Lemma current_tickets_length b : forall (w : world) ts,
    current_tickets teqb hc w b = Ok ts -> length ts = length b.
  Proof.
    induction b as [|[p a] rest IH]; intros w ts; cbn [current_tickets].
    - intro H. injection H as <-. reflexivity.
    - destruct (get_file_ticket teqb hc w p a); [|discriminate].
      destruct (current_tickets teqb hc w rest) as [ts2|] eqn:E; [|discriminate].
      intro H. injection H as <-. cbn. f_equal. eapply IH; eauto.
  Qed.

  Lemma handle_leaf_length (w : world) b wr : handle_leaf teqb hc w b = Ok wr -> length (wr_tickets wr) = length b.
  Proof.
    unfold handle_leaf. destruct (current_tickets teqb hc w b) as [ts|p] eqn:E; [|discriminate].
    intro H. injection H as <-. cbn. eapply current_tickets_length; eauto.
  Qed.

  Lemma handle_rule_length (w : world) b h key cmd wr w' s :
    handle_rule teqb hc w b h key cmd = (Ok wr, w', s) -> length (wr_tickets wr) = length b.
  Proof.
    intro H. apply (BuildFacts.handle_rule_cases T teqb hc) in H.
    destruct (resolved_of T teqb hc w b h key) as [[ress w1]|e]; [|destruct H as (H & _); discriminate].
    cbv zeta in H. destruct (needs_rebuild ress).
    - destruct H as (_ & _ & H). destruct (command_verdict _); [discriminate|].
      destruct (update_blob teqb hc w' (forget_replaced hc b ress)) as [b'|p] eqn:Eu; [|discriminate].
      destruct (history_insert _ _ _ _ _); [|discriminate]. injection H as ->. cbn [wr_tickets].
      rewrite map_length. rewrite <- (map_length fst b'), (BuildFacts.update_blob_fst T teqb hc _ _ _ Eu), map_length.
      apply BuildFacts.forget_replaced_length.
    - destruct H as (_ & _ & H).
      destruct (current_tickets teqb hc w1 (forget_replaced hc b ress)) as [ts|p] eqn:Ec; [|discriminate].
      injection H as ->. cbn [wr_tickets]. rewrite (current_tickets_length _ _ _ Ec).
      apply BuildFacts.forget_replaced_length.
  Qed.

  (* the number of tickets worker k sends when it succeeds *)
  Definition width (pack : node_pack) (k : nat) : nat :=
    if Nat.ltb k (length (p_leaves pack)) then 1
    else match nth_error (p_nodes pack) (k - length (p_leaves pack)) with
         | Some n => length (n_targets n)
         | None => 0
         end.

  Definition sent_cancel (st : sstate) (d : nat) : Prop := nth d (ss_sent st) None = Some None.

  Definition worker_ok (pack : node_pack) (st : sstate) (k : nat) : Prop :=
    match nth k (ss_res st) None with
    | None => True
    | Some (r, tr) =>
        (forall d, In d (deps pack k) -> has_worked st d = true) /\
        match tr with
        | TOk wr => nth k (ss_sent st) None = Some (Some (wr_tickets wr)) /\ length (wr_tickets wr) = width pack k
        | _ => sent_cancel st k
        end /\
        (k < length (p_leaves pack) -> tr <> TCanceled) /\
        (length (p_leaves pack) <= k ->
         (tr = TCanceled <-> exists d, In d (deps pack k) /\ sent_cancel st d))
    end.

  Definition cinv (pack : node_pack) (st : sstate) : Prop :=
    lens pack st /\ forall k, k < nworkers pack -> worker_ok pack st k.

  (* what a worked producer has on its out-edges *)
  Lemma worked_sent pack st d :
    cinv pack st -> d < nworkers pack -> has_worked st d = true ->
    sent_cancel st d \/ exists ts, nth d (ss_sent st) None = Some (Some ts) /\ length ts = width pack d.
  Proof.
    intros [_ Hall] Hd Hw. specialize (Hall d Hd). unfold worker_ok in Hall. unfold Sched.has_worked in Hw.
    destruct (nth d (ss_res st) None) as [[r tr]|]; [|discriminate].
    destruct Hall as (_ & H2 & _). destruct tr as [wr|e|]; auto. right. exists (wr_tickets wr). exact H2.
  Qed.

  (* a rule node all of whose producers have worked: it is canceled exactly when one of them sent cancel *)
  Lemma node_tickets_none_iff pack st j n :
    plan_wf pack -> cinv pack st -> nth_error (p_nodes pack) j = Some n ->
    (forall d, In d (deps pack (length (p_leaves pack) + j)) -> has_worked st d = true) ->
    (node_tickets pack st n = None <->
     exists d, In d (deps pack (length (p_leaves pack) + j)) /\ sent_cancel st d).
  Proof.
    intros Hwf Hc Hn Hdeps. pose proof Hwf as (_ & _ & Hbind). specialize (Hbind _ _ Hn).
    rewrite (deps_node _ _ _ Hn) in *. set (nl := length (p_leaves pack)) in *.
    unfold node_tickets. fold nl. rewrite all_some_none_iff. split.
    - intro Hin. apply in_map_iff in Hin as (si & Hsi & Hin).
      exists (si_dep nl si). split; [apply in_map; exact Hin|].
      destruct (Forall2_in_r _ _ _ _ Hbind Hin) as (s & _ & Hb).
      assert (si_dep nl si < nworkers pack) as Hlt.
      { pose proof (bind_ok_dep _ _ _ _ Hb) as H1. fold nl in H1.
        assert (j < length (p_nodes pack)) by (apply nth_error_Some; rewrite Hn; discriminate).
        unfold nworkers. fold nl. lia. }
      destruct (worked_sent pack st _ Hc Hlt (Hdeps _ (in_map _ _ _ Hin))) as [Hcan | (ts & Hts & Hlen)]; [exact Hcan|].
      exfalso. destruct si as [i | i sub]; cbn [sreceived si_dep bind_ok] in *.
      + rewrite Hts in Hsi. unfold width in Hlen.
        assert (i < nl) as Hi by (apply nth_error_Some; rewrite Hb; discriminate).
        apply Nat.ltb_lt in Hi. fold nl in Hlen. rewrite Hi in Hlen.
        destruct ts as [|t ts]; [discriminate | discriminate].
      + fold nl in Hts. rewrite Hts in Hsi. destruct Hb as (_ & n' & Hn' & Hsub). unfold width in Hlen. fold nl in Hlen.
        assert (Nat.ltb (nl + i) nl = false) as E by (apply Nat.ltb_ge; lia). rewrite E in Hlen.
        replace (nl + i - nl) with i in Hlen by lia. rewrite Hn' in Hlen.
        apply nth_error_None in Hsi. assert (sub < length (n_targets n')); [|lia].
        apply nth_error_Some. rewrite Hsub. discriminate.
    - intros (d & Hd & Hcan). apply in_map_iff in Hd as (si & <- & Hin).
      apply in_map_iff. exists si. split; [|exact Hin]. unfold sent_cancel in Hcan.
      destruct si as [i | i sub]; cbn [sreceived si_dep] in *; rewrite Hcan; reflexivity.
  Qed.

  Lemma cinv_init w1 pack : cinv pack (st_init w1 pack).
  Proof.
    split; [apply st_init_lens|]. intros k Hk. unfold worker_ok.
    pose proof (st_init_unworked w1 pack k) as H. unfold Sched.has_worked in H.
    destruct (nth k (ss_res (st_init w1 pack)) None); [discriminate | exact I].
  Qed.

  Lemma sent_cancel_upd st w' k o r tr s d : d <> k -> (sent_cancel (upd st w' k o r tr s) d <-> sent_cancel st d).
  Proof. intro H. unfold sent_cancel, upd. cbn [ss_sent]. rewrite nth_set_nth_neq by exact H. reflexivity. Qed.

  Lemma work_step_cinv pack blobs hists st k0 :
    plan_wf pack -> blobs_shaped pack blobs -> cinv pack st -> cinv pack (work_step pack blobs hists st k0).
  Proof.
    intros Hwf Hshape Hc. pose proof Hc as [Hl Hall]. split; [apply work_step_lens; exact Hl|].
    destruct Hl as [Hl1 Hl2].
    destruct (work_step_shape pack blobs hists st k0) as [E | ([Hun Hdeps] & Hk0 & w' & o & r0 & tr0 & s & E & Hsent)];
      [rewrite E; exact Hall|].
    intros k Hk. destruct (Nat.eq_dec k k0) as [-> | Hne].
    2:{ (* another worker: nothing it recorded or looks at has changed *)
      specialize (Hall k Hk). rewrite E. unfold worker_ok in *. unfold upd at 1. cbn [ss_res].
      rewrite nth_set_nth_neq by exact Hne.
      destruct (nth k (ss_res st) None) as [[r tr]|]; [|exact I].
      destruct Hall as (H1 & H2 & H3 & H4).
      assert (forall d, In d (deps pack k) -> d <> k0) as Hdk.
      { intros d Hd ->. rewrite (H1 _ Hd) in Hun. discriminate. }
      split; [|split; [|split]].
      - intros d Hd. rewrite has_worked_upd by lia. destruct (Nat.eqb d k0); [reflexivity | apply H1; exact Hd].
      - destruct tr as [wr|e|]; try (apply sent_cancel_upd; assumption).
        unfold upd. cbn [ss_sent]. rewrite nth_set_nth_neq by exact Hne. exact H2.
      - exact H3.
      - intro Hge. rewrite (H4 Hge). split; intros (d & Hd & Hcan); exists d; (split; [exact Hd|]);
          apply (sent_cancel_upd st w' k0 o r0 tr0 s d (Hdk d Hd)); exact Hcan. }
    (* the worker that has just worked *)
    assert (forall d, In d (deps pack k0) -> d <> k0) as Hdk.
    { intros d Hd ->. rewrite forallb_forall in Hdeps. rewrite (Hdeps _ Hd) in Hun. discriminate. }
    assert (forall st', (forall d, d <> k0 -> sent_cancel st' d <-> sent_cancel st d) ->
              ((exists d, In d (deps pack k0) /\ sent_cancel st' d) <-> exists d, In d (deps pack k0) /\ sent_cancel st d))
      as Hsame.
    { intros st' H. split; intros (d & Hd & Hcan); exists d; (split; [exact Hd|]); apply (H d (Hdk d Hd)); exact Hcan. }
    clear E Hsent.
    destruct (work_step_cases pack blobs hists st k0) as [E | [(_ & Hlt & E) | (_ & Hge & n & Hn & E)]].
    - exfalso. pose proof (work_step_works pack blobs hists st k0 (conj Hl1 Hl2) Hk Hdeps) as Hw.
      rewrite E in Hw. congruence.
    - rewrite E. unfold worker_ok. unfold upd at 1. cbn [ss_res]. rewrite nth_set_nth_eq by lia.
      split; [|split; [|split]].
      + rewrite (deps_leaf _ _ Hlt). intros d [].
      + destruct (handle_leaf teqb hc (ss_world st) (nth k0 blobs [])) as [wr|e] eqn:Eh; cbn [res_tr res_sent].
        * unfold upd. cbn [ss_sent]. rewrite nth_set_nth_eq by lia. split; [reflexivity|].
          rewrite (handle_leaf_length _ _ _ Eh). unfold width. apply Nat.ltb_lt in Hlt. rewrite Hlt.
          apply Nat.ltb_lt in Hlt. destruct (nth_error (p_leaves pack) k0) as [l|] eqn:El.
          -- rewrite <- (map_length fst), (blobs_shaped_leaf _ _ _ _ Hshape El). reflexivity.
          -- apply nth_error_None in El. lia.
        * unfold sent_cancel, upd. cbn [ss_sent]. rewrite nth_set_nth_eq by lia. reflexivity.
      + intros _. destruct (handle_leaf teqb hc (ss_world st) (nth k0 blobs [])); discriminate.
      + intro H. lia.
    - set (nl := length (p_leaves pack)) in *.
      assert (k0 = nl + (k0 - nl)) as Ek0 by lia. set (j := k0 - nl) in *.
      assert (forall d, In d (deps pack (nl + j)) -> has_worked st d = true) as Hdw.
      { rewrite <- Ek0. rewrite forallb_forall in Hdeps. exact Hdeps. }
      pose proof (node_tickets_none_iff pack st j n Hwf Hc Hn Hdw) as Hiff. fold nl in Hiff. rewrite <- Ek0 in Hiff.
      destruct E as [[Hnone E] | (tickets & res & w2 & script & Hsome & Hh & E)]; rewrite E;
        unfold worker_ok; unfold upd at 1; cbn [ss_res]; rewrite nth_set_nth_eq by lia;
        (split; [|split; [|split]]).
      + intros d Hd. rewrite has_worked_upd by lia. rewrite forallb_forall in Hdeps.
        destruct (Nat.eqb d k0); [reflexivity | apply Hdeps; exact Hd].
      + unfold sent_cancel, upd. cbn [ss_sent]. rewrite nth_set_nth_eq by lia. reflexivity.
      + intro H. lia.
      + intros _. split; [|reflexivity]. intros _.
        apply Hsame; [intros d Hd; apply sent_cancel_upd; exact Hd|]. apply Hiff. exact Hnone.
      + intros d Hd. rewrite has_worked_upd by lia. rewrite forallb_forall in Hdeps.
        destruct (Nat.eqb d k0); [reflexivity | apply Hdeps; exact Hd].
      + destruct res as [wr|e]; cbn [res_tr res_sent].
        * unfold upd. cbn [ss_sent]. rewrite nth_set_nth_eq by lia. split; [reflexivity|].
          rewrite (handle_rule_length _ _ _ _ _ _ _ _ Hh). unfold width. fold nl.
          assert (Nat.ltb k0 nl = false) as -> by (apply Nat.ltb_ge; lia). fold j. rewrite Hn.
          rewrite <- (map_length fst). rewrite Ek0. unfold nl. rewrite (blobs_shaped_node _ _ _ _ Hshape Hn). reflexivity.
        * unfold sent_cancel, upd. cbn [ss_sent]. rewrite nth_set_nth_eq by lia. reflexivity.
      + intro H. lia.
      + intros _. split; [destruct res; discriminate|]. intro Hex. exfalso.
        apply Hsame in Hex; [|intros d Hd; apply sent_cancel_upd; exact Hd].
        apply Hiff in Hex. congruence.
  Qed.

  Lemma fold_cinv pack blobs hists w1 ord :
    plan_wf pack -> blobs_shaped pack blobs ->
    cinv pack (fold_left (work_step pack blobs hists) ord (st_init w1 pack)).
  Proof.
    intros Hwf Hs. apply (fold_step_ind (cinv pack)); [|apply cinv_init].
    intros st k H. apply work_step_cinv; assumption.
  Qed.

  (* ---- the one-step facts ---- *)

  (* a worker that ends canceled has left the world and the script lines as they were *)
  Theorem work_step_canceled_frame pack blobs hists st k r :
    has_worked st k = false ->
    nth k (ss_res (work_step pack blobs hists st k)) None = Some (r, TCanceled) ->
    ss_world (work_step pack blobs hists st k) = ss_world st /\
    ss_commands (work_step pack blobs hists st k) = ss_commands st.
  Proof.
    intros Hun Hres.
    assert (k < length (ss_res st)) as Hk.
    { destruct (Nat.lt_ge_cases k (length (ss_res st))) as [H | H]; [exact H|]. exfalso.
      destruct (work_step_shape pack blobs hists st k) as [E | (_ & _ & w' & o & r0 & tr0 & s & E & _)]; rewrite E in Hres.
      - unfold Sched.has_worked in Hun. rewrite Hres in Hun. discriminate.
      - unfold upd in Hres. cbn [ss_res] in Hres. rewrite nth_overflow in Hres; [discriminate|].
        rewrite set_nth_length. exact H. }
    destruct (work_step_cases pack blobs hists st k) as [E | [(_ & _ & E) | (_ & _ & n & _ & [[_ E] | (tk & res & w' & s & _ & _ & E)])]];
      rewrite E in *; try (split; reflexivity).
    - unfold upd in Hres. cbn [ss_res] in Hres. rewrite nth_set_nth_eq in Hres by exact Hk.
      destruct (handle_leaf teqb hc (ss_world st) (nth k blobs [])); discriminate.
    - unfold upd. cbn [ss_world ss_commands]. rewrite app_nil_r. split; reflexivity.
    - unfold upd in Hres. cbn [ss_res] in Hres. rewrite nth_set_nth_eq in Hres by exact Hk. destruct res; discriminate.
  Qed.

  (* a leaf worker never touches the world *)
  Theorem work_step_leaf_frame pack blobs hists st k :
    k < length (p_leaves pack) ->
    ss_world (work_step pack blobs hists st k) = ss_world st /\
    ss_commands (work_step pack blobs hists st k) = ss_commands st.
  Proof.
    intro Hk. destruct (work_step_cases pack blobs hists st k) as [E | [(_ & _ & E) | (_ & Hge & _)]]; [| |lia];
      rewrite E; [split; reflexivity|]. unfold upd. cbn [ss_world ss_commands]. rewrite app_nil_r. split; reflexivity.
  Qed.

  (* a rule node that works is canceled exactly when it finds a cancel on one of its in-edges *)
  Theorem work_step_canceled_iff pack blobs hists st k n :
    lens pack st -> ready pack st k -> length (p_leaves pack) <= k ->
    nth_error (p_nodes pack) (k - length (p_leaves pack)) = Some n ->
    (nth k (ss_res (work_step pack blobs hists st k)) None = Some (Some (n_rule n), TCanceled) <->
     exists si, In si (n_source_indices n) /\ sreceived (length (p_leaves pack)) (ss_sent st) si = None).
  Proof.
    intros [_ Hl] Hr Hge Hn.
    assert (k < length (ss_res st)) as Hk.
    { rewrite Hl. unfold nworkers. assert (k - length (p_leaves pack) < length (p_nodes pack)); [|lia].
      apply nth_error_Some. rewrite Hn. discriminate. }
    assert (node_tickets pack st n = None <->
            exists si, In si (n_source_indices n) /\ sreceived (length (p_leaves pack)) (ss_sent st) si = None) as Hiff.
    { unfold node_tickets. rewrite all_some_none_iff. rewrite in_map_iff. split; intros (si & H1 & H2); exists si; auto. }
    rewrite <- Hiff.
    destruct (work_step_cases pack blobs hists st k) as [E | [(_ & Hlt & _) | (_ & _ & n' & Hn' & E)]]; [|lia|].
    - exfalso. destruct Hr as [Hun Hd]. revert E. unfold Sched.work_step. rewrite Hun, Hd. cbn [negb].
      assert (Nat.ltb k (length (p_leaves pack)) = false) as -> by (apply Nat.ltb_ge; exact Hge). rewrite Hn.
      destruct (all_some _).
      + destruct (handle_rule _ _ _ _ _ _ _) as [[[wr|e] w'] s]; intro H;
          apply (f_equal (fun s => Sched.has_worked T s k)) in H; rewrite Hun in H;
          unfold Sched.has_worked in H; cbn [ss_res] in H; rewrite nth_set_nth_eq in H by exact Hk; discriminate.
      + intro H. apply (f_equal (fun s => Sched.has_worked T s k)) in H. rewrite Hun in H.
        unfold Sched.has_worked in H. cbn [ss_res] in H. rewrite nth_set_nth_eq in H by exact Hk. discriminate.
    - rewrite Hn in Hn'. injection Hn' as <-.
      destruct E as [[Hnone E] | (tk & res & w' & s & Hsome & _ & E)]; rewrite E; unfold upd; cbn [ss_res];
        rewrite nth_set_nth_eq by exact Hk.
      + split; auto.
      + split; [destruct res; discriminate | congruence].
  Qed.

  (* a worker that works sends a cancel exactly when its result is an error or a cancel, and its tickets otherwise *)
  Theorem work_step_sends pack blobs hists st k :
    lens pack st -> ready pack st k -> k < nworkers pack ->
    exists r tr,
      nth k (ss_res (work_step pack blobs hists st k)) None = Some (r, tr) /\
      match tr with
      | TOk wr => nth k (ss_sent (work_step pack blobs hists st k)) None = Some (Some (wr_tickets wr))
      | TErr _ => nth k (ss_sent (work_step pack blobs hists st k)) None = Some None
      | TCanceled => nth k (ss_sent (work_step pack blobs hists st k)) None = Some None
      end.
  Proof.
    intros [Hl1 Hl2] [Hun Hd] Hk.
    pose proof (work_step_works pack blobs hists st k (conj Hl1 Hl2) Hk Hd) as Hw.
    destruct (work_step_shape pack blobs hists st k) as [E | (_ & _ & w' & o & r0 & tr0 & s & E & Hsent)];
      [rewrite E in Hw; congruence|].
    rewrite E. unfold upd. cbn [ss_res ss_sent]. rewrite !nth_set_nth_eq by lia.
    exists r0, tr0. split; [reflexivity|]. destruct tr0; rewrite Hsent; reflexivity.
  Qed.

  (* ---- the whole work phase, for every valid order ---- *)

  Theorem sched_failure_containment pack blobs hists (w1 : world) ord :
    plan_wf pack -> blobs_shaped pack blobs -> valid_order pack ord ->
    let st1 := fold_left (work_step pack blobs hists) ord (st_init w1 pack) in
    forall k, k < nworkers pack ->
      exists r tr,
        nth k (ss_res st1) None = Some (r, tr) /\
        (* a cancel is sent exactly by the workers that failed or were canceled; the others send their tickets *)
        (sent_cancel st1 k <-> (tr = TCanceled \/ exists e, tr = TErr e)) /\
        (forall wr, tr = TOk wr -> nth k (ss_sent st1) None = Some (Some (wr_tickets wr))) /\
        (* a leaf is never canceled; a rule node is, exactly when one of its producers sent a cancel *)
        (k < length (p_leaves pack) -> tr <> TCanceled) /\
        (length (p_leaves pack) <= k ->
         (tr = TCanceled <-> exists d, In d (deps pack k) /\ sent_cancel st1 d)).
  Proof.
    intros Hwf Hs Hv st1 k Hk.
    pose proof (valid_all_worked pack blobs hists w1 ord Hv k Hk) as Hw. fold st1 in Hw.
    pose proof (fold_cinv pack blobs hists w1 ord Hwf Hs) as [_ Hall]. fold st1 in Hall.
    specialize (Hall k Hk). unfold worker_ok in Hall. unfold Sched.has_worked in Hw.
    destruct (nth k (ss_res st1) None) as [[r tr]|]; [|discriminate].
    destruct Hall as (_ & H2 & H3 & H4). exists r, tr. split; [reflexivity|].
    split; [|split; [|split]]; try assumption.
    - destruct tr as [wr|e|].
      + destruct H2 as [H2 _]. unfold sent_cancel. rewrite H2. split; [discriminate|].
        intros [H | (e & H)]; discriminate.
      + split; [intros _; right; exists e; reflexivity | intros _; exact H2].
      + split; [intros _; left; reflexivity | intros _; exact H2].
    - intros wr ->. apply H2.
  Qed.

  (* the same, on the world and the script lines: along the whole work phase of a valid order a worker that ends
     canceled, and every leaf, contributes no change (one-step facts above); and the steps of an order are either
     no-ops or the single step of a ready worker *)
End SchedBasic.
