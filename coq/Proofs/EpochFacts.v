(* Files whose modification time is 0 (the Unix epoch).

   FileState::empty() = (hash of "", time 0, not executable) means "nothing is remembered about this path".
   Since the repair of defect F5 ruler recognises it by ALL THREE fields (Work.is_empty_state), so a real file
   whose time is 0 is handled like any other file.  Model/Inv.v no longer assumes such files away: clock_ok
   says nothing about time 0, state_ok is "nothing remembered, or sound", and no theorem about histories
   requires a positive initial clock any more.  This file makes the point visible:

   E1  shortcut_transparent_at_epoch: C18's S1 for a file that carries time 0.
   E2  where time 0 can come from in the model: under the FINE clock every write is stamped clock + 1, so no
       history that starts in an empty world ever contains such a file (fine_history_no_epoch_file, for every t0
       including 0); such files exist in worlds the user hands to ruler (an unpacked archive: ep_w0) and, under
       the COARSE clock, in histories that start at time 0 (init_world Coarse 0).
   E3  a history in which a TARGET carries time 0, is displaced into the cache by one build and recovered from it
       by a later build -- under the fine clock from ep_w0 (disk_inv and hist_sound by the general theorems) and
       under the coarse clock from init_world Coarse 0 (coarse_inv by the general theorem); contents computed.
   E4  two seeded mutants: a shortcut that a zero time switches off is harmless; a forget_replaced that zeroes
       the time but keeps the hash produces an unsound state (epoch_legacy_refuted). *)
From Coq Require Import String Ascii.
From Coq Require Import Relations.Relation_Operators Relations.Operators_Properties.
From Ruler Require Import Tactics Bytes AList RuleSyntax Parser TopoSort TopoSpec World Cmdlang Work Build Ops Inv
     BuildSpec Ideal BytesFacts InvFacts BuildFacts C01Hist C01Facts C18Facts ActsFacts CoarseInv C18Coarse CoarseBuild
     C18CoarseFacts MvFacts.
Local Open Scope N_scope.

Section Epoch.
  Variable T : Type.
  Variable teqb : T -> T -> bool.
  Variable hc : bytes -> T.
  Variable hl : list T -> T.
  Variable hr : rule -> T.
  Hypothesis teqb_spec : forall a b, teqb a b = true <-> a = b.

  Local Notation steps := (clos_refl_trans (world T) (step teqb hc)).
  Local Notation run_ops ops w0 := (fold_left (fun w o => fst (apply_op teqb hc hl hr w o)) ops w0).

  (* ================================================================== *)
  (* E1: the shortcut on a file that carries time 0                       *)
  (* ================================================================== *)

  Theorem shortcut_transparent_at_epoch : forall (w : world T) p assumed f,
    disk_inv teqb hc w -> state_ok teqb hc w assumed ->
    fget w p = Some f -> f_mtime f = 0 ->
    get_file_ticket teqb hc w p assumed = Some (hc (f_content f)).
  Proof.
    intros w p assumed f Hinv Hok Hf _.
    rewrite (shortcut_transparent T teqb hc w p assumed Hinv Hok). rewrite Hf. reflexivity.
  Qed.

  (* in particular with "nothing remembered", whose own time is 0 too: the file is hashed *)
  Theorem empty_state_is_never_trusted : forall (w : world T) p,
    get_file_ticket teqb hc w p (empty_state hc) = option_map (fun f => hc (f_content f)) (fget w p).
  Proof.
    intros w p. apply (shortcut_transparent_strong T teqb hc).
    apply (InvProofs.empty_state_ok T teqb hc teqb_spec).
  Qed.

  (* ================================================================== *)
  (* E2: the fine clock never stamps a file with time 0                   *)
  (* ================================================================== *)

  Definition no_epoch_file (w : world T) : Prop := forall f, any_file teqb w f -> 0 < f_mtime f.

  Lemma step_no_epoch_file (w w' : world T) :
    w_mode w = Fine -> step teqb hc w w' -> no_epoch_file w -> no_epoch_file w'.
  Proof.
    intros Hm Hs Hn f Hf. destruct (InvProofs.step_sim T teqb hc teqb_spec w w' Hs) as [[_ Hsim] | (p & c & ->)].
    - destruct (Hsim f Hf) as (f' & Hf' & Hft & _). rewrite <- Hft. apply Hn. exact Hf'.
    - destruct (InvProofs.any_file_write T teqb w p c f Hm Hf) as [[Ht _] | Hold]; [lia | apply Hn; exact Hold].
  Qed.

  Lemma steps_no_epoch_file (w w' : world T) :
    steps w w' -> w_mode w = Fine -> no_epoch_file w -> w_mode w' = Fine /\ no_epoch_file w'.
  Proof.
    intro Hs. apply clos_rt_rt1n in Hs. induction Hs as [w | w w1 w2 H1 _ IH]; [auto|].
    intros Hm Hn. apply IH; [eapply InvProofs.step_mode; eauto | eapply step_no_epoch_file; eauto].
  Qed.

  Theorem fine_history_no_epoch_file : forall t0 (ops : list (op T)),
    Forall (safe_op T) ops -> no_epoch_file (run_ops ops (init_world Fine t0)).
  Proof.
    intros t0 ops Hsafe.
    apply (steps_no_epoch_file (init_world Fine t0)).
    - apply (InvProofs.history_steps T teqb hc teqb_spec hl hr); [apply (InvProofs.c07_init T teqb hc) | exact Hsafe].
    - reflexivity.
    - intros f [(p & Hp) | (c & t & Hc & _)]; [cbn in Hp | cbn in Hc]; discriminate.
  Qed.

  (* ================================================================== *)
  (* E4 (generic part): the two seeded mutants                            *)
  (* ================================================================== *)

  (* "a zero timestamp switches the optimisation off" *)
  Definition shortcut' (f : file) (st : fstate T) : bool :=
    (f_mtime f =? fs_mtime st) && negb (fs_mtime st =? 0).

  Definition get_file_ticket' (w : world T) (p : bytes) (assumed : fstate T) : option T :=
    match fget w p with
    | None => None
    | Some f => if shortcut' f assumed then Some (fs_t assumed) else Some (hc (f_content f))
    end.

  (* it applies only where the real shortcut applies ... *)
  Lemma shortcut'_shortcut f (st : fstate T) : shortcut' f st = true -> shortcut teqb hc f st = true.
  Proof.
    unfold shortcut', shortcut, is_empty_state. intro H. apply andb_true_iff in H as [H1 H2].
    rewrite H1. apply negb_true_iff in H2. rewrite H2. rewrite andb_false_r. reflexivity.
  Qed.

  (* ... so nothing goes wrong: with a sound state it returns the hash of the file's bytes (it only hashes
     more often: every file remembered with time 0 is hashed again) *)
  Theorem shortcut'_transparent : forall (w : world T) p assumed,
    state_ok teqb hc w assumed ->
    get_file_ticket' w p assumed = option_map (fun f => hc (f_content f)) (fget w p).
  Proof.
    intros w p assumed Hok. unfold get_file_ticket'. destruct (fget w p) as [f|] eqn:Ef; [|reflexivity].
    cbn [option_map]. destruct (shortcut' f assumed) eqn:E; [|reflexivity]. f_equal.
    eapply InvProofs.state_ok_shortcut; [exact Hok | eapply InvProofs.any_file_path; exact Ef|].
    apply shortcut'_shortcut. exact E.
  Qed.

  (* the mutant of forget_replaced: only the time is zeroed, the hash is kept *)
  Definition forget' (st : fstate T) : fstate T := mk_fstate (fs_t st) 0 (fs_x st).

  (* the state forget' leaves is unsound as soon as the file it is about carries time 0 and has another hash:
     it is not "nothing remembered" (its hash is not the hash of ""), and it vouches for that file *)
  Theorem forget'_unsound : forall (w : world T) p f (st : fstate T),
    fget w p = Some f -> f_mtime f = 0 ->
    fs_t st <> hc [] -> fs_t st <> hc (f_content f) ->
    ~ state_ok teqb hc w (forget' st) /\
    get_file_ticket teqb hc w p (forget' st) = Some (fs_t st).
  Proof.
    intros w p f st Hf Ht Hne Hdiff.
    assert (is_empty_state teqb hc (forget' st) = false) as He.
    { unfold is_empty_state, forget'. cbn [fs_t fs_mtime fs_x].
      destruct (teqb (fs_t st) (hc [])) eqn:E; [|reflexivity]. apply teqb_spec in E. contradiction. }
    split.
    - intros [He' | [_ H]]; [congruence|]. apply Hdiff.
      apply (H f); [eapply InvProofs.any_file_path; exact Hf | rewrite Ht; reflexivity].
    - unfold get_file_ticket. rewrite Hf. unfold shortcut. rewrite He, Ht. reflexivity.
  Qed.

  (* whereas what the model's forget_replaced leaves is sound in every world *)
  Theorem forget_replaced_recovered_sound : forall (w : world T) p (st : fstate T),
    state_ok teqb hc w (snd (hd (p, st) (forget_replaced hc [(p, st)] [Recovered]))).
  Proof. intros w p st. cbn. apply (InvProofs.empty_state_ok T teqb hc teqb_spec). Qed.
End Epoch.

Arguments no_epoch_file {T}.
Arguments shortcut' {T}.
Arguments get_file_ticket' {T}.
Arguments forget' {T}.

(* ================================================================== *)
(* the instance with free symbolic hashes                               *)
(* ================================================================== *)

Theorem shortcut_transparent_at_epoch_sym : forall (w : world sym) p assumed f,
  disk_inv sym_eqb SContent w -> state_ok sym_eqb SContent w assumed ->
  fget w p = Some f -> f_mtime f = 0 ->
  get_file_ticket sym_eqb SContent w p assumed = Some (SContent (f_content f)).
Proof. exact (shortcut_transparent_at_epoch sym sym_eqb SContent). Qed.

Theorem fine_history_no_epoch_file_sym : forall t0 (ops : list (op sym)),
  Forall (safe_op sym) ops -> no_epoch_file sym_eqb (run_sym ops (init_world Fine t0)).
Proof. exact (fine_history_no_epoch_file sym sym_eqb SContent SList SRule sym_eqb_spec). Qed.

Theorem shortcut'_transparent_sym : forall (w : world sym) p assumed,
  state_ok sym_eqb SContent w assumed ->
  get_file_ticket' SContent w p assumed = option_map (fun f => SContent (f_content f)) (fget w p).
Proof. exact (shortcut'_transparent sym sym_eqb SContent). Qed.

(* ================================================================== *)
(* E3: a target with time 0, displaced into the cache and recovered     *)
(* ================================================================== *)

Open Scope string_scope.

(* one copy rule: t <- s *)
Definition ep_rules : bytes := join_with [NL] (map bs ["t";":";"s";":";"gen t @s";":";""]).

(* what the user does after t exists with content "X" and time 0 *)
Definition ep_ops : list (op sym) :=
  [OWrite RULES_PATH ep_rules; OWrite (bs "s") (bs "X");
   OBuild None;                                   (* no history yet: t (time 0) goes into the cache, t is rebuilt *)
   ORemove (bs "t"); OWrite (bs "s") (bs "Y");
   OBuild None;                                   (* t = "Y", remembered with its hash and a positive time *)
   OWrite (bs "s") (bs "X");
   OBuild None].                                  (* "Y" goes into the cache, the copy with time 0 comes back *)

(* the user writing t by hand as the very first operation *)
Definition ep_first : op sym := OWrite (bs "t") (bs "X").

(* fine clock: a workspace that already holds t with time 0 (unpacked from an archive) *)
Definition ep_w0 : world sym := mk_world [(bs "t", mk_file (bs "X") 0 false)] no_rdir 0 Fine.

Definition ep_w : world sym := run_sym ep_ops ep_w0.                      (* after the third build *)
Definition ep_w_before : world sym := run_sym (firstn 7 ep_ops) ep_w0.    (* before it *)

(* coarse clock: the same history from the empty world at time 0, t written by hand first *)
Definition epc_ops : list (op sym) := ep_first :: ep_ops.
Definition epc_w : world sym := run_sym epc_ops (init_world Coarse 0).

Close Scope string_scope.

(* under the fine clock the hand-written file would carry time 1, under the coarse clock it carries time 0 *)
Example ep_first_write_times :
  option_map f_mtime (fget (fst (apply_sym (init_world Fine 0) ep_first)) [116]) = Some 1 /\
  option_map f_mtime (fget (fst (apply_sym (init_world Coarse 0) ep_first)) [116]) = Some 0 /\
  w_files (fst (apply_sym (init_world Coarse 0) ep_first)) = w_files ep_w0.
Proof. vm_compute. repeat split. Qed.

(* ---------- fine clock ---------- *)

Lemma ep_w0_files f : any_file sym_eqb ep_w0 f -> f = mk_file [88] 0 false.
Proof.
  intros [(p & Hp) | (c & t & Hc & _)].
  - unfold fget, ep_w0 in Hp. cbn [w_files alookup] in Hp.
    match type of Hp with context [if ?c then _ else _] => destruct c end; [injection Hp as <-; reflexivity | discriminate].
  - cbn in Hc. discriminate.
Qed.

(* the invariant holds of the world with the time-0 file: the old clock_ok (0 < f_mtime f) was false of it *)
Lemma ep_w0_inv : disk_inv sym_eqb SContent ep_w0.
Proof.
  split; [reflexivity|]. split; [|split; [|split]].
  - intros f g Hf Hg _. rewrite (ep_w0_files f Hf), (ep_w0_files g Hg). reflexivity.
  - intros f Hf. rewrite (ep_w0_files f Hf). cbn. lia.
  - intros c t f Hc. cbn in Hc. discriminate.
  - intros tbl p st Ht. cbn in Ht. discriminate.
Qed.

Example ep_w0_has_epoch_file : ~ no_epoch_file sym_eqb ep_w0.
Proof.
  intro H. specialize (H (mk_file [88] 0 false)).
  assert (any_file sym_eqb ep_w0 (mk_file [88] 0 false)) as Hf by (left; exists [116]; reflexivity).
  apply H in Hf. cbn in Hf. lia.
Qed.

Lemma ep_w0_hist_sound : hist_sound_sym ep_w0.
Proof. intros r hs h _ H. cbn in H. discriminate. Qed.

Lemma ep_det : det_history_sym ep_w0 (ep_ops ++ [OBuild None]).
Proof.
  unfold ep_ops. cbn [app det_history op_det].
  repeat (split; [exact I|]).
  split; [apply build_detb_sound; vm_compute; reflexivity|].
  repeat (split; [exact I|]).
  split; [apply build_detb_sound; vm_compute; reflexivity|].
  repeat (split; [exact I|]).
  split; [apply build_detb_sound; vm_compute; reflexivity|].
  repeat (split; [exact I|]).
  split; [apply build_detb_sound; vm_compute; reflexivity|].
  exact I.
Qed.

Lemma ep_det_firstn k : det_history_sym ep_w0 (firstn k (ep_ops ++ [OBuild None])).
Proof. apply det_history_firstn_sym. exact ep_det. Qed.

(* the invariants after every prefix of the history, by the general theorem (C01Facts.history_inv) *)
Example ep_inv_throughout : forall k,
  disk_inv sym_eqb SContent (run_sym (firstn k (ep_ops ++ [OBuild None])) ep_w0) /\
  hist_sound_sym (run_sym (firstn k (ep_ops ++ [OBuild None])) ep_w0).
Proof.
  intro k.
  apply (history_inv sym sym_eqb SContent SList SRule sym_eqb_spec SContent_inj SList_inj SRule_inj);
    [exact ep_w0_inv | exact ep_w0_hist_sound | apply ep_det_firstn].
Qed.

Example ep_inv : disk_inv sym_eqb SContent ep_w /\ hist_sound_sym ep_w.
Proof. exact (ep_inv_throughout 8). Qed.

Example ep_inv_before : disk_inv sym_eqb SContent ep_w_before.
Proof. exact (proj1 (ep_inv_throughout 7)). Qed.

Definition file_at (w : world sym) (p : bytes) : option (bytes * N) :=
  option_map (fun f => (f_content f, f_mtime f)) (fget w p).
Definition cache_entry (w : world sym) (t : sym) : option (bytes * N) :=
  match rd_cache (w_rd w) with
  | Some c => option_map (fun f => (f_content f, f_mtime f)) (alookup sym_eqb c t)
  | None => None
  end.
Definition table_entry (w : world sym) (p : bytes) : option (fstate sym) :=
  match rd_table (w_rd w) with Some (SF_ok tbl) => alookup bytes_eqb tbl p | _ => None end.

(* what happens to the file with time 0: in the cache after the first build, still there (t holding "Y",
   remembered with a positive time) before the third, back at t after it; and what was remembered about t is
   then the WHOLE empty state *)
Example ep_story :
  file_at ep_w0 [116] = Some ([88], 0) /\
  cache_entry (run_sym (firstn 3 ep_ops) ep_w0) (SContent [88]) = Some ([88], 0) /\
  cache_entry ep_w_before (SContent [88]) = Some ([88], 0) /\
  file_at ep_w_before [116] = Some ([89], 5005) /\
  table_entry ep_w_before [116] = Some (mk_fstate (SContent [89]) 5005 false) /\
  file_at ep_w [116] = Some ([88], 0) /\
  cache_entry ep_w (SContent [88]) = None /\
  cache_entry ep_w (SContent [89]) = Some ([89], 5005) /\
  table_entry ep_w [116] = Some (empty_state SContent).
Proof. vm_compute. repeat split. Qed.

(* the next build finds t (time 0, table entry "nothing remembered", whose time is 0 too) up to date: it hashes the
   file (empty_state_is_never_trusted), runs no command and changes no file *)
Example ep_next_build :
  let o := build_sym ep_w RULES_PATH None in
  o_verdict o = VOk /\ o_commands o = [] /\ w_files (o_world o) = w_files ep_w /\
  get_file_ticket sym_eqb SContent ep_w [116] (empty_state SContent) = Some (SContent [88]).
Proof. vm_compute. repeat split. Qed.

(* and by C01 (per-world form) its result is the from-scratch result *)
Definition ep_w1 : world sym := match init_dir sym ep_w with Ok (w1, _) => w1 | Err _ => ep_w end.
Definition ep_tbl : table sym := match init_dir sym ep_w with Ok (_, t) => t | Err _ => [] end.
Definition ep_pack : node_pack :=
  match get_nodes sym ep_w1 RULES_PATH None with Ok p => p | Err _ => mk_pack [] [] end.

Example ep_next_build_is_scratch : forall t, In t (plan_targets ep_pack) ->
  content_at (o_world (build_sym ep_w RULES_PATH None)) t = content_at (scratch_world ep_w ep_pack) t.
Proof.
  apply (c01_incremental_equals_scratch_sym ep_w RULES_PATH None ep_w1 ep_tbl ep_pack).
  - exact (proj1 ep_inv).
  - exact (proj2 ep_inv).
  - vm_compute. reflexivity.
  - vm_compute. reflexivity.
  - apply det_nodesb_sound. vm_compute. reflexivity.
  - vm_compute. reflexivity.
Qed.

Example ep_next_build_value :
  In [116] (plan_targets ep_pack) /\
  content_at (o_world (build_sym ep_w RULES_PATH None)) [116] = Some [88] /\
  content_at (scratch_world ep_w ep_pack) [116] = Some [88].
Proof. vm_compute. split; [left; reflexivity | split; reflexivity]. Qed.

(* C18 on that world: E1 applies to the recovered file with every sound state, e.g. every table entry *)
Example ep_shortcut_at_epoch : forall st,
  state_ok sym_eqb SContent ep_w st ->
  get_file_ticket sym_eqb SContent ep_w [116] st = Some (SContent [88]).
Proof.
  intros st Hst.
  apply (shortcut_transparent_at_epoch_sym ep_w [116] st (mk_file [88] 0 false) (proj1 ep_inv) Hst);
    vm_compute; reflexivity.
Qed.

(* ---------- coarse clock, from the empty world at time 0 ---------- *)

Lemma epc_confined : confined_history_sym (init_world Coarse 0) (epc_ops ++ [OBuild None]).
Proof.
  unfold epc_ops, ep_first, ep_ops.
  cbn [app CoarseBuildProofs.confined_history CoarseBuildProofs.op_confined].
  repeat (split; [exact I|]).
  split; [apply build_confinedb_sound; vm_compute; reflexivity|].
  repeat (split; [exact I|]).
  split; [apply build_confinedb_sound; vm_compute; reflexivity|].
  repeat (split; [exact I|]).
  split; [apply build_confinedb_sound; vm_compute; reflexivity|].
  repeat (split; [exact I|]).
  split; [apply build_confinedb_sound; vm_compute; reflexivity|].
  exact I.
Qed.

(* the coarse invariant after every prefix, by the general theorem (which no longer asks for 0 < t0) *)
Example epc_inv_throughout : forall k,
  coarse_inv sym_eqb SContent (run_sym (firstn k (epc_ops ++ [OBuild None])) (init_world Coarse 0)).
Proof.
  intro k. apply (coarse_inv_throughout sym sym_eqb SContent SList SRule sym_eqb_spec). exact epc_confined.
Qed.

Example epc_inv : coarse_inv sym_eqb SContent epc_w.
Proof. exact (epc_inv_throughout 9). Qed.

Example epc_story :
  file_at (run_sym (firstn 1 epc_ops) (init_world Coarse 0)) [116] = Some ([88], 0) /\
  cache_entry (run_sym (firstn 4 epc_ops) (init_world Coarse 0)) (SContent [88]) = Some ([88], 0) /\
  file_at (run_sym (firstn 8 epc_ops) (init_world Coarse 0)) [116] = Some ([89], 6000) /\
  table_entry (run_sym (firstn 8 epc_ops) (init_world Coarse 0)) [116] = Some (mk_fstate (SContent [89]) 6000 false) /\
  file_at epc_w [116] = Some ([88], 0) /\
  cache_entry epc_w (SContent [88]) = None /\
  cache_entry epc_w (SContent [89]) = Some ([89], 6000) /\
  table_entry epc_w [116] = Some (empty_state SContent).
Proof. vm_compute. repeat split. Qed.

(* C18 under the coarse clock for the next build, by the general theorem at t0 = 0, and its value *)
Example epc_next_build_table_irrelevant :
  let o1 := build_sym epc_w RULES_PATH None in
  let o2 := build_sym (erase_table sym epc_w) RULES_PATH None in
  o_verdict o1 = o_verdict o2 /\ w_files (o_world o1) = w_files (o_world o2) /\
  rd_cache (w_rd (o_world o1)) = rd_cache (w_rd (o_world o2)) /\
  rd_hist (w_rd (o_world o1)) = rd_hist (w_rd (o_world o2)) /\
  o_commands o1 = o_commands o2 /\ o_status o1 = o_status o2.
Proof.
  apply (c18_coarse_every_history_sym 0 epc_ops None).
  - change epc_ops with (firstn 9 (epc_ops ++ [OBuild None])).
    apply (confined_history_firstn sym sym_eqb SContent SList SRule). exact epc_confined.
  - apply build_confinedb_sound. vm_compute. reflexivity.
Qed.

Example epc_next_build_value :
  let o := build_sym epc_w RULES_PATH None in
  o_verdict o = VOk /\ o_commands o = [] /\ content_at (o_world o) [116] = Some [88] /\
  option_map f_mtime (fget (o_world o) [116]) = Some 0.
Proof. vm_compute. repeat split. Qed.

(* ================================================================== *)
(* E4: the seeded mutants on the world of E3                            *)
(* ================================================================== *)

(* what the table said about t before the third build (sound there), and what the mutant makes of it *)
Definition ep_st : fstate sym := mk_fstate (SContent [89]) 5005 false.

Example ep_st_sound_before : table_entry ep_w_before [116] = Some ep_st /\ state_ok sym_eqb SContent ep_w_before ep_st.
Proof.
  split; [vm_compute; reflexivity|].
  destruct ep_inv_before as (_ & _ & _ & _ & Hts).
  assert (exists tbl, rd_table (w_rd ep_w_before) = Some (SF_ok tbl) /\ alookup bytes_eqb tbl [116] = Some ep_st)
    as (tbl & H1 & H2) by (eexists; vm_compute; split; reflexivity).
  exact (Hts tbl [116] ep_st H1 H2).
Qed.

Theorem epoch_legacy_refuted :
  (* the mutant shortcut is harmless: with every sound state it returns the hash of the file's bytes *)
  (forall (w : world sym) p assumed,
     state_ok sym_eqb SContent w assumed ->
     get_file_ticket' SContent w p assumed = option_map (fun f => SContent (f_content f)) (fget w p)) /\
  (* the mutant forget_replaced is not: in the world where t has just been recovered with time 0 and content "X",
     zeroing the time of what was remembered about t ("Y") leaves a state that is not sound, and the (real) shortcut
     takes it for the hash of t; the model's forget_replaced leaves the empty state, which is sound *)
  (disk_inv sym_eqb SContent ep_w /\
   file_at ep_w [116] = Some ([88], 0) /\
   forget' ep_st = mk_fstate (SContent [89]) 0 false /\
   ~ state_ok sym_eqb SContent ep_w (forget' ep_st) /\
   get_file_ticket sym_eqb SContent ep_w [116] (forget' ep_st) = Some (SContent [89]) /\
   state_ok sym_eqb SContent ep_w (empty_state SContent) /\
   get_file_ticket sym_eqb SContent ep_w [116] (empty_state SContent) = Some (SContent [88])) /\
  (* hence the counterpart for forget' of R3 (InvFacts.state_ok_stable_steps: a sound state stays sound along
     ruler's and the user's steps) is false: ep_st is sound before the third build, forget' ep_st is not after it *)
  ~ (forall (w w' : world sym) (st : fstate sym),
       disk_inv sym_eqb SContent w -> state_ok sym_eqb SContent w st ->
       clos_refl_trans _ (step sym_eqb SContent) w w' -> state_ok sym_eqb SContent w' (forget' st)).
Proof.
  assert (~ state_ok sym_eqb SContent ep_w (forget' ep_st) /\
          get_file_ticket sym_eqb SContent ep_w [116] (forget' ep_st) = Some (fs_t ep_st)) as [Hno Hg].
  { apply (forget'_unsound sym sym_eqb SContent sym_eqb_spec ep_w [116] (mk_file [88] 0 false) ep_st).
    - vm_compute. reflexivity.
    - reflexivity.
    - cbn. discriminate.
    - cbn. discriminate. }
  split; [exact shortcut'_transparent_sym|]. split.
  - split; [exact (proj1 ep_inv)|]. split; [vm_compute; reflexivity|]. split; [reflexivity|].
    split; [exact Hno|]. split; [exact Hg|].
    split; [apply (InvProofs.empty_state_ok sym sym_eqb SContent sym_eqb_spec) | vm_compute; reflexivity].
  - intro H. apply Hno. apply (H ep_w_before ep_w ep_st ep_inv_before (proj2 ep_st_sound_before)).
    change ep_w with (fst (apply_sym ep_w_before (OBuild None))).
    apply (InvProofs.apply_op_steps sym sym_eqb SContent sym_eqb_spec SList SRule); [exact ep_inv_before | exact I].
Qed.
