(* TASK "ACTS": every crash point of the modelled build / clean (C11), and ruler's own actions never
   destroy content (C08), over the primitive action lists of Model/Acts.v.

   The generic theorems (any hash type with a correct equality test and injective hashes) are proved in
     ActsSound.v    D1 acts_build_sound, D2 acts_clean_sound
     ActsGood.v     the analysis of the action lists (acts_good)
     ActsCrash.v    D3 crash_ok, acts_build_crash_ok, acts_clean_crash_ok;
                    D4 c11_recovery_after_build_crash, c11_recovery_after_clean_crash (+ _tick);
                    D5 history_crash_ok
     ActsContent.v  D6 acts_build_keep_content, acts_clean_keep_content (+ _targets, _general)
   and are re-exported here.  This file adds the closed instances with the free symbolic hashes (D7) and
   the non-vacuity examples. *)
From Coq Require Import String Ascii.
From Coq Require Import Relations.Relation_Operators Relations.Operators_Properties.
From Ruler Require Import Tactics Bytes AList RuleSyntax Parser TopoSort World Cmdlang Work Build Ops Inv Acts
  BuildSpec Ideal BytesFacts InvFacts BuildFacts C01Script C01Hist C01Build C01Plan C01Facts C11Facts.
From Ruler Require Export ActsSound ActsGood ActsCrash ActsContent.
Local Open Scope N_scope.

(* ================================================================== *)
(* D7: the instance with free symbolic hashes (closed statements)       *)
(* ================================================================== *)

Notation crash_ok_sym := (crash_ok sym sym_eqb SContent SList SRule).
Notation build_acts_sym := (build_acts sym_eqb SContent SList SRule).
Notation clean_acts_sym := (clean_acts sym_eqb SContent).
Notation run_acts_sym := (run_acts sym_eqb SRule).

Theorem crash_ok_sym_unfold : forall w : world sym,
  crash_ok_sym w <->
  disk_inv sym_eqb SContent w /\ hist_sound_sym w /\ no_bad_state_files sym sym_eqb w.
Proof. intro w. reflexivity. Qed.

Theorem acts_build_sound_sym : forall (w : world sym) rp goal,
  run_acts_sym (build_acts_sym w rp goal) w = o_world (build_sym w rp goal).
Proof. exact (acts_build_sound sym sym_eqb SContent SList SRule). Qed.

Theorem acts_clean_sound_sym : forall (w : world sym) rp goal,
  run_acts_sym (clean_acts_sym w rp goal) w = o_world (clean sym_eqb SContent w rp goal).
Proof. exact (acts_clean_sound sym sym_eqb SContent SRule). Qed.

(* ---- D3 ---- *)

Theorem acts_build_crash_ok_sym : forall (w : world sym) goal pre suf,
  crash_ok_sym w -> build_det sym w goal ->
  build_acts_sym w RULES_PATH goal = pre ++ suf ->
  crash_ok_sym (run_acts_sym pre w).
Proof.
  exact (acts_build_crash_ok sym sym_eqb SContent SList SRule sym_eqb_spec SContent_inj SList_inj SRule_inj).
Qed.

Theorem acts_clean_crash_ok_sym : forall (w : world sym) goal pre suf,
  crash_ok_sym w -> clean_acts_sym w RULES_PATH goal = pre ++ suf -> crash_ok_sym (run_acts_sym pre w).
Proof. exact (acts_clean_crash_ok sym sym_eqb SContent SList SRule sym_eqb_spec SRule_inj). Qed.

(* ---- D4 ---- *)

Theorem c11_recovery_after_build_crash_sym : forall (w : world sym) goal k goal' w1 tbl pack,
  crash_ok_sym w -> build_det sym w goal ->
  let wc := run_acts_sym (firstn k (build_acts_sym w RULES_PATH goal)) w in
  crash_ok_sym wc /\ cache_addressed sym_eqb SContent wc /\
  o_verdict (build_sym wc RULES_PATH goal') <> VFatal FTable /\
  o_verdict (build_sym wc RULES_PATH goal') <> VFatal FHistory /\
  (init_dir sym wc = Ok (w1, tbl) -> get_nodes sym w1 RULES_PATH goal' = Ok pack ->
   Forall det_node (p_nodes pack) ->
   o_verdict (build_sym wc RULES_PATH goal') = VOk ->
   forall t, In t (plan_targets pack) ->
     content_at (o_world (build_sym wc RULES_PATH goal')) t = content_at (scratch_world wc pack) t).
Proof.
  exact (c11_recovery_after_build_crash sym sym_eqb SContent SList SRule sym_eqb_spec SContent_inj SList_inj SRule_inj).
Qed.

Theorem c11_recovery_after_clean_crash_sym : forall (w : world sym) goal k goal' w1 tbl pack,
  crash_ok_sym w ->
  let wc := run_acts_sym (firstn k (clean_acts_sym w RULES_PATH goal)) w in
  crash_ok_sym wc /\ cache_addressed sym_eqb SContent wc /\
  o_verdict (build_sym wc RULES_PATH goal') <> VFatal FTable /\
  o_verdict (build_sym wc RULES_PATH goal') <> VFatal FHistory /\
  (init_dir sym wc = Ok (w1, tbl) -> get_nodes sym w1 RULES_PATH goal' = Ok pack ->
   Forall det_node (p_nodes pack) ->
   o_verdict (build_sym wc RULES_PATH goal') = VOk ->
   forall t, In t (plan_targets pack) ->
     content_at (o_world (build_sym wc RULES_PATH goal')) t = content_at (scratch_world wc pack) t).
Proof.
  exact (c11_recovery_after_clean_crash sym sym_eqb SContent SList SRule sym_eqb_spec SContent_inj SList_inj SRule_inj).
Qed.

Theorem c11_recovery_after_build_crash_tick_sym : forall (w : world sym) goal k goal' w1 tbl pack,
  crash_ok_sym w -> build_det sym w goal ->
  let wc := tick (run_acts_sym (firstn k (build_acts_sym w RULES_PATH goal)) w) in
  crash_ok_sym wc /\ cache_addressed sym_eqb SContent wc /\
  o_verdict (build_sym wc RULES_PATH goal') <> VFatal FTable /\
  o_verdict (build_sym wc RULES_PATH goal') <> VFatal FHistory /\
  (init_dir sym wc = Ok (w1, tbl) -> get_nodes sym w1 RULES_PATH goal' = Ok pack ->
   Forall det_node (p_nodes pack) ->
   o_verdict (build_sym wc RULES_PATH goal') = VOk ->
   forall t, In t (plan_targets pack) ->
     content_at (o_world (build_sym wc RULES_PATH goal')) t = content_at (scratch_world wc pack) t).
Proof.
  exact (c11_recovery_after_build_crash_tick sym sym_eqb SContent SList SRule sym_eqb_spec SContent_inj SList_inj SRule_inj).
Qed.

Theorem c11_recovery_after_clean_crash_tick_sym : forall (w : world sym) goal k goal' w1 tbl pack,
  crash_ok_sym w ->
  let wc := tick (run_acts_sym (firstn k (clean_acts_sym w RULES_PATH goal)) w) in
  crash_ok_sym wc /\ cache_addressed sym_eqb SContent wc /\
  o_verdict (build_sym wc RULES_PATH goal') <> VFatal FTable /\
  o_verdict (build_sym wc RULES_PATH goal') <> VFatal FHistory /\
  (init_dir sym wc = Ok (w1, tbl) -> get_nodes sym w1 RULES_PATH goal' = Ok pack ->
   Forall det_node (p_nodes pack) ->
   o_verdict (build_sym wc RULES_PATH goal') = VOk ->
   forall t, In t (plan_targets pack) ->
     content_at (o_world (build_sym wc RULES_PATH goal')) t = content_at (scratch_world wc pack) t).
Proof.
  exact (c11_recovery_after_clean_crash_tick sym sym_eqb SContent SList SRule sym_eqb_spec SContent_inj SList_inj SRule_inj).
Qed.

(* ---- D5 ---- *)

Theorem history_crash_ok_sym : forall t0 (ops : list (op sym)),
  det_history_sym (init_world Fine t0) ops ->
  Forall (fun o => match o with OSetTable _ | OSetHist _ _ => False | _ => True end) ops ->
  crash_ok_sym (run_sym ops (init_world Fine t0)).
Proof.
  exact (history_crash_ok sym sym_eqb SContent SList SRule sym_eqb_spec SContent_inj SList_inj SRule_inj).
Qed.

(* ---- D6 ---- *)

Theorem acts_build_keep_content_sym : forall (w : world sym) rp goal pre a suf paths c,
  disk_inv sym_eqb SContent w ->
  build_acts_sym w rp goal = pre ++ a :: suf ->
  (forall l, a <> ALine l) ->
  protected_content sym_eqb paths (run_acts_sym pre w) c ->
  protected_content sym_eqb paths (run_acts_sym (pre ++ [a]) w) c
  \/ exists p f, ~ In p paths /\ fget (run_acts_sym pre w) p = None /\
                 fget (run_acts_sym (pre ++ [a]) w) p = Some f /\ f_content f = c.
Proof. exact (acts_build_keep_content sym sym_eqb SContent SList SRule sym_eqb_spec SContent_inj). Qed.

Theorem acts_build_keep_content_targets_sym : forall (w : world sym) rp goal pre a suf paths c,
  disk_inv sym_eqb SContent w ->
  (forall w1 t pack, init_dir sym w = Ok (w1, t) -> get_nodes sym w1 rp goal = Ok pack ->
                     incl (plan_targets pack) paths) ->
  build_acts_sym w rp goal = pre ++ a :: suf ->
  (forall l, a <> ALine l) ->
  protected_content sym_eqb paths (run_acts_sym pre w) c ->
  protected_content sym_eqb paths (run_acts_sym (pre ++ [a]) w) c.
Proof. exact (acts_build_keep_content_targets sym sym_eqb SContent SList SRule sym_eqb_spec SContent_inj). Qed.

Theorem acts_clean_keep_content_sym : forall (w : world sym) rp goal pre a suf paths c,
  disk_inv sym_eqb SContent w ->
  clean_acts_sym w rp goal = pre ++ a :: suf ->
  protected_content sym_eqb paths (run_acts_sym pre w) c ->
  protected_content sym_eqb paths (run_acts_sym (pre ++ [a]) w) c.
Proof. exact (acts_clean_keep_content sym sym_eqb SContent SRule sym_eqb_spec SContent_inj). Qed.

(* ================================================================== *)
(* non-vacuity                                                          *)
(* ================================================================== *)

(* build_det, decidably *)
Definition build_detb (w : world sym) (goal : option bytes) : bool :=
  match init_dir sym w with
  | Ok (w1, _) =>
      match get_nodes sym w1 RULES_PATH goal with
      | Ok pack => forallb det_nodeb (p_nodes pack)
      | Err _ => true
      end
  | Err _ => true
  end.

Lemma build_detb_sound w goal : build_detb w goal = true -> build_det sym w goal.
Proof.
  unfold build_detb. intros H w1 tbl pack Hi Hg. rewrite Hi, Hg in H. apply det_nodesb_sound. exact H.
Qed.

(* D1 on the non-DET workspace of C01Facts: three rules, first build *)
Example ex_build_acts_length : (5 < length (build_acts_sym cx_w0 RULES_PATH None))%nat.
Proof. vm_compute. repeat constructor. Qed.

Example ex_build_acts_sound :
  run_acts_sym (build_acts_sym cx_w0 RULES_PATH None) cx_w0 = o_world (build_sym cx_w0 RULES_PATH None).
Proof. vm_compute. reflexivity. Qed.

Example ex_clean_acts_sound :
  run_acts_sym (clean_acts_sym cx_w RULES_PATH None) cx_w = o_world (clean sym_eqb SContent cx_w RULES_PATH None).
Proof. vm_compute. reflexivity. Qed.

(* a DET workspace: s, and the rules a <- s, b <- a, c <- a *)
Definition ex_ops0 : list (op sym) := [OWrite (bs "s") (bs "1"); OWrite RULES_PATH cx_rules2].
Definition ex_w0 : world sym := run_sym ex_ops0 (init_world Fine 1).

Lemma ex_w0_det : build_det sym ex_w0 None.
Proof. apply build_detb_sound. vm_compute. reflexivity. Qed.

Lemma ex_w0_crash_ok : crash_ok_sym ex_w0.
Proof.
  apply (history_crash_ok_sym 1 ex_ops0); [cbn; auto | repeat constructor].
Qed.

(* D5: crash_ok after a short history: two writes, a build, an edit, a build, a deletion, a clean *)
Definition ex_ops : list (op sym) :=
  ex_ops0 ++ [OBuild None; OWrite (bs "s") (bs "2"); OBuild None; ORemove (bs "b"); ORmTable; OClean None].

Lemma ex_ops_det : det_history_sym (init_world Fine 1) ex_ops.
Proof.
  unfold ex_ops, ex_ops0. cbn [app det_history op_det].
  repeat (split; [exact I|]).
  split; [apply build_detb_sound; vm_compute; reflexivity|].
  repeat (split; [exact I|]).
  split; [apply build_detb_sound; vm_compute; reflexivity|].
  repeat (split; [exact I|]). exact I.
Qed.

Example ex_history_crash_ok : crash_ok_sym (run_sym ex_ops (init_world Fine 1)).
Proof. apply (history_crash_ok_sym 1 ex_ops); [exact ex_ops_det | repeat constructor]. Qed.

(* D3 / D4: the build of ex_w0 killed after 6 actions (between two script lines): the crash state is good,
   it differs from both the start and the end of the build, and the next build succeeds *)
Definition ex_wc : world sym := run_acts_sym (firstn 6 (build_acts_sym ex_w0 RULES_PATH None)) ex_w0.

Example ex_crash_state_ok : crash_ok_sym ex_wc.
Proof.
  apply (acts_build_crash_ok_sym ex_w0 None _ (skipn 6 (build_acts_sym ex_w0 RULES_PATH None))
           ex_w0_crash_ok ex_w0_det).
  symmetry. apply firstn_skipn.
Qed.

Example ex_crash_state_midway :
  (6 < length (build_acts_sym ex_w0 RULES_PATH None))%nat /\
  content_at ex_wc (bs "a") = Some (bs "1") /\ content_at ex_wc (bs "c") = None /\
  content_at (o_world (build_sym ex_w0 RULES_PATH None)) (bs "c") = Some (bs "1").
Proof. vm_compute. repeat split; repeat constructor. Qed.

Example ex_crash_state_recovers :
  o_verdict (build_sym ex_wc RULES_PATH None) = VOk /\
  content_at (o_world (build_sym ex_wc RULES_PATH None)) (bs "c") = Some (bs "1").
Proof. vm_compute. split; reflexivity. Qed.

(* D6: a build whose action list contains a back-up AND a restore (s edited, built, reverted: the old
   targets come back out of the cache) *)
Definition ex_ops_revert : list (op sym) :=
  ex_ops0 ++ [OBuild None; OWrite (bs "s") (bs "2"); OBuild None; OWrite (bs "s") (bs "1")].
Definition ex_w_revert : world sym := run_sym ex_ops_revert (init_world Fine 1).

Definition is_restore (a : act sym) : bool := match a with ARestore _ _ => true | _ => false end.
Definition is_backup (a : act sym) : bool := match a with ABackup _ _ => true | _ => false end.

Example ex_revert_has_restore :
  existsb is_restore (build_acts_sym ex_w_revert RULES_PATH None) = true /\
  existsb is_backup (build_acts_sym ex_w_revert RULES_PATH None) = true.
Proof. vm_compute. split; reflexivity. Qed.
