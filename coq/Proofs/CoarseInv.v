(* C18 under the COARSE clock, part 1: the per-path invariant and how one worker carries it.

   Under the coarse clock every file written during one invocation of ruler carries the same modification
   time, so the global fact "equal times mean equal contents" of Model/Inv.v is false.  What holds is a fact
   PER PATH: a remembered state (ticket, time) about path p is sound when the file that is NOW at p, if the
   shortcut accepts it, has that ticket (state_ok_at).  Nothing below looks at w_mode: the definitions and
   the theorems hold for both clocks. *)
From Ruler Require Import Tactics Bytes AList RuleSyntax World Cmdlang Work Build Ops Inv BuildSpec
     BytesFacts InvFacts BuildFacts.
Local Open Scope N_scope.

Section CoarseDefs.
  Variable T : Type.
  Variable teqb : T -> T -> bool.
  Variable hc : bytes -> T.

  (* the remembered state st is sound FOR PATH p *)
  Definition state_ok_at (w : world T) (p : bytes) (st : fstate T) : Prop :=
    forall f, fget w p = Some f -> shortcut teqb hc f st = true -> fs_t st = hc (f_content f).

  Definition table_sound_at (w : world T) : Prop :=
    forall tbl p st, rd_table (w_rd w) = Some (SF_ok tbl) -> alookup bytes_eqb tbl p = Some st -> state_ok_at w p st.

  (* between operations the clock is strictly ahead of every file and of every remembered time *)
  Definition clock_ahead (w : world T) : Prop :=
    (forall f, any_file teqb w f -> f_mtime f < w_clock w) /\
    (forall tbl p st, rd_table (w_rd w) = Some (SF_ok tbl) -> alookup bytes_eqb tbl p = Some st ->
                      fs_mtime st < w_clock w).

  Definition coarse_inv (w : world T) : Prop :=
    cache_addressed teqb hc w /\ table_sound_at w /\ clock_ahead w.

  (* ---------- the in-flight forms ---------- *)

  (* a state that no file written from now on can be taken for: nothing remembered, or an earlier time *)
  Definition old_at (w : world T) (st : fstate T) : Prop :=
    is_empty_state teqb hc st = true \/ fs_mtime st < w_clock w.

  (* a state still to be consulted by a worker *)
  Definition held_ok (w : world T) (p : bytes) (st : fstate T) : Prop := state_ok_at w p st /\ old_at w st.

  (* a state a worker has handed back (re-observed after its command ran: the time may be the clock's) *)
  Definition done_ok (w : world T) (p : bytes) (st : fstate T) : Prop :=
    state_ok_at w p st /\ fs_mtime st <= w_clock w.

  Definition blob_held (w : world T) (b : blob T) : Prop := Forall (fun e => held_ok w (fst e) (snd e)) b.
  Definition blob_done (w : world T) (b : blob T) : Prop := Forall (fun e => done_ok w (fst e) (snd e)) b.
  Definition tbl_held (w : world T) (t : table T) : Prop :=
    forall p st, alookup bytes_eqb t p = Some st -> held_ok w p st.
  Definition tbl_done (w : world T) (t : table T) : Prop :=
    forall p st, alookup bytes_eqb t p = Some st -> done_ok w p st.

  Definition files_le (w : world T) : Prop := forall f, any_file teqb w f -> f_mtime f <= w_clock w.

  Definition inflight (w : world T) : Prop := cache_addressed teqb hc w /\ files_le w.

  (* what every operation leaves before the tick that follows it *)
  Definition pre_inv (w : world T) : Prop :=
    inflight w /\ forall tbl, rd_table (w_rd w) = Some (SF_ok tbl) -> tbl_done w tbl.

  (* ================================================================== *)
  (* K1: the shortcut is transparent                                      *)
  (* ================================================================== *)

  Theorem coarse_shortcut_transparent_main (w : world T) p st :
    state_ok_at w p st ->
    get_file_ticket teqb hc w p st = option_map (fun f => hc (f_content f)) (fget w p).
  Proof.
    intro Hok. unfold get_file_ticket. destruct (fget w p) as [f|] eqn:Ef; [|reflexivity].
    cbn [option_map]. destruct (shortcut teqb hc f st) eqn:E; [|reflexivity]. f_equal. apply Hok; auto.
  Qed.

  Theorem coarse_actual_state_transparent (w : world T) p st :
    state_ok_at w p st ->
    get_actual_file_state teqb hc w p st =
    option_map (fun f => mk_fstate (hc (f_content f)) (f_mtime f) (f_exec f)) (fget w p).
  Proof.
    intro Hok. unfold get_actual_file_state. destruct (fget w p) as [f|] eqn:Ef; [|reflexivity].
    cbn [option_map]. destruct (shortcut teqb hc f st) eqn:E; [|reflexivity]. do 2 f_equal. apply Hok; auto.
  Qed.
End CoarseDefs.

Arguments state_ok_at {T}.
Arguments table_sound_at {T}.
Arguments clock_ahead {T}.
Arguments coarse_inv {T}.
Arguments old_at {T}.
Arguments held_ok {T}.
Arguments done_ok {T}.
Arguments blob_held {T}.
Arguments blob_done {T}.
Arguments tbl_held {T}.
Arguments tbl_done {T}.
Arguments files_le {T}.
Arguments inflight {T}.
Arguments pre_inv {T}.

Module CoarseProofs.

Section Facts.
  Variable T : Type.
  Variable teqb : T -> T -> bool.
  Variable hc : bytes -> T.
  Hypothesis teqb_spec : forall a b, teqb a b = true <-> a = b.

  Notation world := (world T).
  Notation fstate := (fstate T).
  Notation blob := (blob T).
  Notation any_file := (any_file teqb).
  Notation cache_addressed := (cache_addressed teqb hc).
  Notation state_ok_at := (state_ok_at teqb hc).
  Notation old_at := (old_at teqb hc).
  Notation held_ok := (held_ok teqb hc).
  Notation done_ok := (done_ok teqb hc).
  Notation blob_held := (blob_held teqb hc).
  Notation blob_done := (blob_done teqb hc).
  Notation tbl_held := (tbl_held teqb hc).
  Notation tbl_done := (tbl_done teqb hc).
  Notation files_le := (files_le teqb).
  Notation inflight := (inflight teqb hc).
  Notation frame_at := (frame_at T).

  Let beq_spec := bytes_eqb_eq.

  (* ---------- the shortcut ---------- *)

  Lemma shortcut_mtime_eq f g (st : fstate) : f_mtime f = f_mtime g -> shortcut teqb hc f st = shortcut teqb hc g st.
  Proof. unfold shortcut. intros ->. reflexivity. Qed.

  Lemma is_empty_empty : is_empty_state teqb hc (empty_state hc) = true.
  Proof. unfold is_empty_state, empty_state. cbn. rewrite (proj2 (teqb_spec _ _) eq_refl). reflexivity. Qed.

  Lemma shortcut_is_empty f (st : fstate) : is_empty_state teqb hc st = true -> shortcut teqb hc f st = false.
  Proof. unfold shortcut. intros ->. apply andb_false_r. Qed.

  Lemma is_empty_mtime (st : fstate) : is_empty_state teqb hc st = true -> fs_mtime st = 0.
  Proof.
    unfold is_empty_state. intro H. apply andb_true_iff in H as [H _]. apply andb_true_iff in H as [_ H]. lia.
  Qed.

  Lemma old_at_shortcut (w : world) st f : old_at w st -> w_clock w <= f_mtime f -> shortcut teqb hc f st = false.
  Proof.
    intros [He | Hlt] Hf; [apply shortcut_is_empty; exact He|].
    unfold shortcut. destruct (f_mtime f =? fs_mtime st) eqn:E; [lia | reflexivity].
  Qed.

  Lemma old_at_le (w : world) st : old_at w st -> fs_mtime st <= w_clock w.
  Proof. intros [He | Hlt]; [rewrite (is_empty_mtime _ He); lia | lia]. Qed.

  Lemma old_at_mono (w w' : world) st : w_clock w <= w_clock w' -> old_at w st -> old_at w' st.
  Proof. intros Hc [He | Hlt]; [left; exact He | right; lia]. Qed.

  Lemma old_at_empty (w : world) : old_at w (empty_state hc).
  Proof. left. apply is_empty_empty. Qed.

  (* ---------- soundness at a path, across worlds ---------- *)

  Lemma state_ok_at_none (w : world) p st : fget w p = None -> state_ok_at w p st.
  Proof. intros E f Hf. congruence. Qed.

  Lemma state_ok_at_ext (w w' : world) p st : fget w' p = fget w p -> state_ok_at w p st -> state_ok_at w' p st.
  Proof. intros E H f Hf. apply H. congruence. Qed.

  Lemma state_ok_at_empty (w : world) p : state_ok_at w p (empty_state hc).
  Proof. intros f _ Hs. rewrite (shortcut_is_empty f _ is_empty_empty) in Hs. discriminate. Qed.

  Lemma held_ok_empty (w : world) p : held_ok w p (empty_state hc).
  Proof. split; [apply state_ok_at_empty | apply old_at_empty]. Qed.

  (* the file at p in w' is the one of w (up to its permission bits), or is not older than w's clock *)
  Definition fresh_or_same (w w' : world) (p : bytes) : Prop :=
    forall f', fget w' p = Some f' ->
      (exists f, fget w p = Some f /\ f_mtime f = f_mtime f' /\ f_content f = f_content f') \/
      w_clock w <= f_mtime f'.

  Lemma held_ok_transport (w w' : world) p st :
    w_clock w <= w_clock w' -> fresh_or_same w w' p -> held_ok w p st -> held_ok w' p st.
  Proof.
    intros Hc Hfs [Hok Hold]. split; [|eapply old_at_mono; eauto].
    intros f' Hf' Hs. destruct (Hfs f' Hf') as [(f & Hf & Hm & Hcn) | Hnew].
    - rewrite <- Hcn. apply (Hok f Hf). rewrite (shortcut_mtime_eq f f' st Hm). exact Hs.
    - rewrite (old_at_shortcut w st f' Hold Hnew) in Hs. discriminate.
  Qed.

  Lemma fresh_or_same_eq (w w' : world) p : fget w' p = fget w p \/ fget w' p = None -> fresh_or_same w w' p.
  Proof.
    intros [E | E] f' Hf'; [|congruence]. left. exists f'. split; [congruence | auto].
  Qed.

  Lemma held_ok_eq (w w' : world) p st :
    w_clock w <= w_clock w' -> fget w' p = fget w p \/ fget w' p = None -> held_ok w p st -> held_ok w' p st.
  Proof. intros Hc E. apply held_ok_transport; [exact Hc | apply fresh_or_same_eq; exact E]. Qed.

  Lemma done_ok_eq (w w' : world) p st :
    w_clock w <= w_clock w' -> fget w' p = fget w p \/ fget w' p = None -> done_ok w p st -> done_ok w' p st.
  Proof.
    intros Hc E [Hok Hle]. split; [|lia].
    destruct E as [E | E]; [eapply state_ok_at_ext; eauto | apply state_ok_at_none; exact E].
  Qed.

  Lemma held_done (w : world) p st : held_ok w p st -> done_ok w p st.
  Proof. intros [H1 H2]. split; [exact H1 | apply old_at_le; exact H2]. Qed.

  Lemma blob_held_done (w : world) b : blob_held w b -> blob_done w b.
  Proof. apply Forall_impl. intros e. apply held_done. Qed.

  (* ---------- worlds as a whole: what a command may do ---------- *)

  Definition adv (w w' : world) : Prop := w_clock w <= w_clock w' /\ forall p, fresh_or_same w w' p.

  Lemma adv_refl w : adv w w.
  Proof. split; [lia|]. intros p. apply fresh_or_same_eq. left. reflexivity. Qed.

  Lemma adv_trans w1 w2 w3 : adv w1 w2 -> adv w2 w3 -> adv w1 w3.
  Proof.
    intros [C1 F1] [C2 F2]. split; [lia|]. intros p f3 Hf3.
    destruct (F2 p f3 Hf3) as [(f2 & Hf2 & Hm & Hc) | Hnew]; [|right; lia].
    destruct (F1 p f2 Hf2) as [(f1 & Hf1 & Hm1 & Hc1) | Hnew]; [|right; lia].
    left. exists f1. split; [exact Hf1|]. split; congruence.
  Qed.

  Lemma write_file_spec (w : world) p c :
    exists t x, w_clock w <= t /\ w_clock (write_file w p c) = t /\
                fget (write_file w p c) p = Some (mk_file c t x) /\
                w_rd (write_file w p c) = w_rd w.
  Proof.
    unfold write_file, stamp. destruct (w_mode w).
    - eexists (w_clock w + 1), _. split; [lia|]. split; [reflexivity|]. split; [|reflexivity].
      unfold fget. cbn. apply (InvProofs.alookup_ainsert_eq _ beq_spec).
    - eexists (w_clock w), _. split; [lia|]. split; [reflexivity|]. split; [|reflexivity].
      unfold fget. cbn. apply (InvProofs.alookup_ainsert_eq _ beq_spec).
  Qed.

  Lemma write_file_adv (w : world) p c : adv w (write_file w p c).
  Proof.
    destruct (write_file_spec w p c) as (t & x & Ht & Hc & Hf & _). split; [lia|].
    intros q f' Hf'. destruct (InvProofs.key_dec _ beq_spec q p) as [-> | Hne].
    - right. rewrite Hf in Hf'. injection Hf' as <-. exact Ht.
    - left. exists f'. rewrite (fget_write_file_neq T) in Hf' by exact Hne. auto.
  Qed.

  Lemma remove_file_adv (w : world) p : adv w (remove_file w p).
  Proof.
    split; [cbn; lia|]. intros q. apply fresh_or_same_eq.
    destruct (InvProofs.key_dec _ beq_spec q p) as [-> | Hne].
    - right. apply (fget_remove_file_eq T).
    - left. apply (fget_remove_file_neq T). exact Hne.
  Qed.

  Lemma set_exec_clock (w : world) p x : w_clock (set_exec w p x) = w_clock w.
  Proof. unfold set_exec. destruct (fget w p); reflexivity. Qed.

  Lemma set_exec_adv (w : world) p x : adv w (set_exec w p x).
  Proof.
    split; [rewrite set_exec_clock; lia|]. intros q f' Hf'. left.
    destruct (InvProofs.key_dec _ beq_spec q p) as [-> | Hne].
    - unfold set_exec in Hf'. destruct (fget w p) as [f|] eqn:Ef; [|congruence].
      unfold fget in Hf'. cbn in Hf'. rewrite (InvProofs.alookup_ainsert_eq _ beq_spec) in Hf'.
      injection Hf' as <-. exists f. auto.
    - rewrite (fget_set_exec_neq T) in Hf' by exact Hne. exists f'. auto.
  Qed.

  Lemma run_line_adv (w : world) line : adv w (snd (run_line w line)).
  Proof.
    unfold run_line. destruct (tokens line) as [|op args]; [apply adv_refl|].
    destruct (bytes_eqb op [116; 114; 117; 101]); [apply adv_refl|].
    destruct (bytes_eqb op [102; 97; 105; 108]); [apply adv_refl|].
    destruct (bytes_eqb op [103; 101; 110]).
    { destruct args as [|out pieces]; [apply adv_refl|].
      destruct (gather w pieces) as [e|d]; [apply adv_refl|]. apply write_file_adv. }
    destruct (bytes_eqb op [99; 104; 109; 111; 100]).
    { destruct args as [|p [|q r]]; try apply adv_refl.
      destruct (fget w p); [apply set_exec_adv | apply adv_refl]. }
    destruct (bytes_eqb op [114; 109]).
    { destruct args as [|p [|q r]]; try apply adv_refl. apply remove_file_adv. }
    apply adv_refl.
  Qed.

  Lemma run_script_adv lines : forall (w : world), adv w (snd (run_script w lines)).
  Proof.
    induction lines as [|l r IH]; intro w; cbn [run_script]; [apply adv_refl|].
    pose proof (run_line_adv w l) as H1. destruct (run_line w l) as [code w1]. cbn [snd] in H1.
    pose proof (IH w1) as H2. destruct (run_script w1 r) as [codes w2]. cbn [snd] in *.
    eapply adv_trans; eauto.
  Qed.

  (* ---------- files_le and cache_addressed through the primitive operations ---------- *)

  Lemma any_file_write_any (w : world) p c g :
    any_file (write_file w p c) g -> f_mtime g = w_clock (write_file w p c) \/ any_file w g.
  Proof.
    destruct (write_file_spec w p c) as (t & x & Ht & Hc & Hf & Hrd).
    intros [(q & Hq) | (c' & t' & Hc' & Hl)].
    - destruct (InvProofs.key_dec _ beq_spec q p) as [-> | Hne].
      + left. rewrite Hf in Hq. injection Hq as <-. cbn. congruence.
      + right. rewrite (fget_write_file_neq T) in Hq by exact Hne. left. eauto.
    - right. right. exists c', t'. unfold cache_of in *. rewrite Hrd in Hc'. auto.
  Qed.

  Lemma write_file_files_le (w : world) p c : files_le w -> files_le (write_file w p c).
  Proof.
    intros H g Hg. apply any_file_write_any in Hg as [E | Hg]; [lia|].
    destruct (write_file_adv w p c) as [Hc _]. specialize (H g Hg). lia.
  Qed.

  Lemma remove_file_files_le (w : world) p : files_le w -> files_le (remove_file w p).
  Proof. intros H g Hg. apply (InvProofs.any_file_remove T teqb) in Hg. apply (H g Hg). Qed.

  Lemma set_exec_files_le (w : world) p x : files_le w -> files_le (set_exec w p x).
  Proof.
    intros H g Hg. apply (InvProofs.any_file_set_exec T teqb) in Hg as (g' & Hg' & Hm & _).
    rewrite set_exec_clock, <- Hm. apply (H g' Hg').
  Qed.

  Lemma run_line_inflight (w : world) line : inflight w -> inflight (snd (run_line w line)).
  Proof.
    intros [Ha Hf]. unfold run_line. destruct (tokens line) as [|op args]; [split; assumption|].
    destruct (bytes_eqb op [116; 114; 117; 101]); [split; assumption|].
    destruct (bytes_eqb op [102; 97; 105; 108]); [split; assumption|].
    destruct (bytes_eqb op [103; 101; 110]).
    { destruct args as [|out pieces]; [split; assumption|].
      destruct (gather w pieces) as [e|d]; [split; assumption|]. cbn [snd]. split.
      - eapply (InvProofs.cache_sub_addressed T teqb hc); [|exact Ha]. apply InvProofs.cache_sub_same.
        unfold cache_of. rewrite (w_rd_write_file T). reflexivity.
      - apply write_file_files_le. exact Hf. }
    destruct (bytes_eqb op [99; 104; 109; 111; 100]).
    { destruct args as [|p [|q r]]; try (split; assumption).
      destruct (fget w p); [|split; assumption]. cbn [snd]. split.
      - eapply (InvProofs.cache_sub_addressed T teqb hc); [|exact Ha]. apply InvProofs.cache_sub_same.
        apply InvProofs.set_exec_cache.
      - apply set_exec_files_le. exact Hf. }
    destruct (bytes_eqb op [114; 109]).
    { destruct args as [|p [|q r]]; try (split; assumption). cbn [snd]. split; [exact Ha|].
      apply remove_file_files_le. exact Hf. }
    split; assumption.
  Qed.

  Lemma run_script_inflight lines : forall (w : world), inflight w -> inflight (snd (run_script w lines)).
  Proof.
    induction lines as [|l r IH]; intros w H; cbn [run_script]; [exact H|].
    pose proof (run_line_inflight w l H) as H1. destruct (run_line w l) as [code w1]. cbn [snd] in H1.
    pose proof (IH w1 H1) as H2. destruct (run_script w1 r) as [codes w2]. exact H2.
  Qed.

  Lemma back_up_clock (w : world) t p w' : back_up teqb w t p = Some w' -> w_clock w' = w_clock w.
  Proof. intro H. destruct (InvProofs.back_up_inv T teqb _ _ _ _ H) as (c & f & _ & _ & ->). reflexivity. Qed.

  Lemma restore_clock (w : world) t p w' : restore teqb w t p = RDone w' -> w_clock w' = w_clock w.
  Proof. intro H. destruct (InvProofs.restore_inv T teqb _ _ _ _ H) as (c & f & _ & _ & ->). reflexivity. Qed.

  (* a back-up under the ticket the shortcut gave with a state that is sound for the path *)
  Lemma back_up_inflight (w : world) p a t w' :
    state_ok_at w p a -> get_file_ticket teqb hc w p a = Some t -> back_up teqb w t p = Some w' ->
    inflight w -> inflight w'.
  Proof.
    intros Hok Hg Hb [Ha Hf]. split.
    - rewrite (coarse_shortcut_transparent_main T teqb hc w p a Hok) in Hg.
      destruct (InvProofs.back_up_inv T teqb _ _ _ _ Hb) as (c & f & Ec & Ef & ->).
      rewrite Ef in Hg. cbn in Hg. injection Hg as <-.
      intros c' t' g Hc' Hl. unfold cache_of in Hc'. cbn in Hc'. injection Hc' as <-.
      apply (InvProofs.alookup_ainsert_some _ teqb_spec) in Hl as [[-> ->] | [_ Hl]]; [reflexivity|].
      eapply Ha; eauto.
    - intros g Hg'. rewrite (back_up_clock _ _ _ _ Hb). apply Hf.
      eapply (InvProofs.any_file_back_up T teqb teqb_spec); eauto.
  Qed.

  Lemma restore_inflight (w : world) t p w' : restore teqb w t p = RDone w' -> inflight w -> inflight w'.
  Proof.
    intros Hr [Ha Hf]. split.
    - eapply (InvProofs.cache_sub_addressed T teqb hc); [|exact Ha].
      eapply (InvProofs.restore_cache_sub T teqb teqb_spec); eauto.
    - intros g Hg. rewrite (restore_clock _ _ _ _ Hr). apply Hf.
      eapply (InvProofs.any_file_restore T teqb teqb_spec); eauto.
  Qed.

  Lemma restore_or_rebuild_inflight (w : world) t p res w' :
    restore_or_rebuild T teqb w t p = Ok (res, w') -> inflight w -> inflight w' /\ w_clock w' = w_clock w.
  Proof.
    unfold restore_or_rebuild. destruct (restore teqb w t p) as [w1| |] eqn:E; intros H Hi; try discriminate;
      injection H as _ <-.
    - split; [eapply restore_inflight; eauto | eapply restore_clock; eauto].
    - auto.
  Qed.

  Lemma restore_or_rebuild_clock (w : world) t p res w' :
    restore_or_rebuild T teqb w t p = Ok (res, w') -> w_clock w' = w_clock w.
  Proof.
    unfold restore_or_rebuild. destruct (restore teqb w t p) as [w1| |] eqn:E; intros H; try discriminate;
      injection H as _ <-; [eapply restore_clock; eauto | reflexivity].
  Qed.

  (* what is at the path afterwards unless the file was recovered: what was there, or nothing *)
  Lemma restore_or_rebuild_not_recovered (w : world) t p res w' :
    restore_or_rebuild T teqb w t p = Ok (res, w') -> res <> Recovered -> w' = w.
  Proof.
    unfold restore_or_rebuild. destruct (restore teqb w t p) as [w1| |]; intros H Hn; try discriminate;
      injection H as <- <-; [contradiction | reflexivity].
  Qed.

  Lemma resolve_single_coarse (w : world) rem p a res w' :
    state_ok_at w p a -> resolve_single teqb hc w rem p a = Ok (res, w') ->
    w_clock w' = w_clock w /\ (inflight w -> inflight w') /\
    (res <> Recovered -> fget w' p = fget w p \/ fget w' p = None).
  Proof.
    intros Hok. unfold resolve_single. destruct (get_file_ticket teqb hc w p a) as [cur|] eqn:Eg.
    - destruct (teqb rem cur).
      + intro H. injection H as <- <-. auto.
      + destruct (back_up teqb w cur p) as [w1|] eqn:Eb; [|discriminate]. intro H.
        pose proof (back_up_clock _ _ _ _ Eb) as Hc1.
        split; [rewrite (restore_or_rebuild_clock _ _ _ _ _ H); exact Hc1|]. split.
        * intro Hi. eapply restore_or_rebuild_inflight; [exact H|]. eapply back_up_inflight; eauto.
        * intro Hn. right. rewrite (restore_or_rebuild_not_recovered _ _ _ _ _ H Hn).
          eapply (back_up_fget_eq T); eauto.
    - intro H. split; [eapply restore_or_rebuild_clock; eauto|]. split.
      + intro Hi. eapply restore_or_rebuild_inflight; eauto.
      + intro Hn. left. rewrite (restore_or_rebuild_not_recovered _ _ _ _ _ H Hn). reflexivity.
  Qed.

  (* ---------- blobs ---------- *)

  Lemma blob_held_frame (w w' : world) ps b :
    w_clock w <= w_clock w' -> frame_at ps w w' -> (forall q, In q (map fst b) -> ~ In q ps) ->
    blob_held w b -> blob_held w' b.
  Proof.
    intros Hc Hf Hdis Hb. unfold Work.blob in *. apply Forall_forall. intros [q s] Hin.
    unfold CoarseInv.blob_held in Hb. rewrite Forall_forall in Hb. specialize (Hb _ Hin). cbn [fst snd] in *.
    eapply held_ok_eq; [exact Hc | | exact Hb]. left. apply (frame_at_fget T ps); [exact Hf|].
    apply Hdis. apply in_map_iff. exists (q, s). auto.
  Qed.

  Lemma blob_held_adv (w w' : world) b : adv w w' -> blob_held w b -> blob_held w' b.
  Proof.
    intros [Hc Hf]. apply Forall_impl. intros e. apply held_ok_transport; [exact Hc | apply Hf].
  Qed.

  Lemma NoDup_cons_inv {A} (a : A) l : NoDup (a :: l) -> ~ In a l /\ NoDup l.
  Proof. intro H. inversion H; subst. auto. Qed.

  Lemma resolve_remembered_coarse (b : blob) : forall (w : world) rem ress w',
    NoDup (map fst b) -> blob_held w b -> resolve_remembered teqb hc w b rem = Ok (ress, w') ->
    w_clock w' = w_clock w /\ (inflight w -> inflight w') /\ blob_held w' (forget_replaced hc b ress).
  Proof.
    induction b as [|[p a] rest IH]; intros w rem ress w' Hnd Hb; cbn [resolve_remembered].
    - intro H. injection H as <- <-. split; [reflexivity|]. split; [auto | constructor].
    - destruct rem as [|r rrest]; [discriminate|].
      destruct (resolve_single teqb hc w (fs_t r) p a) as [[res w1]|e] eqn:E1; [|discriminate].
      destruct (resolve_remembered teqb hc w1 rest rrest) as [[ress2 w2]|e] eqn:E2; [|discriminate].
      intro H. injection H as <- <-. cbn [map fst] in Hnd. apply NoDup_cons_inv in Hnd as [Hnin Hnd].
      inversion Hb as [|? ? Ha Hrest]; subst. cbn [fst snd] in Ha.
      destruct (resolve_single_coarse _ _ _ _ _ _ (proj1 Ha) E1) as (Hc1 & Hi1 & Hp1).
      pose proof (resolve_single_frame T teqb hc _ _ _ _ _ _ E1) as Hf1.
      assert (blob_held w1 rest) as Hrest1.
      { eapply blob_held_frame; [| exact Hf1 | | exact Hrest]; [lia|].
        intros q Hq [<- | []]. contradiction. }
      destruct (IH w1 rrest ress2 w2 Hnd Hrest1 E2) as (Hc2 & Hi2 & Hb2).
      destruct (resolve_remembered_frame T teqb hc _ _ _ _ _ E2) as [Hf2 _].
      split; [congruence|]. split; [auto|]. cbn [forget_replaced]. constructor; [|exact Hb2]. cbn [fst snd].
      destruct res; try apply held_ok_empty.
      + apply (held_ok_eq w1 w2); [lia | left; apply (frame_at_fget T _ _ _ _ Hf2 Hnin)|].
        apply (held_ok_eq w w1); [lia | apply Hp1; discriminate | exact Ha].
      + apply (held_ok_eq w1 w2); [lia | left; apply (frame_at_fget T _ _ _ _ Hf2 Hnin)|].
        apply (held_ok_eq w w1); [lia | apply Hp1; discriminate | exact Ha].
  Qed.

  Lemma forget_replaced_held (w : world) b : forall ress, blob_held w b -> blob_held w (forget_replaced hc b ress).
  Proof.
    induction b as [|[p a] rest IH]; intros ress Hb; cbn [forget_replaced]; [exact Hb|].
    destruct ress as [|r rr]; [exact Hb|]. inversion Hb as [|? ? Ha Hrest]; subst.
    constructor; [|apply IH; exact Hrest]. cbn [fst snd] in *. destruct r; auto. apply held_ok_empty.
  Qed.

  Lemma resolve_fresh_coarse (b : blob) : forall (w : world) ress w',
    NoDup (map fst b) -> blob_held w b -> resolve_fresh teqb hc w b = Ok (ress, w') ->
    w_clock w' = w_clock w /\ (inflight w -> inflight w') /\ blob_held w' b.
  Proof.
    induction b as [|[p a] rest IH]; intros w ress w' Hnd Hb; cbn [resolve_fresh].
    - intro H. injection H as <- <-. split; [reflexivity|]. split; [auto | constructor].
    - cbn [map fst] in Hnd. apply NoDup_cons_inv in Hnd as [Hnin Hnd].
      inversion Hb as [|? ? Ha Hrest]; subst. cbn [fst snd] in Ha.
      destruct (get_file_ticket teqb hc w p a) as [cur|] eqn:Eg.
      + destruct (back_up teqb w cur p) as [w1|] eqn:Eb; [|discriminate].
        destruct (resolve_fresh teqb hc w1 rest) as [[ress2 w2]|e] eqn:E2; [|discriminate].
        intro H. injection H as <- <-.
        pose proof (back_up_clock _ _ _ _ Eb) as Hc1. pose proof (back_up_frame T teqb _ _ _ _ Eb) as Hf1.
        assert (blob_held w1 rest) as Hrest1.
        { eapply blob_held_frame; [| exact Hf1 | | exact Hrest]; [lia|].
          intros q Hq [<- | []]. contradiction. }
        destruct (IH w1 ress2 w2 Hnd Hrest1 E2) as (Hc2 & Hi2 & Hb2).
        destruct (resolve_fresh_frame T teqb hc _ _ _ _ E2) as [Hf2 _].
        split; [congruence|]. split.
        * intro Hi. apply Hi2. eapply back_up_inflight; eauto. apply Ha.
        * constructor; [|exact Hb2]. cbn [fst snd].
          apply (held_ok_eq w1 w2); [lia | left; apply (frame_at_fget T _ _ _ _ Hf2 Hnin)|].
          apply (held_ok_eq w w1); [lia | right; eapply (back_up_fget_eq T); eauto | exact Ha].
      + destruct (resolve_fresh teqb hc w rest) as [[ress2 w2]|e] eqn:E2; [|discriminate].
        intro H. injection H as <- <-.
        destruct (IH w ress2 w2 Hnd Hrest E2) as (Hc2 & Hi2 & Hb2).
        destruct (resolve_fresh_frame T teqb hc _ _ _ _ E2) as [Hf2 _].
        split; [exact Hc2|]. split; [exact Hi2|]. constructor; [|exact Hb2]. cbn [fst snd].
        apply (held_ok_eq w w2); [lia | left; apply (frame_at_fget T _ _ _ _ Hf2 Hnin) | exact Ha].
  Qed.

  Lemma resolved_of_coarse (w : world) b h st ress w1 :
    NoDup (map fst b) -> blob_held w b -> resolved_of T teqb hc w b h st = Ok (ress, w1) ->
    w_clock w1 = w_clock w /\ (inflight w -> inflight w1) /\ blob_held w1 (forget_replaced hc b ress).
  Proof.
    intros Hnd Hb. unfold resolved_of. destruct (alookup teqb h st) as [rem|].
    - apply resolve_remembered_coarse; assumption.
    - intro H. destruct (resolve_fresh_coarse _ _ _ _ Hnd Hb H) as (H1 & H2 & H3).
      split; [exact H1|]. split; [exact H2|]. apply forget_replaced_held. exact H3.
  Qed.

  Lemma clean_targets_coarse (b : blob) : forall (w w' : world),
    NoDup (map fst b) -> blob_held w b -> clean_targets teqb hc w b = Ok w' ->
    w_clock w' = w_clock w /\ (inflight w -> inflight w') /\
    (forall q, fget w' q = fget w q \/ fget w' q = None).
  Proof.
    induction b as [|[p a] rest IH]; intros w w' Hnd Hb; cbn [clean_targets].
    - intro H. injection H as <-. auto.
    - cbn [map fst] in Hnd. apply NoDup_cons_inv in Hnd as [Hnin Hnd].
      inversion Hb as [|? ? Ha Hrest]; subst. cbn [fst snd] in Ha.
      destruct (get_file_ticket teqb hc w p a) as [cur|] eqn:Eg; [|apply IH; assumption].
      destruct (back_up teqb w cur p) as [w1|] eqn:Eb; [|discriminate]. intro H.
      pose proof (back_up_clock _ _ _ _ Eb) as Hc1. pose proof (back_up_frame T teqb _ _ _ _ Eb) as Hf1.
      assert (blob_held w1 rest) as Hrest1.
      { eapply blob_held_frame; [| exact Hf1 | | exact Hrest]; [lia|].
        intros q Hq [<- | []]. contradiction. }
      destruct (IH w1 w' Hnd Hrest1 H) as (Hc2 & Hi2 & Hs2).
      split; [congruence|]. split.
      + intro Hi. apply Hi2. eapply back_up_inflight; eauto. apply Ha.
      + intro q. destruct (Hs2 q) as [E | E]; [|right; exact E].
        destruct (InvProofs.key_dec _ beq_spec q p) as [-> | Hne].
        * right. rewrite E. eapply (back_up_fget_eq T); eauto.
        * left. rewrite E. eapply (back_up_fget_neq T); eauto.
  Qed.

  (* ---------- the states a worker hands back ---------- *)

  Lemma update_blob_done (b : blob) : forall (w : world) b',
    files_le w -> Forall (fun e => state_ok_at w (fst e) (snd e)) b -> update_blob teqb hc w b = Ok b' ->
    blob_done w b'.
  Proof.
    induction b as [|[p a] rest IH]; intros w b' Hf Hb; cbn [update_blob].
    - intro H. injection H as <-. constructor.
    - inversion Hb as [|? ? Ha Hrest]; subst. cbn [fst snd] in Ha.
      rewrite (coarse_actual_state_transparent T teqb hc w p a Ha).
      destruct (fget w p) as [f|] eqn:Ef; cbn [option_map]; [|discriminate].
      destruct (update_blob teqb hc w rest) as [b2|e] eqn:E2; [|discriminate].
      intro H. injection H as <-. constructor; [|eapply IH; eauto]. cbn [fst snd]. split.
      + intros g Hg _. cbn [fs_t]. congruence.
      + cbn [fs_mtime]. apply Hf. left. eauto.
  Qed.

  Lemma blob_held_states (w : world) b : blob_held w b -> Forall (fun e => state_ok_at w (fst e) (snd e)) b.
  Proof. apply Forall_impl. intros e [H _]. exact H. Qed.

  (* one rule thread: the clock does not go back, the in-flight invariant is kept, the blob handed back is
     sound for its paths.  No confinement is needed here. *)
  Theorem handle_rule_coarse (w : world) b h st cmd res w' s :
    NoDup (map fst b) -> blob_held w b -> handle_rule teqb hc w b h st cmd = (res, w', s) ->
    w_clock w <= w_clock w' /\ (inflight w -> inflight w') /\
    (inflight w -> forall wr, res = Ok wr -> blob_done w' (wr_blob wr)).
  Proof.
    intros Hnd Hb H. apply (handle_rule_cases T teqb hc) in H.
    destruct (resolved_of T teqb hc w b h st) as [[ress w1]|e] eqn:ER.
    2:{ destruct H as (-> & -> & _). split; [lia|]. split; [auto|]. intros _ wr E. discriminate. }
    destruct (resolved_of_coarse _ _ _ _ _ _ Hnd Hb ER) as (Hc1 & Hi1 & Hb1). cbv zeta in H.
    destruct (needs_rebuild ress).
    - destruct H as (-> & -> & H).
      pose proof (run_script_adv (script_lines cmd) w1) as Hadv.
      pose proof (run_script_inflight (script_lines cmd) w1) as Hi2.
      set (w2 := snd (run_script w1 (script_lines cmd))) in *.
      split; [destruct Hadv as [Hc _]; lia|]. split; [auto|].
      intros Hi wr E. destruct (command_verdict _); [subst res; discriminate|].
      destruct (update_blob teqb hc w2 (forget_replaced hc b ress)) as [b'|p] eqn:EU; [|subst res; discriminate].
      destruct (history_insert teqb h st _ _); subst res; [|discriminate]. injection E as <-. cbn [wr_blob].
      eapply update_blob_done; [|apply blob_held_states; eapply blob_held_adv; eauto | exact EU].
      apply Hi2. auto.
    - destruct H as (_ & -> & H). split; [lia|]. split; [exact Hi1|]. intros Hi wr E.
      destruct (current_tickets teqb hc w1 (forget_replaced hc b ress)); subst res; [|discriminate].
      injection E as <-. cbn [wr_blob]. apply blob_held_done. exact Hb1.
  Qed.

  (* outside the worker's own paths: whatever a (possibly unconfined) command wrote there is fresh *)
  Lemma handle_rule_outside (w : world) b h st cmd res w' s :
    NoDup (map fst b) -> blob_held w b -> handle_rule teqb hc w b h st cmd = (res, w', s) ->
    forall q, ~ In q (map fst b) -> fresh_or_same w w' q.
  Proof.
    intros Hnd Hb H q Hq. apply (handle_rule_cases T teqb hc) in H.
    destruct (resolved_of T teqb hc w b h st) as [[ress w1]|e] eqn:ER.
    2:{ destruct H as (_ & -> & _). apply fresh_or_same_eq. left. reflexivity. }
    destruct (resolved_of_coarse _ _ _ _ _ _ Hnd Hb ER) as (Hc1 & _ & _).
    destruct (resolved_of_frame T teqb hc _ _ _ _ _ _ ER) as [Hf1 _].
    assert (fget w1 q = fget w q) as E1 by (apply (frame_at_fget T _ _ _ _ Hf1 Hq)).
    cbv zeta in H. destruct (needs_rebuild ress).
    - destruct H as (-> & -> & _). destruct (run_script_adv (script_lines cmd) w1) as [_ Hadv].
      intros f' Hf'. destruct (Hadv q f' Hf') as [(f & Hf & Hm & Hcn) | Hnew].
      + left. exists f. rewrite <- E1. auto.
      + right. lia.
    - destruct H as (_ & -> & _). apply fresh_or_same_eq. left. exact E1.
  Qed.

  Lemma tbl_held_transport (w w' : world) (t : table T) :
    w_clock w <= w_clock w' -> (forall q s, alookup bytes_eqb t q = Some s -> fresh_or_same w w' q) ->
    tbl_held w t -> tbl_held w' t.
  Proof. intros Hc Hf Ht q s Hl. eapply held_ok_transport; [exact Hc | eapply Hf; eauto | eapply Ht; eauto]. Qed.

  (* ---------- tables ---------- *)

  Lemma tbl_held_aremove (w : world) t p : tbl_held w t -> tbl_held w (aremove bytes_eqb t p).
  Proof.
    intros H q s Hl. apply (InvProofs.alookup_aremove_some _ beq_spec) in Hl as [_ Hl]. eapply H; eauto.
  Qed.

  (* the blob taken is sound, what is left is sound and no longer mentions the paths taken *)
  Lemma take_blob_held paths : forall (w : world) t b t',
    tbl_held w t -> take_blob T hc t paths = (b, t') ->
    blob_held w b /\ tbl_held w t' /\
    (forall q s, alookup bytes_eqb t' q = Some s -> ~ In q paths /\ alookup bytes_eqb t q = Some s).
  Proof.
    induction paths as [|p rest IH]; intros w t b t' Ht; cbn [take_blob].
    - intro H. injection H as <- <-. split; [constructor|]. split; [exact Ht|]. intros q s Hl. auto.
    - destruct (take_blob T hc (aremove bytes_eqb t p) rest) as [b2 t2] eqn:E2.
      intro H. injection H as <- <-.
      destruct (IH w _ _ _ (tbl_held_aremove _ _ p Ht) E2) as (Hb2 & Ht2 & Hk2).
      split; [|split; [exact Ht2|]].
      + constructor; [|exact Hb2]. cbn [fst snd].
        destruct (alookup bytes_eqb t p) as [s|] eqn:El; [eapply Ht; eauto | apply held_ok_empty].
      + intros q s Hl. destruct (Hk2 q s Hl) as [Hn Hl2].
        apply (InvProofs.alookup_aremove_some _ beq_spec) in Hl2 as [Hne Hl2].
        split; [|exact Hl2]. intros [E | Hin]; [congruence | contradiction].
  Qed.

  Lemma take_blob_keys ps : forall (t : table T) b t1 q s,
    take_blob T hc t ps = (b, t1) -> alookup bytes_eqb t1 q = Some s ->
    ~ In q ps /\ alookup bytes_eqb t q = Some s.
  Proof.
    induction ps as [|p r IHp]; intros t b t1 q s E1 Hl1; cbn [take_blob] in E1.
    - injection E1 as <- <-. auto.
    - destruct (take_blob T hc (aremove bytes_eqb t p) r) as [b2 t2] eqn:E2. injection E1 as <- <-.
      destruct (IHp _ _ _ _ _ E2 Hl1) as [Hn Hl2].
      apply (InvProofs.alookup_aremove_some _ beq_spec) in Hl2 as [Hne Hl2].
      split; [|exact Hl2]. intros [E | Hin]; [congruence | contradiction].
  Qed.

  Lemma take_blobs_keys pss : forall (t : table T) q s,
    alookup bytes_eqb (snd (take_blobs T hc t pss)) q = Some s ->
    (forall ps, In ps pss -> ~ In q ps) /\ alookup bytes_eqb t q = Some s.
  Proof.
    induction pss as [|ps rest IH]; intros t q s; cbn [take_blobs];
      [cbn [snd]; intro H; split; [intros ps []|exact H]|].
    destruct (take_blob T hc t ps) as [b t1] eqn:E1.
    specialize (IH t1 q s). destruct (take_blobs T hc t1 rest) as [bs t2]. cbn [snd] in *.
    intro Hl. destruct (IH Hl) as [Hn Hl1].
    destruct (take_blob_keys _ _ _ _ _ _ E1 Hl1) as [Hq Hl0].
    split; [|exact Hl0]. intros ps' [<- | Hin]; [exact Hq | apply Hn; exact Hin].
  Qed.

  Lemma table_rest_keys (t : table T) pack q s :
    alookup bytes_eqb (table_rest T hc t pack) q = Some s ->
    ~ In q (plan_targets pack) /\ alookup bytes_eqb t q = Some s.
  Proof.
    unfold table_rest. intro Hl. apply take_blobs_keys in Hl as [Hn Hl]. split; [|exact Hl].
    unfold plan_targets. intro Hin. apply in_flat_map in Hin as (n & Hn1 & Hn2).
    apply (Hn (n_targets n)); [|exact Hn2]. unfold worker_paths. apply in_or_app. right.
    apply in_map. exact Hn1.
  Qed.

  Lemma tbl_held_frame (w w' : world) ps t :
    w_clock w <= w_clock w' -> frame_at ps w w' -> (forall q s, alookup bytes_eqb t q = Some s -> ~ In q ps) ->
    tbl_held w t -> tbl_held w' t.
  Proof.
    intros Hc Hf Hk Ht q s Hl. eapply held_ok_eq; [exact Hc | | eapply Ht; eauto].
    left. apply (frame_at_fget T ps); [exact Hf | eapply Hk; eauto].
  Qed.

  Lemma tbl_held_sub (w w' : world) t :
    w_clock w <= w_clock w' -> (forall q, fget w' q = fget w q \/ fget w' q = None) -> tbl_held w t -> tbl_held w' t.
  Proof. intros Hc Hs Ht q s Hl. eapply held_ok_eq; [exact Hc | apply Hs | eapply Ht; eauto]. Qed.

  Lemma tbl_held_done (w : world) t : tbl_held w t -> tbl_done w t.
  Proof. intros H q s Hl. apply held_done. eapply H; eauto. Qed.

  Lemma tbl_done_ainsert (w : world) t p st : tbl_done w t -> done_ok w p st -> tbl_done w (ainsert bytes_eqb t p st).
  Proof.
    intros H Hst q s Hl. apply (InvProofs.alookup_ainsert_some _ beq_spec) in Hl as [[-> ->] | [_ Hl]]; [exact Hst|].
    eapply H; eauto.
  Qed.

  Lemma insert_blob_done b : forall (w : world) t, tbl_done w t -> blob_done w b -> tbl_done w (insert_blob T t b).
  Proof.
    unfold insert_blob. induction b as [|[p st] rest IH]; intros w t Ht Hb; cbn [fold_left]; [exact Ht|].
    inversion Hb as [|? ? Hst Hrest]; subst. apply IH; [|exact Hrest]. cbn [fst snd] in *.
    apply tbl_done_ainsert; auto.
  Qed.

  Lemma tbl_done_ext (w w' : world) t :
    w_files w' = w_files w -> w_clock w' = w_clock w -> tbl_done w t -> tbl_done w' t.
  Proof.
    intros Hf Hc Ht q s Hl. destruct (Ht q s Hl) as [H1 H2]. split; [|rewrite Hc; exact H2].
    eapply state_ok_at_ext; [|exact H1]. unfold fget. rewrite Hf. reflexivity.
  Qed.

  Lemma blob_done_ext (w w' : world) b :
    w_files w' = w_files w -> w_clock w' = w_clock w -> blob_done w b -> blob_done w' b.
  Proof.
    intros Hf Hc. apply Forall_impl. intros e [H1 H2]. split; [|rewrite Hc; exact H2].
    eapply state_ok_at_ext; [|exact H1]. unfold fget. rewrite Hf. reflexivity.
  Qed.

  (* at a quiescent point, the table is sound for a worker to consult *)
  Lemma coarse_inv_tbl_held (w : world) tbl :
    coarse_inv teqb hc w -> rd_table (w_rd w) = Some (SF_ok tbl) -> tbl_held w tbl.
  Proof.
    intros (_ & Hs & _ & Hk) E q s Hl. split; [eapply Hs; eauto|]. right. eapply Hk; eauto.
  Qed.

  Lemma coarse_inv_inflight (w : world) : coarse_inv teqb hc w -> inflight w.
  Proof. intros (Ha & _ & Hf & _). split; [exact Ha|]. intros f Hf'. specialize (Hf f Hf'). lia. Qed.
End Facts.

End CoarseProofs.
