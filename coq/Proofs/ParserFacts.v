(* Facts about Model/Parser.v: the rules-file line machine. *)
From Coq Require Import List Permutation Bool Arith.
From Ruler Require Import Tactics Bytes SortList Bundle RuleSyntax Parser BytesFacts SortListFacts BundleFacts.
Import ListNotations.
Local Open Scope N_scope.

(* ------------------------------------------------------------------------------------------ *)
(* R1: line numbers in errors                                                                  *)
(* ------------------------------------------------------------------------------------------ *)

Lemma is_empty_true l : is_empty l = true <-> l = [].
Proof. destruct l; cbn; split; intros; congruence. Qed.

Lemma is_colon_true l : is_colon l = true <-> l = [COLON].
Proof. unfold is_colon. apply bytes_eqb_eq. Qed.

Lemma finish_rule_ok st st' : finish_rule st = Ok st' -> ps_line st' = S (ps_line st).
Proof.
  unfold finish_rule. intros H.
  destruct (parse_lines (rev (ps_targets st))); [|discriminate].
  destruct (parse_lines (rev (ps_sources st))); [|discriminate].
  injection H as <-. reflexivity.
Qed.

Lemma finish_rule_err st e : finish_rule st = Err e -> exists b, e = BundleError b.
Proof.
  unfold finish_rule. intros H.
  destruct (parse_lines (rev (ps_targets st))); [|injection H as <-; eauto].
  destruct (parse_lines (rev (ps_sources st))); [discriminate|injection H as <-; eauto].
Qed.

Lemma step_line_ok st l st' : step_line st l = Ok st' -> ps_line st' = S (ps_line st).
Proof.
  unfold step_line. intros H.
  destruct (ps_mode st); destruct (is_empty l); try discriminate;
    destruct (is_colon l); try discriminate;
    try (injection H as <-; reflexivity).
  now apply finish_rule_ok.
Qed.

(* the three shapes of an error of one step *)
Lemma step_line_err st l e :
  step_line st l = Err e ->
  (e = UnexpectedEmptyLine (ps_line st) /\ l = []) \/
  (e = UnexpectedExtraColon (ps_line st) /\ l = [COLON]) \/
  (exists b, e = BundleError b).
Proof.
  unfold step_line. intros H.
  destruct (ps_mode st); destruct (is_empty l) eqn:E1; try discriminate;
    try (injection H as <-; left; split; [reflexivity | now apply is_empty_true]);
    destruct (is_colon l) eqn:E2; try discriminate;
    try (injection H as <-; right; left; split; [reflexivity | now apply is_colon_true]).
  right; right. eapply finish_rule_err; eauto.
Qed.

Lemma run_lines_ok_line ls : forall st st',
  run_lines st ls = Ok st' -> ps_line st' = (ps_line st + length ls)%nat.
Proof.
  induction ls as [|l r IH]; intros st st' H; cbn [run_lines length] in *.
  - injection H as <-. lia.
  - destruct (step_line st l) as [st1|e] eqn:E; [|discriminate].
    apply step_line_ok in E. apply IH in H. lia.
Qed.

Lemma run_lines_err ls : forall st e,
  run_lines st ls = Err e ->
  (exists n, e = UnexpectedEmptyLine n /\
             (ps_line st <= n < ps_line st + length ls)%nat /\
             forall d, nth (n - ps_line st) ls d = []) \/
  (exists n, e = UnexpectedExtraColon n /\
             (ps_line st <= n < ps_line st + length ls)%nat /\
             forall d, nth (n - ps_line st) ls d = [COLON]) \/
  (exists b, e = BundleError b).
Proof.
  induction ls as [|l r IH]; intros st e H; cbn [run_lines length] in *; [discriminate|].
  destruct (step_line st l) as [st1|e1] eqn:E.
  - pose proof (step_line_ok _ _ _ E) as Hl. apply IH in H. rewrite Hl in H.
    destruct H as [(n & -> & Hn & Hnth)|[(n & -> & Hn & Hnth)|(b & ->)]].
    + left. exists n. split; [reflexivity|]. split; [lia|]. intros d.
      replace (n - ps_line st)%nat with (S (n - S (ps_line st))) by lia. cbn [nth]. apply Hnth.
    + right; left. exists n. split; [reflexivity|]. split; [lia|]. intros d.
      replace (n - ps_line st)%nat with (S (n - S (ps_line st))) by lia. cbn [nth]. apply Hnth.
    + right; right. eauto.
  - injection H as ->. apply step_line_err in E.
    destruct E as [(-> & ->)|[(-> & ->)|(b & ->)]].
    + left. exists (ps_line st). split; [reflexivity|]. split; [lia|]. intros d.
      rewrite Nat.sub_diag. reflexivity.
    + right; left. exists (ps_line st). split; [reflexivity|]. split; [lia|]. intros d.
      rewrite Nat.sub_diag. reflexivity.
    + right; right. eauto.
Qed.

Lemma finish_err st e :
  finish st = Err e ->
  e = EofMidTargets (ps_line st) \/ e = EofMidSources (ps_line st) \/ e = EofMidCommand (ps_line st).
Proof. unfold finish. destruct (ps_mode st); intros H; [discriminate| | |]; injection H as <-; auto. Qed.

(* Every error of parse, classified, with its line number characterised. *)
Lemma parse_err_cases content e :
  parse content = Err e ->
  let ls := split_on NL content in
  (exists n, e = UnexpectedEmptyLine n /\ (1 <= n <= length ls)%nat /\ forall d, nth (n - 1) ls d = []) \/
  (exists n, e = UnexpectedExtraColon n /\ (1 <= n <= length ls)%nat /\ forall d, nth (n - 1) ls d = [COLON]) \/
  (exists b, e = BundleError b) \/
  (e = EofMidTargets (S (length ls)) \/ e = EofMidSources (S (length ls)) \/ e = EofMidCommand (S (length ls))).
Proof.
  intros H ls. unfold parse in H. fold ls in H.
  destruct (run_lines init_pstate ls) as [st|e1] eqn:E.
  - right; right; right. apply run_lines_ok_line in E. cbn [init_pstate ps_line] in E.
    apply finish_err in H. rewrite E in H. exact H.
  - injection H as ->. apply run_lines_err in E. cbn [init_pstate ps_line] in E.
    destruct E as [(n & -> & Hn & Hnth)|[(n & -> & Hn & Hnth)|(b & ->)]].
    + left. exists n. split; [reflexivity|]. split; [lia|exact Hnth].
    + right; left. exists n. split; [reflexivity|]. split; [lia|exact Hnth].
    + right; right; left. eauto.
Qed.

(* ------------------------------------------------------------------------------------------ *)
(* R2: the fuel of the bundle parser is never exhausted                                        *)
(* ------------------------------------------------------------------------------------------ *)

Lemma finish_rule_no_fuel st : finish_rule st <> Err (BundleError BOutOfFuel).
Proof.
  unfold finish_rule.
  destruct (parse_lines (rev (ps_targets st))) as [tb|e] eqn:E1.
  - destruct (parse_lines (rev (ps_sources st))) as [sb|e] eqn:E2; [discriminate|].
    intros H; injection H as ->. now apply parse_lines_no_fuel in E2.
  - intros H; injection H as ->. now apply parse_lines_no_fuel in E1.
Qed.

Lemma step_line_no_fuel st l : step_line st l <> Err (BundleError BOutOfFuel).
Proof.
  unfold step_line.
  destruct (ps_mode st); destruct (is_empty l); try discriminate;
    destruct (is_colon l); try discriminate.
  apply finish_rule_no_fuel.
Qed.

Lemma run_lines_no_fuel ls : forall st, run_lines st ls <> Err (BundleError BOutOfFuel).
Proof.
  induction ls as [|l r IH]; intros st; cbn [run_lines]; [discriminate|].
  destruct (step_line st l) as [st1|e] eqn:E; [apply IH|].
  intros H; injection H as ->. now apply step_line_no_fuel in E.
Qed.

(* ------------------------------------------------------------------------------------------ *)
(* R3: parse_all over a concatenation                                                          *)
(* ------------------------------------------------------------------------------------------ *)

Lemma parse_all_app cs1 cs2 :
  parse_all (cs1 ++ cs2) =
  match parse_all cs1 with
  | Err e => Err e
  | Ok r1 => match parse_all cs2 with
             | Err e => Err e
             | Ok r2 => Ok (r1 ++ r2)
             end
  end.
Proof.
  induction cs1 as [|c cs1 IH]; cbn [app parse_all].
  - destruct (parse_all cs2); reflexivity.
  - destruct (parse c) as [rs|e]; [|reflexivity].
    rewrite IH. destruct (parse_all cs1) as [r1|e]; [|reflexivity].
    destruct (parse_all cs2) as [r2|e]; [|reflexivity].
    now rewrite app_assoc.
Qed.

(* ------------------------------------------------------------------------------------------ *)
(* R4: round trips                                                                             *)
(* ------------------------------------------------------------------------------------------ *)

Definition clean_line (s : bytes) : Prop := s <> [] /\ ~ In NL s /\ s <> [COLON].
Definition path_line (s : bytes) : Prop := clean_line s /\ hd 0 s <> TAB.
Definition render_rule (r : rule) : list bytes :=
  r_targets r ++ [[COLON]] ++ r_sources r ++ [[COLON]] ++ r_command r ++ [[COLON]].
Definition flat_ok (r : rule) : Prop :=
  r_targets r <> [] /\ r_sources r <> [] /\
  Forall path_line (r_targets r) /\ Forall path_line (r_sources r) /\ Forall clean_line (r_command r).

(* what a flat rule parses to *)
Definition flat_canon (r : rule) : rule :=
  mk_rule (dedup_sort (r_targets r)) (dedup_sort (r_sources r)) (r_command r).

Lemma run_lines_app a : forall st b,
  run_lines st (a ++ b) =
  match run_lines st a with
  | Ok st' => run_lines st' b
  | Err e => Err e
  end.
Proof.
  induction a as [|l a IH]; intros st b; cbn [app run_lines]; [reflexivity|].
  destruct (step_line st l); [apply IH | reflexivity].
Qed.

Lemma clean_not_empty l : clean_line l -> is_empty l = false.
Proof. intros (H & _ & _). destruct l; [contradiction | reflexivity]. Qed.

Lemma clean_not_colon l : clean_line l -> is_colon l = false.
Proof. intros (_ & _ & H). unfold is_colon. now apply bytes_eqb_neq. Qed.

Lemma path_line_clean l : path_line l -> clean_line l.
Proof. intros [H _]; exact H. Qed.

Lemma path_line_unindented l : path_line l -> unindented l.
Proof. intros [(H & _ & _) Hhd]. split; assumption. Qed.

(* ---------- the state machine on well-formed blocks of lines ---------- *)

Lemma run_targets ls : forall rs ts ss cs n,
  Forall clean_line ls ->
  run_lines (mk_pstate Targets rs ts ss cs n) ls =
  Ok (mk_pstate Targets rs (rev ls ++ ts) ss cs (n + length ls)).
Proof.
  induction ls as [|l ls IH]; intros rs ts ss cs n H; cbn [run_lines rev length app].
  - now rewrite Nat.add_0_r.
  - inversion H as [|? ? Hl Hls]; subst.
    unfold step_line; cbn [ps_mode ps_rules ps_targets ps_sources ps_command ps_line].
    rewrite (clean_not_empty _ Hl), (clean_not_colon _ Hl).
    rewrite IH by exact Hls. rewrite <- app_assoc. cbn [app]. do 2 f_equal. lia.
Qed.

Lemma run_sources ls : forall rs ts ss cs n,
  Forall clean_line ls ->
  run_lines (mk_pstate Sources rs ts ss cs n) ls =
  Ok (mk_pstate Sources rs ts (rev ls ++ ss) cs (n + length ls)).
Proof.
  induction ls as [|l ls IH]; intros rs ts ss cs n H; cbn [run_lines rev length app].
  - now rewrite Nat.add_0_r.
  - inversion H as [|? ? Hl Hls]; subst.
    unfold step_line; cbn [ps_mode ps_rules ps_targets ps_sources ps_command ps_line].
    rewrite (clean_not_empty _ Hl), (clean_not_colon _ Hl).
    rewrite IH by exact Hls. rewrite <- app_assoc. cbn [app]. do 2 f_equal. lia.
Qed.

Lemma run_command ls : forall rs ts ss cs n,
  Forall clean_line ls ->
  run_lines (mk_pstate Command rs ts ss cs n) ls =
  Ok (mk_pstate Command rs ts ss (rev ls ++ cs) (n + length ls)).
Proof.
  induction ls as [|l ls IH]; intros rs ts ss cs n H; cbn [run_lines rev length app].
  - now rewrite Nat.add_0_r.
  - inversion H as [|? ? Hl Hls]; subst.
    unfold step_line; cbn [ps_mode ps_rules ps_targets ps_sources ps_command ps_line].
    rewrite (clean_not_empty _ Hl), (clean_not_colon _ Hl).
    rewrite IH by exact Hls. rewrite <- app_assoc. cbn [app]. do 2 f_equal. lia.
Qed.

Definition blanks (k : nat) : list bytes := repeat [] k.

Lemma run_blanks k : forall rs n,
  run_lines (mk_pstate Pending rs [] [] [] n) (blanks k) = Ok (mk_pstate Pending rs [] [] [] (n + k)).
Proof.
  induction k as [|k IH]; intros rs n; cbn [blanks repeat run_lines].
  - now rewrite Nat.add_0_r.
  - unfold step_line; cbn [ps_mode ps_rules ps_targets ps_sources ps_command ps_line is_empty].
    fold (blanks k). rewrite IH. do 2 f_equal. lia.
Qed.

Lemma colon_step m rs ts ss cs n :
  m <> Pending ->
  step_line (mk_pstate m rs ts ss cs n) [COLON] =
  match m with
  | Command => finish_rule (mk_pstate m rs ts ss cs n)
  | Targets => Ok (mk_pstate Sources rs ts ss cs (S n))
  | _ => Ok (mk_pstate Command rs ts ss cs (S n))
  end.
Proof. intros H. destruct m; [contradiction| | |]; reflexivity. Qed.

(* the lines of one rule: three blocks, each closed by a ":" line *)
Definition rule_lines (tl sl cl : list bytes) : list bytes :=
  tl ++ [[COLON]] ++ sl ++ [[COLON]] ++ cl ++ [[COLON]].

(* from Pending, three blocks of clean lines lead to finish_rule on exactly those blocks *)
Lemma run_rule_lines rs tl sl cl n :
  tl <> [] -> Forall clean_line tl -> Forall clean_line sl -> Forall clean_line cl ->
  run_lines (mk_pstate Pending rs [] [] [] n) (rule_lines tl sl cl) =
  finish_rule (mk_pstate Command rs (rev tl) (rev sl) (rev cl) (n + length tl + length sl + length cl + 2)).
Proof.
  intros Hne Ft Fs Fc. unfold rule_lines.
  destruct tl as [|t ts]; [contradiction|].
  cbn [app run_lines]. inversion Ft as [|? ? Hct Hcts]; subst.
  unfold step_line at 1; cbn [ps_mode ps_rules ps_targets ps_sources ps_command ps_line].
  rewrite (clean_not_empty _ Hct), (clean_not_colon _ Hct).
  rewrite run_lines_app, run_targets by exact Hcts.
  cbn [app run_lines]. rewrite colon_step by discriminate.
  rewrite run_lines_app, run_sources by exact Fs.
  cbn [app run_lines]. rewrite colon_step by discriminate.
  rewrite run_lines_app, run_command by exact Fc.
  cbn [app run_lines]. rewrite colon_step by discriminate.
  rewrite !app_nil_r. cbn [rev length].
  match goal with |- match ?x with _ => _ end = ?y => replace y with x; [destruct x; reflexivity|] end.
  do 2 f_equal. lia.
Qed.

(* ---------- files of rules given as blocks of lines ---------- *)

(* the text of one rule: [rt_blank] blank lines, then the three blocks *)
Record rtext := mk_rtext {
  rt_blank : nat; rt_targets : list bytes; rt_sources : list bytes; rt_command : list bytes }.

(* the text x is well formed for the state machine and its path blocks parse (as bundles) to rule r *)
Definition rtext_ok (x : rtext) (r : rule) : Prop :=
  rt_targets x <> [] /\
  Forall clean_line (rt_targets x) /\ Forall clean_line (rt_sources x) /\ Forall clean_line (rt_command x) /\
  exists tb sb,
    parse_lines (rt_targets x) = Ok tb /\ parse_lines (rt_sources x) = Ok sb /\
    r = mk_rule (flatten tb) (flatten sb) (rt_command x).

Fixpoint render_texts (xs : list rtext) : list bytes :=
  match xs with
  | [] => []
  | x :: rest =>
      blanks (rt_blank x) ++ rule_lines (rt_targets x) (rt_sources x) (rt_command x) ++ render_texts rest
  end.

Lemma run_rtext rs x r n :
  rtext_ok x r ->
  exists n', run_lines (mk_pstate Pending rs [] [] [] n)
                       (rule_lines (rt_targets x) (rt_sources x) (rt_command x)) =
             Ok (mk_pstate Pending (r :: rs) [] [] [] n').
Proof.
  intros (Hne & Ft & Fs & Fc & tb & sb & Et & Es & ->).
  rewrite run_rule_lines by assumption.
  unfold finish_rule; cbn [ps_mode ps_rules ps_targets ps_sources ps_command ps_line].
  rewrite !rev_involutive, Et, Es. eexists; reflexivity.
Qed.

Lemma run_rtexts xs : forall rs rs0 n,
  Forall2 rtext_ok xs rs ->
  exists n', run_lines (mk_pstate Pending rs0 [] [] [] n) (render_texts xs) =
             Ok (mk_pstate Pending (rev rs ++ rs0) [] [] [] n').
Proof.
  induction xs as [|x xs IH]; intros rs rs0 n H; inversion H as [|? r ? rs' Hx Hrest]; subst;
    cbn [render_texts rev app].
  - eexists; reflexivity.
  - rewrite run_lines_app, run_blanks, run_lines_app.
    destruct (run_rtext rs0 x r (n + rt_blank x)%nat Hx) as (n1 & E1). rewrite E1.
    destruct (IH rs' (r :: rs0) n1 Hrest) as (n' & E).
    exists n'. rewrite E. rewrite <- app_assoc. reflexivity.
Qed.

Lemma blanks_no_nl k : Forall (fun p => ~ In NL p) (blanks k).
Proof. induction k; cbn [blanks repeat]; constructor; [intros []|assumption]. Qed.

Lemma clean_lines_no_nl ls : Forall clean_line ls -> Forall (fun p => ~ In NL p) ls.
Proof. apply Forall_impl. intros a (_ & H & _); exact H. Qed.

Lemma rule_lines_no_nl tl sl cl :
  Forall clean_line tl -> Forall clean_line sl -> Forall clean_line cl ->
  Forall (fun p => ~ In NL p) (rule_lines tl sl cl).
Proof.
  intros Ft Fs Fc. unfold rule_lines.
  assert (Hc : ~ In NL [COLON]) by (intros [H|[]]; discriminate).
  repeat (apply Forall_app; split); try (constructor; [exact Hc | constructor]);
    now apply clean_lines_no_nl.
Qed.

Lemma rule_lines_nonempty tl sl cl : rule_lines tl sl cl <> [].
Proof. unfold rule_lines. destruct tl; discriminate. Qed.

Lemma render_texts_no_nl xs rs :
  Forall2 rtext_ok xs rs -> Forall (fun p => ~ In NL p) (render_texts xs).
Proof.
  induction 1 as [|x r xs rs (Hne & Ft & Fs & Fc & _) Hrest IH]; cbn [render_texts]; [constructor|].
  apply Forall_app; split; [apply blanks_no_nl|].
  apply Forall_app; split; [now apply rule_lines_no_nl | exact IH].
Qed.

(* The general round trip.  The lines of a file: rules separated (and preceded) by arbitrary numbers of
   blank lines, followed by k blank "lines": k = 0 is a file without final newline, k = 1 a file with a
   final newline, k > 1 a file with trailing blank lines. *)
Theorem roundtrip_general xs rs k :
  Forall2 rtext_ok xs rs ->
  parse (join_with [NL] (render_texts xs ++ blanks k)) = Ok rs.
Proof.
  intros H. unfold parse.
  destruct (render_texts xs ++ blanks k) as [|l0 ls0] eqn:El.
  - (* empty file *)
    apply app_eq_nil in El as [E1 _]. inversion H as [|x r xs' rs' Hx Hrest]; subst; [reflexivity|].
    cbn [render_texts] in E1. apply app_eq_nil in E1 as [_ E1]. apply app_eq_nil in E1 as [E1 _].
    now apply rule_lines_nonempty in E1.
  - rewrite split_join; [|discriminate|].
    + rewrite <- El. rewrite run_lines_app.
      destruct (run_rtexts xs rs [] 1%nat H) as (n' & E). unfold init_pstate. rewrite E.
      rewrite run_blanks. unfold finish; cbn [ps_mode ps_rules].
      rewrite app_nil_r, rev_involutive. reflexivity.
    + rewrite <- El. apply Forall_app; split; [eapply render_texts_no_nl; eauto | apply blanks_no_nl].
Qed.

(* ---------- instance 1: flat rules ---------- *)

Definition flat_text (k : nat) (r : rule) : rtext := mk_rtext k (r_targets r) (r_sources r) (r_command r).

Lemma flat_text_ok k r : flat_ok r -> rtext_ok (flat_text k r) (flat_canon r).
Proof.
  intros (Ht & Hs & Ft & Fs & Fc). unfold rtext_ok, flat_text; cbn [rt_targets rt_sources rt_command].
  split; [exact Ht|]. split; [eapply Forall_impl; [|exact Ft]; apply path_line_clean|].
  split; [eapply Forall_impl; [|exact Fs]; apply path_line_clean|]. split; [exact Fc|].
  exists (map PLeaf (dedup_sort (r_targets r))), (map PLeaf (dedup_sort (r_sources r))).
  split; [|split].
  - apply parse_lines_flat; [exact Ht|]. eapply Forall_impl; [|exact Ft]; apply path_line_unindented.
  - apply parse_lines_flat; [exact Hs|]. eapply Forall_impl; [|exact Fs]; apply path_line_unindented.
  - now rewrite !flatten_leaves.
Qed.

(* several rules: rule i is preceded by k_i >= 0 blank lines *)
Fixpoint render_rules (krs : list (nat * rule)) : list bytes :=
  match krs with
  | [] => []
  | (k, r) :: rest => blanks k ++ render_rule r ++ render_rules rest
  end.

Lemma render_rules_texts krs :
  render_rules krs = render_texts (map (fun p => flat_text (fst p) (snd p)) krs).
Proof.
  induction krs as [|[k r] krs IH]; cbn [render_rules render_texts map fst snd]; [reflexivity|].
  now rewrite IH.
Qed.

Definition render_file (krs : list (nat * rule)) (k : nat) : bytes :=
  join_with [NL] (render_rules krs ++ blanks k).

Theorem flat_roundtrip krs k :
  Forall (fun p => flat_ok (snd p)) krs ->
  parse (render_file krs k) = Ok (map (fun p => flat_canon (snd p)) krs).
Proof.
  intros H. unfold render_file. rewrite render_rules_texts. apply roundtrip_general.
  induction H as [|[k1 r] krs Hr Hrest IH]; cbn [map]; constructor; [|exact IH].
  cbn [fst snd] in *. now apply flat_text_ok.
Qed.

Theorem flat_roundtrip_one r :
  flat_ok r -> parse (join_with [NL] (render_rule r)) = Ok [flat_canon r].
Proof.
  intros H. pose proof (flat_roundtrip [(O, r)] O) as E.
  unfold render_file in E. cbn [render_rules blanks repeat app map snd] in E.
  rewrite !app_nil_r in E. apply E. constructor; [exact H | constructor].
Qed.

(* permuting target lines / source lines of a flat rule does not change the result *)
Lemma flat_ok_perm r r' :
  Permutation (r_targets r) (r_targets r') -> Permutation (r_sources r) (r_sources r') ->
  r_command r = r_command r' -> flat_ok r -> flat_ok r'.
Proof.
  intros Pt Ps Ec (Ht & Hs & Ft & Fs & Fc). repeat split.
  - intros E. rewrite E in Pt. apply Permutation_sym, Permutation_nil in Pt. contradiction.
  - intros E. rewrite E in Ps. apply Permutation_sym, Permutation_nil in Ps. contradiction.
  - eapply Permutation_Forall; eauto.
  - eapply Permutation_Forall; eauto.
  - now rewrite <- Ec.
Qed.

Lemma flat_canon_perm r r' :
  Permutation (r_targets r) (r_targets r') -> Permutation (r_sources r) (r_sources r') ->
  r_command r = r_command r' -> flat_canon r = flat_canon r'.
Proof.
  intros Pt Ps Ec. unfold flat_canon.
  now rewrite (dedup_sort_perm _ _ Pt), (dedup_sort_perm _ _ Ps), Ec.
Qed.

(* ---------- instance 2: rules whose targets and sources are bundles (R5 lifted to parse) ---------- *)

Definition bundled_text (k : nat) (tf sf : list pnode) (cmd : list bytes) : rtext :=
  mk_rtext k (render_forest tf) (render_forest sf) cmd.

Definition bundled_ok (tf sf : list pnode) (cmd : list bytes) : Prop :=
  good_forest tf /\ good_forest sf /\
  Forall clean_line (render_forest tf) /\ Forall clean_line (render_forest sf) /\ Forall clean_line cmd.

Lemma render_forest_nonempty ns : ns <> [] -> render_forest ns <> [].
Proof.
  intros H E. unfold render_forest in E. apply map_eq_nil in E.
  now apply lines_of_forest_nonempty in E.
Qed.

Lemma bundled_text_ok k tf sf cmd :
  bundled_ok tf sf cmd ->
  rtext_ok (bundled_text k tf sf cmd) (mk_rule (flatten (sort_forest tf)) (flatten (sort_forest sf)) cmd).
Proof.
  intros (Gt & Gs & Ft & Fs & Fc). unfold rtext_ok, bundled_text; cbn [rt_targets rt_sources rt_command].
  split; [apply render_forest_nonempty, Gt|]. do 3 (split; [assumption|]).
  exists (sort_forest tf), (sort_forest sf).
  split; [now apply bundle_roundtrip|]. split; [now apply bundle_roundtrip | reflexivity].
Qed.

Theorem bundled_rule_roundtrip tf sf cmd :
  bundled_ok tf sf cmd ->
  parse (join_with [NL] (rule_lines (render_forest tf) (render_forest sf) cmd)) =
  Ok [mk_rule (flatten (sort_forest tf)) (flatten (sort_forest sf)) cmd].
Proof.
  intros H. pose proof (roundtrip_general [bundled_text O tf sf cmd] _ O
                          (Forall2_cons _ _ (bundled_text_ok O tf sf cmd H) (Forall2_nil _))) as E.
  cbn [render_texts bundled_text rt_blank rt_targets rt_sources rt_command blanks repeat app] in E.
  rewrite !app_nil_r in E. exact E.
Qed.

(* ========================================================================================== *)
(* ==== RESULTS ==== *)
(* ========================================================================================== *)

(* R1. The line number in every state-machine error is right (1-based index into split_on NL content):
   an UnexpectedEmptyLine n points at an empty line, an UnexpectedExtraColon n at a ":" line, and the
   three end-of-file errors carry (number of lines) + 1.  (The defaults given to nth are chosen so that an
   out-of-range index could not satisfy the equation by accident; the range is stated as well.) *)
Theorem c14_error_lines : forall content,
  let ls := split_on NL content in
  (forall n, parse content = Err (UnexpectedEmptyLine n) ->
             (1 <= n <= length ls)%nat /\ nth (n - 1) ls [COLON] = []) /\
  (forall n, parse content = Err (UnexpectedExtraColon n) ->
             (1 <= n <= length ls)%nat /\ nth (n - 1) ls [] = [COLON]) /\
  (forall n, parse content = Err (EofMidTargets n) \/ parse content = Err (EofMidSources n) \/
             parse content = Err (EofMidCommand n) -> n = S (length ls)).
Proof.
  intros content ls. split; [|split].
  - intros n H. apply parse_err_cases in H. fold ls in H.
    destruct H as [(m & E & Hm & Hnth)|[(m & E & _)|[(b & E)|[E|[E|E]]]]]; try discriminate.
    injection E as ->. split; [lia | apply Hnth].
  - intros n H. apply parse_err_cases in H. fold ls in H.
    destruct H as [(m & E & _)|[(m & E & Hm & Hnth)|[(b & E)|[E|[E|E]]]]]; try discriminate.
    injection E as ->. split; [lia | apply Hnth].
  - intros n H.
    assert (exists e, parse content = Err e /\
                      (e = EofMidTargets n \/ e = EofMidSources n \/ e = EofMidCommand n)) as (e & He & Hk)
      by (destruct H as [H|[H|H]]; eexists; split; eauto).
    apply parse_err_cases in He. fold ls in He.
    destruct He as [(m & E & _)|[(m & E & _)|[(b & E)|[E|[E|E]]]]]; subst e;
      destruct Hk as [Hk|[Hk|Hk]]; try discriminate; now injection Hk as <-.
Qed.

(* R2. The fuel of the bundle parser is a model artefact: it is never exhausted. *)
Theorem c14_bundle_total : forall ls, parse_lines ls <> Err BOutOfFuel.
Proof. exact parse_lines_no_fuel. Qed.

Theorem c14_total : forall content, parse content <> Err (BundleError BOutOfFuel).
Proof.
  intros content. unfold parse.
  destruct (run_lines init_pstate (split_on NL content)) as [st|e] eqn:E.
  - unfold finish. destruct (ps_mode st); discriminate.
  - intros H; injection H as ->. now apply run_lines_no_fuel in E.
Qed.

(* R3. parse_all over a concatenation of file lists: first error wins, success = concatenation. *)
Theorem c14_parse_all_app : forall cs1 cs2,
  parse_all (cs1 ++ cs2) =
  match parse_all cs1 with
  | Err e => Err e
  | Ok r1 => match parse_all cs2 with
             | Err e => Err e
             | Ok r2 => Ok (r1 ++ r2)
             end
  end.
Proof. exact parse_all_app. Qed.

(* R4. Flat round trip.  dedup_sort (Proofs/BundleFacts.v) is characterised by dedup_sort_spec:
   dedup_sort l is THE strictly increasing list with the same elements as l;
   on duplicate-free l it is sort bytes_leb l (dedup_sort_NoDup_sort). *)
Theorem c14_flat_roundtrip_one : forall r, flat_ok r ->
  parse (join_with [NL] (render_rule r)) =
  Ok [mk_rule (dedup_sort (r_targets r)) (dedup_sort (r_sources r)) (r_command r)].
Proof. exact flat_roundtrip_one. Qed.

(* Several flat rules: rule i preceded by k_i >= 0 blank lines (so: optional leading blank lines and any
   number of separating blank lines), then k trailing blank "lines" (k = 0: no final newline, k = 1: final
   newline, k > 1: trailing blank lines). *)
Theorem c14_flat_roundtrip : forall (krs : list (nat * rule)) (k : nat),
  Forall (fun p => flat_ok (snd p)) krs ->
  parse (join_with [NL] (render_rules krs ++ blanks k)) =
  Ok (map (fun p => mk_rule (dedup_sort (r_targets (snd p))) (dedup_sort (r_sources (snd p)))
                            (r_command (snd p))) krs).
Proof. exact flat_roundtrip. Qed.

(* Permuting the target lines and/or the source lines of a flat rule does not change the parse result. *)
Theorem c14_line_order_irrelevant : forall r r',
  flat_ok r ->
  Permutation (r_targets r) (r_targets r') -> Permutation (r_sources r) (r_sources r') ->
  r_command r = r_command r' ->
  parse (join_with [NL] (render_rule r')) = parse (join_with [NL] (render_rule r)).
Proof.
  intros r r' Hok Pt Ps Ec.
  rewrite (flat_roundtrip_one r Hok), (flat_roundtrip_one r' (flat_ok_perm r r' Pt Ps Ec Hok)).
  now rewrite (flat_canon_perm r r' Pt Ps Ec).
Qed.

(* R5. Bundled round trip: a forest with non-empty names not starting with a tab, non-empty directories
   and pairwise distinct sibling names, rendered with tab indentation, parses to the same forest with
   every level sorted by name. *)
Theorem c14_bundle_roundtrip : forall ns,
  good_forest ns -> parse_lines (render_forest ns) = Ok (sort_forest ns).
Proof. exact bundle_roundtrip. Qed.

(* Extras. *)

(* R5 lifted through the line machine: one rule whose targets and sources are bundles. *)
Theorem c14_bundled_rule_roundtrip : forall tf sf cmd,
  bundled_ok tf sf cmd ->
  parse (join_with [NL] (rule_lines (render_forest tf) (render_forest sf) cmd)) =
  Ok [mk_rule (flatten (sort_forest tf)) (flatten (sort_forest sf)) cmd].
Proof. exact bundled_rule_roundtrip. Qed.

(* The general form behind R4/R5: any file made of rule texts whose blocks consist of clean lines and
   whose path blocks are accepted by the bundle parser, with arbitrary blank lines between rules. *)
Theorem c14_roundtrip_general : forall xs rs k,
  Forall2 rtext_ok xs rs -> parse (join_with [NL] (render_texts xs ++ blanks k)) = Ok rs.
Proof. exact roundtrip_general. Qed.

(* Sorting the levels only reorders the paths a forest denotes (so the rule obtained from a bundled text
   has exactly the paths of the forest that was rendered). *)
Theorem c14_bundle_paths_preserved : forall ns, Permutation (flatten (sort_forest ns)) (flatten ns).
Proof. exact flatten_sort_forest_perm. Qed.

