(* Facts about the build-level model (Model/World, Cmdlang, Work, Build): frame property (C09),
   commands at most once (C02), truthful status lines (C20), contradiction (C17), clean (C10). *)
From Ruler Require Import Tactics Bytes AList RuleSyntax TopoSort World Cmdlang Work Build Ops BuildSpec
     BytesFacts TableFrame.
From Coq Require Import Sorted.
Local Open Scope nat_scope.

(* ---------- association lists ---------- *)

Section AListFacts.
  Context {K V : Type}.
  Variable eqb : K -> K -> bool.
  Hypothesis eqb_spec : forall a b, eqb a b = true <-> a = b.

  Lemma eqb_spec_refl a : eqb a a = true.
  Proof. apply eqb_spec; reflexivity. Qed.

  Lemma eqb_spec_false a b : a <> b -> eqb a b = false.
  Proof.
    intro H. destruct (eqb a b) eqn:E; [|reflexivity]. apply eqb_spec in E. contradiction.
  Qed.

  Lemma eqb_spec_false_inv a b : eqb a b = false -> a <> b.
  Proof. intros H E. apply eqb_spec in E. congruence. Qed.

  Lemma alookup_ainsert_eq (m : amap K V) k v : alookup eqb (ainsert eqb m k v) k = Some v.
  Proof.
    induction m as [|[k0 v0] r IH]; cbn [ainsert alookup].
    - rewrite eqb_spec_refl; reflexivity.
    - destruct (eqb k k0) eqn:E; cbn [alookup].
      + rewrite eqb_spec_refl; reflexivity.
      + rewrite E. exact IH.
  Qed.

  Lemma alookup_ainsert_neq (m : amap K V) k k' v :
    k <> k' -> alookup eqb (ainsert eqb m k v) k' = alookup eqb m k'.
  Proof.
    intro Hne. assert (eqb k' k = false) as Hf by (apply eqb_spec_false; congruence).
    induction m as [|[k0 v0] r IH]; cbn [ainsert alookup].
    - rewrite Hf; reflexivity.
    - destruct (eqb k k0) eqn:E; cbn [alookup].
      + apply eqb_spec in E; subst k0. rewrite Hf; reflexivity.
      + destruct (eqb k' k0); [reflexivity | exact IH].
  Qed.

  Lemma alookup_aremove_eq (m : amap K V) k : alookup eqb (aremove eqb m k) k = None.
  Proof.
    induction m as [|[k0 v0] r IH]; cbn [aremove alookup]; [reflexivity|].
    destruct (eqb k k0) eqn:E; [exact IH|]. cbn [alookup]. rewrite E. exact IH.
  Qed.

  Lemma alookup_aremove_neq (m : amap K V) k k' :
    k <> k' -> alookup eqb (aremove eqb m k) k' = alookup eqb m k'.
  Proof.
    intro Hne.
    induction m as [|[k0 v0] r IH]; cbn [aremove alookup]; [reflexivity|].
    destruct (eqb k k0) eqn:E.
    - apply eqb_spec in E; subst k0. rewrite (eqb_spec_false k' k) by congruence. exact IH.
    - cbn [alookup]. destruct (eqb k' k0); [reflexivity | exact IH].
  Qed.

  Lemma alookup_app_none (m m' : amap K V) k :
    alookup eqb m k = None -> alookup eqb (m ++ m') k = alookup eqb m' k.
  Proof.
    induction m as [|[k0 v0] r IH]; cbn [app alookup]; [reflexivity|].
    destruct (eqb k k0); [discriminate | exact IH].
  Qed.

  Lemma alookup_app_some (m m' : amap K V) k v :
    alookup eqb m k = Some v -> alookup eqb (m ++ m') k = Some v.
  Proof.
    induction m as [|[k0 v0] r IH]; cbn [app alookup]; [discriminate|].
    destruct (eqb k k0); [auto | exact IH].
  Qed.
End AListFacts.

(* ---------- a checker for confinement (for examples and for instantiating the frame theorems) ---------- *)

Definition confinedb (targets : list bytes) (script : list bytes) : bool :=
  forallb (fun line => match line_writes line with
                       | None => true
                       | Some p => existsb (bytes_eqb p) targets
                       end) script.

Lemma confinedb_sound targets script : confinedb targets script = true -> confined targets script.
Proof.
  unfold confinedb, confined. intros H line p Hin Hw.
  rewrite forallb_forall in H. specialize (H line Hin). rewrite Hw in H.
  apply existsb_exists in H as (q & Hq & E). apply bytes_eqb_eq in E. subst q. exact Hq.
Qed.

Definition node_confinedb (n : node) : bool := confinedb (n_targets n) (script_lines (n_command n)).

Lemma nodes_confinedb_sound ns : forallb node_confinedb ns = true -> Forall node_confined ns.
Proof.
  intro H. rewrite forallb_forall in H. apply Forall_forall. intros n Hn.
  apply confinedb_sound. apply H. exact Hn.
Qed.

Section Facts.
  Variable T : Type.
  Variable teqb : T -> T -> bool.
  Variable hc : bytes -> T.
  Variable hl : list T -> T.
  Variable hr : rule -> T.
  Hypothesis teqb_spec : forall a b, teqb a b = true <-> a = b.

  Notation world := (world T).
  Notation fstate := (fstate T).
  Notation blob := (blob T).
  Notation history := (World.history T).
  Notation run_state := (run_state T).
  Notation join_state := (join_state T).
  Notation work_result := (work_result T).
  Notation thread_result := (thread_result T).

  (* ---------- primitive file operations ---------- *)

  Definition hist_of (w : world) := rd_hist (w_rd w).

  Lemma fget_set_files (w : world) fs p : fget (set_files w fs) p = alookup bytes_eqb fs p.
  Proof. reflexivity. Qed.

  Lemma fget_set_rd (w : world) rd p : fget (set_rd w rd) p = fget w p.
  Proof. reflexivity. Qed.

  Lemma fget_write_file_neq (w : world) p c q : q <> p -> fget (write_file w p c) q = fget w q.
  Proof.
    intro Hne. unfold write_file, stamp. destruct (w_mode w); cbn; unfold fget; cbn;
      apply (alookup_ainsert_neq bytes_eqb bytes_eqb_eq); congruence.
  Qed.

  Lemma w_rd_write_file (w : world) p c : w_rd (write_file w p c) = w_rd w.
  Proof. unfold write_file, stamp. destruct (w_mode w); reflexivity. Qed.

  Lemma fget_remove_file_neq (w : world) p q : q <> p -> fget (remove_file w p) q = fget w q.
  Proof.
    intro Hne. unfold remove_file. rewrite fget_set_files.
    apply (alookup_aremove_neq bytes_eqb bytes_eqb_eq); congruence.
  Qed.

  Lemma fget_remove_file_eq (w : world) p : fget (remove_file w p) p = None.
  Proof.
    unfold remove_file. rewrite fget_set_files. apply alookup_aremove_eq.
  Qed.

  Lemma fget_set_exec_neq (w : world) p x q : q <> p -> fget (set_exec w p x) q = fget w q.
  Proof.
    intro Hne. unfold set_exec. destruct (fget w p) as [f|]; [|reflexivity].
    rewrite fget_set_files. apply (alookup_ainsert_neq bytes_eqb bytes_eqb_eq); congruence.
  Qed.

  Lemma w_rd_set_exec (w : world) p x : w_rd (set_exec w p x) = w_rd w.
  Proof. unfold set_exec. destruct (fget w p); reflexivity. Qed.

  (* ---------- the command language ---------- *)

  Lemma run_line_frame (w : world) line :
    w_rd (snd (run_line w line)) = w_rd w /\
    forall q, line_writes line <> Some q -> fget (snd (run_line w line)) q = fget w q.
  Proof.
    unfold run_line, line_writes.
    destruct (tokens line) as [|op args]; [split; reflexivity|].
    destruct (bytes_eqb op [116; 114; 117; 101]%N) eqn:Etrue; [split; reflexivity|].
    destruct (bytes_eqb op [102; 97; 105; 108]%N) eqn:Efail; [split; reflexivity|].
    destruct (bytes_eqb op [103; 101; 110]%N) eqn:Egen.
    { destruct args as [|out pieces]; [split; reflexivity|].
      destruct (gather w pieces) as [e|d]; [split; reflexivity|]. cbn [snd]. split.
      - apply w_rd_write_file.
      - intros q Hq. apply fget_write_file_neq. congruence. }
    destruct (bytes_eqb op [99; 104; 109; 111; 100]%N) eqn:Echmod.
    { destruct args as [|p [|p2 args]]; try (split; reflexivity).
      destruct (fget w p) as [f|] eqn:Ef; [|split; reflexivity]. cbn [snd]. split.
      - apply w_rd_set_exec.
      - intros q Hq. apply fget_set_exec_neq. congruence. }
    destruct (bytes_eqb op [114; 109]%N) eqn:Erm.
    { destruct args as [|p [|p2 args]]; try (split; reflexivity). cbn [snd]. split.
      - reflexivity.
      - intros q Hq. apply fget_remove_file_neq. congruence. }
    split; reflexivity.
  Qed.

  Lemma run_script_frame lines : forall (w : world),
    w_rd (snd (run_script w lines)) = w_rd w /\
    forall q, (forall line, In line lines -> line_writes line <> Some q) ->
              fget (snd (run_script w lines)) q = fget w q.
  Proof.
    induction lines as [|l r IH]; intro w; cbn [run_script].
    - split; reflexivity.
    - destruct (run_line w l) as [code w1] eqn:E1.
      destruct (run_script w1 r) as [codes w2] eqn:E2. cbn [snd].
      destruct (run_line_frame w l) as [Hrd1 Hf1]. rewrite E1 in Hrd1, Hf1. cbn [snd] in Hrd1, Hf1.
      destruct (IH w1) as [Hrd2 Hf2]. rewrite E2 in Hrd2, Hf2. cbn [snd] in Hrd2, Hf2. split.
      + congruence.
      + intros q Hq. rewrite Hf2, Hf1; auto.
        * apply Hq. left; reflexivity.
        * intros line Hin. apply Hq. right; exact Hin.
  Qed.

  Lemma run_script_length lines : forall (w : world), length (fst (run_script w lines)) = length lines.
  Proof.
    induction lines as [|l r IH]; intro w; cbn [run_script]; [reflexivity|].
    destruct (run_line w l) as [code w1]. specialize (IH w1).
    destruct (run_script w1 r) as [codes w2]. cbn [fst length] in *. congruence.
  Qed.

  (* ---------- Work: what the primitives may change ---------- *)

  (* w' differs from w at most in the files at the paths ps, in the cache, the table and the clock;
     the history directory is as it was *)
  Definition frame_at (ps : list bytes) (w w' : world) : Prop :=
    hist_of w' = hist_of w /\ forall q, ~ In q ps -> fget w' q = fget w q.

  Lemma frame_at_refl ps w : frame_at ps w w.
  Proof. split; reflexivity. Qed.

  Lemma frame_at_trans ps w1 w2 w3 : frame_at ps w1 w2 -> frame_at ps w2 w3 -> frame_at ps w1 w3.
  Proof.
    intros [H1 F1] [H2 F2]. split; [congruence|]. intros q Hq. rewrite F2, F1; auto.
  Qed.

  Lemma frame_at_mono ps ps' w w' : incl ps ps' -> frame_at ps w w' -> frame_at ps' w w'.
  Proof. intros Hi [H1 F1]. split; [exact H1|]. intros q Hq. apply F1. intro Hin. apply Hq, Hi, Hin. Qed.

  Lemma frame_at_fget ps w w' q : frame_at ps w w' -> ~ In q ps -> fget w' q = fget w q.
  Proof. intros [_ F] Hq. apply F, Hq. Qed.

  Lemma back_up_spec (w : world) t p w' :
    back_up teqb w t p = Some w' ->
    exists c f, cache_of w = Some c /\ fget w p = Some f /\
                w' = set_cache (remove_file w p) (ainsert teqb c t f).
  Proof.
    unfold back_up. destruct (cache_of w) as [c|]; [|discriminate].
    destruct (fget w p) as [f|]; [|discriminate]. intro H; injection H as <-.
    exists c, f. auto.
  Qed.

  Lemma back_up_frame (w : world) t p w' : back_up teqb w t p = Some w' -> frame_at [p] w w'.
  Proof.
    intro H. apply back_up_spec in H as (c & f & Hc & Hf & ->). split; [reflexivity|].
    intros q Hq. change (fget (remove_file w p) q = fget w q). apply fget_remove_file_neq.
    intro E; apply Hq; left; congruence.
  Qed.

  Lemma back_up_fget_eq (w : world) t p w' : back_up teqb w t p = Some w' -> fget w' p = None.
  Proof.
    intro H. apply back_up_spec in H as (c & f & Hc & Hf & ->).
    change (fget (remove_file w p) p = None). apply fget_remove_file_eq.
  Qed.

  Lemma back_up_fget_neq (w : world) t p w' q :
    back_up teqb w t p = Some w' -> q <> p -> fget w' q = fget w q.
  Proof.
    intros H Hne. apply (frame_at_fget [p] w w' q (back_up_frame _ _ _ _ H)).
    intros [E|[]]; congruence.
  Qed.

  Lemma restore_spec (w : world) t p w' :
    restore teqb w t p = RDone w' ->
    exists c f, cache_of w = Some c /\ alookup teqb c t = Some f /\
                w' = set_cache (set_files w (ainsert bytes_eqb (w_files w) p f)) (aremove teqb c t).
  Proof.
    unfold restore. destruct (cache_of w) as [c|]; [|discriminate].
    destruct (alookup teqb c t) as [f|] eqn:Ef; [|discriminate]. intro H; injection H as <-.
    exists c, f. auto.
  Qed.

  Lemma restore_frame (w : world) t p w' : restore teqb w t p = RDone w' -> frame_at [p] w w'.
  Proof.
    intro H. apply restore_spec in H as (c & f & Hc & Hf & ->). split; [reflexivity|].
    intros q Hq. change (alookup bytes_eqb (ainsert bytes_eqb (w_files w) p f) q = fget w q).
    apply (alookup_ainsert_neq bytes_eqb bytes_eqb_eq). intro E; apply Hq; left; congruence.
  Qed.

  Lemma restore_fget_eq (w : world) t p w' :
    restore teqb w t p = RDone w' ->
    exists c, cache_of w = Some c /\ fget w' p = alookup teqb c t /\ fget w' p <> None.
  Proof.
    intro H. apply restore_spec in H as (c & f & Hc & Hf & ->). exists c. split; [exact Hc|].
    change (fget _ p) with (alookup bytes_eqb (ainsert bytes_eqb (w_files w) p f) p).
    rewrite (alookup_ainsert_eq bytes_eqb bytes_eqb_eq). rewrite Hf. split; [reflexivity | discriminate].
  Qed.

  Lemma restore_or_rebuild_frame (w : world) t p res w' :
    restore_or_rebuild T teqb w t p = Ok (res, w') -> frame_at [p] w w'.
  Proof.
    unfold restore_or_rebuild. destruct (restore teqb w t p) as [w1| |] eqn:E; intro H;
      try discriminate; injection H as <- <-.
    - eapply restore_frame; eauto.
    - apply frame_at_refl.
  Qed.

  Lemma resolve_single_frame (w : world) r p a res w' :
    resolve_single teqb hc w r p a = Ok (res, w') -> frame_at [p] w w'.
  Proof.
    unfold resolve_single. destruct (get_file_ticket teqb hc w p a) as [cur|].
    - destruct (teqb r cur).
      + intro H; injection H as <- <-. apply frame_at_refl.
      + destruct (back_up teqb w cur p) as [w1|] eqn:Eb; [|discriminate]. intro H.
        eapply frame_at_trans; [eapply back_up_frame; eauto | eapply restore_or_rebuild_frame; eauto].
    - apply restore_or_rebuild_frame.
  Qed.

  Lemma frame_at_cons p ps w w' : frame_at [p] w w' -> frame_at (p :: ps) w w'.
  Proof. apply frame_at_mono. intros x [<-|[]]. left; reflexivity. Qed.

  Lemma frame_at_tail p ps w w' : frame_at ps w w' -> frame_at (p :: ps) w w'.
  Proof. apply frame_at_mono. intros x Hx. right; exact Hx. Qed.

  Lemma resolve_remembered_frame (b : blob) : forall (w : world) rem ress w',
    resolve_remembered teqb hc w b rem = Ok (ress, w') ->
    frame_at (map fst b) w w' /\ length ress = length b.
  Proof.
    induction b as [|[p a] rest IH]; intros w rem ress w'; cbn [resolve_remembered map fst].
    - intro H; injection H as <- <-. split; [apply frame_at_refl | reflexivity].
    - destruct rem as [|r rrest]; [discriminate|].
      destruct (resolve_single teqb hc w (fs_t r) p a) as [[res w1]|e] eqn:E1; [|discriminate].
      destruct (resolve_remembered teqb hc w1 rest rrest) as [[ress' w2]|e] eqn:E2; [|discriminate].
      intro H; injection H as <- <-. apply IH in E2 as [F2 L2]. split.
      + eapply frame_at_trans; [apply frame_at_cons; eapply resolve_single_frame; eauto
                               | apply frame_at_tail; exact F2].
      + cbn [length]. congruence.
  Qed.

  Lemma resolve_fresh_frame (b : blob) : forall (w : world) ress w',
    resolve_fresh teqb hc w b = Ok (ress, w') ->
    frame_at (map fst b) w w' /\ ress = repeat NeedsRebuild (length b).
  Proof.
    induction b as [|[p a] rest IH]; intros w ress w'; cbn [resolve_fresh map fst].
    - intro H; injection H as <- <-. split; [apply frame_at_refl | reflexivity].
    - destruct (get_file_ticket teqb hc w p a) as [cur|].
      + destruct (back_up teqb w cur p) as [w1|] eqn:Eb; [|discriminate].
        destruct (resolve_fresh teqb hc w1 rest) as [[ress' w2]|e] eqn:E2; [|discriminate].
        intro H; injection H as <- <-. apply IH in E2 as [F2 L2]. split.
        * eapply frame_at_trans; [apply frame_at_cons; eapply back_up_frame; eauto
                                 | apply frame_at_tail; exact F2].
        * cbn [length repeat]. congruence.
      + destruct (resolve_fresh teqb hc w rest) as [[ress' w2]|e] eqn:E2; [|discriminate].
        intro H; injection H as <- <-. apply IH in E2 as [F2 L2]. split.
        * apply frame_at_tail; exact F2.
        * cbn [length repeat]. congruence.
  Qed.

  Lemma clean_targets_frame (b : blob) : forall (w w' : world),
    clean_targets teqb hc w b = Ok w' -> frame_at (map fst b) w w'.
  Proof.
    induction b as [|[p a] rest IH]; intros w w'; cbn [clean_targets map fst].
    - intro H; injection H as <-. apply frame_at_refl.
    - destruct (get_file_ticket teqb hc w p a) as [cur|].
      + destruct (back_up teqb w cur p) as [w1|] eqn:Eb; [|discriminate]. intro H.
        eapply frame_at_trans; [apply frame_at_cons; eapply back_up_frame; eauto
                               | apply frame_at_tail; apply IH; exact H].
      + intro H. apply frame_at_tail, IH, H.
  Qed.

  Lemma run_script_frame_at (w : world) lines targets :
    confined targets lines -> frame_at targets w (snd (run_script w lines)).
  Proof.
    intro Hc. destruct (run_script_frame lines w) as [Hrd Hf]. split.
    - unfold hist_of. rewrite Hrd. reflexivity.
    - intros q Hq. apply Hf. intros line Hin E. apply Hq. eapply Hc; eauto.
  Qed.

  (* ---------- handle_rule, case by case ---------- *)

  Definition resolved_of (w : world) (b : blob) (h : history) (st : T) :=
    match alookup teqb h st with
    | Some rem => resolve_remembered teqb hc w b rem
    | None => resolve_fresh teqb hc w b
    end.

  Lemma resolved_of_frame (w : world) b h st ress w1 :
    resolved_of w b h st = Ok (ress, w1) -> frame_at (map fst b) w w1 /\ length ress = length b.
  Proof.
    unfold resolved_of. destruct (alookup teqb h st) as [rem|].
    - apply resolve_remembered_frame.
    - intro H. apply resolve_fresh_frame in H as [F ->]. split; [exact F | apply repeat_length].
  Qed.

  Lemma forget_replaced_fst (b : blob) : forall ress, map fst (forget_replaced hc b ress) = map fst b.
  Proof.
    induction b as [|[p a] rest IH]; intros [|r ress]; cbn [forget_replaced map fst]; try reflexivity.
    f_equal. apply IH.
  Qed.

  Lemma forget_replaced_length (b : blob) ress : length (forget_replaced hc b ress) = length b.
  Proof. rewrite <- (map_length fst), forget_replaced_fst, map_length. reflexivity. Qed.

  Lemma handle_rule_cases (w : world) b h st cmd res w' s :
    handle_rule teqb hc w b h st cmd = (res, w', s) ->
    match resolved_of w b h st with
    | Err e => res = Err e /\ w' = w /\ s = []
    | Ok (ress, w1) =>
        let fb := forget_replaced hc b ress in
        if needs_rebuild ress then
          s = script_lines cmd /\ w' = snd (run_script w1 s) /\
          match command_verdict (fst (run_script w1 s)) with
          | Some e => res = Err e
          | None =>
              match update_blob teqb hc w' fb with
              | Err p => res = Err (WTargetNotGenerated p)
              | Ok b' =>
                  match history_insert teqb h st (map (fun e => fs_t (snd e)) b') (map fst fb) with
                  | Err e => res = Err e
                  | Ok h' => res = Ok (mk_wr (map (fun e => fs_t (snd e)) b') b' CommandExecuted (Some h'))
                  end
              end
          end
        else
          s = [] /\ w' = w1 /\
          match current_tickets teqb hc w1 fb with
          | Err p => res = Err (WFileNotFound p)
          | Ok ts => res = Ok (mk_wr ts fb (Resolutions ress) (Some h))
          end
    end.
  Proof.
    intro H. unfold handle_rule in H. cbv zeta in H.
    change (match alookup teqb h st with
            | Some remembered => resolve_remembered teqb hc w b remembered
            | None => resolve_fresh teqb hc w b
            end) with (resolved_of w b h st) in H.
    destruct (resolved_of w b h st) as [[ress w1]|e].
    2:{ injection H as <- <- <-. auto. }
    cbv zeta. set (fb := forget_replaced hc b ress) in *.
    destruct (needs_rebuild ress).
    - destruct (run_script w1 (script_lines cmd)) as [codes w2] eqn:ERS.
      destruct (command_verdict codes) as [e|] eqn:ECV.
      { injection H as <- <- <-. rewrite ERS. cbn [fst snd]. rewrite ECV. auto. }
      destruct (update_blob teqb hc w2 fb) as [b'|p] eqn:EUB.
      2:{ injection H as <- <- <-. rewrite ERS. cbn [fst snd]. rewrite ECV, EUB. auto. }
      destruct (history_insert teqb h st (map (fun e => fs_t (snd e)) b') (map fst fb)) as [h'|e] eqn:EHI.
      + injection H as <- <- <-. rewrite ERS. cbn [fst snd]. rewrite ECV, EUB, EHI. auto.
      + injection H as <- <- <-. rewrite ERS. cbn [fst snd]. rewrite ECV, EUB, EHI. auto.
    - destruct (current_tickets teqb hc w1 fb) as [ts|p] eqn:ECT.
      + injection H as <- <- <-. auto.
      + injection H as <- <- <-. auto.
  Qed.

  (* the world after handle_rule: only the rule's targets may differ (commands confined) *)
  Lemma handle_rule_frame (w : world) b h st cmd res w' s :
    handle_rule teqb hc w b h st cmd = (res, w', s) ->
    confined (map fst b) (script_lines cmd) ->
    frame_at (map fst b) w w'.
  Proof.
    intros H Hc. apply handle_rule_cases in H.
    destruct (resolved_of w b h st) as [[ress w1]|e] eqn:ER.
    2:{ destruct H as (_ & -> & _). apply frame_at_refl. }
    apply resolved_of_frame in ER as [F1 _].
    destruct (needs_rebuild ress).
    - destruct H as (-> & -> & _). eapply frame_at_trans; [exact F1|].
      apply run_script_frame_at. exact Hc.
    - destruct H as (_ & -> & _). exact F1.
  Qed.

  (* the executed script: all of it, or nothing *)
  Lemma handle_rule_script (w : world) b h st cmd res w' s :
    handle_rule teqb hc w b h st cmd = (res, w', s) -> s = script_lines cmd \/ s = [].
  Proof.
    intro H. apply handle_rule_cases in H.
    destruct (resolved_of w b h st) as [[ress w1]|e].
    2:{ destruct H as (_ & _ & ->). auto. }
    destruct (needs_rebuild ress).
    - destruct H as (-> & _). auto.
    - destruct H as (-> & _). auto.
  Qed.

  (* ---------- run_node, run_nodes ---------- *)

  Lemma take_blob_fst paths : forall t, map fst (fst (take_blob T hc t paths)) = paths.
  Proof.
    induction paths as [|p rest IH]; intro t; cbn [take_blob]; [reflexivity|].
    specialize (IH (aremove bytes_eqb t p)).
    destruct (take_blob T hc (aremove bytes_eqb t p) rest) as [b t'].
    cbn [fst map] in *. congruence.
  Qed.

  Lemma run_leaf_world st leaf : rs_world T (run_leaf T teqb hc st leaf) = rs_world T st.
  Proof.
    unfold run_leaf. destruct (take_blob T hc (rs_table T st) [leaf]) as [b t'].
    destruct (handle_leaf teqb hc (rs_world T st) b); reflexivity.
  Qed.

  Lemma run_leaf_commands st leaf : rs_commands T (run_leaf T teqb hc st leaf) = rs_commands T st.
  Proof.
    unfold run_leaf. destruct (take_blob T hc (rs_table T st) [leaf]) as [b t'].
    destruct (handle_leaf teqb hc (rs_world T st) b); reflexivity.
  Qed.

  Lemma run_leaves_world leaves : forall st,
    rs_world T (fold_left (run_leaf T teqb hc) leaves st) = rs_world T st.
  Proof.
    induction leaves as [|l r IH]; intro st; cbn [fold_left]; [reflexivity|].
    rewrite IH. apply run_leaf_world.
  Qed.

  Lemma run_leaves_commands leaves : forall st,
    rs_commands T (fold_left (run_leaf T teqb hc) leaves st) = rs_commands T st.
  Proof.
    induction leaves as [|l r IH]; intro st; cbn [fold_left]; [reflexivity|].
    rewrite IH. apply run_leaf_commands.
  Qed.

  Notation run_node := (run_node T teqb hc hl hr).
  Notation run_nodes := (run_nodes T teqb hc hl hr).

  (* one node: the world moves only at the node's targets; the commands grow by the node's whole
     script or not at all; exactly one result is appended *)
  Lemma run_node_spec st n st' :
    run_node st n = Some st' ->
    (node_confined n -> frame_at (n_targets n) (rs_world T st) (rs_world T st')) /\
    (exists flag : bool,
        rs_commands T st' = rs_commands T st ++ (if flag then script_lines (n_command n) else [])) /\
    (exists tr, rs_results T st' = rs_results T st ++ [(Some (n_rule n), tr)]) /\
    rs_leaf_sent T st' = rs_leaf_sent T st.
  Proof.
    unfold Build.run_node.
    pose proof (take_blob_fst (n_targets n) (rs_table T st)) as Hb.
    destruct (take_blob T hc (rs_table T st) (n_targets n)) as [b t']. cbn [fst] in Hb.
    destruct (read_history T teqb hr (rs_world T st) (n_rule n)) as [h|]; [|discriminate].
    destruct (all_some _) as [tickets|].
    2:{ intro H; injection H as <-. cbn. split; [|split; [|split]].
        - intros _; apply frame_at_refl.
        - exists false. rewrite app_nil_r; reflexivity.
        - eexists; reflexivity.
        - reflexivity. }
    destruct (handle_rule teqb hc (rs_world T st) b h (hl tickets) (n_command n)) as [[res w'] s] eqn:EH.
    assert (node_confined n -> frame_at (n_targets n) (rs_world T st) w') as HF.
    { intro Hc. rewrite <- Hb. eapply handle_rule_frame; eauto. rewrite Hb. exact Hc. }
    assert (exists flag : bool, s = if flag then script_lines (n_command n) else []) as [flag Hs].
    { apply handle_rule_script in EH as [->| ->]; [exists true | exists false]; reflexivity. }
    destruct res as [wr|e]; intro H; injection H as <-; cbn; (split; [|split; [|split]]);
      try exact HF; try (exists flag; congruence); try (eexists; reflexivity); reflexivity.
  Qed.

  Lemma handle_rule_hist (w : world) b h st cmd res w' s :
    handle_rule teqb hc w b h st cmd = (res, w', s) -> hist_of w' = hist_of w.
  Proof.
    intro H. apply handle_rule_cases in H.
    destruct (resolved_of w b h st) as [[ress w1]|e] eqn:ER.
    2:{ destruct H as (_ & -> & _). reflexivity. }
    apply resolved_of_frame in ER as [[F1 _] _].
    destruct (needs_rebuild ress).
    - destruct H as (-> & -> & _). rewrite <- F1. unfold hist_of.
      destruct (run_script_frame (script_lines cmd) w1) as [-> _]. reflexivity.
    - destruct H as (_ & -> & _). exact F1.
  Qed.

  Lemma run_node_hist st n st' :
    run_node st n = Some st' -> hist_of (rs_world T st') = hist_of (rs_world T st).
  Proof.
    unfold Build.run_node.
    destruct (take_blob T hc (rs_table T st) (n_targets n)) as [b t'].
    destruct (read_history T teqb hr (rs_world T st) (n_rule n)) as [h|]; [|discriminate].
    destruct (all_some _) as [tickets|].
    2:{ intro H; injection H as <-. reflexivity. }
    destruct (handle_rule teqb hc (rs_world T st) b h (hl tickets) (n_command n)) as [[res w'] s] eqn:EH.
    apply handle_rule_hist in EH.
    destruct res as [wr|e]; intro H; injection H as <-; exact EH.
  Qed.

  Definition flagged_scripts (ns : list node) (flags : list bool) : list bytes :=
    flat_map (fun nf : node * bool => if snd nf then script_lines (n_command (fst nf)) else [])
             (combine ns flags).

  Lemma flagged_scripts_false ns : flagged_scripts ns (repeat false (length ns)) = [].
  Proof.
    unfold flagged_scripts. induction ns as [|n r IH]; cbn [length repeat combine flat_map snd app];
      [reflexivity | exact IH].
  Qed.

  Lemma run_nodes_spec ns : forall st st',
    run_nodes st ns = Some st' ->
    (Forall node_confined ns -> frame_at (flat_map n_targets ns) (rs_world T st) (rs_world T st')) /\
    (exists flags, length flags = length ns /\
                   rs_commands T st' = rs_commands T st ++ flagged_scripts ns flags) /\
    (exists trs, length trs = length ns /\
                 rs_results T st' = rs_results T st ++ combine (map (fun n => Some (n_rule n)) ns) trs) /\
    hist_of (rs_world T st') = hist_of (rs_world T st) /\
    rs_leaf_sent T st' = rs_leaf_sent T st.
  Proof.
    induction ns as [|n rest IH]; intros st st'; cbn [Build.run_nodes].
    - intro H; injection H as <-. split; [|split; [|split; [|split]]].
      + intros _. apply frame_at_refl.
      + exists []. split; [reflexivity|]. cbn. rewrite app_nil_r; reflexivity.
      + exists []. split; [reflexivity|]. cbn. rewrite app_nil_r; reflexivity.
      + reflexivity.
      + reflexivity.
    - destruct (run_node st n) as [st1|] eqn:E1; [|discriminate]. intro H.
      pose proof (run_node_hist _ _ _ E1) as Hh1.
      apply run_node_spec in E1 as (F1 & (flag & C1) & (tr & R1) & L1).
      apply IH in H as (F2 & (flags & LF & C2) & (trs & LT & R2) & Hh2 & L2).
      split; [|split; [|split; [|split]]].
      + intro Hc. inversion Hc as [|? ? Hn Hrest]; subst. cbn [flat_map].
        eapply frame_at_trans.
        * eapply frame_at_mono; [|apply F1; exact Hn]. intros x Hx. apply in_or_app; left; exact Hx.
        * eapply frame_at_mono; [|apply F2; exact Hrest]. intros x Hx. apply in_or_app; right; exact Hx.
      + exists (flag :: flags). split; [cbn [length]; congruence|].
        rewrite C2, C1. unfold flagged_scripts. cbn [combine flat_map fst snd].
        rewrite <- app_assoc. reflexivity.
      + exists (tr :: trs). split; [cbn [length]; congruence|].
        rewrite R2, R1. cbn [map combine]. rewrite <- app_assoc. reflexivity.
      + congruence.
      + congruence.
  Qed.

  (* build()'s "everything spawned so far has run" when a history file is unreadable *)
  Fixpoint upto (st : run_state) (ns : list node) : run_state :=
    match ns with
    | [] => st
    | n :: rest => match run_node st n with None => st | Some st' => upto st' rest end
    end.

  Lemma upto_spec ns : forall st,
    (Forall node_confined ns -> frame_at (flat_map n_targets ns) (rs_world T st) (rs_world T (upto st ns))) /\
    (exists flags, length flags = length ns /\
                   rs_commands T (upto st ns) = rs_commands T st ++ flagged_scripts ns flags) /\
    hist_of (rs_world T (upto st ns)) = hist_of (rs_world T st).
  Proof.
    induction ns as [|n rest IH]; intros st; cbn [upto].
    - split; [|split].
      + intros _. apply frame_at_refl.
      + exists []. split; [reflexivity|]. cbn. rewrite app_nil_r; reflexivity.
      + reflexivity.
    - destruct (run_node st n) as [st1|] eqn:E1.
      + pose proof (run_node_hist _ _ _ E1) as Hh1.
        apply run_node_spec in E1 as (F1 & (flag & C1) & _).
        destruct (IH st1) as (F2 & (flags & LF & C2) & Hh2).
        split; [|split].
        * intro Hc. inversion Hc as [|? ? Hn Hrest]; subst. cbn [flat_map].
          eapply frame_at_trans.
          -- eapply frame_at_mono; [|apply F1; exact Hn]. intros x Hx. apply in_or_app; left; exact Hx.
          -- eapply frame_at_mono; [|apply F2; exact Hrest]. intros x Hx. apply in_or_app; right; exact Hx.
        * exists (flag :: flags). split; [cbn [length]; congruence|].
          rewrite C2, C1. unfold flagged_scripts. cbn [combine flat_map fst snd].
          rewrite <- app_assoc. reflexivity.
        * congruence.
      + split; [|split].
        * intros _. apply frame_at_refl.
        * exists (repeat false (length (n :: rest))). split; [apply repeat_length|].
          rewrite flagged_scripts_false, app_nil_r. reflexivity.
        * reflexivity.
  Qed.

  (* ---------- the join loop ---------- *)

  Notation join_one := (join_one T teqb hr).

  Definition hist_at (w : world) (k : T) : option (sf history) :=
    match hist_of w with None => None | Some hs => alookup teqb hs k end.

  Lemma write_history_files (w : world) r h : w_files (write_history T teqb hr w r h) = w_files w.
  Proof. unfold write_history. destruct (rd_hist (w_rd w)); reflexivity. Qed.

  Lemma write_history_hist_at_neq (w : world) r h k :
    hr r <> k -> hist_at (write_history T teqb hr w r h) k = hist_at w k.
  Proof.
    intro Hne. unfold write_history, hist_at, hist_of. destruct (rd_hist (w_rd w)) as [hs|] eqn:E.
    - cbn. apply (alookup_ainsert_neq teqb teqb_spec). exact Hne.
    - rewrite E. reflexivity.
  Qed.

  Lemma write_history_hist_at_eq (w : world) r h hs :
    hist_of w = Some hs -> hist_at (write_history T teqb hr w r h) (hr r) = Some (SF_ok h).
  Proof.
    intro E. unfold write_history, hist_at, hist_of in *. rewrite E. cbn.
    apply (alookup_ainsert_eq teqb teqb_spec).
  Qed.

  Lemma join_one_files js res : w_files (js_world T (join_one js res)) = w_files (js_world T js).
  Proof.
    unfold Build.join_one. destruct (snd res) as [wr|e|]; cbn [js_world]; try reflexivity.
    destruct (fst res) as [r|]; [|reflexivity]. destruct (wr_history wr) as [h|]; [|reflexivity].
    apply write_history_files.
  Qed.

  Lemma join_all_files results : forall js,
    w_files (js_world T (fold_left join_one results js)) = w_files (js_world T js).
  Proof.
    induction results as [|res rest IH]; intro js; cbn [fold_left]; [reflexivity|].
    rewrite IH. apply join_one_files.
  Qed.

  Definition result_status (res : option rule * thread_result) : list (banner * bytes) :=
    match snd res with TOk wr => status_lines T wr | _ => [] end.

  Lemma join_one_status js res :
    js_status T (join_one js res) = js_status T js ++ result_status res.
  Proof.
    unfold Build.join_one, result_status. destruct (snd res) as [wr|e|]; cbn [js_status];
      try reflexivity; rewrite app_nil_r; reflexivity.
  Qed.

  Lemma join_all_status results : forall js,
    js_status T (fold_left join_one results js) = js_status T js ++ flat_map result_status results.
  Proof.
    induction results as [|res rest IH]; intro js; cbn [fold_left flat_map].
    - rewrite app_nil_r; reflexivity.
    - rewrite IH, join_one_status, <- app_assoc. reflexivity.
  Qed.

  (* a thread that failed or was cancelled contributes no status line *)
  Lemma join_one_err_no_status js r e : js_status T (join_one js (r, TErr e)) = js_status T js.
  Proof. reflexivity. Qed.

  Lemma join_one_canceled_no_status js r : js_status T (join_one js (r, TCanceled)) = js_status T js.
  Proof. reflexivity. Qed.

  Lemma join_one_hist_at_neq js res k :
    (forall r wr, res = (Some r, TOk wr) -> hr r <> k) ->
    hist_at (js_world T (join_one js res)) k = hist_at (js_world T js) k.
  Proof.
    intro Hk. destruct res as [r tr]. unfold Build.join_one. cbn [fst snd].
    destruct tr as [wr|e|]; cbn [js_world]; try reflexivity.
    destruct r as [r|]; [|reflexivity]. destruct (wr_history wr) as [h|]; [|reflexivity].
    apply write_history_hist_at_neq. eapply Hk; reflexivity.
  Qed.

  Lemma join_all_hist_at_neq results k : forall js,
    (forall r wr, In (Some r, TOk wr) results -> hr r <> k) ->
    hist_at (js_world T (fold_left join_one results js)) k = hist_at (js_world T js) k.
  Proof.
    induction results as [|res rest IH]; intros js Hk; cbn [fold_left]; [reflexivity|].
    rewrite IH.
    - apply join_one_hist_at_neq. intros r wr ->. apply (Hk r wr). left; reflexivity.
    - intros r wr Hin. apply (Hk r wr). right; exact Hin.
  Qed.

  (* ---------- init_dir, get_nodes, write_table ---------- *)

  Lemma init_dir_ok (w w1 : world) t :
    init_dir T w = Ok (w1, t) ->
    w_files w1 = w_files w /\ (forall k, hist_at w1 k = hist_at w k) /\
    cache_of w1 <> None /\ hist_of w1 <> None.
  Proof.
    unfold init_dir. destruct (rd_table (w_rd w)) as [[tb|]|]; try discriminate;
      intro H; injection H as <- <-; (split; [reflexivity|]); (split; [|split]);
      try (intro k; unfold hist_at, hist_of; cbn; destruct (rd_hist (w_rd w)); reflexivity);
      unfold cache_of, hist_of; cbn;
      try (destruct (rd_cache (w_rd w)); discriminate);
      try (destruct (rd_hist (w_rd w)); discriminate).
  Qed.

  Lemma files_fget (w w' : world) p : w_files w' = w_files w -> fget w' p = fget w p.
  Proof. unfold fget. intros ->. reflexivity. Qed.

  (* ---------- build, unfolded ---------- *)

  Definition st_leaves (w1 : world) (t : table T) (pack : node_pack) : run_state :=
    fold_left (run_leaf T teqb hc) (p_leaves pack) (mk_rs T w1 t [] [] [] []).

  Definition joined (st2 : run_state) : join_state :=
    fold_left join_one (rs_results T st2) (mk_js T (rs_world T st2) (rs_table T st2) [] []).

  (* build, as defined: the leaves and the nodes run from the world in which main has saved what the workers
     leave of the table (repair of F6) *)
  Lemma build_eq0 (w : world) rp goal :
    build teqb hc hl hr w rp goal =
    match init_dir T w with
    | Err f => mk_outcome (init_dir_world_on_error T w) (VFatal f) [] []
    | Ok (w1, t) =>
        match get_nodes T w1 rp goal with
        | Err f => mk_outcome w1 (VFatal f) [] []
        | Ok pack =>
            let st1 := st_leaves (write_table T w1 (table_rest T hc t pack)) t pack in
            match run_nodes st1 (p_nodes pack) with
            | None =>
                let stx := upto st1 (p_nodes pack) in
                mk_outcome (rs_world T stx) (VFatal FHistory) (rs_commands T stx) []
            | Some st2 =>
                let js := joined st2 in
                mk_outcome (write_table T (js_world T js) (js_table T js))
                           (match js_errors T js with [] => VOk | es => VWorkErrors es end)
                           (rs_commands T st2) (js_status T js)
            end
        end
    end.
  Proof. reflexivity. Qed.

  Lemma upto_st x ns : forall st,
    upto (rs_st T x st) ns = rs_st T x (upto st ns).
  Proof.
    induction ns as [|n r IH]; intro st; cbn [upto]; [reflexivity|].
    rewrite (run_node_st T teqb hc hl hr). destruct (run_node st n) as [st1|]; cbn [option_map]; [apply IH | reflexivity].
  Qed.

  Lemma st_leaves_st (w1 : world) x t pack :
    st_leaves (set_tbl T w1 x) t pack = rs_st T x (st_leaves w1 t pack).
  Proof. unfold st_leaves. rewrite <- (run_leaves_st T teqb hc). reflexivity. Qed.

  (* no work step reads the table file: the run is the run from the world that init_dir left, with the saved
     table carried along; the final write_table overwrites it, so that it shows in the outcome only when the
     build stops on an unreadable history file *)
  Lemma build_eq (w : world) rp goal :
    build teqb hc hl hr w rp goal =
    match init_dir T w with
    | Err f => mk_outcome (init_dir_world_on_error T w) (VFatal f) [] []
    | Ok (w1, t) =>
        match get_nodes T w1 rp goal with
        | Err f => mk_outcome w1 (VFatal f) [] []
        | Ok pack =>
            let st1 := st_leaves w1 t pack in
            match run_nodes st1 (p_nodes pack) with
            | None =>
                let stx := upto st1 (p_nodes pack) in
                mk_outcome (write_table T (rs_world T stx) (table_rest T hc t pack))
                           (VFatal FHistory) (rs_commands T stx) []
            | Some st2 =>
                let js := joined st2 in
                mk_outcome (write_table T (js_world T js) (js_table T js))
                           (match js_errors T js with [] => VOk | es => VWorkErrors es end)
                           (rs_commands T st2) (js_status T js)
            end
        end
    end.
  Proof.
    rewrite build_eq0. destruct (init_dir T w) as [[w1 t]|f]; [|reflexivity].
    destruct (get_nodes T w1 rp goal) as [pack|f]; [|reflexivity]. cbv zeta.
    rewrite write_table_set_tbl, st_leaves_st, (run_nodes_st T teqb hc hl hr).
    destruct (run_nodes (st_leaves w1 t pack) (p_nodes pack)) as [st2|]; cbn [option_map].
    - unfold joined. cbn [rs_st rs_world rs_table rs_results rs_commands].
      change (mk_js T (set_tbl T (rs_world T st2) (Some (SF_ok (table_rest T hc t pack)))) (rs_table T st2) [] [])
        with (js_st T (Some (SF_ok (table_rest T hc t pack))) (mk_js T (rs_world T st2) (rs_table T st2) [] [])).
      rewrite (join_all_st T teqb hr). reflexivity.
    - rewrite upto_st. reflexivity.
  Qed.

  Lemma st_leaves_world w1 t pack : rs_world T (st_leaves w1 t pack) = w1.
  Proof. unfold st_leaves. rewrite run_leaves_world. reflexivity. Qed.

  Lemma st_leaves_commands w1 t pack : rs_commands T (st_leaves w1 t pack) = [].
  Proof. unfold st_leaves. rewrite run_leaves_commands. reflexivity. Qed.

  (* F1 *)
  Theorem build_frame_main (w : world) rp goal w1 t pack p :
    init_dir T w = Ok (w1, t) -> get_nodes T w1 rp goal = Ok pack ->
    Forall node_confined (p_nodes pack) -> ~ In p (plan_targets pack) ->
    fget (o_world (build teqb hc hl hr w rp goal)) p = fget w p.
  Proof.
    intros Hi Hg Hc Hp. rewrite build_eq, Hi, Hg. cbv zeta.
    apply init_dir_ok in Hi as (Hfiles & _).
    rewrite <- (files_fget w w1 p Hfiles).
    destruct (run_nodes (st_leaves w1 t pack) (p_nodes pack)) as [st2|] eqn:ER; cbn [o_world].
    - apply run_nodes_spec in ER as (F & _). specialize (F Hc).
      rewrite st_leaves_world in F.
      rewrite <- (frame_at_fget _ _ _ p F Hp). apply files_fget.
      change (w_files (js_world T (joined st2)) = w_files (rs_world T st2)).
      unfold joined. rewrite join_all_files. reflexivity.
    - destruct (upto_spec (p_nodes pack) (st_leaves w1 t pack)) as (F & _). specialize (F Hc).
      rewrite st_leaves_world in F. apply (frame_at_fget _ _ _ p F Hp).
  Qed.

  Theorem build_frame_fatal_main (w : world) rp goal :
    (forall f, init_dir T w = Err f ->
               w_files (o_world (build teqb hc hl hr w rp goal)) = w_files w) /\
    (forall w1 t f, init_dir T w = Ok (w1, t) -> get_nodes T w1 rp goal = Err f ->
               w_files (o_world (build teqb hc hl hr w rp goal)) = w_files w).
  Proof.
    split.
    - intros f Hi. rewrite build_eq, Hi. reflexivity.
    - intros w1 t f Hi Hg. rewrite build_eq, Hi, Hg. cbn [o_world].
      apply init_dir_ok in Hi as (Hfiles & _). exact Hfiles.
  Qed.

  (* ---------- clean ---------- *)

  Notation clean_nodes := (clean_nodes T teqb hc).

  Lemma clean_eq (w : world) rp goal :
    clean teqb hc w rp goal =
    match init_dir T w with
    | Err f => mk_outcome (init_dir_world_on_error T w) (VFatal f) [] []
    | Ok (w1, t) =>
        match get_nodes T w1 rp goal with
        | Err f => mk_outcome w1 (VFatal f) [] []
        | Ok pack =>
            mk_outcome (fst (clean_nodes w1 t (p_nodes pack) []))
                       (match snd (clean_nodes w1 t (p_nodes pack) []) with [] => VOk | es => VWorkErrors es end)
                       [] []
        end
    end.
  Proof.
    unfold clean. destruct (init_dir T w) as [[w1 t]|f]; [|reflexivity].
    destruct (get_nodes T w1 rp goal) as [pack|f]; [|reflexivity].
    destruct (clean_nodes w1 t (p_nodes pack) []) as [w2 errs]. destruct errs; reflexivity.
  Qed.

  Lemma clean_nodes_frame ns : forall (w : world) t errs,
    frame_at (flat_map n_targets ns) w (fst (clean_nodes w t ns errs)) /\
    exists more, snd (clean_nodes w t ns errs) = errs ++ more.
  Proof.
    induction ns as [|n rest IH]; intros w t errs; cbn [Build.clean_nodes flat_map].
    - split; [apply frame_at_refl|]. exists []. cbn. rewrite app_nil_r; reflexivity.
    - pose proof (take_blob_fst (n_targets n) t) as Hb.
      destruct (take_blob T hc t (n_targets n)) as [b t']. cbn [fst] in Hb.
      destruct (clean_targets teqb hc w b) as [w'|e] eqn:EC.
      + destruct (IH w' t' errs) as [F2 Hm]. split; [|exact Hm].
        apply clean_targets_frame in EC. rewrite Hb in EC.
        eapply frame_at_trans.
        * eapply frame_at_mono; [|exact EC]. intros x Hx. apply in_or_app; left; exact Hx.
        * eapply frame_at_mono; [|exact F2]. intros x Hx. apply in_or_app; right; exact Hx.
      + destruct (IH w t' (errs ++ [e])) as [F2 [more Hm]]. split.
        * eapply frame_at_mono; [|exact F2]. intros x Hx. apply in_or_app; right; exact Hx.
        * exists (e :: more). rewrite Hm, <- app_assoc. reflexivity.
  Qed.

  Theorem clean_frame_main (w : world) rp goal w1 t pack p :
    init_dir T w = Ok (w1, t) -> get_nodes T w1 rp goal = Ok pack ->
    ~ In p (plan_targets pack) ->
    fget (o_world (clean teqb hc w rp goal)) p = fget w p.
  Proof.
    intros Hi Hg Hp. rewrite clean_eq, Hi, Hg. cbn [o_world].
    apply init_dir_ok in Hi as (Hfiles & _).
    rewrite <- (files_fget w w1 p Hfiles).
    destruct (clean_nodes_frame (p_nodes pack) w1 t []) as [F _].
    apply (frame_at_fget _ _ _ p F Hp).
  Qed.

  Theorem clean_frame_fatal_main (w : world) rp goal :
    (forall f, init_dir T w = Err f ->
               w_files (o_world (clean teqb hc w rp goal)) = w_files w) /\
    (forall w1 t f, init_dir T w = Ok (w1, t) -> get_nodes T w1 rp goal = Err f ->
               w_files (o_world (clean teqb hc w rp goal)) = w_files w).
  Proof.
    split.
    - intros f Hi. rewrite clean_eq, Hi. reflexivity.
    - intros w1 t f Hi Hg. rewrite clean_eq, Hi, Hg. cbn [o_world].
      apply init_dir_ok in Hi as (Hfiles & _). exact Hfiles.
  Qed.

  (* F2 *)
  Theorem build_commands_shape_main (w : world) rp goal w1 t pack :
    init_dir T w = Ok (w1, t) -> get_nodes T w1 rp goal = Ok pack ->
    exists flags : list bool,
      length flags = length (p_nodes pack) /\
      o_commands (build teqb hc hl hr w rp goal) =
      flat_map (fun nf : node * bool => if snd nf then script_lines (n_command (fst nf)) else [])
               (combine (p_nodes pack) flags).
  Proof.
    intros Hi Hg. rewrite build_eq, Hi, Hg. cbv zeta.
    destruct (run_nodes (st_leaves w1 t pack) (p_nodes pack)) as [st2|] eqn:ER; cbn [o_commands].
    - apply run_nodes_spec in ER as (_ & (flags & LF & C) & _).
      rewrite st_leaves_commands in C. exists flags. split; [exact LF | exact C].
    - destruct (upto_spec (p_nodes pack) (st_leaves w1 t pack)) as (_ & (flags & LF & C) & _).
      rewrite st_leaves_commands in C. exists flags. split; [exact LF | exact C].
  Qed.

  Theorem build_commands_fatal (w : world) rp goal :
    (forall f, init_dir T w = Err f -> o_commands (build teqb hc hl hr w rp goal) = []) /\
    (forall w1 t f, init_dir T w = Ok (w1, t) -> get_nodes T w1 rp goal = Err f ->
                    o_commands (build teqb hc hl hr w rp goal) = []).
  Proof.
    split.
    - intros f Hi. rewrite build_eq, Hi. reflexivity.
    - intros w1 t f Hi Hg. rewrite build_eq, Hi, Hg. reflexivity.
  Qed.

  (* ---------- F3: status lines ---------- *)

  Definition banner_of (r : resolution) : banner :=
    match r with AlreadyCorrect => BUpToDate | Recovered => BRecovered | NeedsRebuild => BOutdated end.

  Lemma banner_of_recovered r : banner_of r = BRecovered <-> r = Recovered.
  Proof. destruct r; cbn; split; congruence. Qed.

  Lemma banner_of_uptodate r : banner_of r = BUpToDate <-> r = AlreadyCorrect.
  Proof. destruct r; cbn; split; congruence. Qed.

  Lemma banner_of_outdated r : banner_of r = BOutdated <-> r = NeedsRebuild.
  Proof. destruct r; cbn; split; congruence. Qed.

  Lemma status_lines_resolutions (wr : work_result) rs :
    wr_option wr = Resolutions rs ->
    status_lines T wr = map (fun pr => (banner_of (snd pr), fst (fst pr))) (combine (wr_blob wr) rs).
  Proof. unfold status_lines. intros ->. reflexivity. Qed.

  Lemma status_lines_executed (wr : work_result) :
    wr_option wr = CommandExecuted -> status_lines T wr = map (fun e => (BBuilt, fst e)) (wr_blob wr).
  Proof. unfold status_lines. intros ->. reflexivity. Qed.

  Lemma update_blob_fst (w : world) b : forall b', update_blob teqb hc w b = Ok b' -> map fst b' = map fst b.
  Proof.
    induction b as [|[p a] rest IH]; intros b'; cbn [update_blob].
    - intro H; injection H as <-. reflexivity.
    - destruct (get_actual_file_state teqb hc w p a) as [st|]; [|discriminate].
      destruct (update_blob teqb hc w rest) as [b0|e]; [|discriminate].
      intro H; injection H as <-. cbn [map fst]. f_equal. apply IH. reflexivity.
  Qed.

  Lemma command_verdict_none codes : command_verdict codes = None -> codes <> [].
  Proof. destruct codes; cbn; [discriminate | intros _; discriminate]. Qed.

  Lemma needs_rebuild_false_iff rs : needs_rebuild rs = false <-> ~ In NeedsRebuild rs.
  Proof.
    unfold needs_rebuild. induction rs as [|r rest IH]; cbn [existsb In].
    - split; [intros _ [] | reflexivity].
    - destruct r; cbn [orb]; rewrite ?IH; split; intro H; try discriminate.
      + intros [E|E]; [discriminate | auto].
      + intro E; apply H; right; exact E.
      + intros [E|E]; [discriminate | auto].
      + intro E; apply H; right; exact E.
      + exfalso; apply H; left; reflexivity.
  Qed.

  Lemma needs_rebuild_repeat n : needs_rebuild (repeat NeedsRebuild n) = false -> n = 0.
  Proof. destruct n; cbn; [reflexivity | discriminate]. Qed.

  (* a successful rule thread: what it returned, in the two possible ways *)
  Lemma handle_rule_ok (w : world) b h st cmd wr w' s :
    handle_rule teqb hc w b h st cmd = (Ok wr, w', s) ->
    exists ress w1,
      resolved_of w b h st = Ok (ress, w1) /\ length ress = length b /\
      ((needs_rebuild ress = true /\ wr_option wr = CommandExecuted /\
        s = script_lines cmd /\ s <> [] /\ w' = snd (run_script w1 s) /\
        Forall (fun c => c = 0%N) (fst (run_script w1 s)) /\
        update_blob teqb hc w' (forget_replaced hc b ress) = Ok (wr_blob wr) /\
        map fst (wr_blob wr) = map fst b /\
        wr_tickets wr = map (fun e => fs_t (snd e)) (wr_blob wr) /\
        exists h', history_insert teqb h st (wr_tickets wr) (map fst b) = Ok h' /\ wr_history wr = Some h')
       \/
       (needs_rebuild ress = false /\ wr_option wr = Resolutions ress /\
        s = [] /\ w' = w1 /\ wr_blob wr = forget_replaced hc b ress /\
        current_tickets teqb hc w1 (forget_replaced hc b ress) = Ok (wr_tickets wr) /\
        wr_history wr = Some h)).
  Proof.
    intro H. apply handle_rule_cases in H.
    destruct (resolved_of w b h st) as [[ress w1]|e] eqn:ER.
    2:{ destruct H as (H & _). discriminate. }
    exists ress, w1. split; [reflexivity|].
    apply resolved_of_frame in ER as [_ HL]. split; [exact HL|].
    cbv zeta in H. rewrite forget_replaced_fst in H.
    destruct (needs_rebuild ress).
    - left. destruct H as (-> & -> & H).
      destruct (command_verdict (fst (run_script w1 (script_lines cmd)))) as [e|] eqn:ECV; [discriminate|].
      destruct (update_blob teqb hc (snd (run_script w1 (script_lines cmd))) (forget_replaced hc b ress))
        as [b'|p] eqn:EUB; [|discriminate].
      destruct (history_insert teqb h st (map (fun e => fs_t (snd e)) b') (map fst b)) as [h'|e] eqn:EHI;
        [|discriminate].
      injection H as ->. cbn [wr_option wr_blob wr_tickets wr_history].
      split; [reflexivity|]. split; [reflexivity|]. split; [reflexivity|]. split.
      { intro E. apply command_verdict_none in ECV. apply ECV.
        apply length_zero_iff_nil. rewrite run_script_length, E. reflexivity. }
      split; [reflexivity|]. split.
      { unfold command_verdict in ECV.
        destruct (fst (run_script w1 (script_lines cmd))) as [|c cs]; [discriminate|].
        destruct (forallb (fun c0 => (c0 =? 0)%N) (c :: cs)) eqn:EF; [|discriminate].
        rewrite forallb_forall in EF. apply Forall_forall. intros x Hx. apply N.eqb_eq, EF, Hx. }
      split; [reflexivity|].
      split; [rewrite (update_blob_fst _ _ _ EUB); apply forget_replaced_fst|]. split; [reflexivity|].
      exists h'. auto.
    - right. destruct H as (-> & -> & H).
      destruct (current_tickets teqb hc w1 (forget_replaced hc b ress)) as [ts|p] eqn:ECT; [|discriminate].
      injection H as ->. cbn [wr_option wr_blob wr_tickets wr_history]. auto 10.
  Qed.

  (* bullet 1 *)
  Lemma handle_rule_executed_iff (w : world) b h st cmd wr w' s :
    handle_rule teqb hc w b h st cmd = (Ok wr, w', s) ->
    (wr_option wr = CommandExecuted <-> s <> []) /\
    (s <> [] -> s = script_lines cmd) /\
    (wr_option wr = CommandExecuted -> status_lines T wr = map (fun e => (BBuilt, fst e)) b).
  Proof.
    intro H. apply handle_rule_ok in H as (ress & w1 & ER & HL & [HA|HB]).
    - destruct HA as (_ & Ho & Hs & Hne & _ & _ & _ & Hfst & _). split; [|split].
      + split; auto.
      + auto.
      + intros _. rewrite (status_lines_executed wr Ho).
        rewrite <- (map_map fst (fun p => (BBuilt, p))), Hfst, map_map. reflexivity.
    - destruct HB as (_ & Ho & -> & _). split; [|split].
      + split; [rewrite Ho; discriminate | congruence].
      + congruence.
      + rewrite Ho; discriminate.
  Qed.

  Lemma resolve_single_already (w : world) r p a w' :
    resolve_single teqb hc w r p a = Ok (AlreadyCorrect, w') ->
    w' = w /\ get_file_ticket teqb hc w p a = Some r.
  Proof.
    unfold resolve_single, restore_or_rebuild. destruct (get_file_ticket teqb hc w p a) as [cur|].
    - destruct (teqb r cur) eqn:E.
      + apply teqb_spec in E; subst cur. intro H; injection H as <-. auto.
      + destruct (back_up teqb w cur p) as [w1|]; [|discriminate].
        destruct (restore teqb w1 r p); discriminate.
    - destruct (restore teqb w r p); discriminate.
  Qed.

  (* Recovered: the path was empty, or its stale occupant was moved to the cache; then the
     remembered file came back from the cache *)
  Lemma resolve_single_recovered (w : world) r p a w' :
    resolve_single teqb hc w r p a = Ok (Recovered, w') ->
    exists w0,
      ((w0 = w /\ fget w p = None) \/
       (exists cur, get_file_ticket teqb hc w p a = Some cur /\ cur <> r /\ back_up teqb w cur p = Some w0)) /\
      restore teqb w0 r p = RDone w'.
  Proof.
    unfold resolve_single, restore_or_rebuild. destruct (get_file_ticket teqb hc w p a) as [cur|] eqn:EG.
    - destruct (teqb r cur) eqn:E; [discriminate|].
      destruct (back_up teqb w cur p) as [w1|] eqn:EB; [|discriminate].
      destruct (restore teqb w1 r p) as [w2| |] eqn:ER; try discriminate.
      intro H; injection H as <-. exists w1. split; [|exact ER]. right. exists cur.
      split; [reflexivity|]. split; [|exact EB]. intro E'. subst cur.
      rewrite (proj2 (teqb_spec r r) eq_refl) in E. discriminate.
    - destruct (restore teqb w r p) as [w2| |] eqn:ER; try discriminate.
      intro H; injection H as <-. exists w. split; [|exact ER]. left. split; [reflexivity|].
      unfold get_file_ticket in EG. destruct (fget w p) as [f|]; [|reflexivity].
      destruct (shortcut teqb hc f a); discriminate.
  Qed.

  (* NeedsRebuild: whatever was at the path has been moved away, and the remembered ticket is not cached *)
  Lemma resolve_single_needs (w : world) r p a w' :
    resolve_single teqb hc w r p a = Ok (NeedsRebuild, w') -> fget w' p = None.
  Proof.
    unfold resolve_single, restore_or_rebuild. destruct (get_file_ticket teqb hc w p a) as [cur|] eqn:EG.
    - destruct (teqb r cur) eqn:E; [discriminate|].
      destruct (back_up teqb w cur p) as [w1|] eqn:EB; [|discriminate].
      destruct (restore teqb w1 r p) as [w2| |] eqn:ER; try discriminate.
      intro H; injection H as <-. eapply back_up_fget_eq; eauto.
    - destruct (restore teqb w r p) as [w2| |] eqn:ER; try discriminate.
      intro H; injection H as <-.
      unfold get_file_ticket in EG. destruct (fget w p) as [f|]; [|reflexivity].
      destruct (shortcut teqb hc f a); discriminate.
  Qed.

  (* the k-th step of resolve_remembered, isolated *)
  Lemma resolve_remembered_nth (b : blob) : forall (w : world) rem ress w',
    resolve_remembered teqb hc w b rem = Ok (ress, w') ->
    forall k p a, nth_error b k = Some (p, a) ->
    exists r res wk wk',
      nth_error rem k = Some r /\ nth_error ress k = Some res /\
      resolve_remembered teqb hc w (firstn k b) rem = Ok (firstn k ress, wk) /\
      resolve_single teqb hc wk (fs_t r) p a = Ok (res, wk') /\
      resolve_remembered teqb hc wk' (skipn (S k) b) (skipn (S k) rem) = Ok (skipn (S k) ress, w').
  Proof.
    induction b as [|[p0 a0] rest IH]; intros w rem ress w' H k p a Hk.
    - destruct k; discriminate.
    - cbn [resolve_remembered] in H. destruct rem as [|r0 rrest]; [discriminate|].
      destruct (resolve_single teqb hc w (fs_t r0) p0 a0) as [[res0 w1]|e] eqn:E1; [|discriminate].
      destruct (resolve_remembered teqb hc w1 rest rrest) as [[ress' w2]|e] eqn:E2; [|discriminate].
      injection H as <- <-. destruct k as [|k].
      + cbn [nth_error] in Hk. injection Hk as -> ->.
        exists r0, res0, w, w1. cbn [nth_error firstn skipn resolve_remembered]. auto.
      + cbn [nth_error] in Hk.
        destruct (IH w1 rrest ress' w2 E2 k p a Hk) as (r & res & wk & wk' & H1 & H2 & H3 & H4 & H5).
        exists r, res, wk, wk'. cbn [nth_error]. split; [exact H1|]. split; [exact H2|].
        split; [|split; [exact H4|]].
        * cbn [firstn resolve_remembered]. rewrite E1, H3. reflexivity.
        * exact H5.
  Qed.

  Lemma forget_replaced_nth (b : blob) ress k p a :
    nth_error b k = Some (p, a) -> exists a', nth_error (forget_replaced hc b ress) k = Some (p, a').
  Proof.
    intro Hk. pose proof (forget_replaced_fst b ress) as Hf.
    apply (f_equal (fun l => nth_error l k)) in Hf. rewrite !nth_error_map, Hk in Hf.
    destruct (nth_error (forget_replaced hc b ress) k) as [[p' a']|]; [|discriminate].
    cbn in Hf. injection Hf as ->. exists a'. reflexivity.
  Qed.

  Lemma nth_error_combine {A B} (l : list A) (l' : list B) k x y :
    nth_error l k = Some x -> nth_error l' k = Some y -> nth_error (combine l l') k = Some (x, y).
  Proof.
    revert l l'. induction k as [|k IH]; intros [|a l] [|b' l']; cbn; try discriminate.
    - congruence.
    - apply IH.
  Qed.

  Lemma map_snd_status_resolutions (b : blob) : forall rs,
    length rs = length b ->
    map snd (map (fun pr : (bytes * fstate) * resolution => (banner_of (snd pr), fst (fst pr))) (combine b rs))
    = map fst b.
  Proof.
    induction b as [|[p a] rest IH]; intros [|r rs]; cbn; intro H; try discriminate; [reflexivity|].
    f_equal. apply IH. congruence.
  Qed.

  (* F3, packaged: what the status lines of a successful rule thread say is what the thread did *)
  Theorem C20_status_truthful_main (w : world) b h st cmd wr w' s :
    handle_rule teqb hc w b h st cmd = (Ok wr, w', s) ->
    (* exactly one line per target, in target order *)
    map snd (status_lines T wr) = map fst b /\
    ((* "Built" on every line: the whole script ran, once, and every line of it returned 0 *)
     (wr_option wr = CommandExecuted /\ s = script_lines cmd /\ s <> [] /\
      status_lines T wr = map (fun e => (BBuilt, fst e)) b)
     \/
     (* nothing ran; the k-th line reports the k-th resolution *)
     (s = [] /\
      exists ress,
        wr_option wr = Resolutions ress /\ length ress = length b /\ ~ In NeedsRebuild ress /\
        forall k p a, nth_error b k = Some (p, a) ->
          exists res rem r wk wk',
            nth_error ress k = Some res /\
            nth_error (status_lines T wr) k = Some (banner_of res, p) /\
            alookup teqb h st = Some rem /\ nth_error rem k = Some r /\
            resolve_remembered teqb hc w (firstn k b) rem = Ok (firstn k ress, wk) /\
            resolve_single teqb hc wk (fs_t r) p a = Ok (res, wk') /\
            (* Up-to-date: nothing was touched, the file there has the remembered ticket *)
            (res = AlreadyCorrect -> wk' = wk /\ get_file_ticket teqb hc wk p a = Some (fs_t r)) /\
            (* Recovered: the file came out of the cache under the remembered ticket *)
            (res = Recovered ->
               exists w0, ((w0 = wk /\ fget wk p = None) \/
                           (exists cur, get_file_ticket teqb hc wk p a = Some cur /\ cur <> fs_t r /\
                                        back_up teqb wk cur p = Some w0)) /\
                          restore teqb w0 (fs_t r) p = RDone wk'))).
  Proof.
    intro H. pose proof (handle_rule_executed_iff _ _ _ _ _ _ _ _ H) as (Hiff & Hs & Hst).
    apply handle_rule_ok in H as (ress & w1 & ER & HL & [HA|HB]).
    - destruct HA as (_ & Ho & Hs' & Hne & _). split.
      + rewrite (Hst Ho), map_map. reflexivity.
      + left. auto.
    - destruct HB as (Hnr & Ho & -> & -> & Hb & _).
      rewrite (status_lines_resolutions wr ress Ho), Hb. split.
      + rewrite map_snd_status_resolutions; [apply forget_replaced_fst|].
        rewrite forget_replaced_length. exact HL.
      + right. split; [reflexivity|]. exists ress. split; [exact Ho|]. split; [exact HL|].
        split; [apply needs_rebuild_false_iff; exact Hnr|].
        intros k p a Hk. unfold resolved_of in ER.
        destruct (alookup teqb h st) as [rem|].
        2:{ apply resolve_fresh_frame in ER as [_ ->]. apply needs_rebuild_repeat in Hnr.
            destruct b; [destruct k; discriminate | discriminate]. }
        destruct (resolve_remembered_nth b w rem ress w1 ER k p a Hk)
          as (r & res & wk & wk' & H1 & H2 & H3 & H4 & H5).
        exists res, rem, r, wk, wk'. split; [exact H2|]. split.
        { destruct (forget_replaced_nth b ress k p a Hk) as [a' Hk'].
          rewrite nth_error_map, (nth_error_combine _ ress k (p, a') res Hk' H2). reflexivity. }
        split; [reflexivity|]. split; [exact H1|]. split; [exact H3|]. split; [exact H4|]. split.
        * intros ->. apply resolve_single_already. exact H4.
        * intros ->. apply resolve_single_recovered. exact H4.
  Qed.

  (* ---------- F4: contradiction ---------- *)

  Notation differing_indices := (differing_indices T teqb).

  Lemma teqb_refl a : teqb a a = true.
  Proof. apply teqb_spec; reflexivity. Qed.

  Lemma differing_indices_in old : forall new i j,
    In j (differing_indices i old new) <->
    exists k, j = i + k /\ k < length old /\ k < length new /\ nth_error old k <> nth_error new k.
  Proof using teqb_spec.
    clear hl hc hr.
    induction old as [|o old' IH]; intros new i j; cbn [Work.differing_indices].
    - split; [intros [] | intros (k & _ & Hk & _); cbn in Hk; lia].
    - destruct new as [|n new'].
      + split; [intros [] | intros (k & _ & _ & Hk & _); cbn in Hk; lia].
      + assert (In j (differing_indices (S i) old' new') <->
                exists k, j = i + S k /\ S k < length (o :: old') /\ S k < length (n :: new') /\
                          nth_error (o :: old') (S k) <> nth_error (n :: new') (S k)) as Htail.
        { rewrite IH. cbn [length nth_error]. split; intros (k & H1 & H2 & H3 & H4); exists k;
            (split; [lia|]); (split; [lia|]); (split; [lia|]); exact H4. }
        destruct (teqb o n) eqn:E.
        * apply teqb_spec in E; subst n. rewrite Htail. split.
          -- intros (k & H). exists (S k). exact H.
          -- intros (k & H1 & H2 & H3 & H4). destruct k as [|k]; [cbn in H4; congruence|].
             exists k. auto.
        * cbn [In]. rewrite Htail. split.
          -- intros [<-|(k & H)].
             ++ exists 0. cbn [length nth_error]. split; [lia|]. split; [lia|]. split; [lia|].
                intro E'. injection E' as ->. rewrite teqb_refl in E. discriminate.
             ++ exists (S k). exact H.
          -- intros (k & H1 & H2 & H3 & H4). destruct k as [|k]; [left; lia|].
             right. exists k. auto.
  Qed.

  Lemma differing_indices_sorted old : forall new i,
    StronglySorted lt (differing_indices i old new) /\ Forall (le i) (differing_indices i old new).
  Proof using Type.
    clear hl hc hr teqb_spec.
    induction old as [|o old' IH]; intros new i; cbn [Work.differing_indices].
    - split; constructor.
    - destruct new as [|n new']; [split; constructor|].
      destruct (IH new' (S i)) as [HS HF].
      assert (Forall (le i) (differing_indices (S i) old' new')) as HF'.
      { eapply Forall_impl; [|exact HF]. intros a Ha. lia. }
      destruct (teqb o n).
      + split; assumption.
      + split.
        * constructor; [exact HS|]. eapply Forall_impl; [|exact HF]. intros a Ha. lia.
        * constructor; [lia | exact HF'].
  Qed.

  Lemma differing_indices_nil old : forall new i,
    length old = length new -> differing_indices i old new = [] -> old = new.
  Proof using teqb_spec.
    clear hl hc hr.
    induction old as [|o old' IH]; intros [|n new'] i HL; cbn [Work.differing_indices length] in *;
      try discriminate; [reflexivity|].
    destruct (teqb o n) eqn:E; [|discriminate].
    apply teqb_spec in E; subst n. intro H. f_equal. eapply IH; [|exact H]. lia.
  Qed.

  Lemma differing_indices_refl l : forall i, differing_indices i l l = [].
  Proof.
    induction l as [|x l' IH]; intro i; cbn [Work.differing_indices]; [reflexivity|].
    rewrite teqb_refl. apply IH.
  Qed.

  Theorem history_insert_contradiction_main (h : history) key old tickets paths :
    alookup teqb h key = Some old -> length old = length tickets ->
    map fs_t old <> tickets ->
    exists idx,
      history_insert teqb h key tickets paths = Err (WContradiction (map (fun i => nth i paths []) idx)) /\
      idx <> [] /\
      (forall i, In i idx <-> (i < length tickets /\ nth_error (map fs_t old) i <> nth_error tickets i)) /\
      StronglySorted lt idx.
  Proof.
    intros Hl HL Hne. exists (differing_indices 0 (map fs_t old) tickets).
    assert (length (map fs_t old) = length tickets) as HL' by (rewrite map_length; exact HL).
    assert (differing_indices 0 (map fs_t old) tickets <> []) as Hnn.
    { intro E. apply Hne. eapply differing_indices_nil; eauto. }
    split; [|split; [exact Hnn|split]].
    - unfold history_insert. rewrite Hl, HL, Nat.eqb_refl. cbn [negb].
      destruct (differing_indices 0 (map fs_t old) tickets) as [|i0 idx]; [congruence | reflexivity].
    - intro i. rewrite differing_indices_in. rewrite HL'. split.
      + intros (k & -> & H1 & H2 & H3). cbn. auto.
      + intros (H1 & H2). exists i. cbn. auto.
    - apply differing_indices_sorted.
  Qed.

  Theorem history_insert_same_main (h : history) key old tickets paths :
    alookup teqb h key = Some old -> map fs_t old = tickets ->
    history_insert teqb h key tickets paths = Ok h.
  Proof.
    intros Hl <-. unfold history_insert. rewrite Hl, map_length, Nat.eqb_refl. cbn [negb].
    rewrite differing_indices_refl. reflexivity.
  Qed.

  Theorem history_insert_new_main (h : history) key tickets paths :
    alookup teqb h key = None ->
    history_insert teqb h key tickets paths = Ok (h ++ [(key, map (fun t => mk_fstate t 0%N false) tickets)]).
  Proof. intros Hl. unfold history_insert. rewrite Hl. reflexivity. Qed.

  Theorem history_insert_length_mismatch (h : history) key old tickets paths :
    alookup teqb h key = Some old -> length old <> length tickets ->
    history_insert teqb h key tickets paths = Err WWeird.
  Proof.
    intros Hl HL. unfold history_insert. rewrite Hl.
    destruct (Nat.eqb (length old) (length tickets)) eqn:E; [apply Nat.eqb_eq in E; contradiction|].
    reflexivity.
  Qed.

  (* whenever the insertion succeeds: the key now remembers exactly these tickets, every other key
     (and every earlier entry of this key) is as before — the history only grows *)
  Theorem history_insert_ok (h : history) key tickets paths h' :
    history_insert teqb h key tickets paths = Ok h' ->
    (exists v, alookup teqb h' key = Some v /\ map fs_t v = tickets) /\
    (forall k, k <> key -> alookup teqb h' k = alookup teqb h k) /\
    (forall v, alookup teqb h key = Some v -> h' = h).
  Proof.
    unfold history_insert. destruct (alookup teqb h key) as [old|] eqn:Hl.
    - destruct (Nat.eqb (length old) (length tickets)) eqn:EL; cbn [negb]; [|discriminate].
      apply Nat.eqb_eq in EL.
      destruct (differing_indices 0 (map fs_t old) tickets) as [|i0 idx] eqn:ED; [|discriminate].
      intro H; injection H as <-. split; [|split].
      + exists old. split; [exact Hl|]. eapply differing_indices_nil; [|exact ED].
        rewrite map_length; exact EL.
      + reflexivity.
      + reflexivity.
    - intro H; injection H as <-. split; [|split].
      + eexists. split.
        * rewrite (alookup_app_none teqb h _ key Hl). cbn [alookup]. rewrite teqb_refl. reflexivity.
        * rewrite map_map. cbn [fs_t]. apply map_id.
      + intros k Hk. destruct (alookup teqb h k) as [v|] eqn:Ek.
        * apply alookup_app_some. exact Ek.
        * rewrite (alookup_app_none teqb h _ k Ek). cbn [alookup].
          rewrite (eqb_spec_false teqb teqb_spec k key Hk). reflexivity.
      + discriminate.
  Qed.

  (* a rule thread that fails returns no history at all: TErr carries none *)
  Lemma handle_rule_contradiction (w : world) b h st cmd ps w' s :
    handle_rule teqb hc w b h st cmd = (Err (WContradiction ps), w', s) ->
    exists ress w1 b' old,
      resolved_of w b h st = Ok (ress, w1) /\ needs_rebuild ress = true /\
      s = script_lines cmd /\ w' = snd (run_script w1 s) /\
      update_blob teqb hc w' (forget_replaced hc b ress) = Ok b' /\
      alookup teqb h st = Some old /\
      history_insert teqb h st (map (fun e => fs_t (snd e)) b') (map fst b) = Err (WContradiction ps).
  Proof.
    intro H. apply handle_rule_cases in H.
    destruct (resolved_of w b h st) as [[ress w1]|e] eqn:ER.
    2:{ destruct H as (H & _). injection H as <-.
        unfold resolved_of in ER. destruct (alookup teqb h st) as [rem|].
        - exfalso. revert w rem ER. clear. induction b as [|[p a] rest IH]; intros w rem; cbn [resolve_remembered].
          + discriminate.
          + destruct rem as [|r rrest]; [discriminate|].
            destruct (resolve_single teqb hc w (fs_t r) p a) as [[res w1]|e] eqn:E1.
            * destruct (resolve_remembered teqb hc w1 rest rrest) as [[ress' w2]|e] eqn:E2; [discriminate|].
              intro H; injection H as ->. eapply IH; eauto.
            * intro H; injection H as ->. revert E1. unfold resolve_single, restore_or_rebuild.
              destruct (get_file_ticket teqb hc w p a) as [cur|].
              -- destruct (teqb (fs_t r) cur); [discriminate|].
                 destruct (back_up teqb w cur p) as [w1|]; [|discriminate].
                 destruct (restore teqb w1 (fs_t r) p); discriminate.
              -- destruct (restore teqb w (fs_t r) p); discriminate.
        - exfalso. revert w ER. clear. induction b as [|[p a] rest IH]; intros w; cbn [resolve_fresh].
          + discriminate.
          + destruct (get_file_ticket teqb hc w p a) as [cur|].
            * destruct (back_up teqb w cur p) as [w1|]; [|discriminate].
              destruct (resolve_fresh teqb hc w1 rest) as [[ress' w2]|e] eqn:E2; [discriminate|].
              intro H; injection H as ->. eapply IH; eauto.
            * destruct (resolve_fresh teqb hc w rest) as [[ress' w2]|e] eqn:E2; [discriminate|].
              intro H; injection H as ->. eapply IH; eauto. }
    cbv zeta in H. rewrite forget_replaced_fst in H.
    destruct (needs_rebuild ress) eqn:ENR.
    - destruct H as (-> & -> & H).
      destruct (command_verdict (fst (run_script w1 (script_lines cmd)))) as [e|] eqn:ECV.
      { unfold command_verdict in ECV. destruct (fst (run_script w1 (script_lines cmd))); [congruence|].
        destruct (forallb _ _); congruence. }
      destruct (update_blob teqb hc (snd (run_script w1 (script_lines cmd))) (forget_replaced hc b ress))
        as [b'|p] eqn:EUB; [|discriminate].
      destruct (history_insert teqb h st (map (fun e => fs_t (snd e)) b') (map fst b)) as [h'|e] eqn:EHI;
        [discriminate|].
      injection H as <-.
      destruct (alookup teqb h st) as [old|] eqn:El.
      2:{ rewrite history_insert_new_main in EHI by exact El. discriminate. }
      exists ress, w1, b', old. auto 10.
    - destruct H as (_ & _ & H).
      destruct (current_tickets teqb hc w1 (forget_replaced hc b ress)); discriminate.
  Qed.

  (* ---------- F4, build level: a rule whose thread did not succeed keeps its history file ---------- *)

  Lemma write_table_hist_at (w : world) t k : hist_at (write_table T w t) k = hist_at w k.
  Proof. reflexivity. Qed.

  Lemma hist_at_of (w w' : world) k : hist_of w' = hist_of w -> hist_at w' k = hist_at w k.
  Proof. unfold hist_at. intros ->. reflexivity. Qed.

  (* k: the name of a history file (a rule identity). If no successful rule thread has that identity,
     the file is after the build what it was before; in particular the file of a rule whose thread
     returned an error (a contradiction, say) or was cancelled — provided no other, successful, rule
     in the plan has the same identity — is untouched. When build stops on an unreadable history file
     no history file is written at all. *)
  Theorem build_failed_rule_history_unchanged_main (w : world) rp goal w1 t pack k :
    init_dir T w = Ok (w1, t) -> get_nodes T w1 rp goal = Ok pack ->
    match run_nodes (st_leaves w1 t pack) (p_nodes pack) with
    | None => True
    | Some st2 => forall r wr, In (Some r, TOk wr) (rs_results T st2) -> hr r <> k
    end ->
    hist_at (o_world (build teqb hc hl hr w rp goal)) k = hist_at w k.
  Proof.
    intros Hi Hg Hk. rewrite build_eq, Hi, Hg. cbv zeta.
    apply init_dir_ok in Hi as (_ & Hh & _). rewrite <- (Hh k).
    destruct (run_nodes (st_leaves w1 t pack) (p_nodes pack)) as [st2|] eqn:ER; cbn [o_world].
    - rewrite write_table_hist_at. unfold joined. rewrite join_all_hist_at_neq by exact Hk.
      cbn [js_world]. apply hist_at_of.
      apply run_nodes_spec in ER as (_ & _ & _ & Hh2 & _). rewrite Hh2, st_leaves_world. reflexivity.
    - rewrite write_table_hist_at. apply hist_at_of.
      destruct (upto_spec (p_nodes pack) (st_leaves w1 t pack)) as (_ & _ & Hh2).
      rewrite Hh2, st_leaves_world. reflexivity.
  Qed.

  Theorem build_fatal_history_unchanged (w : world) rp goal f k :
    o_verdict (build teqb hc hl hr w rp goal) = VFatal f ->
    hist_at (o_world (build teqb hc hl hr w rp goal)) k = hist_at w k.
  Proof.
    rewrite build_eq. destruct (init_dir T w) as [[w1 t]|f0] eqn:Hi.
    2:{ intros _. cbn [o_world]. unfold hist_at, hist_of, init_dir_world_on_error. cbn.
        destruct (rd_hist (w_rd w)); reflexivity. }
    pose proof (init_dir_ok _ _ _ Hi) as (_ & Hh & _).
    destruct (get_nodes T w1 rp goal) as [pack|f0] eqn:Hg.
    2:{ intros _. cbn [o_world]. apply Hh. }
    cbv zeta. destruct (run_nodes (st_leaves w1 t pack) (p_nodes pack)) as [st2|] eqn:ER.
    - cbn [o_verdict]. destruct (js_errors T (joined st2)); discriminate.
    - intros _. cbn [o_world]. rewrite <- (Hh k), write_table_hist_at. apply hist_at_of.
      destruct (upto_spec (p_nodes pack) (st_leaves w1 t pack)) as (_ & _ & Hh2).
      rewrite Hh2, st_leaves_world. reflexivity.
  Qed.

  (* the results, node by node *)
  Lemma run_leaf_results st leaf :
    exists tr, rs_results T (run_leaf T teqb hc st leaf) = rs_results T st ++ [(None, tr)].
  Proof.
    unfold run_leaf. destruct (take_blob T hc (rs_table T st) [leaf]) as [b t'].
    destruct (handle_leaf teqb hc (rs_world T st) b); eexists; reflexivity.
  Qed.

  Lemma run_leaves_results leaves : forall st,
    exists lr, rs_results T (fold_left (run_leaf T teqb hc) leaves st) = rs_results T st ++ lr /\
               Forall (fun x => fst x = None) lr.
  Proof.
    induction leaves as [|l r IH]; intro st; cbn [fold_left].
    - exists []. rewrite app_nil_r. split; [reflexivity | constructor].
    - destruct (IH (run_leaf T teqb hc st l)) as (lr & E & HF).
      destruct (run_leaf_results st l) as (tr & E1).
      exists ((None, tr) :: lr). split.
      + rewrite E, E1, <- app_assoc. reflexivity.
      + constructor; [reflexivity | exact HF].
  Qed.

  Lemma build_results_shape w1 t pack st2 :
    run_nodes (st_leaves w1 t pack) (p_nodes pack) = Some st2 ->
    exists lr trs,
      rs_results T st2 = lr ++ combine (map (fun n => Some (n_rule n)) (p_nodes pack)) trs /\
      Forall (fun x => fst x = None) lr /\ length trs = length (p_nodes pack).
  Proof.
    intro ER. apply run_nodes_spec in ER as (_ & _ & (trs & LT & R) & _).
    destruct (run_leaves_results (p_leaves pack) (mk_rs T w1 t [] [] [] [])) as (lr & E & HF).
    exists lr, trs. split; [|split; assumption].
    rewrite R. unfold st_leaves. rewrite E. reflexivity.
  Qed.

  Lemma nth_error_combine_inv {A B} (l : list A) (l' : list B) k x y :
    nth_error (combine l l') k = Some (x, y) -> nth_error l k = Some x /\ nth_error l' k = Some y.
  Proof.
    revert l l'. induction k as [|k IH]; intros [|a l] [|b' l']; cbn; try discriminate.
    - intro H; injection H as -> ->. auto.
    - apply IH.
  Qed.

  (* the same, told by position in the plan: trs are the thread results of the rule nodes in plan
     order; if every node whose identity is k has a result other than TOk, the file k is unchanged *)
  Theorem build_failed_rule_history_unchanged_nodes (w : world) rp goal w1 t pack st2 lr trs k :
    init_dir T w = Ok (w1, t) -> get_nodes T w1 rp goal = Ok pack ->
    run_nodes (st_leaves w1 t pack) (p_nodes pack) = Some st2 ->
    rs_results T st2 = lr ++ combine (map (fun n => Some (n_rule n)) (p_nodes pack)) trs ->
    Forall (fun x => fst x = None) lr ->
    (forall i n wr, nth_error (p_nodes pack) i = Some n -> nth_error trs i = Some (TOk wr) ->
                    hr (n_rule n) <> k) ->
    hist_at (o_world (build teqb hc hl hr w rp goal)) k = hist_at w k.
  Proof.
    intros Hi Hg ER HR HF Hk. eapply build_failed_rule_history_unchanged_main; eauto.
    rewrite ER. intros r wr Hin. rewrite HR in Hin. apply in_app_or in Hin as [Hin|Hin].
    - rewrite Forall_forall in HF. apply HF in Hin. discriminate.
    - apply In_nth_error in Hin as [i Hi']. apply nth_error_combine_inv in Hi' as [H1 H2].
      rewrite nth_error_map in H1. destruct (nth_error (p_nodes pack) i) as [n|] eqn:En; [|discriminate].
      cbn in H1. injection H1 as <-. eapply Hk; eauto.
  Qed.

  (* how a node's thread result comes about *)
  Lemma run_node_result st n st' :
    run_node st n = Some st' ->
    exists tr,
      rs_results T st' = rs_results T st ++ [(Some (n_rule n), tr)] /\
      (tr = TCanceled \/
       exists b t' h tickets res w' s,
         take_blob T hc (rs_table T st) (n_targets n) = (b, t') /\ map fst b = n_targets n /\
         read_history T teqb hr (rs_world T st) (n_rule n) = Some h /\
         handle_rule teqb hc (rs_world T st) b h (hl tickets) (n_command n) = (res, w', s) /\
         tr = match res with Ok wr => TOk wr | Err e => TErr e end /\
         rs_world T st' = w' /\ rs_commands T st' = rs_commands T st ++ s).
  Proof.
    unfold Build.run_node.
    pose proof (take_blob_fst (n_targets n) (rs_table T st)) as Hb.
    destruct (take_blob T hc (rs_table T st) (n_targets n)) as [b t'] eqn:ET. cbn [fst] in Hb.
    destruct (read_history T teqb hr (rs_world T st) (n_rule n)) as [h|] eqn:EH; [|discriminate].
    destruct (all_some _) as [tickets|].
    2:{ intro H; injection H as <-. exists TCanceled. cbn. auto. }
    destruct (handle_rule teqb hc (rs_world T st) b h (hl tickets) (n_command n)) as [[res w'] s] eqn:EHR.
    destruct res as [wr|e]; intro H; injection H as <-; eexists; (split; [reflexivity|]); right;
      exists b, t', h, tickets; eexists; exists w', s; cbn; repeat (split; [eassumption || reflexivity|]);
      reflexivity.
  Qed.

  (* the status lines of a build are those of the successful threads, in spawn order *)
  Theorem build_status_lines (w : world) rp goal w1 t pack st2 :
    init_dir T w = Ok (w1, t) -> get_nodes T w1 rp goal = Ok pack ->
    run_nodes (st_leaves w1 t pack) (p_nodes pack) = Some st2 ->
    o_status (build teqb hc hl hr w rp goal) = flat_map result_status (rs_results T st2).
  Proof.
    intros Hi Hg ER. rewrite build_eq, Hi, Hg. cbv zeta. rewrite ER. cbn [o_status].
    unfold joined. rewrite join_all_status. reflexivity.
  Qed.

  (* ---------- F5: clean ---------- *)

  Lemma get_file_ticket_none (w : world) p a : get_file_ticket teqb hc w p a = None <-> fget w p = None.
  Proof.
    unfold get_file_ticket. destruct (fget w p) as [f|]; [|split; reflexivity].
    destruct (shortcut teqb hc f a); split; discriminate.
  Qed.

  Lemma get_file_ticket_ext (w w' : world) p a :
    fget w' p = fget w p -> get_file_ticket teqb hc w' p a = get_file_ticket teqb hc w p a.
  Proof. unfold get_file_ticket. intros ->. reflexivity. Qed.

  Lemma bytes_eq_dec (a b : bytes) : a = b \/ a <> b.
  Proof.
    destruct (bytes_eqb a b) eqn:E; [left; apply bytes_eqb_eq | right; apply bytes_eqb_neq]; exact E.
  Qed.

  Lemma back_up_none_mono (w : world) t p w' q :
    back_up teqb w t p = Some w' -> fget w q = None -> fget w' q = None.
  Proof.
    intros H Hq. destruct (bytes_eq_dec q p) as [->|Hne].
    - eapply back_up_fget_eq; eauto.
    - rewrite (back_up_fget_neq _ _ _ _ _ H Hne). exact Hq.
  Qed.

  (* clean never brings a file into the workspace *)
  Lemma clean_targets_none_mono (b : blob) : forall (w w' : world) q,
    clean_targets teqb hc w b = Ok w' -> fget w q = None -> fget w' q = None.
  Proof.
    induction b as [|[p a] rest IH]; intros w w' q; cbn [clean_targets].
    - intro H; injection H as <-. auto.
    - destruct (get_file_ticket teqb hc w p a) as [cur|].
      + destruct (back_up teqb w cur p) as [w1|] eqn:Eb; [|discriminate]. intros H Hq.
        eapply IH; [exact H|]. eapply back_up_none_mono; eauto.
      + apply IH.
  Qed.

  Theorem clean_targets_removes_main (b : blob) : forall (w w' : world),
    clean_targets teqb hc w b = Ok w' -> forall p, In p (map fst b) -> fget w' p = None.
  Proof.
    induction b as [|[p0 a] rest IH]; intros w w'; cbn [clean_targets map fst].
    - intros _ p [].
    - destruct (get_file_ticket teqb hc w p0 a) as [cur|] eqn:EG.
      + destruct (back_up teqb w cur p0) as [w1|] eqn:Eb; [|discriminate]. intros H p [<-|Hin].
        * eapply clean_targets_none_mono; [exact H|]. eapply back_up_fget_eq; eauto.
        * eapply IH; eauto.
      + intros H p [<-|Hin].
        * eapply clean_targets_none_mono; [exact H|]. apply get_file_ticket_none in EG. exact EG.
        * eapply IH; eauto.
  Qed.

  Lemma cache_of_back_up (w : world) t p w' c f :
    back_up teqb w t p = Some w' -> cache_of w = Some c -> fget w p = Some f ->
    cache_of w' = Some (ainsert teqb c t f).
  Proof.
    intros H Hc Hf. apply back_up_spec in H as (c0 & f0 & Hc0 & Hf0 & ->).
    rewrite Hc in Hc0. rewrite Hf in Hf0. injection Hc0 as <-. injection Hf0 as <-. reflexivity.
  Qed.

  (* an entry under ticket t stays an entry under ticket t, possibly replaced by a later target with
     the same ticket *)
  Lemma clean_targets_cache_after (rest : blob) : forall (w1 w' : world) c1 t f,
    clean_targets teqb hc w1 rest = Ok w' -> NoDup (map fst rest) ->
    cache_of w1 = Some c1 -> alookup teqb c1 t = Some f ->
    exists c' f', cache_of w' = Some c' /\ alookup teqb c' t = Some f' /\
      (f' = f \/ exists q stq, In (q, stq) rest /\ fget w1 q = Some f' /\
                               get_file_ticket teqb hc w1 q stq = Some t).
  Proof.
    induction rest as [|[q stq] rest' IH]; intros w1 w' c1 t f; cbn [clean_targets map fst].
    - intro H; injection H as <-. intros _ Hc Hl. exists c1, f. auto.
    - intros H Hnd Hc Hl. inversion Hnd as [|? ? Hnotin Hnd']; subst.
      destruct (get_file_ticket teqb hc w1 q stq) as [tq|] eqn:EG.
      + destruct (back_up teqb w1 tq q) as [w2|] eqn:Eb; [|discriminate].
        pose proof (back_up_spec _ _ _ _ Eb) as (c0 & fq & Hc0 & Hfq & _).
        pose proof (cache_of_back_up _ _ _ _ _ _ Eb Hc Hfq) as Hc2.
        assert (forall q' stq', In (q', stq') rest' ->
                  fget w2 q' = fget w1 q' /\
                  get_file_ticket teqb hc w2 q' stq' = get_file_ticket teqb hc w1 q' stq') as Hsame.
        { intros q' stq' Hin. assert (q' <> q) as Hne.
          { intros ->. apply Hnotin. apply (in_map fst) in Hin. exact Hin. }
          pose proof (back_up_fget_neq _ _ _ _ _ Eb Hne) as E. split; [exact E|].
          apply get_file_ticket_ext. exact E. }
        destruct (teqb tq t) eqn:Et.
        * apply teqb_spec in Et; subst tq.
          assert (alookup teqb (ainsert teqb c1 t fq) t = Some fq) as Hl2
              by apply (alookup_ainsert_eq teqb teqb_spec).
          destruct (IH w2 w' _ t fq H Hnd' Hc2 Hl2) as (c' & f' & Hc' & Hl' & Hor).
          exists c', f'. split; [exact Hc'|]. split; [exact Hl'|]. right.
          destruct Hor as [->|(q' & stq' & Hin & Hf' & Ht')].
          -- exists q, stq. split; [left; reflexivity|]. auto.
          -- exists q', stq'. destruct (Hsame q' stq' Hin) as [E1 E2].
             split; [right; exact Hin|]. rewrite <- E1, <- E2. auto.
        * assert (alookup teqb (ainsert teqb c1 tq fq) t = Some f) as Hl2.
          { rewrite (alookup_ainsert_neq teqb teqb_spec); [exact Hl|].
            apply (eqb_spec_false_inv teqb teqb_spec). exact Et. }
          destruct (IH w2 w' _ t f H Hnd' Hc2 Hl2) as (c' & f' & Hc' & Hl' & Hor).
          exists c', f'. split; [exact Hc'|]. split; [exact Hl'|].
          destruct Hor as [->|(q' & stq' & Hin & Hf' & Ht')]; [left; reflexivity|]. right.
          exists q', stq'. destruct (Hsame q' stq' Hin) as [E1 E2].
          split; [right; exact Hin|]. rewrite <- E1, <- E2. auto.
      + destruct (IH w1 w' c1 t f H Hnd' Hc Hl) as (c' & f' & Hc' & Hl' & Hor).
        exists c', f'. split; [exact Hc'|]. split; [exact Hl'|].
        destruct Hor as [->|(q' & stq' & Hin & Hf' & Ht')]; [left; reflexivity|]. right.
        exists q', stq'. split; [right; exact Hin|]. auto.
  Qed.

  (* every file that clean displaces is in the cache afterwards under its ticket t — itself, unless a
     later target of the same blob had the same ticket (then that one: same ticket, so the same
     content as far as ruler can tell) *)
  Theorem clean_targets_caches_main (b : blob) : forall (w w' : world),
    clean_targets teqb hc w b = Ok w' -> NoDup (map fst b) ->
    forall p st f, In (p, st) b -> fget w p = Some f ->
    exists c t f',
      cache_of w' = Some c /\ get_file_ticket teqb hc w p st = Some t /\ alookup teqb c t = Some f' /\
      (f' = f \/ exists q stq, In (q, stq) b /\ q <> p /\ fget w q = Some f' /\
                               get_file_ticket teqb hc w q stq = Some t).
  Proof.
    induction b as [|[q0 st0] rest IH]; intros w w' H Hnd p st f Hin Hf.
    - destruct Hin.
    - cbn [map fst] in Hnd. inversion Hnd as [|? ? Hnotin Hnd']; subst.
      cbn [clean_targets] in H. destruct Hin as [E|Hin].
      + injection E as -> ->.
        destruct (get_file_ticket teqb hc w p st) as [t|] eqn:EG.
        2:{ apply get_file_ticket_none in EG. congruence. }
        destruct (back_up teqb w t p) as [w1|] eqn:Eb; [|discriminate].
        pose proof (back_up_spec _ _ _ _ Eb) as (c0 & f0 & Hc0 & Hf0 & _).
        pose proof (cache_of_back_up _ _ _ _ _ _ Eb Hc0 Hf) as Hc1.
        assert (alookup teqb (ainsert teqb c0 t f) t = Some f) as Hl1
            by apply (alookup_ainsert_eq teqb teqb_spec).
        destruct (clean_targets_cache_after rest w1 w' _ t f H Hnd' Hc1 Hl1) as (c' & f' & Hc' & Hl' & Hor).
        exists c', t, f'. split; [exact Hc'|]. split; [reflexivity|]. split; [exact Hl'|].
        destruct Hor as [->|(q & stq & Hin & Hf' & Ht')]; [left; reflexivity|]. right.
        assert (q <> p) as Hne.
        { intros ->. apply Hnotin. apply (in_map fst) in Hin. exact Hin. }
        pose proof (back_up_fget_neq _ _ _ _ _ Eb Hne) as E1.
        exists q, stq. split; [right; exact Hin|]. split; [exact Hne|].
        rewrite <- E1, <- (get_file_ticket_ext w w1 q stq E1). auto.
      + assert (p <> q0) as Hne.
        { intros ->. apply Hnotin. apply (in_map fst) in Hin. exact Hin. }
        assert (forall w1 : world,
                   (forall q, q <> q0 -> fget w1 q = fget w q) ->
                   clean_targets teqb hc w1 rest = Ok w' ->
                   exists c t f',
                     cache_of w' = Some c /\ get_file_ticket teqb hc w p st = Some t /\
                     alookup teqb c t = Some f' /\
                     (f' = f \/ exists q stq, In (q, stq) ((q0, st0) :: rest) /\ q <> p /\
                                              fget w q = Some f' /\
                                              get_file_ticket teqb hc w q stq = Some t)) as Hstep.
        { intros w1 Hsame H1.
          assert (fget w1 p = Some f) as Hf1 by (rewrite Hsame; auto).
          destruct (IH w1 w' H1 Hnd' p st f Hin Hf1) as (c & t & f' & Hc & Ht & Hl & Hor).
          exists c, t, f'. split; [exact Hc|]. split.
          { rewrite <- Ht. symmetry. apply get_file_ticket_ext. apply Hsame, Hne. }
          split; [exact Hl|].
          destruct Hor as [->|(q & stq & Hinq & Hqp & Hfq & Htq)]; [left; reflexivity|]. right.
          assert (q <> q0) as Hq0.
          { intros ->. apply Hnotin. apply (in_map fst) in Hinq. exact Hinq. }
          exists q, stq. split; [right; exact Hinq|]. split; [exact Hqp|].
          rewrite <- (Hsame q Hq0), <- (get_file_ticket_ext w w1 q stq (Hsame q Hq0)). auto. }
        destruct (get_file_ticket teqb hc w q0 st0) as [t0|] eqn:EG.
        * destruct (back_up teqb w t0 q0) as [w1|] eqn:Eb; [|discriminate].
          apply (Hstep w1); [|exact H]. intros q Hq. eapply back_up_fget_neq; eauto.
        * apply (Hstep w); [|exact H]. reflexivity.
  Qed.

  (* with distinct tickets the cache holds the very file that was at p *)
  Corollary clean_targets_caches_distinct (b : blob) (w w' : world) p st f :
    clean_targets teqb hc w b = Ok w' -> NoDup (map fst b) ->
    In (p, st) b -> fget w p = Some f ->
    (forall q stq, In (q, stq) b -> q <> p ->
                   get_file_ticket teqb hc w q stq <> get_file_ticket teqb hc w p st) ->
    exists c t, cache_of w' = Some c /\ get_file_ticket teqb hc w p st = Some t /\
                alookup teqb c t = Some f.
  Proof.
    intros H Hnd Hin Hf Hd.
    destruct (clean_targets_caches_main b w w' H Hnd p st f Hin Hf) as (c & t & f' & Hc & Ht & Hl & Hor).
    exists c, t. split; [exact Hc|]. split; [exact Ht|].
    destruct Hor as [->|(q & stq & Hinq & Hqp & _ & Htq)]; [exact Hl|].
    exfalso. apply (Hd q stq Hinq Hqp). congruence.
  Qed.

  Lemma clean_nodes_none_mono ns : forall (w : world) t errs q,
    fget w q = None -> fget (fst (clean_nodes w t ns errs)) q = None.
  Proof.
    induction ns as [|n rest IH]; intros w t errs q Hq; cbn [Build.clean_nodes]; [exact Hq|].
    destruct (take_blob T hc t (n_targets n)) as [b t'].
    destruct (clean_targets teqb hc w b) as [w'|e] eqn:EC.
    - apply IH. eapply clean_targets_none_mono; eauto.
    - apply IH. exact Hq.
  Qed.

  Lemma clean_nodes_ok ns : forall (w : world) t errs,
    snd (clean_nodes w t ns errs) = [] ->
    forall p, In p (flat_map n_targets ns) -> fget (fst (clean_nodes w t ns errs)) p = None.
  Proof.
    induction ns as [|n rest IH]; intros w t errs; cbn [Build.clean_nodes flat_map].
    - intros _ p [].
    - pose proof (take_blob_fst (n_targets n) t) as Hb.
      destruct (take_blob T hc t (n_targets n)) as [b t']. cbn [fst] in Hb.
      destruct (clean_targets teqb hc w b) as [w'|e] eqn:EC.
      + intros Hs p Hin. apply in_app_or in Hin as [Hin|Hin].
        * apply clean_nodes_none_mono. eapply clean_targets_removes_main; [exact EC|].
          rewrite Hb. exact Hin.
        * apply IH; assumption.
      + intros Hs. exfalso.
        destruct (clean_nodes_frame rest w t' (errs ++ [e])) as [_ [more Hm]].
        rewrite Hm in Hs. apply app_eq_nil in Hs as [Hs _]. apply app_eq_nil in Hs as [_ Hs].
        discriminate.
  Qed.

  Theorem clean_removes_all_targets_main (w : world) rp goal w1 t pack :
    init_dir T w = Ok (w1, t) -> get_nodes T w1 rp goal = Ok pack ->
    o_verdict (clean teqb hc w rp goal) = VOk ->
    forall p, In p (plan_targets pack) -> fget (o_world (clean teqb hc w rp goal)) p = None.
  Proof.
    intros Hi Hg. rewrite clean_eq, Hi, Hg. cbn [o_verdict o_world]. intros Hv p Hp.
    apply clean_nodes_ok; [|exact Hp].
    destruct (snd (clean_nodes w1 t (p_nodes pack) [])); [reflexivity | discriminate].
  Qed.

  (* ---------- F3, build level ---------- *)

  Lemma handle_leaf_status (w : world) b wr :
    handle_leaf teqb hc w b = Ok wr -> status_lines T wr = [].
  Proof.
    unfold handle_leaf. destruct (current_tickets teqb hc w b); [|discriminate].
    intro H; injection H as <-. reflexivity.
  Qed.

  Lemma run_leaf_results_status st leaf :
    exists tr, rs_results T (run_leaf T teqb hc st leaf) = rs_results T st ++ [(None, tr)] /\
               result_status (None, tr) = [].
  Proof.
    unfold run_leaf. destruct (take_blob T hc (rs_table T st) [leaf]) as [b t'].
    destruct (handle_leaf teqb hc (rs_world T st) b) as [wr|e] eqn:E; eexists; (split; [reflexivity|]).
    - unfold result_status. cbn [snd]. eapply handle_leaf_status; eauto.
    - reflexivity.
  Qed.

  Lemma run_leaves_results_status leaves : forall st,
    exists lr, rs_results T (fold_left (run_leaf T teqb hc) leaves st) = rs_results T st ++ lr /\
               flat_map result_status lr = [].
  Proof.
    induction leaves as [|l r IH]; intro st; cbn [fold_left].
    - exists []. rewrite app_nil_r. split; reflexivity.
    - destruct (IH (run_leaf T teqb hc st l)) as (lr & E & HF).
      destruct (run_leaf_results_status st l) as (tr & E1 & S1).
      exists ((None, tr) :: lr). split.
      + rewrite E, E1, <- app_assoc. reflexivity.
      + cbn [flat_map]. rewrite S1, HF. reflexivity.
  Qed.

  (* a successful thread result of node n is what some call of handle_rule on n's targets and n's
     command returned *)
  Definition node_result_ok (n : node) (tr : thread_result) : Prop :=
    match tr with
    | TOk wr => exists (w : world) b h tickets w' s,
                  map fst b = n_targets n /\
                  handle_rule teqb hc w b h (hl tickets) (n_command n) = (Ok wr, w', s)
    | _ => True
    end.

  Lemma run_nodes_results ns : forall st st',
    run_nodes st ns = Some st' ->
    exists trs, rs_results T st' = rs_results T st ++ combine (map (fun n => Some (n_rule n)) ns) trs /\
                Forall2 node_result_ok ns trs.
  Proof.
    induction ns as [|n rest IH]; intros st st'; cbn [Build.run_nodes].
    - intro H; injection H as <-. exists []. cbn. rewrite app_nil_r. split; [reflexivity | constructor].
    - destruct (run_node st n) as [st1|] eqn:E1; [|discriminate]. intro H.
      apply run_node_result in E1 as (tr & R1 & Htr).
      apply IH in H as (trs & R2 & HF).
      exists (tr :: trs). split.
      + rewrite R2, R1. cbn [map combine]. rewrite <- app_assoc. reflexivity.
      + constructor; [|exact HF].
        destruct Htr as [->|(b & t' & h & tickets & res & w' & s & _ & Hb & _ & EH & -> & _)];
          [exact I|].
        destruct res as [wr|e]; [|exact I]. cbn. exists (rs_world T st), b, h, tickets, w', s. auto.
  Qed.

  Definition tr_status (tr : thread_result) : list (banner * bytes) :=
    match tr with TOk wr => status_lines T wr | _ => [] end.

  Lemma node_results_status ns : forall trs,
    Forall2 node_result_ok ns trs ->
    flat_map result_status (combine (map (fun n => Some (n_rule n)) ns) trs)
    = flat_map (fun nt : node * thread_result => tr_status (snd nt)) (combine ns trs) /\
    map snd (flat_map (fun nt : node * thread_result => tr_status (snd nt)) (combine ns trs))
    = flat_map (fun nt : node * thread_result =>
                  match snd nt with TOk _ => n_targets (fst nt) | _ => [] end) (combine ns trs).
  Proof.
    intros trs HF. induction HF as [|n tr ns' trs' Hok HF' [IH1 IH2]]; [split; reflexivity|].
    cbn [map combine flat_map fst snd]. split.
    - rewrite IH1. reflexivity.
    - rewrite map_app, IH2. f_equal.
      destruct tr as [wr|e|]; cbn [tr_status]; try reflexivity.
      destruct Hok as (w & b & h & tickets & w' & s & Hb & EH).
      apply C20_status_truthful_main in EH as [Hlines _]. congruence.
  Qed.

  (* C20 for a whole build: the status lines are, node by node in plan order, one line per target of
     every node whose thread succeeded, and nothing for the others (and nothing for leaves) *)
  Theorem build_status_truthful (w : world) rp goal w1 t pack st2 :
    init_dir T w = Ok (w1, t) -> get_nodes T w1 rp goal = Ok pack ->
    run_nodes (st_leaves w1 t pack) (p_nodes pack) = Some st2 ->
    exists trs,
      Forall2 node_result_ok (p_nodes pack) trs /\
      o_status (build teqb hc hl hr w rp goal)
      = flat_map (fun nt : node * thread_result => tr_status (snd nt)) (combine (p_nodes pack) trs) /\
      map snd (o_status (build teqb hc hl hr w rp goal))
      = flat_map (fun nt : node * thread_result =>
                    match snd nt with TOk _ => n_targets (fst nt) | _ => [] end)
                 (combine (p_nodes pack) trs).
  Proof.
    intros Hi Hg ER. rewrite (build_status_lines _ _ _ _ _ _ _ Hi Hg ER).
    apply run_nodes_results in ER as (trs & R & HF).
    destruct (run_leaves_results_status (p_leaves pack) (mk_rs T w1 t [] [] [] [])) as (lr & E & HS).
    exists trs. split; [exact HF|].
    destruct (node_results_status _ _ HF) as [S1 S2].
    assert (flat_map result_status (rs_results T st2)
            = flat_map (fun nt : node * thread_result => tr_status (snd nt)) (combine (p_nodes pack) trs)) as HE.
    { rewrite R. unfold st_leaves. rewrite E. cbn [rs_results app].
      rewrite flat_map_app, HS, S1. reflexivity. }
    rewrite HE. split; [reflexivity | exact S2].
  Qed.

  (* ---------- small frame facts asked for ---------- *)

  Lemma tick_files (w : world) : w_files (tick w) = w_files w.
  Proof. reflexivity. Qed.

  Lemma write_table_files (w : world) t : w_files (write_table T w t) = w_files w.
  Proof. reflexivity. Qed.

  Lemma init_dir_files (w w1 : world) t : init_dir T w = Ok (w1, t) -> w_files w1 = w_files w.
  Proof. intro H. apply init_dir_ok in H as (H & _). exact H. Qed.


  (* bullet 1, in terms of the resolutions *)
  Lemma handle_rule_executed_iff_needs (w : world) b h st cmd wr w' s ress w1 :
    handle_rule teqb hc w b h st cmd = (Ok wr, w', s) ->
    resolved_of w b h st = Ok (ress, w1) ->
    (wr_option wr = CommandExecuted <-> needs_rebuild ress = true) /\
    (needs_rebuild ress = true -> s = script_lines cmd /\ w' = snd (run_script w1 s)) /\
    (needs_rebuild ress = false -> s = [] /\ w' = w1 /\ wr_option wr = Resolutions ress).
  Proof.
    intros H ER. apply handle_rule_ok in H as (ress' & w1' & ER' & _ & Hor).
    rewrite ER in ER'. injection ER' as <- <-.
    destruct Hor as [(Hn & Ho & Hs & _ & Hw & _)|(Hn & Ho & Hs & Hw & _)]; rewrite Hn.
    - split; [split; auto|]. split; [auto | discriminate].
    - split; [split; [rewrite Ho; discriminate | discriminate]|]. split; [discriminate | auto].
  Qed.

  (* F1 for the history alphabet: an OBuild / OClean step (the tick included) *)
  Corollary apply_op_build_frame (w : world) goal w1 t pack p :
    init_dir T w = Ok (w1, t) -> get_nodes T w1 RULES_PATH goal = Ok pack ->
    Forall node_confined (p_nodes pack) -> ~ In p (plan_targets pack) ->
    fget (fst (apply_op teqb hc hl hr w (OBuild goal))) p = fget w p.
  Proof. intros Hi Hg Hc Hp. cbn [apply_op fst]. eapply build_frame_main; eauto. Qed.

  Corollary apply_op_clean_frame (w : world) goal w1 t pack p :
    init_dir T w = Ok (w1, t) -> get_nodes T w1 RULES_PATH goal = Ok pack ->
    ~ In p (plan_targets pack) ->
    fget (fst (apply_op teqb hc hl hr w (OClean goal))) p = fget w p.
  Proof. intros Hi Hg Hp. cbn [apply_op fst]. eapply clean_frame_main; eauto. Qed.

  (* ==== RESULTS ==== *)

  (* F1 (C09 frame) *)
  Theorem build_frame : forall (w : world) rp goal w1 t pack p,
    init_dir T w = Ok (w1, t) -> get_nodes T w1 rp goal = Ok pack ->
    Forall node_confined (p_nodes pack) -> ~ In p (plan_targets pack) ->
    fget (o_world (build teqb hc hl hr w rp goal)) p = fget w p.
  Proof. exact build_frame_main. Qed.

  Theorem clean_frame : forall (w : world) rp goal w1 t pack p,
    init_dir T w = Ok (w1, t) -> get_nodes T w1 rp goal = Ok pack ->
    ~ In p (plan_targets pack) ->
    fget (o_world (clean teqb hc w rp goal)) p = fget w p.
  Proof. exact clean_frame_main. Qed.

  Theorem build_frame_fatal : forall (w : world) rp goal,
    (forall f, init_dir T w = Err f ->
               w_files (o_world (build teqb hc hl hr w rp goal)) = w_files w) /\
    (forall w1 t f, init_dir T w = Ok (w1, t) -> get_nodes T w1 rp goal = Err f ->
               w_files (o_world (build teqb hc hl hr w rp goal)) = w_files w).
  Proof. exact build_frame_fatal_main. Qed.

  Theorem clean_frame_fatal : forall (w : world) rp goal,
    (forall f, init_dir T w = Err f ->
               w_files (o_world (clean teqb hc w rp goal)) = w_files w) /\
    (forall w1 t f, init_dir T w = Ok (w1, t) -> get_nodes T w1 rp goal = Err f ->
               w_files (o_world (clean teqb hc w rp goal)) = w_files w).
  Proof. exact clean_frame_fatal_main. Qed.

  (* F2 (C02 at most once); holds for every outcome with a plan, the History-fatal one included
     (there the flags of the nodes that never ran are false); without a plan: build_commands_fatal *)
  Theorem build_commands_shape : forall (w : world) rp goal w1 t pack,
    init_dir T w = Ok (w1, t) -> get_nodes T w1 rp goal = Ok pack ->
    exists flags : list bool,
      length flags = length (p_nodes pack) /\
      o_commands (build teqb hc hl hr w rp goal) =
      flat_map (fun nf : node * bool => if snd nf then script_lines (n_command (fst nf)) else [])
               (combine (p_nodes pack) flags).
  Proof. exact build_commands_shape_main. Qed.

  (* F3 (C20); bullets: handle_rule_executed_iff, the theorem below, join_one_err_no_status /
     join_one_canceled_no_status; for a whole build: build_status_truthful *)
  Theorem c20_status_truthful : forall (w : world) b h st cmd wr w' s,
    handle_rule teqb hc w b h st cmd = (Ok wr, w', s) ->
    map snd (status_lines T wr) = map fst b /\
    ((wr_option wr = CommandExecuted /\ s = script_lines cmd /\ s <> [] /\
      status_lines T wr = map (fun e => (BBuilt, fst e)) b)
     \/
     (s = [] /\
      exists ress,
        wr_option wr = Resolutions ress /\ length ress = length b /\ ~ In NeedsRebuild ress /\
        forall k p a, nth_error b k = Some (p, a) ->
          exists res rem r wk wk',
            nth_error ress k = Some res /\
            nth_error (status_lines T wr) k = Some (banner_of res, p) /\
            alookup teqb h st = Some rem /\ nth_error rem k = Some r /\
            resolve_remembered teqb hc w (firstn k b) rem = Ok (firstn k ress, wk) /\
            resolve_single teqb hc wk (fs_t r) p a = Ok (res, wk') /\
            (res = AlreadyCorrect -> wk' = wk /\ get_file_ticket teqb hc wk p a = Some (fs_t r)) /\
            (res = Recovered ->
               exists w0, ((w0 = wk /\ fget wk p = None) \/
                           (exists cur, get_file_ticket teqb hc wk p a = Some cur /\ cur <> fs_t r /\
                                        back_up teqb wk cur p = Some w0)) /\
                          restore teqb w0 (fs_t r) p = RDone wk'))).
  Proof. exact C20_status_truthful_main. Qed.

  (* F4 (C17) *)
  Theorem history_insert_contradiction : forall (h : history) key old tickets paths,
    alookup teqb h key = Some old -> length old = length tickets ->
    map fs_t old <> tickets ->
    exists idx,
      history_insert teqb h key tickets paths = Err (WContradiction (map (fun i => nth i paths []) idx)) /\
      idx <> [] /\
      (forall i, In i idx <-> (i < length tickets /\ nth_error (map fs_t old) i <> nth_error tickets i)) /\
      StronglySorted lt idx.
  Proof. exact history_insert_contradiction_main. Qed.

  Theorem history_insert_same : forall (h : history) key old tickets paths,
    alookup teqb h key = Some old -> map fs_t old = tickets ->
    history_insert teqb h key tickets paths = Ok h.
  Proof. exact history_insert_same_main. Qed.

  Theorem history_insert_new : forall (h : history) key tickets paths,
    alookup teqb h key = None ->
    history_insert teqb h key tickets paths = Ok (h ++ [(key, map (fun t => mk_fstate t 0%N false) tickets)]).
  Proof. exact history_insert_new_main. Qed.

  Theorem build_failed_rule_history_unchanged : forall (w : world) rp goal w1 t pack k,
    init_dir T w = Ok (w1, t) -> get_nodes T w1 rp goal = Ok pack ->
    match run_nodes (st_leaves w1 t pack) (p_nodes pack) with
    | None => True
    | Some st2 => forall r wr, In (Some r, TOk wr) (rs_results T st2) -> hr r <> k
    end ->
    hist_at (o_world (build teqb hc hl hr w rp goal)) k = hist_at w k.
  Proof. exact build_failed_rule_history_unchanged_main. Qed.

  (* F5 (C10) *)
  Theorem clean_targets_removes : forall (b : blob) (w w' : world),
    clean_targets teqb hc w b = Ok w' -> forall p, In p (map fst b) -> fget w' p = None.
  Proof. exact clean_targets_removes_main. Qed.

  Theorem clean_targets_caches : forall (b : blob) (w w' : world),
    clean_targets teqb hc w b = Ok w' -> NoDup (map fst b) ->
    forall p st f, In (p, st) b -> fget w p = Some f ->
    exists c t f',
      cache_of w' = Some c /\ get_file_ticket teqb hc w p st = Some t /\ alookup teqb c t = Some f' /\
      (f' = f \/ exists q stq, In (q, stq) b /\ q <> p /\ fget w q = Some f' /\
                               get_file_ticket teqb hc w q stq = Some t).
  Proof. exact clean_targets_caches_main. Qed.

  Theorem clean_removes_all_targets : forall (w : world) rp goal w1 t pack,
    init_dir T w = Ok (w1, t) -> get_nodes T w1 rp goal = Ok pack ->
    o_verdict (clean teqb hc w rp goal) = VOk ->
    forall p, In p (plan_targets pack) -> fget (o_world (clean teqb hc w rp goal)) p = None.
  Proof. exact clean_removes_all_targets_main. Qed.

End Facts.
