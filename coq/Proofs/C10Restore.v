(* C10, part 4: the build after a clean, replayed along the trace of the build before the clean: every
   target is absent, its remembered hash is in the cache, it is restored and nothing runs. *)
From Coq Require Import Relations.Relation_Operators Relations.Operators_Properties.
From Ruler Require Import Tactics Bytes AList RuleSyntax Parser TopoSort TopoSpec World Cmdlang Work Build Ops Inv
     BuildSpec Ideal BytesFacts InvFacts TopoSortFacts BuildFacts C01Script C01Hist C01Build C01Plan
     C10Facts C10Summary C10Clean.
Local Open Scope N_scope.

Section Restore.
  Variable T : Type.
  Variable teqb : T -> T -> bool.
  Variable hc : bytes -> T.
  Variable hl : list T -> T.
  Variable hr : rule -> T.
  Hypothesis teqb_spec : forall a b, teqb a b = true <-> a = b.
  Hypothesis hc_inj : forall a b, hc a = hc b -> a = b.

  Notation world := (world T).
  Notation fstate := (fstate T).
  Notation disk_inv := (disk_inv teqb hc).
  Notation steps := (clos_refl_trans world (step teqb hc)).
  Notation has_hash := (has_hash T hc).
  Notation rs_inv := (InvProofs.rs_inv T teqb hc).
  Notation hist_at := (hist_at T teqb).
  Notation hist_of := (hist_of T).
  Notation run_leaf := (run_leaf T teqb hc).
  Notation run_node := (run_node T teqb hc hl hr).
  Notation run_nodes := (run_nodes T teqb hc hl hr).
  Notation join_one := (join_one T teqb hr).
  Notation tk_of := (tk_of T hc).
  Notation trace_ok := (trace_ok T teqb hl).
  Notation entry_ok := (entry_ok T teqb hl).
  Notation entry_hashes := (entry_hashes T hc).
  Notation entry_hist := (entry_hist T teqb hr).
  Notation hist_entry := (hist_entry T teqb).
  Notation sent_of := (sent_of T).
  Notation distinct_on := (distinct_on).
  Notation cache_has := (cache_has T teqb hc).
  Notation leaf_res := (leaf_res T).
  Notation build := (build teqb hc hl hr).

  (* wa: the world of reference (before the clean) *)

  Lemma tk_of_fget (wa : world) p f : fget wa p = Some f -> tk_of wa p = hc (f_content f).
  Proof. intro H. unfold C10Facts.tk_of, content_at. rewrite H. reflexivity. Qed.

  (* ================================================================== *)
  (* one target                                                           *)
  (* ================================================================== *)

  Lemma restore_one (wa w : world) p f P :
    fget wa p = Some f -> NoDup (p :: P) -> distinct_on (fget wa) (p :: P) -> cache_has w (fget wa) (p :: P) ->
    exists w', restore teqb w (hc (f_content f)) p = RDone w' /\
               fget w' p = Some f /\ (forall q, q <> p -> fget w' q = fget w q) /\
               cache_has w' (fget wa) P /\ hist_of w' = hist_of w.
  Proof.
    intros Hf Hnd Hdist (c & Hc & Hcf).
    pose proof (Hcf p f (or_introl eq_refl) Hf) as Hl.
    unfold restore. rewrite Hc, Hl. eexists. split; [reflexivity|]. split; [|split; [|split]].
    - unfold fget. cbn. apply (BuildFacts.alookup_ainsert_eq bytes_eqb bytes_eqb_eq).
    - intros q Hq. unfold fget. cbn. apply (BuildFacts.alookup_ainsert_neq bytes_eqb bytes_eqb_eq). congruence.
    - exists (aremove teqb c (hc (f_content f))). split; [reflexivity|].
      intros q g Hq Hg. rewrite (BuildFacts.alookup_aremove_neq teqb teqb_spec).
      + apply (Hcf q g); [right; exact Hq | exact Hg].
      + intro E. apply hc_inj in E.
        assert (p = q) as <-.
        { apply (Hdist p q f g); auto; [left; reflexivity | right; exact Hq]. }
        inversion Hnd; contradiction.
    - reflexivity.
  Qed.

  Lemma resolve_single_restore (wa w : world) p a f P :
    fget w p = None ->
    fget wa p = Some f -> NoDup (p :: P) -> distinct_on (fget wa) (p :: P) -> cache_has w (fget wa) (p :: P) ->
    exists w', resolve_single teqb hc w (hc (f_content f)) p a = Ok (Recovered, w') /\
               fget w' p = Some f /\ (forall q, q <> p -> fget w' q = fget w q) /\
               cache_has w' (fget wa) P /\ hist_of w' = hist_of w.
  Proof.
    intros Hn Hf Hnd Hdist Hch.
    destruct (restore_one wa w p f P Hf Hnd Hdist Hch) as (w' & Hr & H).
    exists w'. split; [|exact H].
    unfold resolve_single. rewrite (proj2 (get_file_ticket_none T teqb hc w p a) Hn).
    unfold restore_or_rebuild. rewrite Hr. reflexivity.
  Qed.

  (* ================================================================== *)
  (* the targets of one rule                                              *)
  (* ================================================================== *)

  Lemma resolve_remembered_restore (wa : world) (b : blob T) : forall (w : world) rem1 extra P,
    map fs_t rem1 = map (tk_of wa) (map fst b) ->
    (forall p, In p (map fst b) -> fget w p = None /\ fget wa p <> None) ->
    NoDup (map fst b ++ P) -> distinct_on (fget wa) (map fst b ++ P) -> cache_has w (fget wa) (map fst b ++ P) ->
    exists w', resolve_remembered teqb hc w b (rem1 ++ extra) = Ok (map (fun _ => Recovered) b, w') /\
               (forall p, In p (map fst b) -> fget w' p = fget wa p) /\
               (forall q, ~ In q (map fst b) -> fget w' q = fget w q) /\
               cache_has w' (fget wa) P /\ hist_of w' = hist_of w.
  Proof.
    induction b as [|[p a] rest IH]; intros w rem1 extra P Hrem Hf Hnd Hdist Hch; cbn [map fst] in *.
    - exists w. cbn [resolve_remembered map]. split; [reflexivity|]. split; [intros p []|]. auto.
    - destruct rem1 as [|r rem1]; [discriminate|]. cbn [map] in Hrem. injection Hrem as Hr Hrem.
      destruct (Hf p (or_introl eq_refl)) as [Hn Hex].
      destruct (fget wa p) as [f|] eqn:Ef; [|contradiction].
      rewrite (tk_of_fget wa p f Ef) in Hr.
      cbn [app] in Hnd, Hdist, Hch.
      destruct (resolve_single_restore wa w p a f (map fst rest ++ P) Hn Ef Hnd Hdist Hch)
        as (w1 & Hrs & Hp1 & Hq1 & Hch1 & Hh1).
      assert (~ In p (map fst rest)) as Hpr.
      { inversion Hnd as [|? ? Hx _]; subst. intro X. apply Hx. apply in_or_app. left. exact X. }
      destruct (IH w1 rem1 extra P Hrem) as (w' & Hrr & Hp' & Hq' & Hch' & Hh').
      + intros q Hq. rewrite Hq1; [apply Hf; right; exact Hq|]. intros ->. contradiction.
      + inversion Hnd; assumption.
      + eapply distinct_on_incl; [|exact Hdist]. intros x Hx. right. exact Hx.
      + exact Hch1.
      + exists w'. cbn [resolve_remembered app map]. rewrite Hr, Hrs, Hrr.
        split; [reflexivity|]. split; [|split; [|split]].
        * intros q [<- | Hq]; [|apply Hp'; exact Hq]. rewrite (Hq' _ Hpr), Hp1, Ef. reflexivity.
        * intros q Hq. rewrite Hq'; [apply Hq1|]; intro X; apply Hq; [left; congruence | right; exact X].
        * exact Hch'.
        * congruence.
  Qed.

  Lemma shortcut_empty f : shortcut teqb hc f (empty_state hc) = false.
  Proof.
    unfold shortcut, is_empty_state, empty_state. cbn [fs_t fs_mtime fs_x].
    rewrite (teqb_refl T teqb teqb_spec). cbn. apply andb_false_r.
  Qed.

  Lemma current_tickets_recovered (wa : world) (b : blob T) : forall (w : world),
    (forall p, In p (map fst b) -> fget w p = fget wa p /\ fget wa p <> None) ->
    current_tickets teqb hc w (forget_replaced hc b (map (fun _ => Recovered) b)) =
    Ok (map (tk_of wa) (map fst b)).
  Proof.
    induction b as [|[p a] rest IH]; intros w Hf; cbn [map fst forget_replaced current_tickets]; [reflexivity|].
    cbn [map fst] in Hf. destruct (Hf p (or_introl eq_refl)) as [Hp Hex].
    destruct (fget wa p) as [f|] eqn:Ef; [|contradiction].
    unfold get_file_ticket. rewrite Hp, shortcut_empty.
    rewrite IH by (intros q Hq; apply Hf; right; exact Hq).
    rewrite (tk_of_fget wa p f Ef). reflexivity.
  Qed.

  Lemma needs_rebuild_recovered {A} (b : list A) : needs_rebuild (map (fun _ => Recovered) b) = false.
  Proof. induction b as [|x b IH]; [reflexivity | exact IH]. Qed.

  Definition all_recovered (wr : work_result T) : Prop :=
    Forall (fun s : banner * bytes => fst s = BRecovered) (status_lines T wr).

  Lemma status_recovered (b : blob T) ts fb h :
    all_recovered (mk_wr ts fb (Resolutions (map (fun _ => Recovered) b)) h).
  Proof.
    unfold all_recovered, status_lines. cbn [wr_option wr_blob]. apply Forall_forall. intros s Hs.
    apply in_map_iff in Hs as ([e r] & <- & Hin). cbn [fst snd].
    apply in_combine_r in Hin. apply in_map_iff in Hin as (x & <- & _). reflexivity.
  Qed.

  Lemma handle_rule_restore (wa w : world) (b : blob T) h key cmd P ts :
    ts = map (tk_of wa) (map fst b) -> hist_entry h key ts ->
    (forall p, In p (map fst b) -> fget w p = None /\ fget wa p <> None) ->
    NoDup (map fst b ++ P) -> distinct_on (fget wa) (map fst b ++ P) -> cache_has w (fget wa) (map fst b ++ P) ->
    exists w' wr, handle_rule teqb hc w b h key cmd = (Ok wr, w', []) /\
                  wr_tickets wr = ts /\ all_recovered wr /\
                  (forall p, In p (map fst b) -> fget w' p = fget wa p) /\
                  (forall q, ~ In q (map fst b) -> fget w' q = fget w q) /\
                  cache_has w' (fget wa) P /\ hist_of w' = hist_of w.
  Proof.
    intros Ets Hent Hf Hnd Hdist Hch. unfold C10Facts.hist_entry in Hent.
    destruct (alookup teqb h key) as [rem|] eqn:El.
    - destruct Hent as (extra0 & Hrem). apply map_eq_app in Hrem as (rem1 & extra & -> & Hrem & _).
      rewrite Ets in Hrem.
      destruct (resolve_remembered_restore wa b w rem1 extra P Hrem Hf Hnd Hdist Hch)
        as (w' & Hrr & Hp' & Hq' & Hch' & Hh').
      exists w'. eexists. split; [|split; [|split; [|split; [|split; [|split]]]]].
      + unfold handle_rule. rewrite El, Hrr. cbv zeta. rewrite needs_rebuild_recovered.
        rewrite (current_tickets_recovered wa b w').
        * reflexivity.
        * intros p Hp. split; [apply Hp'; exact Hp | apply Hf; exact Hp].
      + cbn [wr_tickets]. symmetry. exact Ets.
      + apply status_recovered.
      + exact Hp'.
      + exact Hq'.
      + exact Hch'.
      + exact Hh'.
    - subst ts. apply map_eq_nil in Hent. apply map_eq_nil in Hent. subst b.
      exists w. eexists. split; [|split; [|split; [|split; [|split; [|split]]]]].
      + unfold handle_rule. rewrite El. cbn. reflexivity.
      + reflexivity.
      + apply (status_recovered []).
      + intros p [].
      + reflexivity.
      + exact Hch.
      + reflexivity.
  Qed.

  (* ================================================================== *)
  (* one node, all nodes                                                  *)
  (* ================================================================== *)

  Definition res_good (res : option rule * thread_result T) : Prop :=
    exists wr, snd res = TOk wr /\ all_recovered wr.

  Lemma run_node_restore (wa : world) LS pre st n wr0 P :
    rs_leaf_sent T st = LS -> rs_node_sent T st = pre ->
    entry_ok LS pre (n, wr0) -> entry_hashes wa (n, wr0) -> entry_hist (rs_world T st) (n, wr0) ->
    (forall t, In t (n_targets n) -> fget (rs_world T st) t = None) ->
    NoDup (n_targets n ++ P) -> distinct_on (fget wa) (n_targets n ++ P) ->
    cache_has (rs_world T st) (fget wa) (n_targets n ++ P) ->
    exists st', run_node st n = Some st' /\
      rs_leaf_sent T st' = LS /\ rs_node_sent T st' = pre ++ [sent_of (n, wr0)] /\
      rs_commands T st' = rs_commands T st /\
      (exists res, rs_results T st' = rs_results T st ++ [res] /\ res_good res) /\
      (forall t, In t (n_targets n) -> fget (rs_world T st') t = fget wa t) /\
      (forall q, ~ In q (n_targets n) -> fget (rs_world T st') q = fget (rs_world T st) q) /\
      cache_has (rs_world T st') (fget wa) P /\ hist_of (rs_world T st') = hist_of (rs_world T st).
  Proof.
    intros Hls Hns (tickets & h' & Eall & Hh' & Hent) Hhash Hhist Habs Hnd Hdist Hch.
    cbn [fst snd] in *. unfold C10Facts.entry_hashes in Hhash. cbn [fst snd] in Hhash.
    destruct (hashes_tk T hc _ _ _ Hhash) as [Ets Hex].
    unfold Build.run_node.
    destruct (take_blob T hc (rs_table T st) (n_targets n)) as [b t'] eqn:Etb.
    pose proof (C01Build.take_blob_fst T hc _ _ _ _ Etb) as Hfst.
    pose proof (Hhist h' Hh') as Hha. cbn [fst snd] in Hha.
    rewrite read_history_hist_at. rewrite Hha. rewrite Hls, Hns, Eall.
    rewrite <- Hfst in Ets, Habs, Hnd, Hdist, Hch.
    destruct (handle_rule_restore wa (rs_world T st) b h' (hl tickets) (n_command n) P (wr_tickets wr0)
                Ets Hent) as (w' & wr & Hhr & Hts & Hrec & Hp' & Hq' & Hch' & Hh2); auto.
    { intros p Hp. split; [apply Habs; exact Hp|]. rewrite Hfst in Hp. intro X.
      apply (Hex p Hp). apply content_at_none. exact X. }
    rewrite Hhr. eexists. split; [reflexivity|].
    cbn [rs_world rs_leaf_sent rs_node_sent rs_commands rs_results].
    rewrite Hfst in Hp', Hq'.
    split; [reflexivity|]. split; [unfold C10Facts.sent_of; cbn [snd]; rewrite Hts; reflexivity|].
    split; [apply app_nil_r|]. split; [|auto].
    eexists. split; [reflexivity|]. exists wr. auto.
  Qed.

  Lemma entry_hist_of_eq (w w' : world) e : hist_of w' = hist_of w -> entry_hist w e -> entry_hist w' e.
  Proof. intros E H h' Hh. rewrite (hist_at_of_eq T teqb w w' _ E). apply H. exact Hh. Qed.

  Lemma run_nodes_restore (wa : world) LS tr : forall pre st,
    trace_ok LS pre tr -> rs_leaf_sent T st = LS -> rs_node_sent T st = pre ->
    Forall (entry_hashes wa) tr -> Forall (entry_hist (rs_world T st)) tr ->
    (forall t, In t (flat_map n_targets (map fst tr)) -> fget (rs_world T st) t = None) ->
    NoDup (flat_map n_targets (map fst tr)) -> distinct_on (fget wa) (flat_map n_targets (map fst tr)) ->
    cache_has (rs_world T st) (fget wa) (flat_map n_targets (map fst tr)) ->
    exists st', run_nodes st (map fst tr) = Some st' /\
      rs_commands T st' = rs_commands T st /\
      (exists nres, rs_results T st' = rs_results T st ++ nres /\ Forall res_good nres) /\
      (forall t, In t (flat_map n_targets (map fst tr)) -> fget (rs_world T st') t = fget wa t) /\
      (forall q, ~ In q (flat_map n_targets (map fst tr)) -> fget (rs_world T st') q = fget (rs_world T st) q).
  Proof.
    induction tr as [|[n wr0] tr IH]; intros pre st Htok Hls Hns Hhash Hhist Habs Hnd Hdist Hch;
      cbn [map fst flat_map Build.run_nodes] in *.
    - exists st. split; [reflexivity|]. split; [reflexivity|]. split; [|split; [intros t [] | reflexivity]].
      exists []. rewrite app_nil_r. split; [reflexivity | constructor].
    - destruct Htok as [He Htok]. apply Forall_cons_iff in Hhash as [Hh1 Hhash'].
      apply Forall_cons_iff in Hhist as [Hi1 Hhist'].
      destruct (run_node_restore wa LS pre st n wr0 (flat_map n_targets (map fst tr)) Hls Hns He Hh1 Hi1)
        as (st1 & Hrun & Hls1 & Hns1 & Hcmd1 & (res & Hres1 & Hgood1) & Hp1 & Hq1 & Hch1 & Hhs1); auto.
      { intros t Ht. apply Habs. apply in_or_app. left. exact Ht. }
      rewrite Hrun.
      destruct (IH _ st1 Htok Hls1 Hns1 Hhash') as (st' & Hrun' & Hcmd' & (nres & Hres' & Hgood') & Hp' & Hq').
      + eapply Forall_impl; [|exact Hhist']. intros e. apply entry_hist_of_eq. exact Hhs1.
      + intros t Ht. rewrite Hq1; [apply Habs; apply in_or_app; right; exact Ht|].
        intro X. exact (NoDup_app_disjoint _ _ t Hnd X Ht).
      + eapply NoDup_app_r; eauto.
      + eapply distinct_on_incl; [|exact Hdist]. intros x Hx. apply in_or_app. right. exact Hx.
      + exact Hch1.
      + exists st'. split; [exact Hrun'|]. split; [congruence|]. split; [|split].
        * exists (res :: nres). split; [rewrite Hres', Hres1, <- app_assoc; reflexivity | constructor; assumption].
        * intros t Ht. apply in_app_or in Ht as [Ht | Ht]; [|apply Hp'; exact Ht].
          rewrite Hq'; [apply Hp1; exact Ht|]. exact (NoDup_app_disjoint _ _ t Hnd Ht).
        * intros q Hq. rewrite Hq', Hq1; [reflexivity | |]; intro X; apply Hq; apply in_or_app; auto.
  Qed.

  (* ================================================================== *)
  (* main's join loop when every thread succeeded                         *)
  (* ================================================================== *)

  Lemma leaf_res_good res : leaf_res res -> res_good res.
  Proof.
    intros (_ & wr & Hs & Ho). exists wr. split; [exact Hs|].
    unfold all_recovered, status_lines. rewrite Ho. constructor.
  Qed.

  Lemma join_all_good results : forall js,
    Forall res_good results ->
    js_errors T (fold_left join_one results js) = js_errors T js /\
    Forall (fun s : banner * bytes => fst s = BRecovered) (flat_map (result_status T) results).
  Proof.
    induction results as [|res rest IH]; intros js HF; cbn [fold_left flat_map]; [split; [reflexivity | constructor]|].
    inversion HF as [|? ? (wr & Hs & Hrec) HF']; subst.
    destruct (IH (join_one js res) HF') as [I1 I2]. split.
    - rewrite I1. unfold Build.join_one. rewrite Hs. reflexivity.
    - apply Forall_app. split; [|exact I2]. unfold result_status. rewrite Hs. exact Hrec.
  Qed.

  (* ================================================================== *)
  (* the build after the clean                                            *)
  (* ================================================================== *)

  Lemma get_nodes_ext (w w' : world) rp goal :
    fget w' rp = fget w rp -> get_nodes T w' rp goal = get_nodes T w rp goal.
  Proof. unfold get_nodes. intros ->. reflexivity. Qed.

  Lemma init_dir_cache_has (w w1 : world) tbl F P :
    init_dir T w = Ok (w1, tbl) -> cache_has w F P -> cache_has w1 F P.
  Proof.
    intros Hi (c & Hc & H). exists c. split; [|exact H]. unfold cache_of in *.
    unfold init_dir in Hi. destruct (rd_table (w_rd w)) as [[t|]|]; try discriminate;
      injection Hi as <- _; cbn; rewrite Hc; reflexivity.
  Qed.

  Theorem restore_build (wa wb : world) rp goal pack tr tbl :
    disk_inv wb -> rd_table (w_rd wb) = Some (SF_ok tbl) ->
    get_nodes T wb rp goal = Ok pack -> plan_wf pack ->
    map fst tr = p_nodes pack ->
    (forall t, In t (plan_targets pack) -> fget wb t = None) ->
    (forall q, ~ In q (plan_targets pack) -> fget wb q = fget wa q) ->
    cache_has wb (fget wa) (plan_targets pack) -> distinct_on (fget wa) (plan_targets pack) ->
    (forall l, In l (p_leaves pack) -> content_at wa l <> None) ->
    trace_ok (map (fun l => Some [tk_of wa l]) (p_leaves pack)) [] tr ->
    Forall (entry_hashes wa) tr -> Forall (entry_hist wb) tr ->
    o_verdict (build wb rp goal) = VOk /\ o_commands (build wb rp goal) = [] /\
    (forall t, In t (plan_targets pack) -> fget (o_world (build wb rp goal)) t = fget wa t) /\
    (forall p, ~ In p (plan_targets pack) -> fget (o_world (build wb rp goal)) p = fget wa p) /\
    Forall (fun s : banner * bytes => fst s = BRecovered) (o_status (build wb rp goal)).
  Proof.
    intros Hinv Htbl Hg Hwf Htrd Habs Hout Hch Hdist Hleaves Htok Hhash Hhist.
    pose proof Hwf as (Hnd & Hleafnt & _).
    destruct (init_dir T wb) as [[wb1 tbl1]|f] eqn:Hi.
    2:{ unfold init_dir in Hi. rewrite Htbl in Hi. discriminate. }
    destruct (init_dir_ok T teqb _ _ _ Hi) as (Hfiles & Hhat & _ & _).
    assert (forall p, fget wb1 p = fget wb p) as Hf1 by (intro p; apply files_fget; exact Hfiles).
    assert (get_nodes T wb1 rp goal = Ok pack) as Hg1 by (rewrite (get_nodes_ext wb wb1); [exact Hg | apply Hf1]).
    rewrite build_eq, Hi, Hg1. cbv zeta.
    destruct (InvProofs.init_dir_rs_inv T teqb hc teqb_spec _ _ _ Hinv Hi) as [Hs1 Ht1].
    set (st0 := mk_rs T wb1 tbl1 [] [] [] []).
    assert (rs_inv wb st0) as H0. { split; [exact Hs1|]. split; [exact Ht1|]. intros r wr []. }
    set (st1 := st_leaves T teqb hc wb1 tbl1 pack).
    assert (st1 = fold_left run_leaf (p_leaves pack) st0) as Est1 by reflexivity.
    assert (forall l, In l (p_leaves pack) -> content_at wb1 l = content_at wa l) as Hlc.
    { intros l Hl. apply content_at_of_fget. rewrite Hf1. apply Hout. apply Hleafnt. exact Hl. }
    destruct (run_leaves_exist T teqb hc teqb_spec wb (p_leaves pack) st0 Hinv H0) as (HLS & lr & Hlr & Hleafres).
    { intros l Hl. cbn [rs_world st0]. rewrite (Hlc l Hl). apply Hleaves. exact Hl. }
    rewrite <- Est1 in HLS, Hlr. cbn [rs_leaf_sent rs_results rs_world st0 app] in HLS, Hlr.
    assert (rs_world T st1 = wb1) as Hw1 by apply st_leaves_world.
    assert (rs_leaf_sent T st1 = map (fun l => Some [tk_of wa l]) (p_leaves pack)) as HLS'.
    { rewrite HLS. apply map_ext_in. intros l Hl. do 2 f_equal. apply tk_of_content. apply Hlc. exact Hl. }
    rewrite <- Htrd in *. unfold plan_targets in *. rewrite <- Htrd in *.
    destruct (run_nodes_restore wa _ tr [] st1 Htok HLS') as (st2 & Hrun & Hcmd & (nres & Hres & Hgood) & Hp2 & Hq2).
    - rewrite Est1. apply run_leaves_node_sent.
    - exact Hhash.
    - rewrite Hw1. eapply Forall_impl; [|exact Hhist]. intros e He h' Hh'. rewrite Hhat. apply He. exact Hh'.
    - intros t Ht. rewrite Hw1, Hf1. apply Habs. exact Ht.
    - exact Hnd.
    - exact Hdist.
    - rewrite Hw1. eapply init_dir_cache_has; eauto.
    - rewrite Hrun. cbn [o_verdict o_commands o_world o_status].
      set (js := joined T teqb hr st2).
      assert (Forall res_good (rs_results T st2)) as Hall.
      { rewrite Hres, Hlr. apply Forall_app. split; [|exact Hgood].
        eapply Forall_impl; [|exact Hleafres]. intros res. apply leaf_res_good. }
      destruct (join_all_good (rs_results T st2) (mk_js T (rs_world T st2) (rs_table T st2) [] []) Hall) as [Hje Hjs].
      change (js_errors T js = []) in Hje.
      assert (forall p, fget (write_table T (js_world T js) (js_table T js)) p = fget (rs_world T st2) p) as HfW.
      { intro p. apply files_fget. unfold js, joined. cbn. rewrite BuildFacts.join_all_files. reflexivity. }
      split; [rewrite Hje; reflexivity|]. split; [rewrite Hcmd; apply st_leaves_commands|]. split; [|split].
      + intros t Ht. rewrite HfW. apply Hp2. exact Ht.
      + intros p Hp. rewrite HfW, Hq2, Hw1, Hf1; [apply Hout; exact Hp | exact Hp].
      + unfold js, joined. rewrite join_all_status. cbn [js_status app]. exact Hjs.
  Qed.
End Restore.
