(* Every plan the sorter accepts gives a well-formed protocol graph (senders before receivers), so the
   protocol theorems apply to every accepted rule graph. *)
From Coq Require Import List Arith Lia.
From Ruler Require Import Bytes RuleSyntax TopoSort TopoSpec Protocol TopoSortFacts.
Import ListNotations.
Local Close Scope N_scope.
Local Open Scope nat_scope.

Lemma in_combine_seq {A} (l : list A) : forall a j x,
  In (j, x) (combine (seq a (length l)) l) -> a <= j < a + length l /\ nth_error l (j - a) = Some x.
Proof.
  induction l as [|y l IH]; intros a j x H; cbn [length seq combine] in H; [contradiction|].
  destruct H as [H|H].
  - injection H as <- <-. split; [cbn [length]; lia|]. rewrite Nat.sub_diag. reflexivity.
  - apply IH in H as [Hr Hn]. split; [cbn [length]; lia|].
    replace (j - a) with (S (j - S a)) by lia. exact Hn.
Qed.

Lemma nth_error_lt {A} (l : list A) i x : nth_error l i = Some x -> i < length l.
Proof. intro H. apply nth_error_Some. congruence. Qed.

Lemma forall2_in_r {A B} (P : A -> B -> Prop) l1 l2 b :
  Forall2 P l1 l2 -> In b l2 -> exists a, In a l1 /\ P a b.
Proof.
  induction 1 as [|x y l1 l2 Hxy Hrest IH]; intros Hin; [contradiction|].
  destruct Hin as [<-|Hin]; [exists x; split; [left; reflexivity | exact Hxy]|].
  destruct (IH Hin) as (a & Ha & Pa). exists a. split; [right; exact Ha | exact Pa].
Qed.

Theorem graph_of_pack_wf : forall rs goal pack,
  Forall (fun r => r_targets r <> []) rs ->
  toposort rs goal = Ok pack -> wf_graph (graph_of_pack pack).
Proof.
  intros rs goal pack Hne Hok.
  pose proof (c12_plan_bindings rs goal pack Hne Hok) as Hnodes.
  unfold wf_graph, graph_of_pack. cbn [pg_edges pg_n].
  apply Forall_forall. intros e He.
  apply in_flat_map in He as ((j & n) & Hjn & He). cbn [fst snd] in He.
  apply in_combine_seq in Hjn as [Hj Hn]. rewrite Nat.sub_0_r in Hn.
  apply in_map_iff in He as (si & <- & Hsi).
  destruct (Hnodes j n Hn) as (_ & _ & Hb).
  destruct (forall2_in_r _ _ _ si Hb Hsi) as (s & _ & Hbind).
  destruct si as [i|i sub]; cbn [binding_ok] in Hbind; cbn [fst snd].
  - destruct Hbind as [Hleaf _]. apply nth_error_lt in Hleaf. lia.
  - destruct Hbind as [Hlt _]. lia.
Qed.

(* clean(): workers without channels *)
Theorem clean_graph_wf : forall pack, wf_graph (clean_graph_of_pack pack).
Proof. intro pack. unfold wf_graph, clean_graph_of_pack. cbn. constructor. Qed.
