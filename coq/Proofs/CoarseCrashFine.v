(* COARSE-CRASH at the granularity of Model/Fine.v (Q8): under ANY clock, the world of every state that any
   interleaving of the workers' steps (splits at every operation on the cache) can reach satisfies CoarseInv.pre_inv.

   The invariant of a reachable state: the world is in flight; the table on disk (what main saved before it spawned
   the threads: no entry for a worker's path) is sound per path and older than anything written from now on; and
   every blob entry a worker has still to CONSULT (the entries from its current target on) is sound for the file now at
   its path and older than anything written from now on.  A back-up removes a file, a command writes files that are
   not older than the clock (adv), a restore goes to the one target its thread is working on, which no other entry
   still to be consulted and no entry of the table on disk mentions.
   No hypothesis on the commands is needed for this (the confinement hypothesis of the deliverable is not used). *)
From Ruler Require Import Tactics Bytes AList RuleSyntax Parser TopoSort TopoSpec World Cmdlang Work Build Ops Inv
     BuildSpec Sched Fine BytesFacts InvFacts TableFrame BuildFacts C01Script C01Build C01Plan C18Facts F6Facts
     SchedBasic SchedInv FineBasic FineCorStep CoarseInv C18Coarse CoarseBuild CoarseCrash.
Local Open Scope N_scope.

Module CoarseFineProofs.
Import CoarseProofs CoarseBuildProofs.

Section CF.
  Variable T : Type.
  Variable teqb : T -> T -> bool.
  Variable hc : bytes -> T.
  Variable hl : list T -> T.
  Variable hr : rule -> T.
  Hypothesis teqb_spec : forall a b, teqb a b = true <-> a = b.

  Notation world := (world T).
  Notation fstate := (fstate T).
  Notation fnstate := (fnstate T).
  Notation state_ok_at := (state_ok_at teqb hc).
  Notation held_ok := (held_ok teqb hc).
  Notation blob_held := (blob_held teqb hc).
  Notation tbl_held := (tbl_held teqb hc).
  Notation tbl_done := (tbl_done teqb hc).
  Notation inflight := (inflight teqb hc).
  Notation pre_inv := (pre_inv teqb hc).
  Notation coarse_inv := (coarse_inv teqb hc).
  Notation fstep := (fstep teqb hc hl).
  Notation frun := (frun teqb hc hl).
  Notation phase_of := (phase_of T).
  Notation wsk := (wsk T).
  Notation rule_tail := (rule_tail T teqb hc).

  Let beq_spec := bytes_eqb_eq.

  (* the entries of its blob a worker in phase ph has still to consult: position j *)
  Definition consults (ph : wphase) (j : nat) : Prop :=
    match ph with
    | WWait => True
    | WResolve _ i => (i <= j)%nat
    | WCheck _ i => (S i <= j)%nat
    | WRename _ i => (S i <= j)%nat
    | WFresh i => (i <= j)%nat
    | WFinish _ => False
    | WDone => False
    end.

  Lemma take_blobs_held pss : forall (w : world) (t : table T) bs t',
    tbl_held w t -> take_blobs T hc t pss = (bs, t') -> Forall (blob_held w) bs.
  Proof.
    induction pss as [|ps rest IH]; intros w t bs t' Ht; cbn [take_blobs].
    - intro H. injection H as <- _. constructor.
    - destruct (take_blob T hc t ps) as [b t1] eqn:E1. destruct (take_blobs T hc t1 rest) as [bs2 t2] eqn:E2.
      intro H. injection H as <- _.
      destruct (take_blob_held T teqb hc teqb_spec _ _ _ _ _ Ht E1) as (Hb & Ht1 & _).
      constructor; [exact Hb | eapply IH; eauto].
  Qed.

  Section Run.
    Variable pack : node_pack.
    Variable blobs : list (blob T).
    Variable hists : list (history T).
    Variable tr : table T.
    Hypothesis Hwf : plan_wf pack.
    Hypothesis Hshape : blobs_shaped T pack blobs.
    Hypothesis Htr : forall q s, alookup bytes_eqb tr q = Some s -> ~ In q (plan_targets pack).

    Notation nl := (length (p_leaves pack)).

    Definition entry (k j : nat) (p : bytes) (a : fstate) : Prop := nth_error (nth k blobs []) j = Some (p, a).

    Definition bl_inv (st : fnstate) : Prop :=
      forall k j p a, entry k j p a -> consults (phase_of st k) j -> held_ok (fn_world st) p a.

    Definition fine_inv (st : fnstate) : Prop :=
      inflight (fn_world st) /\ tbl_held (fn_world st) tr /\ bl_inv st.

    (* ---------- who owns a path ---------- *)

    Lemma blobs_length : length blobs = (nl + length (p_nodes pack))%nat.
    Proof.
      transitivity (length (map (map fst) blobs)); [symmetry; apply map_length|].
      unfold blobs_shaped in Hshape. rewrite Hshape. unfold worker_paths. rewrite app_length, !map_length. reflexivity.
    Qed.

    Lemma entry_range k j p a : entry k j p a -> (k < nl + length (p_nodes pack))%nat.
    Proof.
      intro E. rewrite <- blobs_length. destruct (Nat.lt_ge_cases k (length blobs)) as [H | H]; [exact H|].
      unfold entry in E. rewrite nth_overflow in E by exact H. destruct j; discriminate.
    Qed.

    Lemma entry_in k j p a : entry k j p a -> In p (map fst (nth k blobs [])).
    Proof. intro E. apply (in_map fst _ (p, a)). eapply nth_error_In; eauto. Qed.

    Lemma entry_leaf k j p a : entry k j p a -> (k < nl)%nat -> In p (p_leaves pack).
    Proof.
      intros E Hk. destruct (nth_error (p_leaves pack) k) as [l|] eqn:El.
      - pose proof (entry_in _ _ _ _ E) as Hin. rewrite (blobs_shaped_leaf T pack blobs k l Hshape El) in Hin.
        destruct Hin as [<- | []]. eapply nth_error_In; eauto.
      - apply nth_error_None in El. lia.
    Qed.

    Lemma entry_node k j p a :
      entry k j p a -> (nl <= k)%nat ->
      exists n, nth_error (p_nodes pack) (k - nl) = Some n /\ map fst (nth k blobs []) = n_targets n /\ In p (n_targets n).
    Proof.
      intros E Hk. pose proof (entry_range _ _ _ _ E) as Hr.
      destruct (nth_error (p_nodes pack) (k - nl)) as [n|] eqn:En.
      2:{ apply nth_error_None in En. lia. }
      exists n. split; [reflexivity|].
      pose proof (blobs_shaped_node T pack blobs _ n Hshape En) as Hfst.
      replace (nl + (k - nl))%nat with k in Hfst by lia. split; [exact Hfst|].
      rewrite <- Hfst. eapply entry_in; eauto.
    Qed.

    (* the target a rule thread is working on is no other entry of any blob *)
    Lemma target_unique k i p a k' j q a' :
      (nl <= k)%nat -> entry k i p a -> entry k' j q a' -> (k' <> k \/ j <> i) -> q <> p.
    Proof.
      intros Hk E E' Hne ->. destruct (entry_node _ _ _ _ E Hk) as (n & Hn & Hfst & Hin).
      destruct (Nat.eq_dec k' k) as [-> | Hkk].
      - destruct Hne as [Hne | Hne]; [congruence|]. apply Hne.
        destruct (plan_node_facts pack _ n Hwf Hn) as (Hnd & _). rewrite <- Hfst in Hnd.
        apply (proj1 (NoDup_nth_error (map fst (nth k blobs []))) Hnd).
        + apply nth_error_Some. rewrite nth_error_map. unfold entry in E'. rewrite E'. discriminate.
        + rewrite !nth_error_map. unfold entry in E, E'. rewrite E, E'. reflexivity.
      - destruct (Nat.lt_ge_cases k' nl) as [Hlt | Hge].
        + destruct Hwf as (_ & Hleaf & _). apply (Hleaf p (entry_leaf _ _ _ _ E' Hlt)).
          unfold plan_targets. apply in_flat_map. exists n. split; [eapply nth_error_In; eauto | exact Hin].
        + destruct (entry_node _ _ _ _ E' Hge) as (n' & Hn' & _ & Hin').
          apply (plan_targets_disjoint pack (k - nl) (k' - nl) n n' p Hwf Hn Hn'); [lia | exact Hin | exact Hin'].
    Qed.

    Lemma target_not_in_tr k i p a : (nl <= k)%nat -> entry k i p a -> forall s, alookup bytes_eqb tr p <> Some s.
    Proof.
      intros Hk E s Hl. destruct (entry_node _ _ _ _ E Hk) as (n & Hn & _ & Hin).
      apply (Htr p s Hl). unfold plan_targets. apply in_flat_map. exists n. split; [eapply nth_error_In; eauto | exact Hin].
    Qed.

    (* ---------- the invariant moves with a step ---------- *)

    Lemma bl_inv_transport (st st' : fnstate) k :
      bl_inv st ->
      (forall k', k' <> k -> phase_of st' k' = phase_of st k') ->
      (forall j, consults (phase_of st' k) j -> consults (phase_of st k) j) ->
      w_clock (fn_world st) <= w_clock (fn_world st') ->
      (forall k' j p a, entry k' j p a -> consults (phase_of st' k') j ->
                        fresh_or_same T (fn_world st) (fn_world st') p) ->
      bl_inv st'.
    Proof.
      intros Hb Hoth Hself Hc Hfs k' j p a E Hcons.
      apply (held_ok_transport T teqb hc (fn_world st)); [exact Hc | eapply Hfs; eauto|].
      apply (Hb k' j p a E). destruct (Nat.eq_dec k' k) as [-> | Hne]; [apply Hself; exact Hcons|].
      rewrite <- (Hoth k' Hne). exact Hcons.
    Qed.

    Lemma fine_inv_same_world (st st' : fnstate) k :
      fine_inv st -> fn_world st' = fn_world st ->
      (forall k', k' <> k -> phase_of st' k' = phase_of st k') ->
      (forall j, consults (phase_of st' k) j -> consults (phase_of st k) j) ->
      fine_inv st'.
    Proof.
      intros (Hi & Ht & Hb) Hw Hoth Hself. split; [rewrite Hw; exact Hi|]. split; [rewrite Hw; exact Ht|].
      apply (bl_inv_transport st st' k Hb Hoth Hself); [rewrite Hw; lia|].
      intros k' j p a _ _. rewrite Hw. apply (fresh_or_same_eq T). left. reflexivity.
    Qed.

    Lemma fine_inv_backup (st st' : fnstate) k i p a cur :
      fine_inv st -> entry k i p a -> consults (phase_of st k) i ->
      get_file_ticket teqb hc (fn_world st) p a = Some cur -> back_up teqb (fn_world st) cur p = Some (fn_world st') ->
      (forall k', k' <> k -> phase_of st' k' = phase_of st k') ->
      (forall j, consults (phase_of st' k) j -> consults (phase_of st k) j) ->
      fine_inv st'.
    Proof.
      intros (Hi & Ht & Hb) E Hcons Hg Hbk Hoth Hself.
      pose proof (back_up_clock T teqb _ _ _ _ Hbk) as Hc.
      assert (forall q, fget (fn_world st') q = fget (fn_world st) q \/ fget (fn_world st') q = None) as Hsub.
      { intro q. destruct (InvProofs.key_dec _ beq_spec q p) as [-> | Hne].
        - right. eapply (back_up_fget_eq T); eauto.
        - left. eapply (back_up_fget_neq T); eauto. }
      split; [|split].
      - eapply (back_up_inflight T teqb hc teqb_spec); [| exact Hg | exact Hbk | exact Hi].
        apply (Hb k i p a E Hcons).
      - apply (tbl_held_sub T teqb hc (fn_world st)); [lia | exact Hsub | exact Ht].
      - apply (bl_inv_transport st st' k Hb Hoth Hself); [lia|].
        intros k' j q a' _ _. apply (fresh_or_same_eq T). apply Hsub.
    Qed.

    Lemma fine_inv_restore (st st' : fnstate) k i p a t :
      fine_inv st -> (nl <= k)%nat -> entry k i p a ->
      restore teqb (fn_world st) t p = RDone (fn_world st') ->
      (forall k', k' <> k -> phase_of st' k' = phase_of st k') ->
      (forall j, consults (phase_of st' k) j -> consults (phase_of st k) j /\ j <> i) ->
      fine_inv st'.
    Proof.
      intros (Hi & Ht & Hb) Hk E Hr Hoth Hself.
      pose proof (restore_clock T teqb _ _ _ _ Hr) as Hc.
      pose proof (restore_frame T teqb _ _ _ _ Hr) as Hfr.
      split; [|split].
      - eapply (restore_inflight T teqb hc teqb_spec); eauto.
      - apply (tbl_held_frame T teqb hc (fn_world st) (fn_world st') [p]); [lia | exact Hfr | | exact Ht].
        intros q s Hl [<- | []]. exact (target_not_in_tr k i p a Hk E s Hl).
      - apply (bl_inv_transport st st' k Hb Hoth); [intros j Hj; apply (Hself j Hj) | lia|].
        intros k' j q a' E' Hcons. apply (fresh_or_same_eq T). left.
        apply (frame_at_fget T [p] _ _ q Hfr). intros [Eq | []].
        apply (target_unique k i p a k' j q a' Hk E E'); [|symmetry; exact Eq].
        destruct (Nat.eq_dec k' k) as [-> | Hne]; [right; apply (Hself j Hcons) | left; exact Hne].
    Qed.

    Lemma fine_inv_command (st st' : fnstate) k lines :
      fine_inv st -> fn_world st' = snd (run_script (fn_world st) lines) ->
      (forall k', k' <> k -> phase_of st' k' = phase_of st k') ->
      (forall j, consults (phase_of st' k) j -> consults (phase_of st k) j) ->
      fine_inv st'.
    Proof.
      intros (Hi & Ht & Hb) Hw Hoth Hself.
      destruct (run_script_adv T teqb hc teqb_spec lines (fn_world st)) as [Hc Hadv]. rewrite <- Hw in Hc, Hadv.
      split; [|split].
      - rewrite Hw. apply (run_script_inflight T teqb hc teqb_spec). exact Hi.
      - apply (tbl_held_transport T teqb hc (fn_world st)); [exact Hc | | exact Ht]. intros q s _. apply Hadv.
      - apply (bl_inv_transport st st' k Hb Hoth Hself Hc). intros k' j p a _ _. apply Hadv.
    Qed.


    (* a move between two middle phases: nothing happens to the world, or the current target is moved into the cache
       under the ticket the shortcut gave, or the current target is restored; the entries still to be consulted
       afterwards were still to be consulted before, and the restored one is not among them *)
    Lemma ptrans_fine b rem (w : world) ph ph' w' :
      ptrans T teqb hc b rem w ph ph' w' ->
      (w' = w /\ forall j, consults ph' j -> consults ph j) \/
      (exists i p a cur, nth_error b i = Some (p, a) /\ consults ph i /\ get_file_ticket teqb hc w p a = Some cur /\
                         back_up teqb w cur p = Some w' /\ forall j, consults ph' j -> consults ph j) \/
      (exists i p a t, nth_error b i = Some (p, a) /\ restore teqb w t p = RDone w' /\
                       forall j, consults ph' j -> consults ph j /\ j <> i).
    Proof.
      intro H. destruct H as [done i Eb | done i p a r cur Eb Er Eg Et | done i p a r cur w1 Eb Er Eg Et Ebk
                              | done i p a r Eb Er Eg | done i r c f Er Ec El | done i r c Er Ec El
                              | done i p a r w1 Eb Er Ers | done i p a r Eb Er Ers
                              | i p a cur w1 Eb Eg Ebk | i p a Eb Eg | i Eb].
      - left. split; [reflexivity|]. intros j [].
      - left. split; [reflexivity|]. intros j. cbn [consults]. lia.
      - right. left. exists i, p, a, cur. cbn [consults]. repeat (split; [first [assumption | lia]|]). intro j. lia.
      - left. split; [reflexivity|]. intros j. cbn [consults]. lia.
      - left. split; [reflexivity|]. intros j. cbn [consults]. lia.
      - left. split; [reflexivity|]. intros j. cbn [consults]. lia.
      - right. right. exists i, p, a, (fs_t r). split; [exact Eb|]. split; [exact Ers|]. intro j. cbn [consults]. lia.
      - left. split; [reflexivity|]. intros j. cbn [consults]. lia.
      - right. left. exists i, p, a, cur. cbn [consults]. repeat (split; [first [assumption | lia]|]). intro j. lia.
      - left. split; [reflexivity|]. intros j. cbn [consults]. lia.
      - left. split; [reflexivity|]. intros j [].
    Qed.

    (* ---------- the phases after a step ---------- *)

    Lemma upd_phase (st : fnstate) w' k ph key rem :
      (k < length (fn_workers st))%nat ->
      phase_of (upd_worker T (set_world T st w') k (mk_wst T ph key rem)) k = ph.
    Proof.
      intro Hk. rewrite phase_of_wsk, upd_worker_self; [reflexivity|]. exact Hk.
    Qed.

    Lemma finish_phase (st : fnstate) k w' sent res script :
      (k < length (fn_workers st))%nat -> phase_of (finish_worker T st k w' sent res script) k = WDone.
    Proof. intro Hk. rewrite phase_of_wsk, finish_worker_self; [reflexivity | exact Hk]. Qed.

    Theorem fstep_fine_inv (st st' : fnstate) k :
      fine_inv st -> fstep pack blobs hists st k = Some st' -> fine_inv st'.
    Proof.
      intros Hinv H.
      pose proof (fstep_cases T teqb hc hl _ _ _ _ _ _ H) as (Hklen & _ & _).
      assert (forall k', k' <> k -> phase_of st' k' = phase_of st k') as Hoth.
      { intros k' Hne. rewrite !phase_of_wsk, (fstep_other T teqb hc hl _ _ _ _ _ _ k' H Hne). reflexivity. }
      destruct (fstep_shape T teqb hc hl _ _ _ _ _ _ H) as [Hl | (n & Hk & Hn & Hc)].
      { destruct Hl as (_ & _ & sent & tr0 & ->).
        apply (fine_inv_same_world st _ k Hinv); [reflexivity | exact Hoth|].
        intros j. rewrite finish_phase by exact Hklen. intros []. }
      destruct Hc as [(Eph & key & Hs) | [(ph' & w' & Hp & ->) | [(_ & tr0 & _ & ->) | Hl]]].
      - (* a rule thread starts *)
        apply (fine_inv_same_world st _ k Hinv); [destruct Hs as [(rem & _ & ->) | (_ & ->)]; reflexivity | exact Hoth|].
        intros j _. rewrite Eph. exact I.
      - (* a move between two middle phases *)
        assert (phase_of (upd_worker T (set_world T st w') k (mk_wst T ph' (wst_key T (wsk st k)) (wst_rem T (wsk st k)))) k = ph')
          as Eph' by (apply upd_phase; exact Hklen).
        remember (upd_worker T (set_world T st w') k (mk_wst T ph' (wst_key T (wsk st k)) (wst_rem T (wsk st k)))) as st2 eqn:Est2.
        assert (fn_world st2 = w') as Ew by (rewrite Est2; reflexivity).
        rewrite <- Eph' in Hp. rewrite <- Ew in Hp. clear Est2 Eph' Ew.
        destruct (ptrans_fine _ _ _ _ _ _ Hp) as [(Ew & Hs) | [(i & p & a & cur & Eb & Hci & Eg & Ebk & Hs) | (i & p & a & t & Eb & Ers & Hs)]].
        + apply (fine_inv_same_world st st2 k Hinv Ew Hoth Hs).
        + apply (fine_inv_backup st st2 k i p a cur Hinv Eb Hci Eg Ebk Hoth Hs).
        + apply (fine_inv_restore st st2 k i p a t Hinv Hk Eb Ers Hoth Hs).
      - (* the thread gives up *)
        apply (fine_inv_same_world st _ k Hinv); [reflexivity | exact Hoth|].
        intros j. rewrite finish_phase by exact Hklen. intros [].
      - (* the last step: the command *)
        destruct Hl as (ro & key & res & w' & script & Eph & _ & Et & ->).
        assert (forall j, consults (phase_of (finish_worker T st k w' (res_sent T res) (Some (n_rule n), res_tr T res) script) k) j ->
                          consults (phase_of st k) j) as Hself.
        { intro j. rewrite finish_phase by exact Hklen. intros []. }
        destruct (rule_tail_world T teqb hc _ _ _ _ _ _ _ _ _ Et) as [(_ & _ & Ew) | (_ & _ & Ew)].
        + eapply (fine_inv_command st _ k (script_lines (n_command n)) Hinv); [exact Ew | exact Hoth | exact Hself].
        + apply (fine_inv_same_world st _ k Hinv); [exact Ew | exact Hoth | exact Hself].
    Qed.

    Theorem frun_fine_inv ch (st : fnstate) : fine_inv st -> fine_inv (frun pack blobs hists ch st).
    Proof.
      apply (frun_ind T teqb hc hl fine_inv). intros s k s' Hs E. eapply fstep_fine_inv; eauto.
    Qed.
  End Run.

  (* ================================================================== *)
  (* from the world a build starts in                                     *)
  (* ================================================================== *)

  Theorem coarse_fine_crash_point_any_commands : forall (w : world) rp goal w1 tbl pack hists blobs t' ch,
    coarse_inv w ->
    init_dir T w = Ok (w1, tbl) -> get_nodes T w1 rp goal = Ok pack ->
    take_blobs T hc tbl (worker_paths pack) = (blobs, t') ->
    pre_inv (fn_world (frun pack blobs hists ch (fn_init T (write_table T w1 t') pack))).
  Proof.
    intros w rp goal w1 tbl pack hists blobs t' ch Hinv Hi Hg Htb.
    destruct (init_dir_coarse T teqb hc _ _ _ Hinv Hi) as (Hi1 & Ht1 & _).
    pose proof (get_nodes_plan_wf T _ _ _ _ Hg) as Hwf.
    assert (blobs_shaped T pack blobs) as Hshape by (unfold blobs_shaped; eapply take_blobs_shaped; eauto).
    assert (t' = table_rest T hc tbl pack) as Et by (unfold table_rest; rewrite Htb; reflexivity).
    assert (forall q s, alookup bytes_eqb t' q = Some s -> ~ In q (plan_targets pack)) as Htr.
    { intros q s Hl. rewrite Et in Hl. apply (table_rest_keys T hc tbl pack q s Hl). }
    set (w1t := write_table T w1 t').
    assert (fine_inv blobs t' (fn_init T w1t pack)) as H0.
    { unfold fine_inv, fn_init. cbn [fn_world]. split; [|split].
      - eapply inflight_same3; [apply write_table_same3 | exact Hi1].
      - apply (CoarseCrashProofs.tbl_held_same_files T teqb hc w1); [reflexivity | reflexivity|].
        intros q s Hl. apply (Ht1 q s). rewrite Et in Hl. apply (table_rest_keys T hc tbl pack q s Hl).
      - intros k j p a E _. cbn [fn_world].
        apply (held_ok_eq T teqb hc w1 w1t); [cbn; lia | left; reflexivity|].
        pose proof (take_blobs_held _ _ _ _ _ Ht1 Htb) as Hall. rewrite Forall_forall in Hall.
        assert (In (nth k blobs []) blobs) as Hin.
        { apply nth_In. destruct (Nat.lt_ge_cases k (length blobs)) as [Hlt | Hge]; [exact Hlt|].
          unfold entry in E. rewrite nth_overflow in E by exact Hge. destruct j; discriminate. }
        specialize (Hall _ Hin). unfold CoarseInv.blob_held in Hall. rewrite Forall_forall in Hall.
        apply (Hall (p, a)). eapply nth_error_In; exact E. }
    pose proof (frun_fine_inv pack blobs hists t' Hwf Hshape Htr ch _ H0) as (Hi2 & Ht2 & _).
    split; [exact Hi2|]. intros tbl2 E.
    destruct (frun_rd T teqb hc hl pack blobs hists ch (fn_init T w1t pack)) as [Erd _]. rewrite Erd in E.
    cbn in E. injection E as <-. apply (tbl_held_done T teqb hc). exact Ht2.
  Qed.
End CF.
End CoarseFineProofs.

(* ================================================================== *)
(* the deliverable (Q8) and its closed instance                          *)
(* ================================================================== *)

Section Results.
  Variable T : Type.
  Variable teqb : T -> T -> bool.
  Variable hc : bytes -> T.
  Variable hl : list T -> T.
  Variable hr : rule -> T.
  Hypothesis teqb_spec : forall a b, teqb a b = true <-> a = b.

  (* every state of every interleaving, any clock; the confinement hypothesis is not used *)
  Theorem coarse_fine_crash_point : forall (w : world T) rp goal w1 tbl pack hists blobs t' ch,
    coarse_inv teqb hc w ->
    init_dir T w = Ok (w1, tbl) -> get_nodes T w1 rp goal = Ok pack -> Forall node_confined (p_nodes pack) ->
    take_blobs T hc tbl (worker_paths pack) = (blobs, t') ->
    pre_inv teqb hc (fn_world (frun teqb hc hl pack blobs hists ch (fn_init T (write_table T w1 t') pack))).
  Proof.
    intros w rp goal w1 tbl pack hists blobs t' ch Hinv Hi Hg _ Htb.
    exact (CoarseFineProofs.coarse_fine_crash_point_any_commands T teqb hc hl teqb_spec w rp goal w1 tbl pack hists blobs t' ch
             Hinv Hi Hg Htb).
  Qed.

  Theorem coarse_fine_crash_then_tick : forall (w : world T) rp goal w1 tbl pack hists blobs t' ch,
    coarse_inv teqb hc w ->
    init_dir T w = Ok (w1, tbl) -> get_nodes T w1 rp goal = Ok pack -> Forall node_confined (p_nodes pack) ->
    take_blobs T hc tbl (worker_paths pack) = (blobs, t') ->
    coarse_inv teqb hc (tick (fn_world (frun teqb hc hl pack blobs hists ch (fn_init T (write_table T w1 t') pack)))).
  Proof.
    intros w rp goal w1 tbl pack hists blobs t' ch Hinv Hi Hg Hc Htb.
    apply (CoarseBuildProofs.tick_coarse T teqb hc). eapply coarse_fine_crash_point; eauto.
  Qed.
End Results.

(* ---- the closed instance ---- *)

From Coq Require Import String.
From Ruler Require Import Ideal C01Facts C18CoarseFacts.

Notation frun_sym := (frun sym_eqb SContent SList).
Notation fn_start_sym w1 t' pack := (fn_init sym (write_table sym w1 t') pack).

Theorem coarse_fine_crash_point_sym : forall (w : world sym) rp goal w1 tbl pack hists blobs t' ch,
  coarse_inv sym_eqb SContent w ->
  init_dir sym w = Ok (w1, tbl) -> get_nodes sym w1 rp goal = Ok pack -> Forall node_confined (p_nodes pack) ->
  take_blobs sym SContent tbl (worker_paths pack) = (blobs, t') ->
  pre_inv sym_eqb SContent (fn_world (frun_sym pack blobs hists ch (fn_start_sym w1 t' pack))).
Proof. exact (coarse_fine_crash_point sym sym_eqb SContent SList sym_eqb_spec). Qed.

Theorem coarse_fine_crash_then_tick_sym : forall (w : world sym) rp goal w1 tbl pack hists blobs t' ch,
  coarse_inv sym_eqb SContent w ->
  init_dir sym w = Ok (w1, tbl) -> get_nodes sym w1 rp goal = Ok pack -> Forall node_confined (p_nodes pack) ->
  take_blobs sym SContent tbl (worker_paths pack) = (blobs, t') ->
  coarse_inv sym_eqb SContent (tick (fn_world (frun_sym pack blobs hists ch (fn_start_sym w1 t' pack)))).
Proof. exact (coarse_fine_crash_then_tick sym sym_eqb SContent SList sym_eqb_spec). Qed.

(* ================================================================== *)
(* non-vacuity: the third build of the swap history (C18CoarseFacts.sw_w, coarse clock), the rule threads of p    *)
(* and q interleaved: both targets are moved into the cache first, then each thread takes out the file the OTHER   *)
(* one put there.  Workers: 0 = s1, 1 = s2, 2 = p, 3 = q, 4 = rp, 5 = rq.                                          *)
(* ================================================================== *)

Definition cf_w1 : world sym := match init_dir sym sw_w with Ok (w1, _) => w1 | Err _ => sw_w end.
Definition cf_tbl : table sym := match init_dir sym sw_w with Ok (_, t) => t | Err _ => [] end.
Definition cf_pack : node_pack :=
  match get_nodes sym cf_w1 RULES_PATH None with Ok p => p | Err _ => mk_pack [] [] end.
Definition cf_blobs : list (blob sym) := fst (take_blobs sym SContent cf_tbl (worker_paths cf_pack)).
Definition cf_t' : table sym := snd (take_blobs sym SContent cf_tbl (worker_paths cf_pack)).
Definition cf_hists : list (history sym) :=
  match read_histories sym sym_eqb SRule cf_w1 (p_nodes cf_pack) with Some h => h | None => [] end.
Notation cf_st ch := (frun_sym cf_pack cf_blobs cf_hists ch (fn_start_sym cf_w1 cf_t' cf_pack)).

Lemma cf_init : init_dir sym sw_w = Ok (cf_w1, cf_tbl).
Proof. vm_compute. reflexivity. Qed.

Lemma cf_nodes : get_nodes sym cf_w1 RULES_PATH None = Ok cf_pack.
Proof. vm_compute. reflexivity. Qed.

Lemma cf_take : take_blobs sym SContent cf_tbl (worker_paths cf_pack) = (cf_blobs, cf_t').
Proof. unfold cf_blobs, cf_t'. destruct (take_blobs sym SContent cf_tbl (worker_paths cf_pack)); reflexivity. Qed.

Lemma cf_confined : Forall node_confined (p_nodes cf_pack).
Proof. exact (sw_build_confined cf_w1 cf_tbl cf_pack cf_init cf_nodes). Qed.

(* the leaves; then p and q alternate: start, back-up, check, rename *)
Definition cf_mid : list nat := [0; 1; 2; 3; 2; 3; 2; 3; 2; 3]%nat.

Example cf_mid_state :
  w_mode sw_w = Coarse /\
  map (phase_of sym (cf_st cf_mid)) [0; 1; 2; 3; 4; 5]%nat =
    [WDone; WDone; WResolve [Recovered] 1; WResolve [Recovered] 1; WWait; WWait] /\
  (* each of p, q now holds the file the second build wrote at the other path *)
  fget (fn_world (cf_st cf_mid)) [112] = fget sw_w [113] /\ fget (fn_world (cf_st cf_mid)) [113] = fget sw_w [112] /\
  (* the table the build started from remembers, for each path, the OTHER content with that very time *)
  alookup bytes_eqb cf_tbl [112] = Some (mk_fstate (SContent [89]) 6001 false) /\
  alookup bytes_eqb cf_tbl [113] = Some (mk_fstate (SContent [88]) 6001 false) /\
  option_map (fun f => (f_content f, f_mtime f)) (fget (fn_world (cf_st cf_mid)) [112]) = Some ([88], 6001) /\
  option_map (fun f => (f_content f, f_mtime f)) (fget (fn_world (cf_st cf_mid)) [113]) = Some ([89], 6001) /\
  (* the table on disk mentions neither *)
  rd_table (w_rd (fn_world (cf_st cf_mid))) = Some (SF_ok cf_t') /\
  alookup bytes_eqb cf_t' [112] = None /\ alookup bytes_eqb cf_t' [113] = None.
Proof. vm_compute. repeat split. Qed.

(* the theorem applies: the state in the middle of this interleaving, and every other one *)
Example cf_mid_pre_inv : pre_inv sym_eqb SContent (fn_world (cf_st cf_mid)).
Proof.
  exact (coarse_fine_crash_point_sym sw_w RULES_PATH None cf_w1 cf_tbl cf_pack cf_hists cf_blobs cf_t' cf_mid
           sw_inv cf_init cf_nodes cf_confined cf_take).
Qed.

Example cf_every_state : forall ch, coarse_inv sym_eqb SContent (tick (fn_world (cf_st ch))).
Proof.
  intro ch.
  exact (coarse_fine_crash_then_tick_sym sw_w RULES_PATH None cf_w1 cf_tbl cf_pack cf_hists cf_blobs cf_t' ch
           sw_inv cf_init cf_nodes cf_confined cf_take).
Qed.

(* with the table the build started from still on disk (no early write) that state would NOT satisfy pre_inv:
   p's old entry accepts the file now at p and gives the wrong hash *)
Example cf_mid_old_table_unsound :
  exists st f, alookup bytes_eqb cf_tbl [112] = Some st /\ fget (fn_world (cf_st cf_mid)) [112] = Some f /\
               shortcut sym_eqb SContent f st = true /\ fs_t st = SContent [89] /\ f_content f = [88].
Proof. eexists _, _. vm_compute. repeat split. Qed.
