(* C03 at the granularity of Model/Fine.v: under EVERY interleaving of the rule threads at the operations on the
   cache directory, in the state in which a rule thread is about to take the step that runs its command (phase
   WFinish), every producer of its sources has ended and has sent its tickets (G1), and every source exists, keeps
   its content in every later state of the run, and has the content of the from-scratch build (G2). G3 packages both
   as a statement about "a step in which a command runs". G4: the instances for the free symbolic hashes.
   G5: FineFacts' racing example. *)
From Coq Require Import String Ascii.
From Coq Require Import Relations.Relation_Operators Relations.Operators_Properties.
From Ruler Require Import Tactics Bytes AList RuleSyntax Parser TopoSort TopoSpec World Cmdlang Work Build Ops Inv
     BuildSpec Ideal Sched Fine BytesFacts InvFacts TableFrame BuildFacts TopoSortFacts C01Script C01Hist C01Build C01Plan
     C01Facts C04Facts C11Facts SchedBasic SchedSerial SchedRule SchedInv SchedFacts C03Sched
     FineBasic FineRule FineInv FineSerial FineFacts FineCorStep FineCor.
Local Open Scope nat_scope.

Lemma all_some_map_in {A B} (f : B -> option A) : forall (l : list B) ys x,
  all_some (map f l) = Some ys -> In x l -> exists y, f x = Some y.
Proof.
  induction l as [|b l IH]; intros ys x; cbn [map all_some]; [intros _ []|].
  destruct (f b) as [y|] eqn:Eb; [|discriminate]. destruct (all_some (map f l)) as [zs|] eqn:Ea; [|discriminate].
  intros _ [<- | Hin]; [exists y; exact Eb | eapply IH; eauto].
Qed.

Section C03Fine.
  Variable T : Type.
  Variable teqb : T -> T -> bool.
  Variable hc : bytes -> T.
  Variable hl : list T -> T.
  Variable hr : rule -> T.
  Hypothesis teqb_spec : forall a b, teqb a b = true <-> a = b.
  Hypothesis hc_inj : forall a b, hc a = hc b -> a = b.
  Hypothesis hl_inj : forall a b, hl a = hl b -> a = b.
  Hypothesis hr_inj : forall a b, hr a = hr b -> a = b.

  Notation world := (world T).
  Notation fnstate := (fnstate T).
  Notation disk_inv := (disk_inv teqb hc).
  Notation hist_sound := (hist_sound T teqb hc hl hr).
  Notation has_worked := (has_worked T).
  Notation fstep := (fstep teqb hc hl).
  Notation frun := (frun teqb hc hl).
  Notation phase_of := (phase_of T).
  Notation bf := (build_fine teqb hc hl hr).

  (* ================================================================== *)
  (* what a step of one worker leaves alone; a worker that is done stays  *)
  (* ================================================================== *)

  Lemma fstep_others pack blobs hists (st : fnstate) j st' k :
    fstep pack blobs hists st j = Some st' -> k <> j ->
    nth k (fn_sent st') None = nth k (fn_sent st) None /\
    nth k (fn_res st') None = nth k (fn_res st) None /\
    phase_of st' k = phase_of st k.
  Proof.
    intros H Hne. pose proof (fstep_other T teqb hc hl _ _ _ _ _ _ k H Hne) as Ews.
    split; [|split]; [| |rewrite !phase_of_wsk, Ews; reflexivity];
      apply (fstep_cases T teqb hc hl) in H
        as (_ & _ & [(key & rem & ph & _ & _ & _ & ->) | [(w' & ph & _ & _ & _ & ->) | (w' & s & r & sc & ->)]]);
      cbn [Fine.upd_worker Fine.set_world Fine.finish_worker fn_sent fn_res]; try reflexivity;
      apply nth_set_nth_neq; exact Hne.
  Qed.

  Lemma done_stays pack blobs hists k : forall ch (s : fnstate),
    phase_of s k = WDone ->
    phase_of (frun pack blobs hists ch s) k = WDone /\
    nth k (fn_sent (frun pack blobs hists ch s)) None = nth k (fn_sent s) None /\
    nth k (fn_res (frun pack blobs hists ch s)) None = nth k (fn_res s) None.
  Proof.
    induction ch as [|j ch IH]; intros s Hd; [auto|].
    rewrite (frun_cons T teqb hc hl). unfold fstep'.
    destruct (fstep pack blobs hists s j) as [s1|] eqn:E; [|apply IH; exact Hd].
    assert (k <> j) as Hne.
    { intros ->. rewrite (fstep_done T teqb hc hl _ _ _ _ _ Hd) in E. discriminate. }
    destruct (fstep_others _ _ _ _ _ _ k E Hne) as (E1 & E2 & E3).
    destruct (IH s1) as (I1 & I2 & I3); [rewrite E3; exact Hd|].
    split; [exact I1|]. split; congruence.
  Qed.

  (* ================================================================== *)
  (* inside one build                                                     *)
  (* ================================================================== *)

  Section Setup.
    Variable w w1 : world.
    Variable rp : bytes.
    Variable goal : option bytes.
    Variable tbl : table T.
    Variable pack : node_pack.
    Variable hists : list (history T).
    Variable blobs : list (blob T).
    Variable t' : table T.
    Hypothesis Hinv : disk_inv w.
    Hypothesis Hhs : hist_sound w.
    Hypothesis Hi : init_dir T w = Ok (w1, tbl).
    Hypothesis Hg : get_nodes T w1 rp goal = Ok pack.
    Hypothesis Hdet : Forall det_node (p_nodes pack).
    Hypothesis Hh : read_histories T teqb hr w1 (p_nodes pack) = Some hists.
    Hypothesis Htb : take_blobs T hc tbl (worker_paths pack) = (blobs, t').

    Let nl := length (p_leaves pack).
    Let w1t := write_table T w1 t'.
    Let reached (ch : list nat) : fnstate := frun pack blobs hists ch (fn_init T w1t pack).

    Notation finv := (finv T teqb hc hl w w1t pack hists).
    Notation mid_common := (mid_common T hl pack).
    Notation ftickets := (ftickets T pack).

    Let Hwf : plan_wf pack := fs_wf T w1 rp goal pack Hg.
    Let Hfiles : forall p, content_at w1t p = content_at w p := fs_files T teqb w w1 tbl t' Hi.
    Let Hblobs : forall k, InvProofs.blob_ok T teqb hc w1t (nth k blobs []) :=
      fs_blobs T teqb hc teqb_spec w w1 tbl pack blobs t' Hinv Hi Htb.
    Let Hhok : forall j nd, nth_error (p_nodes pack) j = Some nd -> hist_ok T teqb hc hl (n_rule nd) (nth j hists []) :=
      fs_hists T teqb hc hl hr w w1 tbl pack hists Hhs Hi Hdet Hh.

    Lemma reached_finv ch : finv (reached ch).
    Proof. exact (su_finv T teqb hc hl hr teqb_spec hc_inj w w1 rp goal tbl pack hists blobs t' Hinv Hhs Hi Hg Hdet Hh Htb ch). Qed.

    Lemma reached_app ch1 ch2 : reached (ch1 ++ ch2) = frun pack blobs hists ch2 (reached ch1).
    Proof. apply (frun_app T teqb hc hl). Qed.

    (* a rule thread about to take its last step knows its tickets: all its producers have reported *)
    Lemma finish_mid_common (st : fnstate) j nd ro :
      finv st -> nth_error (p_nodes pack) j = Some nd -> phase_of st (nl + j) = WFinish ro -> mid_common st j nd.
    Proof.
      intros Hf Hn Eph. pose proof (fi_node _ _ _ _ _ _ _ _ _ Hf j nd Hn) as Hp. unfold phase_inv in Hp.
      fold nl in Hp. rewrite phase_of_wsk in Eph. rewrite Eph in Hp. destruct ro as [ress|]; exact (proj1 Hp).
    Qed.

    Lemma node_lt j nd : nth_error (p_nodes pack) j = Some nd -> nl + j < nworkers pack.
    Proof.
      intro H. assert (j < length (p_nodes pack)) by (apply nth_error_Some; rewrite H; discriminate).
      unfold nworkers. fold nl. lia.
    Qed.

    (* G1 on a state that satisfies the invariant *)
    Lemma deps_done_sent (st : fnstate) j nd :
      finv st -> nth_error (p_nodes pack) j = Some nd -> mid_common st j nd ->
      forall d, In d (deps pack (nl + j)) ->
        phase_of st d = WDone /\ exists ts, nth d (fn_sent st) None = Some (Some ts).
    Proof.
      intros Hf Hn (_ & Hdeps & tk & Htk & _) d Hd. split.
      - apply (finv_done_iff T teqb hc hl w w1t pack blobs hists Hblobs Hhok st d Hf).
        + pose proof (deps_lt pack _ _ Hwf Hd). pose proof (node_lt j nd Hn). lia.
        + apply Hdeps. exact Hd.
      - unfold nl in Hd. rewrite (deps_node pack j nd Hn) in Hd. apply in_map_iff in Hd as (si & <- & Hsi).
        unfold FineInv.ftickets in Htk.
        destruct (all_some_map_in _ _ _ si Htk Hsi) as (y & Hy).
        destruct si as [i | i sub]; cbn [sreceived si_dep] in *.
        + destruct (nth i (fn_sent st) None) as [[[|t0 ts]|]|]; try discriminate. eexists; reflexivity.
        + destruct (nth (length (p_leaves pack) + i) (fn_sent st) None) as [[ts|]|]; try discriminate. eexists; reflexivity.
    Qed.

    (* a state in which the producers of node j have reported and none of them cancelled: its sources exist and have
       the contents of the from-scratch world before node j, which are those of the from-scratch build *)
    Lemma sources_in_state (st : fnstate) j nd tk :
      finv st -> nth_error (p_nodes pack) j = Some nd ->
      (forall d, In d (deps pack (nl + j)) -> has_worked (fproj st) d = true) ->
      ftickets st nd = Some tk ->
      forall s, In s (r_sources (n_rule nd)) ->
        content_at (fn_world st) s <> None /\ content_at (fn_world st) s = content_at (scratch_world w pack) s.
    Proof.
      intros Hf Hn Hdeps Htk s Hs. destruct (plan_node_facts pack j nd Hwf Hn) as (_ & _ & Hbind).
      assert (forall si, In si (n_source_indices nd) -> has_worked (fproj st) (si_dep (length (p_leaves pack)) si) = true) as Hdeps'.
      { intros si Hsi. apply Hdeps. unfold nl. rewrite (deps_node pack j nd Hn). apply in_map. exact Hsi. }
      destruct (f_sources_received T teqb hc hl hc_inj w w1t pack blobs hists Hfiles Hwf Hdet Hblobs Hhok st j _ _ Hf Hbind
                  Hdeps' _ Htk) as [Hhash Hsrc].
      split.
      - destruct (Forall2_in_l _ _ _ _ Hhash Hs) as (t0 & _ & Hp). eapply has_hash_present; eauto.
      - rewrite (Hsrc s Hs).
        exact (Sat_source_final T teqb hc hl hr teqb_spec hc_inj w w1 rp goal tbl pack hists blobs t' Hinv Hhs Hi Hg Hdet Hh Htb
                 j nd s Hn Hs).
    Qed.

    (* what a rule thread about to take its last step knows stays true in every continuation of the run *)
    Lemma mid_common_later pre mid j nd :
      nth_error (p_nodes pack) j = Some nd -> mid_common (reached pre) j nd ->
      (forall d, In d (deps pack (nl + j)) -> has_worked (fproj (reached (pre ++ mid))) d = true) /\
      ftickets (reached (pre ++ mid)) nd = ftickets (reached pre) nd.
    Proof.
      intros Hn Hmc. pose proof (deps_done_sent _ j nd (reached_finv pre) Hn Hmc) as Hdone.
      destruct Hmc as (_ & Hdeps & _). rewrite reached_app.
      assert (forall d, In d (deps pack (nl + j)) ->
                nth d (fn_sent (frun pack blobs hists mid (reached pre))) None = nth d (fn_sent (reached pre)) None /\
                nth d (fn_res (frun pack blobs hists mid (reached pre))) None = nth d (fn_res (reached pre)) None) as Hst.
      { intros d Hd. destruct (Hdone d Hd) as [Hph _]. destruct (done_stays pack blobs hists d mid _ Hph) as (_ & E1 & E2).
        split; assumption. }
      split.
      - intros d Hd. specialize (Hdeps d Hd). unfold Sched.has_worked in *. cbn [fproj ss_res] in *.
        rewrite (proj2 (Hst d Hd)). exact Hdeps.
      - unfold FineInv.ftickets. apply tickets_ext. intros si Hsi.
        assert (In (si_dep (length (p_leaves pack)) si) (deps pack (nl + j))) as Hd.
        { unfold nl. rewrite (deps_node pack j nd Hn). apply in_map. exact Hsi. }
        exact (proj1 (Hst _ Hd)).
    Qed.

    (* the core of G2 *)
    Lemma sources_core pre j nd ro :
      nth_error (p_nodes pack) j = Some nd -> phase_of (reached pre) (nl + j) = WFinish ro ->
      forall mid s, In s (r_sources (n_rule nd)) ->
        content_at (fn_world (reached (pre ++ mid))) s <> None /\
        content_at (fn_world (reached (pre ++ mid))) s = content_at (scratch_world w pack) s.
    Proof.
      intros Hn Eph mid s Hs.
      pose proof (finish_mid_common _ j nd ro (reached_finv pre) Hn Eph) as Hmc.
      destruct (mid_common_later pre mid j nd Hn Hmc) as [Hdeps Etk].
      destruct Hmc as (_ & _ & tk & Htk & _). rewrite <- Etk in Htk.
      exact (sources_in_state _ j nd tk (reached_finv (pre ++ mid)) Hn Hdeps Htk s Hs).
    Qed.

    (* the last step of a rule thread: what it appends to the executed commands *)
    Lemma step_commands_shape (st : fnstate) k st' :
      fstep pack blobs hists st k = Some st' ->
      fn_commands st' = fn_commands st \/
      exists nd ro, nl <= k /\ nth_error (p_nodes pack) (k - nl) = Some nd /\ phase_of st k = WFinish ro /\
                    fn_commands st' = fn_commands st ++ script_lines (n_command nd).
    Proof.
      intro H. destruct (fstep_shape T teqb hc hl _ _ _ _ _ _ H) as [(_ & _ & sent & tr & ->) | (nd & Hge & En & Hc)].
      { left. cbn. apply app_nil_r. }
      fold nl in Hge, En.
      destruct Hc as [(_ & key & [(rem & _ & ->) | (_ & ->)]) | [(ph' & w' & _ & ->) | [(_ & tr & _ & ->) | Hl]]];
        try (left; reflexivity).
      - left. cbn. apply app_nil_r.
      - destruct Hl as (ro & key & res & w' & script & Eph & _ & Et & ->).
        cbn [Fine.finish_worker fn_commands].
        destruct (rule_tail_world T teqb hc _ _ _ _ _ _ _ _ _ Et) as [(_ & -> & _) | (_ & -> & _)].
        + right. exists nd, ro. auto.
        + left. apply app_nil_r.
    Qed.
  End Setup.

  (* ================================================================== *)
  (* G1                                                                   *)
  (* ================================================================== *)

  (* in the state in which worker k is about to take its command step, every worker it waits for has ended and has
     sent its tickets (Some (Some _): neither still running nor cancelled/failed) *)
  Theorem c03_fine_producers_done : forall (w : world) rp goal w1 tbl pack hists blobs t' pre k ro,
    disk_inv w -> hist_sound w -> init_dir T w = Ok (w1, tbl) -> get_nodes T w1 rp goal = Ok pack ->
    Forall det_node (p_nodes pack) ->
    read_histories T teqb hr w1 (p_nodes pack) = Some hists ->
    take_blobs T hc tbl (worker_paths pack) = (blobs, t') ->
    let st := frun pack blobs hists pre (fn_init T (write_table T w1 t') pack) in
    phase_of st k = WFinish ro ->
    forall d, In d (deps pack k) ->
      phase_of st d = WDone /\ exists ts, nth d (fn_sent st) None = Some (Some ts).
  Proof.
    intros w rp goal w1 tbl pack hists blobs t' pre k ro Hinv Hhs Hi Hg Hdet Hh Htb st Eph d Hd.
    assert (length (p_leaves pack) <= k /\ exists nd, nth_error (p_nodes pack) (k - length (p_leaves pack)) = Some nd)
      as (Hge & nd & Hn).
    { unfold deps in Hd. destruct (Nat.ltb k (length (p_leaves pack))) eqn:El; [destruct Hd|].
      apply Nat.ltb_ge in El. split; [exact El|].
      destruct (nth_error (p_nodes pack) (k - length (p_leaves pack))) as [nd|]; [eauto | destruct Hd]. }
    set (j := k - length (p_leaves pack)) in *. assert (k = length (p_leaves pack) + j) as Ek by lia.
    pose proof (reached_finv w w1 rp goal tbl pack hists blobs t' Hinv Hhs Hi Hg Hdet Hh Htb pre) as Hf.
    rewrite Ek in Eph, Hd.
    pose proof (finish_mid_common w w1 pack hists t' _ j nd ro Hf Hn Eph) as Hmc.
    exact (deps_done_sent w w1 rp goal tbl pack hists blobs t' Hinv Hhs Hi Hg Hdet Hh Htb _ j nd Hf Hn Hmc d Hd).
  Qed.

  (* ================================================================== *)
  (* G2                                                                   *)
  (* ================================================================== *)

  (* the strong form: no premise on the end of the run. In the state before the command step and in EVERY state of
     every continuation of the run (whoever moves next, complete or not), every source exists and has the content
     of the from-scratch build *)
  Theorem c03_fine_sources_final_strong : forall (w : world) rp goal w1 tbl pack hists blobs t' pre k ro n,
    disk_inv w -> hist_sound w -> init_dir T w = Ok (w1, tbl) -> get_nodes T w1 rp goal = Ok pack ->
    Forall det_node (p_nodes pack) ->
    read_histories T teqb hr w1 (p_nodes pack) = Some hists ->
    take_blobs T hc tbl (worker_paths pack) = (blobs, t') ->
    nth_error (p_nodes pack) (k - length (p_leaves pack)) = Some n -> length (p_leaves pack) <= k ->
    let st0 := fn_init T (write_table T w1 t') pack in
    phase_of (frun pack blobs hists pre st0) k = WFinish ro ->
    forall mid s, In s (r_sources (n_rule n)) ->
      content_at (fn_world (frun pack blobs hists (pre ++ mid) st0)) s <> None /\
      content_at (fn_world (frun pack blobs hists (pre ++ mid) st0)) s = content_at (scratch_world w pack) s.
  Proof.
    intros w rp goal w1 tbl pack hists blobs t' pre k ro n Hinv Hhs Hi Hg Hdet Hh Htb Hn Hge st0 Eph mid s Hs.
    set (j := k - length (p_leaves pack)) in *. assert (k = length (p_leaves pack) + j) as Ek by lia.
    rewrite Ek in Eph.
    exact (sources_core w w1 rp goal tbl pack hists blobs t' Hinv Hhs Hi Hg Hdet Hh Htb pre j n ro Hn Eph mid s Hs).
  Qed.

  Theorem c03_fine_sources_final : forall (w : world) rp goal w1 tbl pack hists blobs t' ch pre k post ro n,
    disk_inv w -> hist_sound w -> init_dir T w = Ok (w1, tbl) -> get_nodes T w1 rp goal = Ok pack ->
    Forall det_node (p_nodes pack) ->
    read_histories T teqb hr w1 (p_nodes pack) = Some hists ->
    take_blobs T hc tbl (worker_paths pack) = (blobs, t') ->
    ch = pre ++ k :: post ->
    nth_error (p_nodes pack) (k - length (p_leaves pack)) = Some n -> length (p_leaves pack) <= k ->
    let st0 := fn_init T (write_table T w1 t') pack in
    let st_before := frun pack blobs hists pre st0 in
    phase_of st_before k = WFinish ro ->
    forall s, In s (r_sources (n_rule n)) ->
      (* (a) *) content_at (fn_world st_before) s <> None /\
      (* (b) *) (forall post', content_at (fn_world (frun pack blobs hists (pre ++ k :: post') st0)) s =
                               content_at (fn_world st_before) s) /\
      (* (c) *) (all_done (frun pack blobs hists ch st0) = true -> o_verdict (bf ch w rp goal) = VOk ->
                 content_at (fn_world st_before) s = content_at (scratch_world w pack) s).
  Proof.
    intros w rp goal w1 tbl pack hists blobs t' ch pre k post ro n Hinv Hhs Hi Hg Hdet Hh Htb Ech Hn Hge st0 st_before Eph s Hs.
    pose proof (c03_fine_sources_final_strong w rp goal w1 tbl pack hists blobs t' pre k ro n Hinv Hhs Hi Hg Hdet Hh Htb Hn Hge
                  Eph) as Hcore.
    destruct (Hcore [] s Hs) as [B1 B2]. rewrite app_nil_r in B1, B2. fold st0 in B1, B2. fold st_before in B1, B2.
    split; [exact B1|]. split.
    - intro post'. destruct (Hcore (k :: post') s Hs) as [_ E]. fold st0 in E. congruence.
    - intros _ _. exact B2.
  Qed.

  (* (c) needs neither completeness of the run nor the verdict VOk: the thread reached WFinish, so none of ITS
     producers failed or was cancelled, and this is all that matters. The content is also the one in the outcome
     of build_fine for the run *)
  Theorem c03_fine_sources_final_outcome : forall (w : world) rp goal w1 tbl pack hists blobs t' ch pre k post ro n,
    disk_inv w -> hist_sound w -> init_dir T w = Ok (w1, tbl) -> get_nodes T w1 rp goal = Ok pack ->
    Forall det_node (p_nodes pack) ->
    read_histories T teqb hr w1 (p_nodes pack) = Some hists ->
    take_blobs T hc tbl (worker_paths pack) = (blobs, t') ->
    ch = pre ++ k :: post ->
    nth_error (p_nodes pack) (k - length (p_leaves pack)) = Some n -> length (p_leaves pack) <= k ->
    let st0 := fn_init T (write_table T w1 t') pack in
    let st_before := frun pack blobs hists pre st0 in
    phase_of st_before k = WFinish ro ->
    forall s, In s (r_sources (n_rule n)) ->
      content_at (fn_world st_before) s = content_at (scratch_world w pack) s /\
      content_at (fn_world st_before) s = content_at (o_world (bf ch w rp goal)) s.
  Proof.
    intros w rp goal w1 tbl pack hists blobs t' ch pre k post ro n Hinv Hhs Hi Hg Hdet Hh Htb Ech Hn Hge st0 st_before Eph s Hs.
    pose proof (c03_fine_sources_final_strong w rp goal w1 tbl pack hists blobs t' pre k ro n Hinv Hhs Hi Hg Hdet Hh Htb Hn Hge
                  Eph) as Hcore.
    destruct (Hcore [] s Hs) as [_ B2]. rewrite app_nil_r in B2. fold st0 in B2. fold st_before in B2.
    split; [exact B2|].
    destruct (Hcore (k :: post) s Hs) as [_ E]. rewrite <- Ech in E. fold st0 in E.
    rewrite (build_fine_eq T teqb hc hl hr ch w rp goal w1 tbl pack hists blobs t' Hi Hg Hh Htb).
    unfold outcome_of. cbv zeta. cbn [o_world]. rewrite (joined_content T teqb hr). cbn [fproj ss_world]. fold st0. congruence.
  Qed.

  (* ================================================================== *)
  (* G3                                                                   *)
  (* ================================================================== *)

  (* ANY step of ANY worker in ANY reachable state: it leaves the executed commands alone, or it is the last step
     (phase WFinish) of the thread of a rule node n, it appends exactly the script of n's command, and in the state
     in which it is taken the producers of n's sources have ended and sent, and every source of n exists, has the
     from-scratch content, and keeps it in the state after the step and in every later state *)
  Theorem c03_fine_command_reads_only_final_sources : forall (w : world) rp goal w1 tbl pack hists blobs t' pre k st',
    disk_inv w -> hist_sound w -> init_dir T w = Ok (w1, tbl) -> get_nodes T w1 rp goal = Ok pack ->
    Forall det_node (p_nodes pack) ->
    read_histories T teqb hr w1 (p_nodes pack) = Some hists ->
    take_blobs T hc tbl (worker_paths pack) = (blobs, t') ->
    let st0 := fn_init T (write_table T w1 t') pack in
    let st_before := frun pack blobs hists pre st0 in
    fstep pack blobs hists st_before k = Some st' ->
    fn_commands st' = fn_commands st_before \/
    exists n ro,
      length (p_leaves pack) <= k /\ nth_error (p_nodes pack) (k - length (p_leaves pack)) = Some n /\
      phase_of st_before k = WFinish ro /\
      fn_commands st' = fn_commands st_before ++ script_lines (n_command n) /\
      (forall d, In d (deps pack k) ->
         phase_of st_before d = WDone /\ exists ts, nth d (fn_sent st_before) None = Some (Some ts)) /\
      (forall s, In s (r_sources (n_rule n)) ->
         content_at (fn_world st_before) s <> None /\
         content_at (fn_world st_before) s = content_at (scratch_world w pack) s /\
         content_at (fn_world st') s = content_at (fn_world st_before) s /\
         forall post', content_at (fn_world (frun pack blobs hists (pre ++ k :: post') st0)) s =
                       content_at (fn_world st_before) s).
  Proof.
    intros w rp goal w1 tbl pack hists blobs t' pre k st' Hinv Hhs Hi Hg Hdet Hh Htb st0 st_before H.
    destruct (step_commands_shape pack hists blobs _ k st' H) as [E | (n & ro & Hge & Hn & Eph & Ec)]; [left; exact E|].
    right. exists n, ro. split; [exact Hge|]. split; [exact Hn|]. split; [exact Eph|]. split; [exact Ec|]. split.
    - exact (c03_fine_producers_done w rp goal w1 tbl pack hists blobs t' pre k ro Hinv Hhs Hi Hg Hdet Hh Htb Eph).
    - intros s Hs.
      pose proof (c03_fine_sources_final_strong w rp goal w1 tbl pack hists blobs t' pre k ro n Hinv Hhs Hi Hg Hdet Hh Htb Hn Hge
                    Eph) as Hcore.
      destruct (Hcore [] s Hs) as [B1 B2]. rewrite app_nil_r in B1, B2. fold st0 in B1, B2. fold st_before in B1, B2.
      split; [exact B1|]. split; [exact B2|].
      assert (forall post', content_at (fn_world (frun pack blobs hists (pre ++ k :: post') st0)) s =
                            content_at (fn_world st_before) s) as Hlater.
      { intro post'. destruct (Hcore (k :: post') s Hs) as [_ E]. fold st0 in E. congruence. }
      split; [|exact Hlater].
      rewrite <- (Hlater []). rewrite (frun_app T teqb hc hl). fold st_before.
      rewrite (frun_cons T teqb hc hl). unfold fstep'. rewrite H. reflexivity.
  Qed.
End C03Fine.

Section C03FineEnabled.
  Variable T : Type.
  Variable teqb : T -> T -> bool.
  Variable hc : bytes -> T.
  Variable hl : list T -> T.
  Variable hr : rule -> T.
  Hypothesis teqb_spec : forall a b, teqb a b = true <-> a = b.
  Hypothesis hc_inj : forall a b, hc a = hc b -> a = b.
  Hypothesis hl_inj : forall a b, hl a = hl b -> a = b.

  (* the command step is enabled: a thread in phase WFinish can always move (it holds its key) *)
  Theorem c03_fine_command_step_enabled : forall (w : world T) rp goal w1 tbl pack hists blobs t' pre k ro n,
    disk_inv teqb hc w -> hist_sound T teqb hc hl hr w -> init_dir T w = Ok (w1, tbl) -> get_nodes T w1 rp goal = Ok pack ->
    Forall det_node (p_nodes pack) ->
    read_histories T teqb hr w1 (p_nodes pack) = Some hists ->
    take_blobs T hc tbl (worker_paths pack) = (blobs, t') ->
    nth_error (p_nodes pack) (k - length (p_leaves pack)) = Some n -> length (p_leaves pack) <= k ->
    let st_before := frun teqb hc hl pack blobs hists pre (fn_init T (write_table T w1 t') pack) in
    phase_of T st_before k = WFinish ro ->
    exists st', fstep teqb hc hl pack blobs hists st_before k = Some st'.
  Proof.
    intros w rp goal w1 tbl pack hists blobs t' pre k ro n Hinv Hhs Hi Hg Hdet Hh Htb Hn Hge st Eph.
    pose proof (reached_finv T teqb hc hl hr teqb_spec hc_inj w w1 rp goal tbl pack hists blobs t' Hinv Hhs Hi Hg Hdet Hh Htb pre) as Hf.
    fold st in Hf.
    assert (k = length (p_leaves pack) + (k - length (p_leaves pack))) as Ek by lia.
    assert (phase_of T st (length (p_leaves pack) + (k - length (p_leaves pack))) = WFinish ro) as Eph' by (rewrite <- Ek; exact Eph).
    destruct (finish_mid_common T teqb hc hl w w1 pack hists t' st _ n ro Hf Hn Eph') as (_ & _ & tk & _ & Hkey).
    rewrite <- Ek in Hkey.
    unfold Fine.fstep. cbv zeta.
    assert (Nat.ltb k (length (p_leaves pack)) = false) as -> by (apply Nat.ltb_ge; lia).
    rewrite Hn. unfold Fine.phase_of in Eph. rewrite Eph. unfold FineBasic.wsk in Hkey. rewrite Hkey.
    match goal with |- context [Fine.rule_tail ?a ?b ?c ?d ?e ?f ?g ?h ?i] =>
      destruct (Fine.rule_tail a b c d e f g h i) as [[[wr|e0] w'] script] end; eexists; reflexivity.
  Qed.
End C03FineEnabled.

(* ================================================================== *)
(* G4: the free symbolic hashes                                         *)
(* ================================================================== *)

Theorem c03_fine_producers_done_sym : forall (w : world sym) rp goal w1 tbl pack hists blobs t' pre k ro,
  disk_inv sym_eqb SContent w -> hist_sound_sym w -> init_dir sym w = Ok (w1, tbl) -> get_nodes sym w1 rp goal = Ok pack ->
  Forall det_node (p_nodes pack) ->
  read_histories sym sym_eqb SRule w1 (p_nodes pack) = Some hists ->
  take_blobs sym SContent tbl (worker_paths pack) = (blobs, t') ->
  let st := frun sym_eqb SContent SList pack blobs hists pre (fn_init sym (write_table sym w1 t') pack) in
  phase_of sym st k = WFinish ro ->
  forall d, In d (deps pack k) ->
    phase_of sym st d = WDone /\ exists ts, nth d (fn_sent st) None = Some (Some ts).
Proof. exact (c03_fine_producers_done sym sym_eqb SContent SList SRule sym_eqb_spec SContent_inj SList_inj). Qed.

Theorem c03_fine_sources_final_sym : forall (w : world sym) rp goal w1 tbl pack hists blobs t' ch pre k post ro n,
  disk_inv sym_eqb SContent w -> hist_sound_sym w -> init_dir sym w = Ok (w1, tbl) -> get_nodes sym w1 rp goal = Ok pack ->
  Forall det_node (p_nodes pack) ->
  read_histories sym sym_eqb SRule w1 (p_nodes pack) = Some hists ->
  take_blobs sym SContent tbl (worker_paths pack) = (blobs, t') ->
  ch = pre ++ k :: post ->
  nth_error (p_nodes pack) (k - length (p_leaves pack)) = Some n -> length (p_leaves pack) <= k ->
  let st0 := fn_init sym (write_table sym w1 t') pack in
  let st_before := frun sym_eqb SContent SList pack blobs hists pre st0 in
  phase_of sym st_before k = WFinish ro ->
  forall s, In s (r_sources (n_rule n)) ->
    content_at (fn_world st_before) s <> None /\
    (forall post', content_at (fn_world (frun sym_eqb SContent SList pack blobs hists (pre ++ k :: post') st0)) s =
                   content_at (fn_world st_before) s) /\
    (all_done (frun sym_eqb SContent SList pack blobs hists ch st0) = true ->
     o_verdict (build_fine_sym ch w rp goal) = VOk ->
     content_at (fn_world st_before) s = content_at (scratch_world w pack) s).
Proof. exact (c03_fine_sources_final sym sym_eqb SContent SList SRule sym_eqb_spec SContent_inj SList_inj). Qed.

Theorem c03_fine_sources_final_strong_sym : forall (w : world sym) rp goal w1 tbl pack hists blobs t' pre k ro n,
  disk_inv sym_eqb SContent w -> hist_sound_sym w -> init_dir sym w = Ok (w1, tbl) -> get_nodes sym w1 rp goal = Ok pack ->
  Forall det_node (p_nodes pack) ->
  read_histories sym sym_eqb SRule w1 (p_nodes pack) = Some hists ->
  take_blobs sym SContent tbl (worker_paths pack) = (blobs, t') ->
  nth_error (p_nodes pack) (k - length (p_leaves pack)) = Some n -> length (p_leaves pack) <= k ->
  let st0 := fn_init sym (write_table sym w1 t') pack in
  phase_of sym (frun sym_eqb SContent SList pack blobs hists pre st0) k = WFinish ro ->
  forall mid s, In s (r_sources (n_rule n)) ->
    content_at (fn_world (frun sym_eqb SContent SList pack blobs hists (pre ++ mid) st0)) s <> None /\
    content_at (fn_world (frun sym_eqb SContent SList pack blobs hists (pre ++ mid) st0)) s = content_at (scratch_world w pack) s.
Proof. exact (c03_fine_sources_final_strong sym sym_eqb SContent SList SRule sym_eqb_spec SContent_inj SList_inj). Qed.

Theorem c03_fine_sources_final_outcome_sym : forall (w : world sym) rp goal w1 tbl pack hists blobs t' ch pre k post ro n,
  disk_inv sym_eqb SContent w -> hist_sound_sym w -> init_dir sym w = Ok (w1, tbl) -> get_nodes sym w1 rp goal = Ok pack ->
  Forall det_node (p_nodes pack) ->
  read_histories sym sym_eqb SRule w1 (p_nodes pack) = Some hists ->
  take_blobs sym SContent tbl (worker_paths pack) = (blobs, t') ->
  ch = pre ++ k :: post ->
  nth_error (p_nodes pack) (k - length (p_leaves pack)) = Some n -> length (p_leaves pack) <= k ->
  let st0 := fn_init sym (write_table sym w1 t') pack in
  let st_before := frun sym_eqb SContent SList pack blobs hists pre st0 in
  phase_of sym st_before k = WFinish ro ->
  forall s, In s (r_sources (n_rule n)) ->
    content_at (fn_world st_before) s = content_at (scratch_world w pack) s /\
    content_at (fn_world st_before) s = content_at (o_world (build_fine_sym ch w rp goal)) s.
Proof. exact (c03_fine_sources_final_outcome sym sym_eqb SContent SList SRule sym_eqb_spec SContent_inj SList_inj). Qed.

Theorem c03_fine_command_reads_only_final_sources_sym : forall (w : world sym) rp goal w1 tbl pack hists blobs t' pre k st',
  disk_inv sym_eqb SContent w -> hist_sound_sym w -> init_dir sym w = Ok (w1, tbl) -> get_nodes sym w1 rp goal = Ok pack ->
  Forall det_node (p_nodes pack) ->
  read_histories sym sym_eqb SRule w1 (p_nodes pack) = Some hists ->
  take_blobs sym SContent tbl (worker_paths pack) = (blobs, t') ->
  let st0 := fn_init sym (write_table sym w1 t') pack in
  let st_before := frun sym_eqb SContent SList pack blobs hists pre st0 in
  fstep sym_eqb SContent SList pack blobs hists st_before k = Some st' ->
  fn_commands st' = fn_commands st_before \/
  exists n ro,
    length (p_leaves pack) <= k /\ nth_error (p_nodes pack) (k - length (p_leaves pack)) = Some n /\
    phase_of sym st_before k = WFinish ro /\
    fn_commands st' = fn_commands st_before ++ script_lines (n_command n) /\
    (forall d, In d (deps pack k) ->
       phase_of sym st_before d = WDone /\ exists ts, nth d (fn_sent st_before) None = Some (Some ts)) /\
    (forall s, In s (r_sources (n_rule n)) ->
       content_at (fn_world st_before) s <> None /\
       content_at (fn_world st_before) s = content_at (scratch_world w pack) s /\
       content_at (fn_world st') s = content_at (fn_world st_before) s /\
       forall post', content_at (fn_world (frun sym_eqb SContent SList pack blobs hists (pre ++ k :: post') st0)) s =
                     content_at (fn_world st_before) s).
Proof. exact (c03_fine_command_reads_only_final_sources sym sym_eqb SContent SList SRule sym_eqb_spec SContent_inj SList_inj). Qed.

Theorem c03_fine_command_step_enabled_sym : forall (w : world sym) rp goal w1 tbl pack hists blobs t' pre k ro n,
  disk_inv sym_eqb SContent w -> hist_sound_sym w -> init_dir sym w = Ok (w1, tbl) -> get_nodes sym w1 rp goal = Ok pack ->
  Forall det_node (p_nodes pack) ->
  read_histories sym sym_eqb SRule w1 (p_nodes pack) = Some hists ->
  take_blobs sym SContent tbl (worker_paths pack) = (blobs, t') ->
  nth_error (p_nodes pack) (k - length (p_leaves pack)) = Some n -> length (p_leaves pack) <= k ->
  let st_before := frun sym_eqb SContent SList pack blobs hists pre (fn_init sym (write_table sym w1 t') pack) in
  phase_of sym st_before k = WFinish ro ->
  exists st', fstep sym_eqb SContent SList pack blobs hists st_before k = Some st'.
Proof. exact (c03_fine_command_step_enabled sym sym_eqb SContent SList SRule sym_eqb_spec SContent_inj SList_inj). Qed.


(* ================================================================== *)
(* G5: FineFacts' race (rules a <- s, b <- a, c <- a; workers 0 = s, 1 = a, 2 = b, 3 = c), the run fx_c_wins:
   c takes the one cache entry b and c both remember, b finds it gone and has to run its command. The run is not
   serial: the steps of b and c alternate *)
(* ================================================================== *)

Definition c3f_hists : list (history sym) :=
  match read_histories sym sym_eqb SRule fx_w1 (p_nodes fx_pack) with Some h => h | None => [] end.
Definition c3f_t' : table sym := snd (take_blobs sym SContent fx_tbl (worker_paths fx_pack)).
Notation c3f_st0 := (fn_init sym (write_table sym fx_w1 c3f_t') fx_pack).
Notation c3f_run ch := (frun sym_eqb SContent SList fx_pack fx_blobs c3f_hists ch c3f_st0).
Definition c3f_node_b : node := nth 1 (p_nodes fx_pack) (mk_node [] [] [] (mk_rule [] [] [])).

(* worker 2 (rule b) has lost the race and decided NeedsRebuild; its next step runs "gen b =x @a" *)
Definition c3f_pre : list nat := fx_pre ++ [3; 2; 2].
Definition c3f_post : list nat := repeat 2 4 ++ repeat 3 6.

Lemma c3f_hh : read_histories sym sym_eqb SRule fx_w1 (p_nodes fx_pack) = Some c3f_hists.
Proof. vm_compute. reflexivity. Qed.

Lemma c3f_tb : take_blobs sym SContent fx_tbl (worker_paths fx_pack) = (fx_blobs, c3f_t').
Proof. unfold fx_blobs, c3f_t'. destruct (take_blobs sym SContent fx_tbl (worker_paths fx_pack)); reflexivity. Qed.

Lemma c3f_split : fx_c_wins = c3f_pre ++ 2 :: c3f_post.
Proof. reflexivity. Qed.

Lemma c3f_phase : phase_of sym (c3f_run c3f_pre) 2 = WFinish (Some [NeedsRebuild]).
Proof. vm_compute. reflexivity. Qed.

Lemma c3f_not_serial : fx_c_wins <> serial_choices sym fx_pack fx_blobs.
Proof. vm_compute. discriminate. Qed.

Example c03_fine_ex_producers : forall d, In d (deps fx_pack 2) ->
  phase_of sym (c3f_run c3f_pre) d = WDone /\ exists ts, nth d (fn_sent (c3f_run c3f_pre)) None = Some (Some ts).
Proof.
  destruct fx_inv as [Hinv Hhs].
  exact (c03_fine_producers_done_sym fx_w RULES_PATH None fx_w1 fx_tbl fx_pack c3f_hists fx_blobs c3f_t' c3f_pre 2 _
           Hinv Hhs fx_init fx_nodes fx_det c3f_hh c3f_tb c3f_phase).
Qed.

Example c03_fine_ex_sources : forall s, In s (r_sources (n_rule c3f_node_b)) ->
  content_at (fn_world (c3f_run c3f_pre)) s <> None /\
  (forall post', content_at (fn_world (c3f_run (c3f_pre ++ 2 :: post'))) s = content_at (fn_world (c3f_run c3f_pre)) s) /\
  (all_done (c3f_run fx_c_wins) = true -> o_verdict (build_fine_sym fx_c_wins fx_w RULES_PATH None) = VOk ->
   content_at (fn_world (c3f_run c3f_pre)) s = content_at (scratch_world fx_w fx_pack) s).
Proof.
  destruct fx_inv as [Hinv Hhs].
  apply (c03_fine_sources_final_sym fx_w RULES_PATH None fx_w1 fx_tbl fx_pack c3f_hists fx_blobs c3f_t' fx_c_wins c3f_pre 2
           c3f_post (Some [NeedsRebuild]) c3f_node_b Hinv Hhs fx_init fx_nodes fx_det c3f_hh c3f_tb c3f_split).
  - vm_compute. reflexivity.
  - vm_compute. lia.
  - exact c3f_phase.
Qed.

(* the premises of (c) hold on the example, and the conclusion is not trivial: b's only source is a, which was stale
   ("2") when the build started and in the initial state of the run; it holds "1", the from-scratch content, when b
   is about to run its command; worker 1 had to recover it first. The step of worker 2 in that state is the one that
   appends b's command *)
Example c03_fine_ex_values :
  deps fx_pack 2 = [1] /\
  r_sources (n_rule c3f_node_b) = [bs "a"] /\
  all_done (c3f_run fx_c_wins) = true /\
  o_verdict (build_fine_sym fx_c_wins fx_w RULES_PATH None) = VOk /\
  content_at fx_w (bs "a") = Some (bs "2") /\
  content_at (fn_world c3f_st0) (bs "a") = Some (bs "2") /\
  content_at (fn_world (c3f_run c3f_pre)) (bs "a") = Some (bs "1") /\
  content_at (fn_world (c3f_run fx_c_wins)) (bs "a") = Some (bs "1") /\
  content_at (scratch_world fx_w fx_pack) (bs "a") = Some (bs "1") /\
  fn_commands (c3f_run c3f_pre) = [] /\
  fn_commands (c3f_run (c3f_pre ++ [2])) = [bs "gen b =x @a"].
Proof. vm_compute. repeat split; reflexivity. Qed.

Example c03_fine_ex_command_step : forall st',
  fstep sym_eqb SContent SList fx_pack fx_blobs c3f_hists (c3f_run c3f_pre) 2 = Some st' ->
  fn_commands st' = [bs "gen b =x @a"] /\
  forall s, In s (r_sources (n_rule c3f_node_b)) ->
    content_at (fn_world (c3f_run c3f_pre)) s <> None /\
    content_at (fn_world (c3f_run c3f_pre)) s = content_at (scratch_world fx_w fx_pack) s /\
    content_at (fn_world st') s = content_at (fn_world (c3f_run c3f_pre)) s.
Proof.
  intros st' H. destruct fx_inv as [Hinv Hhs].
  destruct (c03_fine_command_reads_only_final_sources_sym fx_w RULES_PATH None fx_w1 fx_tbl fx_pack c3f_hists fx_blobs c3f_t'
              c3f_pre 2 st' Hinv Hhs fx_init fx_nodes fx_det c3f_hh c3f_tb H) as [E | (n & ro & _ & Hn & _ & Ec & _ & Hsrc)].
  - exfalso. revert E. replace st' with (c3f_run (c3f_pre ++ [2])).
    + vm_compute. discriminate.
    + rewrite (frun_app sym sym_eqb SContent SList). cbn [Fine.frun fold_left]. rewrite H. reflexivity.
  - assert (n = c3f_node_b) as -> by (vm_compute in Hn; injection Hn as <-; reflexivity).
    split.
    + rewrite Ec. vm_compute. reflexivity.
    + intros s Hs. destruct (Hsrc s Hs) as (A1 & A2 & A3 & _). exact (conj A1 (conj A2 A3)).
Qed.

Print Assumptions c03_fine_producers_done.
Print Assumptions c03_fine_sources_final.
Print Assumptions c03_fine_sources_final_strong.
Print Assumptions c03_fine_sources_final_outcome.
Print Assumptions c03_fine_command_reads_only_final_sources.
Print Assumptions c03_fine_command_step_enabled.
Print Assumptions c03_fine_command_step_enabled_sym.
Print Assumptions c03_fine_producers_done_sym.
Print Assumptions c03_fine_sources_final_sym.
Print Assumptions c03_fine_sources_final_strong_sym.
Print Assumptions c03_fine_sources_final_outcome_sym.
Print Assumptions c03_fine_command_reads_only_final_sources_sym.
Print Assumptions c03_fine_ex_producers.
Print Assumptions c03_fine_ex_sources.
Print Assumptions c03_fine_ex_values.
Print Assumptions c03_fine_ex_command_step.
