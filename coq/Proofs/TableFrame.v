(* No work step reads the table file of the world (rd_table): every primitive, a rule thread, a leaf thread,
   the serial run of the plan and main's join loop commute with replacing that file. Used to relate the build
   that saves the remaining table before the workers start (repair of F6) with the run from the world that
   init_dir left: same results, same commands, same worlds up to the table file. Pure equalities, no invariant. *)
From Ruler Require Import Tactics Bytes AList RuleSyntax Parser TopoSort World Cmdlang Work Build.
Import ListNotations.

Section TableFrame.
  Variable T : Type.
  Variable teqb : T -> T -> bool.
  Variable hc : bytes -> T.
  Variable hl : list T -> T.
  Variable hr : rule -> T.

  Notation world := (world T).
  Notation fstate := (fstate T).
  Notation blob := (blob T).
  Notation run_state := (run_state T).
  Notation join_state := (join_state T).

  (* w with its table file replaced by x (None: deleted) *)
  Definition set_tbl (w : world) (x : option (sf (table T))) : world :=
    set_rd w (mk_rdir (rd_exists (w_rd w)) (rd_cache (w_rd w)) (rd_hist (w_rd w)) x).

  Lemma write_table_set_tbl (w : world) t : write_table T w t = set_tbl w (Some (SF_ok t)).
  Proof. reflexivity. Qed.

  Lemma set_tbl_set_tbl (w : world) x y : set_tbl (set_tbl w x) y = set_tbl w y.
  Proof. reflexivity. Qed.

  Lemma set_tbl_same (w : world) : set_tbl w (rd_table (w_rd w)) = w.
  Proof. destruct w as [fs [ex ca hi tb] ck md]. reflexivity. Qed.

  Lemma write_table_over (w : world) x t : write_table T (set_tbl w x) t = write_table T w t.
  Proof. reflexivity. Qed.

  Lemma set_tbl_files (w : world) x : w_files (set_tbl w x) = w_files w.
  Proof. reflexivity. Qed.

  Lemma set_tbl_fget (w : world) x p : fget (set_tbl w x) p = fget w p.
  Proof. reflexivity. Qed.

  Lemma set_tbl_cache (w : world) x : cache_of (set_tbl w x) = cache_of w.
  Proof. reflexivity. Qed.

  Lemma set_tbl_hist (w : world) x : rd_hist (w_rd (set_tbl w x)) = rd_hist (w_rd w).
  Proof. reflexivity. Qed.

  Section Commute.
  Variable x : option (sf (table T)).

  Definition lw {A : Type} (r : result (A * world) work_err) : result (A * world) work_err :=
    match r with Ok (a, w) => Ok (a, set_tbl w x) | Err e => Err e end.

  Definition lrr (r : restore_result T) : restore_result T :=
    match r with RDone w => RDone (set_tbl w x) | RNotThere => RNotThere | RCacheMissing => RCacheMissing end.

  Lemma back_up_st (w : world) t p :
    back_up teqb (set_tbl w x) t p = option_map (fun w1 => set_tbl w1 x) (back_up teqb w t p).
  Proof.
    unfold back_up. change (cache_of (set_tbl w x)) with (cache_of w).
    change (fget (set_tbl w x) p) with (fget w p).
    destruct (cache_of w) as [c|]; [|reflexivity]. destruct (fget w p) as [f|]; reflexivity.
  Qed.

  Lemma restore_st (w : world) t p : restore teqb (set_tbl w x) t p = lrr (restore teqb w t p).
  Proof.
    unfold restore. change (cache_of (set_tbl w x)) with (cache_of w).
    destruct (cache_of w) as [c|]; [|reflexivity]. destruct (alookup teqb c t) as [f|]; reflexivity.
  Qed.

  Lemma restore_or_rebuild_st (w : world) t p :
    restore_or_rebuild T teqb (set_tbl w x) t p = lw (restore_or_rebuild T teqb w t p).
  Proof.
    unfold restore_or_rebuild. rewrite restore_st. destruct (restore teqb w t p); reflexivity.
  Qed.

  Lemma write_file_st (w : world) p c : write_file (set_tbl w x) p c = set_tbl (write_file w p c) x.
  Proof.
    unfold write_file, stamp. change (w_mode (set_tbl w x)) with (w_mode w). destruct (w_mode w); reflexivity.
  Qed.

  Lemma set_exec_st (w : world) p b : set_exec (set_tbl w x) p b = set_tbl (set_exec w p b) x.
  Proof. unfold set_exec. change (fget (set_tbl w x) p) with (fget w p). destruct (fget w p); reflexivity. Qed.

  Lemma gather_st (w : world) pieces : gather (set_tbl w x) pieces = gather w pieces.
  Proof.
    induction pieces as [|pc r IH]; cbn [gather]; [reflexivity|].
    destruct pc as [|c body]; [reflexivity|]. rewrite IH.
    change (fget (set_tbl w x) body) with (fget w body). reflexivity.
  Qed.

  Lemma run_line_st (w : world) line :
    run_line (set_tbl w x) line = (fst (run_line w line), set_tbl (snd (run_line w line)) x).
  Proof.
    unfold run_line. destruct (tokens line) as [|op args]; [reflexivity|].
    destruct (bytes_eqb op [116; 114; 117; 101]); [reflexivity|].
    destruct (bytes_eqb op [102; 97; 105; 108]); [reflexivity|].
    destruct (bytes_eqb op [103; 101; 110]).
    { destruct args as [|out pieces]; [reflexivity|]. rewrite gather_st.
      destruct (gather w pieces) as [e|d]; [reflexivity|]. rewrite write_file_st. reflexivity. }
    destruct (bytes_eqb op [99; 104; 109; 111; 100]).
    { destruct args as [|p [|q r]]; try reflexivity. change (fget (set_tbl w x) p) with (fget w p).
      destruct (fget w p); [|reflexivity]. rewrite set_exec_st. reflexivity. }
    destruct (bytes_eqb op [114; 109]).
    { destruct args as [|p [|q r]]; reflexivity. }
    reflexivity.
  Qed.

  Lemma run_script_st lines : forall (w : world),
    run_script (set_tbl w x) lines = (fst (run_script w lines), set_tbl (snd (run_script w lines)) x).
  Proof.
    induction lines as [|l r IH]; intro w; cbn [run_script]; [reflexivity|].
    rewrite run_line_st. destruct (run_line w l) as [code w1]. cbn [fst snd].
    rewrite IH. destruct (run_script w1 r) as [codes w2]. reflexivity.
  Qed.

  Lemma get_file_ticket_st (w : world) p a :
    get_file_ticket teqb hc (set_tbl w x) p a = get_file_ticket teqb hc w p a.
  Proof. reflexivity. Qed.

  Lemma get_actual_file_state_st (w : world) p a :
    get_actual_file_state teqb hc (set_tbl w x) p a = get_actual_file_state teqb hc w p a.
  Proof. reflexivity. Qed.

  Lemma resolve_single_st (w : world) rem p a :
    resolve_single teqb hc (set_tbl w x) rem p a = lw (resolve_single teqb hc w rem p a).
  Proof.
    unfold resolve_single. rewrite get_file_ticket_st.
    destruct (get_file_ticket teqb hc w p a) as [cur|].
    - destruct (teqb rem cur); [reflexivity|]. rewrite back_up_st.
      destruct (back_up teqb w cur p) as [w1|]; cbn [option_map]; [apply restore_or_rebuild_st | reflexivity].
    - apply restore_or_rebuild_st.
  Qed.

  Lemma resolve_remembered_st (b : blob) : forall (w : world) rem,
    resolve_remembered teqb hc (set_tbl w x) b rem = lw (resolve_remembered teqb hc w b rem).
  Proof.
    induction b as [|[p a] rest IH]; intros w rem; cbn [resolve_remembered]; [reflexivity|].
    destruct rem as [|r rrest]; [reflexivity|]. rewrite resolve_single_st.
    destruct (resolve_single teqb hc w (fs_t r) p a) as [[res w1]|e]; cbn [lw]; [|reflexivity].
    rewrite IH. destruct (resolve_remembered teqb hc w1 rest rrest) as [[ress w2]|e]; reflexivity.
  Qed.

  Lemma resolve_fresh_st (b : blob) : forall (w : world),
    resolve_fresh teqb hc (set_tbl w x) b = lw (resolve_fresh teqb hc w b).
  Proof.
    induction b as [|[p a] rest IH]; intros w; cbn [resolve_fresh]; [reflexivity|].
    rewrite get_file_ticket_st. destruct (get_file_ticket teqb hc w p a) as [cur|].
    - rewrite back_up_st. destruct (back_up teqb w cur p) as [w1|]; cbn [option_map]; [|reflexivity].
      rewrite IH. destruct (resolve_fresh teqb hc w1 rest) as [[ress w2]|e]; reflexivity.
    - rewrite IH. destruct (resolve_fresh teqb hc w rest) as [[ress w2]|e]; reflexivity.
  Qed.

  Lemma current_tickets_st (b : blob) (w : world) :
    current_tickets teqb hc (set_tbl w x) b = current_tickets teqb hc w b.
  Proof.
    induction b as [|[p a] rest IH]; cbn [current_tickets]; [reflexivity|].
    rewrite get_file_ticket_st, IH. reflexivity.
  Qed.

  Lemma update_blob_st (b : blob) (w : world) :
    update_blob teqb hc (set_tbl w x) b = update_blob teqb hc w b.
  Proof.
    induction b as [|[p a] rest IH]; cbn [update_blob]; [reflexivity|].
    rewrite get_actual_file_state_st, IH. reflexivity.
  Qed.

  Lemma handle_leaf_st (w : world) b : handle_leaf teqb hc (set_tbl w x) b = handle_leaf teqb hc w b.
  Proof. unfold handle_leaf. rewrite current_tickets_st. reflexivity. Qed.

  (* a rule thread: same result, same script, the world it leaves carries the replaced table along *)
  Definition lo (o : result (work_result T) work_err * world * list bytes) :=
    (fst (fst o), set_tbl (snd (fst o)) x, snd o).

  Theorem handle_rule_st (w : world) b h st cmd :
    handle_rule teqb hc (set_tbl w x) b h st cmd = lo (handle_rule teqb hc w b h st cmd).
  Proof.
    unfold handle_rule.
    assert (match alookup teqb h st with
            | Some remembered => resolve_remembered teqb hc (set_tbl w x) b remembered
            | None => resolve_fresh teqb hc (set_tbl w x) b
            end
            = lw (match alookup teqb h st with
                  | Some remembered => resolve_remembered teqb hc w b remembered
                  | None => resolve_fresh teqb hc w b
                  end)) as E.
    { destruct (alookup teqb h st); [apply resolve_remembered_st | apply resolve_fresh_st]. }
    rewrite E. clear E.
    destruct (match alookup teqb h st with
              | Some remembered => resolve_remembered teqb hc w b remembered
              | None => resolve_fresh teqb hc w b
              end) as [[ress w1]|e]; cbn [lw]; [|reflexivity].
    destruct (needs_rebuild ress).
    - rewrite run_script_st. destruct (run_script w1 (script_lines cmd)) as [codes w2]. cbn [fst snd].
      destruct (command_verdict codes); [reflexivity|]. rewrite update_blob_st.
      destruct (update_blob teqb hc w2 (forget_replaced hc b ress)) as [b'|p]; [|reflexivity].
      destruct (history_insert teqb h st (map (fun e => fs_t (snd e)) b') (map fst (forget_replaced hc b ress)));
        reflexivity.
    - rewrite current_tickets_st.
      destruct (current_tickets teqb hc w1 (forget_replaced hc b ress)); reflexivity.
  Qed.

  Lemma clean_targets_st (b : blob) : forall (w : world),
    clean_targets teqb hc (set_tbl w x) b
    = match clean_targets teqb hc w b with Ok w' => Ok (set_tbl w' x) | Err e => Err e end.
  Proof.
    induction b as [|[p a] rest IH]; intro w; cbn [clean_targets]; [reflexivity|].
    rewrite get_file_ticket_st. destruct (get_file_ticket teqb hc w p a) as [t|]; [|apply IH].
    rewrite back_up_st. destruct (back_up teqb w t p) as [w1|]; cbn [option_map]; [apply IH | reflexivity].
  Qed.

  Lemma read_history_st (w : world) r : read_history T teqb hr (set_tbl w x) r = read_history T teqb hr w r.
  Proof. reflexivity. Qed.

  Lemma write_history_st (w : world) r h :
    write_history T teqb hr (set_tbl w x) r h = set_tbl (write_history T teqb hr w r h) x.
  Proof.
    unfold write_history. change (rd_hist (w_rd (set_tbl w x))) with (rd_hist (w_rd w)).
    destruct (rd_hist (w_rd w)); reflexivity.
  Qed.

  (* ---------- the serial run ---------- *)

  Definition rs_st (st : run_state) : run_state :=
    mk_rs T (set_tbl (rs_world T st) x) (rs_table T st) (rs_leaf_sent T st) (rs_node_sent T st)
          (rs_results T st) (rs_commands T st).

  Lemma run_leaf_st st leaf : run_leaf T teqb hc (rs_st st) leaf = rs_st (run_leaf T teqb hc st leaf).
  Proof.
    unfold run_leaf. cbn [rs_st rs_world rs_table rs_leaf_sent rs_node_sent rs_results rs_commands].
    destruct (take_blob T hc (rs_table T st) [leaf]) as [b t']. rewrite handle_leaf_st.
    destruct (handle_leaf teqb hc (rs_world T st) b); reflexivity.
  Qed.

  Lemma run_leaves_st leaves : forall st,
    fold_left (run_leaf T teqb hc) leaves (rs_st st) = rs_st (fold_left (run_leaf T teqb hc) leaves st).
  Proof.
    induction leaves as [|l r IH]; intro st; cbn [fold_left]; [reflexivity|].
    rewrite run_leaf_st. apply IH.
  Qed.

  Notation run_node := (run_node T teqb hc hl hr).
  Notation run_nodes := (run_nodes T teqb hc hl hr).

  Lemma run_node_st st n : run_node (rs_st st) n = option_map rs_st (run_node st n).
  Proof.
    unfold Build.run_node. cbn [rs_st rs_world rs_table rs_leaf_sent rs_node_sent rs_results rs_commands].
    destruct (take_blob T hc (rs_table T st) (n_targets n)) as [b t']. rewrite read_history_st.
    destruct (read_history T teqb hr (rs_world T st) (n_rule n)) as [h|]; [|reflexivity].
    destruct (all_some (map (received T (rs_leaf_sent T st) (rs_node_sent T st)) (n_source_indices n)))
      as [tickets|]; [|reflexivity].
    rewrite handle_rule_st.
    destruct (handle_rule teqb hc (rs_world T st) b h (hl tickets) (n_command n)) as [[res w'] s].
    unfold lo. cbn [fst snd]. destruct res; reflexivity.
  Qed.

  Lemma run_nodes_st ns : forall st, run_nodes (rs_st st) ns = option_map rs_st (run_nodes st ns).
  Proof.
    induction ns as [|n r IH]; intro st; cbn [Build.run_nodes]; [reflexivity|].
    rewrite run_node_st. destruct (run_node st n) as [st1|]; cbn [option_map]; [apply IH | reflexivity].
  Qed.

  (* ---------- the join loop ---------- *)

  Definition js_st (js : join_state) : join_state :=
    mk_js T (set_tbl (js_world T js) x) (js_table T js) (js_status T js) (js_errors T js).

  Lemma join_one_st js res : join_one T teqb hr (js_st js) res = js_st (join_one T teqb hr js res).
  Proof.
    unfold join_one. cbn [js_st js_world js_table js_status js_errors].
    destruct (snd res) as [wr|e|]; try reflexivity.
    destruct (fst res) as [r|]; [|reflexivity]. destruct (wr_history wr) as [h|]; [|reflexivity].
    rewrite write_history_st. reflexivity.
  Qed.

  Lemma join_all_st rs : forall js,
    fold_left (join_one T teqb hr) rs (js_st js) = js_st (fold_left (join_one T teqb hr) rs js).
  Proof.
    induction rs as [|r rest IH]; intro js; cbn [fold_left]; [reflexivity|].
    rewrite join_one_st. apply IH.
  Qed.

  End Commute.
End TableFrame.
