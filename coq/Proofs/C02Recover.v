(* C02, history level, part 3: the build-level form of "it does not run at all when ... each of its targets
   either still holds that output or can be taken back from the cache".
   E gives the contents the plan's files are wanted to have (for instance: what they were after an earlier
   build).  If every leaf holds its wanted content, every rule has a history entry for the wanted sources
   that remembers the wanted targets, and every target holds its wanted content or the cache holds it
   (two targets that both have to come out of the cache wanting different contents), then a build runs no
   command, succeeds, leaves every target with its wanted content and prints only "up to date" /
   "recovered" lines (recoverable_build). *)
From Coq Require Import Relations.Relation_Operators Relations.Operators_Properties.
From Ruler Require Import Tactics Bytes AList RuleSyntax Parser TopoSort TopoSpec World Cmdlang Work Build Ops Inv
     BuildSpec Ideal BytesFacts InvFacts TopoSortFacts BuildFacts C01Script C01Hist C01Build C01Plan C02Extra
     C11Facts C02Hist C02Repeat.
Local Open Scope N_scope.

Lemma opt_bytes_dec (a b : option bytes) : a = b \/ a <> b.
Proof.
  destruct a as [x|], b as [y|]; try (right; discriminate); [|left; reflexivity].
  destruct (bytes_dec x y) as [-> | Hne]; [left; reflexivity | right; intro H; injection H as H; contradiction].
Qed.

Section Recover.
  Variable T : Type.
  Variable teqb : T -> T -> bool.
  Variable hc : bytes -> T.
  Variable hl : list T -> T.
  Variable hr : rule -> T.
  Hypothesis teqb_spec : forall a b, teqb a b = true <-> a = b.
  Hypothesis hc_inj : forall a b, hc a = hc b -> a = b.

  Notation world := (world T).
  Notation fstate := (fstate T).
  Notation state_ok := (state_ok teqb hc).
  Notation disk_inv := (disk_inv teqb hc).
  Notation steps := (clos_refl_trans world (step teqb hc)).
  Notation blob_ok := (InvProofs.blob_ok T teqb hc).
  Notation tbl_ok := (InvProofs.tbl_ok T teqb hc).
  Notation has_hash := (has_hash T hc).
  Notation rs_inv := (InvProofs.rs_inv T teqb hc).
  Notation leaf_ok := (leaf_ok T hc).
  Notation sent_ok := (sent_ok T hc).
  Notation all_sent := (all_sent T).
  Notation gft := (get_file_ticket teqb hc).
  Notation cache_has := (cache_has T teqb).
  Notation run_node := (run_node T teqb hc hl hr).
  Notation run_nodes := (run_nodes T teqb hc hl hr).
  Notation join_one := (join_one T teqb hr).
  Notation build := (build teqb hc hl hr).

  (* ================================================================== *)
  (* definitions                                                          *)
  (* ================================================================== *)

  Definition want_hash (E : bytes -> option bytes) (p : bytes) (t : T) : Prop :=
    exists c, E p = Some c /\ t = hc c.

  (* history h has an entry for the wanted sources of n that remembers the wanted targets of n *)
  Definition node_want (E : bytes -> option bytes) (n : node) (h : World.history T) : Prop :=
    exists tickets rem,
      Forall2 (want_hash E) (r_sources (n_rule n)) tickets /\
      alookup teqb h (hl tickets) = Some rem /\
      Forall2p (fun t o => want_hash E t (fs_t o)) (n_targets n) rem.

  Definition recoverable_world (E : bytes -> option bytes) (w2 : world) (pack : node_pack) : Prop :=
    (forall l, In l (p_leaves pack) -> E l <> None /\ content_at w2 l = E l) /\
    (forall t c, In t (plan_targets pack) -> E t = Some c -> content_at w2 t = Some c \/ cache_has w2 (hc c)) /\
    (forall t t', In t (plan_targets pack) -> In t' (plan_targets pack) -> t <> t' ->
                  content_at w2 t <> E t -> content_at w2 t' <> E t' -> E t <> E t') /\
    exists c hs tb,
      rd_cache (w_rd w2) = Some c /\ rd_hist (w_rd w2) = Some hs /\ rd_table (w_rd w2) = Some (SF_ok tb) /\
      forall n, In n (p_nodes pack) ->
        exists h, alookup teqb hs (hr (n_rule n)) = Some (SF_ok h) /\ node_want E n h.

  Definition calm_banner (s : banner * bytes) : Prop := fst s = BUpToDate \/ fst s = BRecovered.

  Definition calm_res (res : option rule * thread_result T) : Prop :=
    exists wr, snd res = TOk wr /\ Forall calm_banner (status_lines T wr).

  Lemma quiet_calm res : quiet_res T res -> calm_res res.
  Proof.
    intros (wr & Hw & Hs). exists wr. split; [exact Hw|]. eapply Forall_impl; [|exact Hs]. intros s H. left. exact H.
  Qed.

  Lemma status_calm (b : blob T) : forall ress ts h, needs_rebuild ress = false ->
    Forall calm_banner (status_lines T (mk_wr ts b (Resolutions ress) h)).
  Proof.
    unfold status_lines. cbn [wr_option wr_blob].
    induction b as [|x b IH]; intros [|r ress] ts h Hn; cbn [combine map]; try constructor.
    - unfold needs_rebuild in Hn. cbn [existsb] in Hn. apply orb_false_iff in Hn as [Hn _].
      unfold calm_banner. cbn [fst snd]. destruct r; auto. discriminate.
    - apply (IH ress ts h). unfold needs_rebuild in Hn. cbn [existsb] in Hn. apply orb_false_iff in Hn as [_ Hn]. exact Hn.
  Qed.

  (* ================================================================== *)
  (* the invariant of the serial schedule                                 *)
  (* ================================================================== *)

  Record calm (E : bytes -> option bytes) (w0 : world) (hs : list (T * sf (World.history T))) (pack : node_pack)
              (done : list node) (st : run_state T) : Prop := mk_calm {
    c_rs : rs_inv w0 st;
    c_cmds : rs_commands T st = [];
    c_hist : rd_hist (w_rd (rs_world T st)) = Some hs;
    c_cache_some : cache_of (rs_world T st) <> None;
    c_frame : forall p, ~ In p (flat_map n_targets done) -> content_at (rs_world T st) p = content_at w0 p;
    c_done : forall t, In t (flat_map n_targets done) -> content_at (rs_world T st) t = E t;
    c_cache : forall t c, In t (plan_targets pack) -> ~ In t (flat_map n_targets done) -> E t = Some c ->
                content_at w0 t <> Some c -> cache_has (rs_world T st) (hc c);
    c_leaf : Forall2 (leaf_ok (rs_world T st)) (p_leaves pack) (rs_leaf_sent T st);
    c_sent : Forall2 (sent_ok (rs_world T st) (rs_world T st)) done (rs_node_sent T st);
    c_all : all_sent (rs_leaf_sent T st) /\ all_sent (rs_node_sent T st);
    c_res : Forall calm_res (rs_results T st)
  }.

  Lemma nth_error_fst {A B} (l : list (A * B)) i p a :
    nth_error l i = Some (p, a) -> nth_error (map fst l) i = Some p.
  Proof. intro H. rewrite nth_error_map, H. reflexivity. Qed.

  Lemma run_node_calm E (w0 : world) hs pack done n rest st :
    disk_inv w0 -> plan_wf pack ->
    (forall l, In l (p_leaves pack) -> E l <> None /\ content_at w0 l = E l) ->
    (forall t t', In t (plan_targets pack) -> In t' (plan_targets pack) -> t <> t' ->
                  content_at w0 t <> E t -> content_at w0 t' <> E t' -> E t <> E t') ->
    p_nodes pack = done ++ n :: rest ->
    (exists h, alookup teqb hs (hr (n_rule n)) = Some (SF_ok h) /\ node_want E n h) ->
    calm E w0 hs pack done st ->
    exists st', run_node st n = Some st' /\ calm E w0 hs pack (done ++ [n]) st'.
  Proof.
    intros Hinv0 Hwf HEleaf Hdist E0 (h & Hh & tickets & rem & Hsrc & Hl & Htg)
           [Hrs Hc Hhist Hcs Hframe Hdone Hcache Hleaf Hsent [Hal Han] Hres].
    pose proof Hrs as (Hsteps & Htbl & _).
    set (wc := rs_world T st) in *.
    pose proof (inv_steps T teqb hc teqb_spec _ _ Hinv0 Hsteps) as Hinv.
    assert (In n (p_nodes pack)) as Hnin by (rewrite E0; apply in_or_app; right; left; reflexivity).
    destruct (plan_wf_node _ _ _ _ Hwf E0) as [Hnd Hdis].
    assert (nth_error (p_nodes pack) (length done) = Some n) as Hnth.
    { rewrite E0. rewrite nth_error_app2 by lia. rewrite Nat.sub_diag. reflexivity. }
    pose proof Hwf as (_ & Hleafnt & Hbind). pose proof (Hbind _ _ Hnth) as Hbindn.
    assert (forall i, (i < length done)%nat -> nth_error (p_nodes pack) i = nth_error done i) as Hdone'.
    { intros i Hi. rewrite E0. apply nth_error_app1. exact Hi. }
    assert (forall t, In t (n_targets n) -> ~ In t (flat_map n_targets done)) as Hpend.
    { intros t Ht Hin. apply in_flat_map in Hin as (n' & Hn' & Ht'). eapply Hdis; eauto. }
    assert (forall t, In t (n_targets n) -> In t (plan_targets pack)) as Hintg.
    { intros t Ht. eapply node_targets_in_plan; eauto. }
    assert (forall n' t, In n' done -> In t (n_targets n') -> In t (plan_targets pack)) as Hindone.
    { intros n' t Hn' Ht. eapply node_targets_in_plan; [|exact Ht]. rewrite E0. apply in_or_app. left. exact Hn'. }
    (* the sources hold their wanted contents *)
    assert (forall s, In s (r_sources (n_rule n)) -> content_at wc s = E s) as Hsrcs.
    { intros s Hs. destruct (Forall2_in_l _ _ _ _ Hbindn Hs) as (bd & _ & Hbd).
      destruct bd as [i | i sub]; cbn [bind_ok] in Hbd.
      - assert (In s (p_leaves pack)) as Hsl by (eapply nth_error_In; eauto).
        rewrite Hframe; [apply HEleaf; exact Hsl|].
        intro X. apply in_flat_map in X as (n' & Hn' & Ht'). apply (Hleafnt s Hsl). eapply Hindone; eauto.
      - destruct Hbd as (Hlt & n' & Hn' & Hsub). rewrite (Hdone' i Hlt) in Hn'.
        apply Hdone. apply in_flat_map. exists n'. split; eapply nth_error_In; eauto. }
    destruct (take_blob T hc (rs_table T st) (n_targets n)) as [b t'] eqn:Etb.
    pose proof (C01Build.take_blob_fst T hc _ _ _ _ Etb) as Hfst.
    assert (clock_ok teqb wc) as Hk by apply Hinv.
    destruct (InvProofs.take_blob_ok T teqb hc teqb_spec _ _ _ _ _ Htbl Etb) as [Hb Ht'].
    assert (read_history T teqb hr wc (n_rule n) = Some h) as Erh.
    { unfold read_history. rewrite Hhist, Hh. reflexivity. }
    destruct (all_some (map (received T (rs_leaf_sent T st) (rs_node_sent T st)) (n_source_indices n)))
      as [tk2|] eqn:Eall.
    2:{ exfalso. eapply (received_total T hc pack done wc wc); eauto. }
    destruct (received_spec T hc pack done wc wc _ _ Hdone' Hleaf Hsent (fun l _ => eq_refl) _ _ Hbindn _ Eall)
      as [Htk2 _].
    assert (tk2 = tickets) as ->.
    { eapply (Forall2_fun (has_hash wc)); [apply has_hash_fun | exact Htk2 |].
      eapply Forall2_impl_in; [|exact Hsrc]. intros s t Hs (c & Hc1 & ->). exists c. split; [|reflexivity].
      rewrite (Hsrcs s Hs). exact Hc1. }
    (* what is known of the i-th target *)
    assert (forall i p a r, nth_error b i = Some (p, a) -> nth_error rem i = Some r ->
              In p (n_targets n) /\ state_ok wc a /\ content_at wc p = content_at w0 p /\
              exists c, E p = Some c /\ fs_t r = hc c /\
                        (content_at w0 p = Some c -> gft wc p a = Some (fs_t r))) as Hith.
    { intros i p a r Hbi Hri.
      pose proof (nth_error_fst _ _ _ _ Hbi) as Hpi. rewrite Hfst in Hpi.
      assert (In p (n_targets n)) as Hp by (eapply nth_error_In; eauto).
      assert (state_ok wc a) as Ha by (apply (Hb p a); eapply nth_error_In; eauto).
      destruct (Forall2p_nth_error _ _ _ Htg _ _ _ Hpi Hri) as (c & Hc1 & Hc2).
      split; [exact Hp|]. split; [exact Ha|]. split; [apply Hframe; apply Hpend; exact Hp|].
      exists c. split; [exact Hc1|]. split; [exact Hc2|]. intro Hw0.
      apply gft_of_hash; [exact Ha|]. exists c. split; [|exact Hc2].
      rewrite Hframe; [exact Hw0 | apply Hpend; exact Hp]. }
    assert (length b <= length rem)%nat as Hlen.
    { rewrite <- (map_length fst b), Hfst. exact (Forall2p_len _ _ _ Htg). }
    assert (NoDup (map fst b)) as Hndb by (rewrite Hfst; exact Hnd).
    assert (recoverable T teqb hc wc b rem) as Hrec.
    { split.
      - intros i p a r Hbi Hri. destruct (Hith i p a r Hbi Hri) as (Hp & Ha & Hfr & c & Hc1 & Hc2 & Hg).
        destruct (opt_bytes_dec (content_at w0 p) (Some c)) as [Heq | Hne]; [left; apply Hg; exact Heq|].
        right. rewrite Hc2. apply (Hcache p c); auto.
      - intros i j pi ai ri pj aj rj Hij Hbi Hri Hbj Hrj Hni Hnj.
        destruct (Hith i pi ai ri Hbi Hri) as (Hpi & _ & _ & ci & Hci1 & Hci2 & Hgi).
        destruct (Hith j pj aj rj Hbj Hrj) as (Hpj & _ & _ & cj & Hcj1 & Hcj2 & Hgj).
        assert (pi <> pj) as Hpij.
        { intro X. subst pj. apply Hij. apply (proj1 (NoDup_nth_error (map fst b)) Hndb).
          - apply nth_error_Some. rewrite (nth_error_fst _ _ _ _ Hbi). discriminate.
          - rewrite (nth_error_fst _ _ _ _ Hbi), (nth_error_fst _ _ _ _ Hbj). reflexivity. }
        rewrite Hci2, Hcj2. intro X. apply hc_inj in X. subst cj.
        apply (Hdist pi pj); auto.
        + rewrite Hci1. intro Y. apply Hni. apply Hgi. exact Y.
        + rewrite Hcj1. intro Y. apply Hnj. apply Hgj. exact Y.
        + congruence. }
    destruct (handle_rule_no_rerun_full T teqb hc teqb_spec wc b h (hl tickets) (n_command n) rem
                Hinv Hb Hl Hlen Hndb Hcs Hrec) as (w' & ress & Hhr & Hn & Hlr & Hs' & F1 & Fr & Hh' & Hc' & Hkk).
    pose proof (Forall2p_firstn _ _ _ F1) as F1'. rewrite map_length in F1'.
    rewrite Hfst in F1, F1', Fr.
    set (wr := mk_wr (map fs_t (firstn (length b) rem)) (forget_replaced hc b ress) (Resolutions ress) (Some h)) in *.
    assert (run_node st n = Some (mk_rs T w' t' (rs_leaf_sent T st) (rs_node_sent T st ++ [Some (wr_tickets wr)])
                                        (rs_results T st ++ [(Some (n_rule n), TOk wr)]) (rs_commands T st ++ []))) as Hrun.
    { unfold Build.run_node. fold wc. rewrite Etb, Erh, Eall, Hhr. reflexivity. }
    eexists. split; [exact Hrun|].
    pose proof (InvProofs.run_node_inv T teqb hc teqb_spec hl hr w0 st n _ Hinv0 Hrs Hrun) as Hrs'.
    constructor; cbn [rs_world rs_table rs_leaf_sent rs_node_sent rs_results rs_commands].
    - exact Hrs'.
    - rewrite Hc. reflexivity.
    - rewrite Hh'. exact Hhist.
    - exact Hc'.
    - intros p Hp. rewrite flat_map_app in Hp. cbn [flat_map] in Hp. rewrite app_nil_r in Hp.
      rewrite Fr; [apply Hframe|]; intro X; apply Hp; apply in_or_app; [left | right]; exact X.
    - intros t Ht. rewrite flat_map_app in Ht. cbn [flat_map] in Ht. rewrite app_nil_r in Ht.
      apply in_app_or in Ht as [Ht | Ht].
      + rewrite Fr; [apply Hdone; exact Ht|]. intro X. exact (Hpend t X Ht).
      + apply In_nth_error in Ht as (i & Hi).
        destruct (Forall2p_nth_error_l _ _ _ Htg _ _ Hi) as (r & Hr & c & Hc1 & Hc2).
        destruct (Forall2p_nth_error _ _ _ F1 _ _ _ Hi Hr) as (c' & Hc1' & Hc2').
        rewrite Hc1', Hc1. f_equal. apply hc_inj. congruence.
    - intros t c Hpt Hnd' Hc1 Hne. rewrite flat_map_app in Hnd'. cbn [flat_map] in Hnd'. rewrite app_nil_r in Hnd'.
      assert (~ In t (flat_map n_targets done)) as Hnd1 by (intro X; apply Hnd'; apply in_or_app; left; exact X).
      assert (~ In t (n_targets n)) as Hnd2 by (intro X; apply Hnd'; apply in_or_app; right; exact X).
      apply Hkk; [apply (Hcache t c); auto|].
      intros i p a r Hbi Hri Hnei.
      destruct (Hith i p a r Hbi Hri) as (Hp & _ & _ & cp & Hcp1 & Hcp2 & Hg).
      rewrite Hcp2. intro X. apply hc_inj in X. subst cp.
      apply (Hdist t p); auto.
      + intro Y. subst p. contradiction.
      + rewrite Hc1. exact Hne.
      + rewrite Hcp1. intro Y. apply Hnei. apply Hg. exact Y.
      + congruence.
    - eapply leaf_ok_transport; [|exact Hleaf]. intros l Hl'. apply Fr.
      intro X. apply (Hleafnt l Hl'). apply Hintg. exact X.
    - apply Forall2_app.
      + eapply sent_ok_transport; [| |exact Hsent]; intros n' t Hn' Ht; apply Fr; eapply Hdis; eauto.
      + constructor; [|constructor]. cbn [C01Build.sent_ok wr_tickets wr]. split; [|reflexivity].
        exact (proj1 (Forall2_map_r (has_hash w') fs_t _ _) F1').
    - split; [exact Hal|]. apply all_sent_app; [exact Han | discriminate].
    - apply Forall_app. split; [exact Hres|]. constructor; [|constructor].
      exists wr. split; [reflexivity|]. apply status_calm. exact Hn.
  Qed.

  Lemma run_nodes_calm E (w0 : world) hs pack :
    disk_inv w0 -> plan_wf pack ->
    (forall l, In l (p_leaves pack) -> E l <> None /\ content_at w0 l = E l) ->
    (forall t t', In t (plan_targets pack) -> In t' (plan_targets pack) -> t <> t' ->
                  content_at w0 t <> E t -> content_at w0 t' <> E t' -> E t <> E t') ->
    (forall n, In n (p_nodes pack) ->
       exists h, alookup teqb hs (hr (n_rule n)) = Some (SF_ok h) /\ node_want E n h) ->
    forall rest done st,
      p_nodes pack = done ++ rest -> calm E w0 hs pack done st ->
      exists st', run_nodes st rest = Some st' /\ calm E w0 hs pack (p_nodes pack) st'.
  Proof.
    intros Hinv Hwf HEl Hdist Hn. induction rest as [|n rest IH]; intros done st E0 Hq; cbn [Build.run_nodes].
    - exists st. split; [reflexivity|]. rewrite E0, app_nil_r. exact Hq.
    - destruct (run_node_calm E w0 hs pack done n rest st Hinv Hwf HEl Hdist E0) as (st1 & E1 & Hq1); [|exact Hq|].
      { apply Hn. rewrite E0. apply in_or_app. right. left. reflexivity. }
      rewrite E1. apply (IH (done ++ [n]) st1); [rewrite <- app_assoc; exact E0 | exact Hq1].
  Qed.

  Lemma join_calm results : Forall calm_res results -> forall js,
    js_errors T (fold_left join_one results js) = js_errors T js /\
    Forall calm_banner (flat_map (result_status T) results).
  Proof.
    induction 1 as [|res results (wr & Hwr & Hst) _ IH]; intro js; cbn [fold_left flat_map].
    - split; [reflexivity | constructor].
    - destruct (IH (join_one js res)) as [I1 I2]. split.
      + rewrite I1. unfold Build.join_one. rewrite Hwr. reflexivity.
      + apply Forall_app. split; [|exact I2]. unfold result_status. rewrite Hwr. exact Hst.
  Qed.

  (* ================================================================== *)
  (* the theorem                                                          *)
  (* ================================================================== *)

  Theorem recoverable_build E (w2 : world) rp goal pack :
    disk_inv w2 -> get_nodes T w2 rp goal = Ok pack -> recoverable_world E w2 pack ->
    let o3 := build w2 rp goal in
    o_verdict o3 = VOk /\ o_commands o3 = [] /\
    (forall t, In t (plan_targets pack) -> content_at (o_world o3) t = E t) /\
    (forall p, ~ In p (plan_targets pack) -> content_at (o_world o3) p = content_at w2 p) /\
    Forall calm_banner (o_status o3).
  Proof.
    intros Hinv Hg (HEl & Hav & Hdist & c & hs & t & Hc & Hh & Ht & Hn). cbv zeta.
    set (w2' := set_rd w2 (mk_rdir true (Some c) (Some hs) (Some (SF_ok t)))).
    assert (init_dir T w2 = Ok (w2', t)) as Hi by (unfold init_dir; rewrite Hc, Hh, Ht; reflexivity).
    destruct (InvProofs.init_dir_rs_inv T teqb hc teqb_spec _ _ _ Hinv Hi) as [Hs1 Ht1].
    pose proof (inv_steps T teqb hc teqb_spec _ _ Hinv Hs1) as Hinv'.
    assert (forall q, content_at w2' q = content_at w2 q) as Hca by (intro q; reflexivity).
    assert (get_nodes T w2' rp goal = Ok pack) as Hg' by (rewrite <- Hg; apply get_nodes_content; apply Hca).
    pose proof (get_nodes_plan_wf T _ _ _ _ Hg) as Hwf.
    rewrite (build_eq T teqb hc hl hr), Hi, Hg'. cbv zeta.
    destruct (st_leaves_inv1 T teqb hc teqb_spec w2' t pack Hinv' Ht1) as [Hw Htbl Hnn Hcc Hleaf Hfst Herr Hq].
    destruct Hq as [Hal Hqr]; [intros l Hin; rewrite Hca; destruct (HEl l Hin) as [H1 H2]; rewrite H2; exact H1|].
    assert (rs_inv w2' (st_leaves T teqb hc w2' t pack)) as Hrs0.
    { apply (InvProofs.run_leaves_inv T teqb hc teqb_spec w2' (p_leaves pack) _ Hinv').
      split; [apply rt_refl|]. split; [exact Ht1|]. intros r0 wr0 []. }
    assert (calm E w2' hs pack [] (st_leaves T teqb hc w2' t pack)) as Hq0.
    { constructor.
      - exact Hrs0.
      - exact Hcc.
      - rewrite Hw. reflexivity.
      - rewrite Hw. cbn. discriminate.
      - intros p _. rewrite Hw. reflexivity.
      - intros p [].
      - intros p cc Hp _ Hcc1 Hne. rewrite Hw.
        destruct (Hav p cc Hp Hcc1) as [X | X]; [rewrite Hca in Hne; contradiction|].
        destruct X as (c0 & f & Hc0 & Hf). exists c0, f. split; [|exact Hf].
        unfold cache_of in *. cbn. rewrite Hc in Hc0. exact Hc0.
      - rewrite Hw. exact Hleaf.
      - rewrite Hnn. constructor.
      - split; [exact Hal|]. rewrite Hnn. constructor.
      - eapply Forall_impl; [|exact Hqr]. intros a. apply quiet_calm. }
    destruct (run_nodes_calm E w2' hs pack Hinv' Hwf) with (rest := p_nodes pack) (done := @nil node)
      (st := st_leaves T teqb hc w2' t pack)
      as (st2 & Erun & [Qrs Qc Qh Qcs Qf Qd _ _ _ _ Qr]); [| | |reflexivity|exact Hq0|].
    { intros l Hin. rewrite Hca. apply HEl. exact Hin. }
    { intros a b0 Ha Hb0 Hab. rewrite !Hca. apply Hdist; assumption. }
    { exact Hn. }
    rewrite Erun. cbn [o_verdict o_commands o_world o_status]. unfold joined.
    destruct (join_calm _ Qr (mk_js T (rs_world T st2) (rs_table T st2) [] [])) as [J1 J2].
    assert (forall q, content_at (write_table T (js_world T (fold_left join_one (rs_results T st2)
                        (mk_js T (rs_world T st2) (rs_table T st2) [] [])))
                        (js_table T (fold_left join_one (rs_results T st2)
                        (mk_js T (rs_world T st2) (rs_table T st2) [] [])))) q = content_at (rs_world T st2) q) as Hfin.
    { apply content_at_files. cbn [write_table w_files set_rd]. rewrite BuildFacts.join_all_files. reflexivity. }
    split; [rewrite J1; reflexivity|]. split; [exact Qc|]. split; [|split].
    - intros p Hp. rewrite Hfin. apply Qd. exact Hp.
    - intros p Hp. rewrite Hfin, <- Hca. apply Qf. exact Hp.
    - rewrite join_all_status. cbn [js_status app]. exact J2.
  Qed.

End Recover.
