(* C01, part 2 (G2, first half): history soundness, and what one rule thread (handle_rule) achieves
   when the history it consults is sound. *)
From Coq Require Import Relations.Relation_Operators Relations.Operators_Properties.
From Ruler Require Import Tactics Bytes AList RuleSyntax TopoSort World Cmdlang Work Build Ops Inv
     BuildSpec Ideal BytesFacts InvFacts C01Script.
Local Open Scope N_scope.

(* ---------- generic list facts ---------- *)

Lemma Forall2_in_l {A B} (R : A -> B -> Prop) l m a :
  Forall2 R l m -> In a l -> exists b, In b m /\ R a b.
Proof.
  induction 1 as [|x y l m Hxy _ IH]; intros Hin; [destruct Hin|].
  destruct Hin as [<- | Hin].
  - exists y. split; [left; reflexivity | exact Hxy].
  - destruct (IH Hin) as (b & Hb & HR). exists b. split; [right; exact Hb | exact HR].
Qed.

Lemma Forall2_nth_error {A B} (R : A -> B -> Prop) l m :
  Forall2 R l m -> forall i a b, nth_error l i = Some a -> nth_error m i = Some b -> R a b.
Proof.
  induction 1 as [|x y l m Hxy _ IH]; intros [|i] a b Ha Hb; cbn in *; try discriminate.
  - injection Ha as <-. injection Hb as <-. exact Hxy.
  - eapply IH; eauto.
Qed.

Lemma Forall2_nth_error_l {A B} (R : A -> B -> Prop) l m :
  Forall2 R l m -> forall i a, nth_error l i = Some a -> exists b, nth_error m i = Some b /\ R a b.
Proof.
  induction 1 as [|x y l m Hxy _ IH]; intros [|i] a Ha; cbn in *; try discriminate.
  - injection Ha as <-. eauto.
  - eapply IH; eauto.
Qed.

Lemma Forall2_len {A B} (R : A -> B -> Prop) l m : Forall2 R l m -> length l = length m.
Proof. induction 1; cbn; congruence. Qed.

Lemma Forall2_map_r {A B C} (R : A -> C -> Prop) (f : B -> C) l m :
  Forall2 (fun a b => R a (f b)) l m <-> Forall2 R l (map f m).
Proof.
  split.
  - induction 1; cbn; constructor; auto.
  - revert m. induction l as [|a l IH]; intros [|b m] H; cbn in H; inversion H; subst; constructor; auto.
Qed.

Lemma Forall2_impl {A B} (R R' : A -> B -> Prop) l m :
  (forall a b, R a b -> R' a b) -> Forall2 R l m -> Forall2 R' l m.
Proof. intros Hi. induction 1; constructor; auto. Qed.

Lemma Forall2_impl_in {A B} (R R' : A -> B -> Prop) l m :
  (forall a b, In a l -> R a b -> R' a b) -> Forall2 R l m -> Forall2 R' l m.
Proof.
  intros Hi H. induction H as [|x y l m Hxy _ IH]; constructor.
  - apply Hi; [left; reflexivity | exact Hxy].
  - apply IH. intros a b Ha. apply Hi. right. exact Ha.
Qed.

Lemma map_inj {A B} (f : A -> B) : (forall a b, f a = f b -> a = b) -> forall l m, map f l = map f m -> l = m.
Proof.
  intros Hf. induction l as [|a l IH]; intros [|b m] H; cbn in H; try discriminate; [reflexivity|].
  injection H as H1 H2. f_equal; auto.
Qed.

Section Hist.
  Variable T : Type.
  Variable teqb : T -> T -> bool.
  Variable hc : bytes -> T.
  Variable hl : list T -> T.
  Variable hr : rule -> T.
  Hypothesis teqb_spec : forall a b, teqb a b = true <-> a = b.
  Hypothesis hc_inj : forall a b, hc a = hc b -> a = b.
  Hypothesis hl_inj : forall a b, hl a = hl b -> a = b.
  Hypothesis hr_inj : forall a b, hr a = hr b -> a = b.

  Notation world := (world T).
  Notation fstate := (fstate T).
  Notation state_ok := (state_ok teqb hc).
  Notation disk_inv := (disk_inv teqb hc).
  Notation steps := (clos_refl_trans world (step teqb hc)).
  Notation blob_ok := (InvProofs.blob_ok T teqb hc).

  (* ================================================================== *)
  (* definitions                                                          *)
  (* ================================================================== *)

  (* path p exists in w and tk is the hash of its content *)
  Definition has_hash (w : world) (p : bytes) (tk : T) : Prop :=
    exists c, content_at w p = Some c /\ tk = hc c.

  (* the sources exist in w, with contents cs (in source order) *)
  Definition src_contents (w : world) (srcs : list bytes) (cs : list bytes) : Prop :=
    Forall2 (fun s c => content_at w s = Some c) srcs cs.

  (* a history entry key |-> outs of rule r is TRUE: in EVERY world whose sources hash to key, the
     rule's command succeeds, leaves every target present, and the remembered tickets are the hashes
     of what it leaves there *)
  Definition entry_true (r : rule) (key : T) (outs : list fstate) : Prop :=
    forall (w0 : world) cs,
      src_contents w0 (r_sources r) cs -> key = hl (map hc cs) ->
      command_verdict (fst (run_script w0 (script_lines (r_command r)))) = None /\
      Forall2 (fun t o => has_hash (snd (run_script w0 (script_lines (r_command r)))) t (fs_t o))
              (r_targets r) outs.

  Definition hist_ok (r : rule) (h : history T) : Prop :=
    forall key outs, alookup teqb h key = Some outs -> entry_true r key outs.

  (* G2: every readable history file of a DET rule holds true entries only *)
  Definition hist_sound (w : world) : Prop :=
    forall r hs h, det_rule r -> rd_hist (w_rd w) = Some hs -> alookup teqb hs (hr r) = Some (SF_ok h) ->
                   hist_ok r h.

  Lemma inv_steps (w w' : world) : disk_inv w -> steps w w' -> disk_inv w'.
  Proof. exact (InvProofs.steps_preserve_inv T teqb hc teqb_spec w w'). Qed.

  Lemma blob_steps (w w' : world) b : disk_inv w -> steps w w' -> blob_ok w b -> blob_ok w' b.
  Proof. exact (InvProofs.blob_ok_steps T teqb hc teqb_spec w w' b). Qed.

  (* ---------- has_hash, src_contents ---------- *)

  Lemma has_hash_content (w w' : world) p tk :
    content_at w' p = content_at w p -> has_hash w p tk -> has_hash w' p tk.
  Proof. intros E (c & Hc & Ht). exists c. split; [congruence | exact Ht]. Qed.

  Lemma has_hash_agree (wa wb : world) p tk :
    has_hash wa p tk -> has_hash wb p tk -> content_at wa p = content_at wb p.
  Proof.
    intros (c & Hc & Ht) (c' & Hc' & Ht'). rewrite Hc, Hc'. f_equal. apply hc_inj. congruence.
  Qed.

  Lemma hash_agree {O} (f : O -> T) (wa wb : world) ts os :
    Forall2 (fun t o => has_hash wa t (f o)) ts os ->
    Forall2 (fun t o => has_hash wb t (f o)) ts os ->
    forall t, In t ts -> content_at wa t = content_at wb t.
  Proof.
    intros Ha. induction Ha as [|t0 o ts os H0 _ IH]; intros Hb t Hin; [destruct Hin|].
    inversion Hb as [|? ? ? ? H0' Hb']; subst. destruct Hin as [<- | Hin].
    - eapply has_hash_agree; eauto.
    - apply IH; auto.
  Qed.

  Lemma src_contents_agree (wa wb : world) srcs cs :
    src_contents wa srcs cs -> src_contents wb srcs cs -> agree_on srcs wa wb.
  Proof.
    intros Ha. induction Ha as [|s c srcs cs H0 _ IH]; intros Hb p Hin; [destruct Hin|].
    inversion Hb as [|? ? ? ? H0' Hb']; subst. destruct Hin as [<- | Hin].
    - congruence.
    - apply IH; auto.
  Qed.

  Lemma src_contents_transport (wa wb : world) srcs cs :
    (forall s, In s srcs -> content_at wb s = content_at wa s) ->
    src_contents wa srcs cs -> src_contents wb srcs cs.
  Proof.
    intros E H. eapply Forall2_impl_in; [|exact H]. intros s c Hs Hc. cbn in *. rewrite (E s Hs). exact Hc.
  Qed.

  Lemma src_contents_of_hashes (w : world) srcs tks :
    Forall2 (has_hash w) srcs tks -> exists cs, src_contents w srcs cs /\ tks = map hc cs.
  Proof.
    induction 1 as [|s tk srcs tks (c & Hc & Ht) _ (cs & IH1 & IH2)].
    - exists []. split; [constructor | reflexivity].
    - exists (c :: cs). split; [constructor; auto | cbn; congruence].
  Qed.

  Lemma key_contents cs cs' : hl (map hc cs) = hl (map hc cs') -> cs = cs'.
  Proof. intro H. apply hl_inj in H. eapply map_inj; eauto. Qed.

  (* ---------- the ruler directory's history part ---------- *)

  Lemma hist_sound_same (w w' : world) :
    rd_hist (w_rd w') = rd_hist (w_rd w) -> hist_sound w -> hist_sound w'.
  Proof. intros E H r hs h Hd Hh Hl. rewrite E in Hh. eapply H; eauto. Qed.

  (* the new world shows no decodable history file that the old one did not show *)
  Definition hist_sub (w w' : world) : Prop :=
    forall hs' t h, rd_hist (w_rd w') = Some hs' -> alookup teqb hs' t = Some (SF_ok h) ->
                    exists hs, rd_hist (w_rd w) = Some hs /\ alookup teqb hs t = Some (SF_ok h).

  Lemma hist_sound_sub (w w' : world) : hist_sub w w' -> hist_sound w -> hist_sound w'.
  Proof.
    intros Hs H r hs' h Hd Hh Hl. destruct (Hs _ _ _ Hh Hl) as (hs & H1 & H2). eapply H; eauto.
  Qed.

  Lemma hist_ok_nil r : hist_ok r [].
  Proof. intros key outs H. cbn in H. discriminate. Qed.

  Lemma read_history_ok (w : world) r h :
    hist_sound w -> det_rule r -> read_history T teqb hr w r = Some h -> hist_ok r h.
  Proof.
    intros Hs Hd. unfold read_history. destruct (rd_hist (w_rd w)) as [hs|] eqn:Eh.
    - destruct (alookup teqb hs (hr r)) as [[h0|]|] eqn:El; intro H; try discriminate; injection H as <-.
      + eapply Hs; eauto.
      + apply hist_ok_nil.
    - intro H. injection H as <-. apply hist_ok_nil.
  Qed.

  Lemma write_history_sound (w : world) r h :
    hist_sound w -> (det_rule r -> hist_ok r h) -> hist_sound (write_history T teqb hr w r h).
  Proof.
    intros Hs Hh r' hs' h' Hd Hrd Hl. unfold write_history in Hrd.
    destruct (rd_hist (w_rd w)) as [hs|] eqn:Eh.
    - cbn in Hrd. injection Hrd as <-.
      apply (InvProofs.alookup_ainsert_some _ teqb_spec) in Hl as [[E1 E2] | [_ Hl]].
      + apply hr_inj in E1. subst r'. injection E2 as ->. auto.
      + eapply Hs; eauto.
    - rewrite Eh in Hrd. discriminate.
  Qed.

  (* ================================================================== *)
  (* tickets through the mtime shortcut                                   *)
  (* ================================================================== *)

  Lemma gft_hash (w : world) p a t :
    state_ok w a -> get_file_ticket teqb hc w p a = Some t -> has_hash w p t.
  Proof.
    intros Hok Hg. destruct (InvProofs.get_file_ticket_sound _ _ _ _ _ _ _ Hok Hg) as (f & Ef & ->).
    exists (f_content f). split; [apply content_at_fget; exact Ef | reflexivity].
  Qed.

  Lemma gft_none (w : world) p a : get_file_ticket teqb hc w p a = None -> content_at w p = None.
  Proof.
    unfold get_file_ticket. destruct (fget w p) as [f|] eqn:Ef.
    - destruct (shortcut teqb hc f a); discriminate.
    - intros _. apply content_at_none. exact Ef.
  Qed.

  Lemma gafs_hash (w : world) p a st :
    state_ok w a -> get_actual_file_state teqb hc w p a = Some st -> has_hash w p (fs_t st).
  Proof.
    intros Hok H. unfold get_actual_file_state in H.
    destruct (fget w p) as [f|] eqn:Ef; [|discriminate]. injection H as <-. cbn [fs_t].
    exists (f_content f). split; [apply content_at_fget; exact Ef|].
    destruct (shortcut teqb hc f a) eqn:E; [|reflexivity].
    eapply InvProofs.state_ok_shortcut; [exact Hok | eapply InvProofs.any_file_path; exact Ef | exact E].
  Qed.

  Lemma current_tickets_hash b : forall (w : world) ts,
    blob_ok w b -> current_tickets teqb hc w b = Ok ts -> Forall2 (has_hash w) (map fst b) ts.
  Proof.
    induction b as [|[p a] rest IH]; intros w ts Hb; cbn [current_tickets map fst].
    - intro H. injection H as <-. constructor.
    - apply InvProofs.blob_ok_cons in Hb as [Hok Hrest].
      destruct (get_file_ticket teqb hc w p a) as [t|] eqn:Eg; [|discriminate].
      destruct (current_tickets teqb hc w rest) as [ts2|e] eqn:E2; [|discriminate].
      intro H. injection H as <-. constructor; [eapply gft_hash; eauto | eapply IH; eauto].
  Qed.

  Lemma update_blob_hash b : forall (w : world) b',
    blob_ok w b -> update_blob teqb hc w b = Ok b' ->
    map fst b' = map fst b /\ Forall2 (has_hash w) (map fst b) (map (fun e => fs_t (snd e)) b').
  Proof.
    induction b as [|[p a] rest IH]; intros w b' Hb; cbn [update_blob map fst].
    - intro H. injection H as <-. split; [reflexivity | constructor].
    - apply InvProofs.blob_ok_cons in Hb as [Hok Hrest].
      destruct (get_actual_file_state teqb hc w p a) as [st|] eqn:Eg; [|discriminate].
      destruct (update_blob teqb hc w rest) as [b2|e] eqn:E2; [|discriminate].
      intro H. injection H as <-. destruct (IH _ _ Hrest E2) as [I1 I2]. cbn [map fst snd]. split.
      + f_equal. exact I1.
      + constructor; [eapply gafs_hash; eauto | exact I2].
  Qed.

  Lemma forget_replaced_fst b : forall ress, map fst (forget_replaced hc b ress) = map fst b.
  Proof.
    induction b as [|[p st] rest IH]; intros ress; cbn [forget_replaced]; [reflexivity|].
    destruct ress as [|r rrest]; [reflexivity|]. cbn [map fst]. f_equal. apply IH.
  Qed.

  (* ================================================================== *)
  (* back_up / restore                                                    *)
  (* ================================================================== *)

  Lemma back_up_content (w : world) t p w' :
    back_up teqb w t p = Some w' ->
    content_at w' p = None /\ (forall q, q <> p -> content_at w' q = content_at w q) /\
    rd_hist (w_rd w') = rd_hist (w_rd w).
  Proof.
    intro Hb. apply InvProofs.back_up_inv in Hb as (c & f & Ec & Ef & ->).
    split; [|split].
    - apply (content_remove_eq T w p).
    - intros q Hq. apply (content_remove_neq T w p q Hq).
    - reflexivity.
  Qed.

  Lemma restore_content (w : world) t p w' :
    restore teqb w t p = RDone w' ->
    (exists c f, cache_of w = Some c /\ alookup teqb c t = Some f /\ content_at w' p = Some (f_content f)) /\
    (forall q, q <> p -> content_at w' q = content_at w q) /\
    rd_hist (w_rd w') = rd_hist (w_rd w).
  Proof.
    intro Hr. apply InvProofs.restore_inv in Hr as (c & f & Ec & Ef & ->).
    split; [|split].
    - exists c, f. split; [exact Ec|]. split; [exact Ef|].
      unfold content_at, fget. cbn. rewrite (alookup_ainsert_eq _ bytes_eqb_eq). reflexivity.
    - intros q Hq. unfold content_at, fget. cbn. rewrite (alookup_ainsert_neq _ bytes_eqb_eq _ _ _ _ Hq).
      reflexivity.
    - reflexivity.
  Qed.

  (* ================================================================== *)
  (* resolve_fresh: every target is displaced                             *)
  (* ================================================================== *)

  Lemma resolve_fresh_spec b : forall (w : world) ress w',
    resolve_fresh teqb hc w b = Ok (ress, w') ->
    (forall q, ~ In q (map fst b) -> content_at w' q = content_at w q) /\
    (forall q, In q (map fst b) -> content_at w' q = None) /\
    rd_hist (w_rd w') = rd_hist (w_rd w) /\
    ress = map (fun _ => NeedsRebuild) b.
  Proof.
    induction b as [|[p a] rest IH]; intros w ress w'; cbn [resolve_fresh map fst].
    - intro H. injection H as <- <-. repeat split; auto. intros q [].
    - assert (forall w1 : world,
                content_at w1 p = None -> (forall q, q <> p -> content_at w1 q = content_at w q) ->
                rd_hist (w_rd w1) = rd_hist (w_rd w) ->
                match resolve_fresh teqb hc w1 rest with
                | Err e => Err e
                | Ok (ress0, w2) => Ok (NeedsRebuild :: ress0, w2)
                end = Ok (ress, w') ->
                (forall q, ~ In q (p :: map fst rest) -> content_at w' q = content_at w q) /\
                (forall q, In q (p :: map fst rest) -> content_at w' q = None) /\
                rd_hist (w_rd w') = rd_hist (w_rd w) /\
                ress = NeedsRebuild :: map (fun _ => NeedsRebuild) rest) as Hstep.
      { intros w1 Hp Hq Hh H.
        destruct (resolve_fresh teqb hc w1 rest) as [[ress2 w2]|e] eqn:E2; [|discriminate].
        injection H as <- <-. destruct (IH _ _ _ E2) as (F & N & Hh2 & ->).
        split; [|split; [|split]].
        - intros q Hnin. rewrite F; [apply Hq|]; intro X; apply Hnin; [left; auto | right; auto].
        - intros q Hin. destruct (in_bytes_dec q (map fst rest)) as [Hi | Hni]; [apply N; exact Hi|].
          destruct Hin as [<- | Hin]; [|contradiction]. rewrite (F _ Hni). exact Hp.
        - congruence.
        - reflexivity. }
      destruct (get_file_ticket teqb hc w p a) as [cur|] eqn:Eg.
      + destruct (back_up teqb w cur p) as [w1|] eqn:Eb; [|discriminate].
        destruct (back_up_content _ _ _ _ Eb) as (B1 & B2 & B3). apply Hstep; auto.
      + apply Hstep; auto. eapply gft_none; eauto.
  Qed.

  (* ================================================================== *)
  (* resolve_remembered: whatever is not rebuilt has the remembered hash  *)
  (* ================================================================== *)

  Lemma restore_or_rebuild_spec (w : world) rem p res w' :
    disk_inv w -> restore_or_rebuild T teqb w rem p = Ok (res, w') ->
    (forall q, q <> p -> content_at w' q = content_at w q) /\
    rd_hist (w_rd w') = rd_hist (w_rd w) /\
    (res <> NeedsRebuild -> has_hash w' p rem).
  Proof.
    intros Hinv. unfold restore_or_rebuild. destruct (restore teqb w rem p) as [w1| |] eqn:Er; intro H; try discriminate.
    - injection H as <- <-. destruct (restore_content _ _ _ _ Er) as ((c & f & Ec & Ef & Hp) & Hq & Hh).
      split; [exact Hq|]. split; [exact Hh|]. intros _. exists (f_content f). split; [exact Hp|].
      destruct Hinv as (_ & _ & _ & Ha & _). eapply Ha; eauto.
    - injection H as <- <-. split; [auto|]. split; [reflexivity|]. intro X. contradiction.
  Qed.

  Lemma resolve_single_spec (w : world) rem p a res w' :
    disk_inv w -> state_ok w a -> resolve_single teqb hc w rem p a = Ok (res, w') ->
    (forall q, q <> p -> content_at w' q = content_at w q) /\
    rd_hist (w_rd w') = rd_hist (w_rd w) /\
    (res <> NeedsRebuild -> has_hash w' p rem).
  Proof.
    intros Hinv Hok. unfold resolve_single.
    destruct (get_file_ticket teqb hc w p a) as [cur|] eqn:Eg.
    - destruct (teqb rem cur) eqn:Et.
      + intro H. injection H as <- <-. split; [auto|]. split; [reflexivity|]. intros _.
        apply teqb_spec in Et. subst cur. eapply gft_hash; eauto.
      + destruct (back_up teqb w cur p) as [w1|] eqn:Eb; [|discriminate].
        intro H. destruct (back_up_content _ _ _ _ Eb) as (_ & B2 & B3).
        assert (disk_inv w1) as Hinv1.
        { eapply inv_steps; [exact Hinv|]. eapply InvProofs.back_up_steps; eauto. }
        destruct (restore_or_rebuild_spec _ _ _ _ _ Hinv1 H) as (R1 & R2 & R3).
        split; [|split].
        * intros q Hq. rewrite (R1 q Hq). apply B2. exact Hq.
        * congruence.
        * exact R3.
    - apply restore_or_rebuild_spec. exact Hinv.
  Qed.

  Fixpoint resolved_ok (w' : world) (ps : list bytes) (rem : list fstate) (ress : list resolution) : Prop :=
    match ps, ress with
    | [], [] => True
    | p :: ps', res :: ress' =>
        match rem with
        | r :: rem' => (res <> NeedsRebuild -> has_hash w' p (fs_t r)) /\ resolved_ok w' ps' rem' ress'
        | [] => False
        end
    | _, _ => False
    end.

  Lemma resolved_ok_content (w w' : world) ps : forall rem ress,
    (forall p, In p ps -> content_at w' p = content_at w p) ->
    resolved_ok w ps rem ress -> resolved_ok w' ps rem ress.
  Proof.
    induction ps as [|p ps IH]; intros rem ress E; destruct ress as [|res ress]; cbn [resolved_ok]; auto.
    destruct rem as [|r rem]; [auto|]. intros [H1 H2]. split.
    - intro Hne. eapply has_hash_content; [|apply H1; exact Hne]. apply E. left. reflexivity.
    - apply IH; [|exact H2]. intros q Hq. apply E. right. exact Hq.
  Qed.

  Lemma resolve_remembered_spec b : forall (w : world) rem ress w',
    disk_inv w -> blob_ok w b -> NoDup (map fst b) ->
    resolve_remembered teqb hc w b rem = Ok (ress, w') ->
    (forall q, ~ In q (map fst b) -> content_at w' q = content_at w q) /\
    rd_hist (w_rd w') = rd_hist (w_rd w) /\
    resolved_ok w' (map fst b) rem ress.
  Proof.
    induction b as [|[p a] rest IH]; intros w rem ress w' Hinv Hb Hnd; cbn [resolve_remembered map fst].
    - intro H. injection H as <- <-. cbn. auto.
    - destruct rem as [|r rrest]; [discriminate|].
      destruct (resolve_single teqb hc w (fs_t r) p a) as [[res w1]|e] eqn:E1; [|discriminate].
      destruct (resolve_remembered teqb hc w1 rest rrest) as [[ress2 w2]|e] eqn:E2; [|discriminate].
      intro H. injection H as <- <-.
      apply InvProofs.blob_ok_cons in Hb as [Hok Hrest]. cbn [map fst] in Hnd.
      inversion Hnd as [|? ? Hnotin Hnd']; subst.
      pose proof (resolve_single_steps _ _ _ _ _ _ _ _ _ Hok E1) as Hs1.
      assert (disk_inv w1) as Hinv1 by (exact (inv_steps _ _ Hinv Hs1)).
      assert (blob_ok w1 rest) as Hrest1 by (exact (blob_steps _ _ _ Hinv Hs1 Hrest)).
      destruct (resolve_single_spec _ _ _ _ _ _ Hinv Hok E1) as (S1 & S2 & S3).
      destruct (IH _ _ _ _ Hinv1 Hrest1 Hnd' E2) as (F & Hh & R).
      split; [|split].
      + intros q Hq. rewrite F by (intro X; apply Hq; right; exact X).
        apply S1. intros ->. apply Hq. left. reflexivity.
      + congruence.
      + cbn [resolved_ok]. split; [|exact R].
        intro Hne. eapply has_hash_content; [|apply S3; exact Hne]. apply F. exact Hnotin.
  Qed.

  Lemma resolved_ok_all (w' : world) ps : forall rem ress,
    resolved_ok w' ps rem ress -> needs_rebuild ress = false -> length rem = length ps ->
    Forall2 (fun p r => has_hash w' p (fs_t r)) ps rem.
  Proof.
    induction ps as [|p ps IH]; intros rem ress; destruct ress as [|res ress]; cbn [resolved_ok]; try contradiction.
    - intros _ _ Hl. destruct rem; [constructor | discriminate].
    - destruct rem as [|r rem]; [contradiction|]. intros [H1 H2] Hn Hl.
      unfold needs_rebuild in Hn. cbn [existsb] in Hn. apply orb_false_iff in Hn as [Hn1 Hn2].
      constructor.
      + apply H1. intros ->. discriminate.
      + eapply IH; eauto.
  Qed.

  (* ================================================================== *)
  (* the command, run after the targets were resolved                     *)
  (* ================================================================== *)

  Lemma alookup_snoc (h : history T) k v k' :
    alookup teqb (h ++ [(k, v)]) k' =
    match alookup teqb h k' with
    | Some x => Some x
    | None => if teqb k' k then Some v else None
    end.
  Proof.
    induction h as [|[k1 v1] h IH]; cbn [app alookup]; [reflexivity|]. destruct (teqb k' k1); auto.
  Qed.

  Lemma command_verdict_none codes : command_verdict codes = None -> forallb (fun c => c =? 0) codes = true.
  Proof.
    unfold command_verdict. destruct codes as [|c r]; [discriminate|].
    destruct (forallb (fun c0 => c0 =? 0) (c :: r)); [reflexivity | discriminate].
  Qed.

  (* the history has a (true) entry for these sources: the command's outputs are the remembered ones
     wherever it runs *)
  Lemma rebuild_entry (r : rule) cs outs (w1 S : world) :
    entry_true r (hl (map hc cs)) outs ->
    src_contents w1 (r_sources r) cs -> src_contents S (r_sources r) cs ->
    forall t, In t (r_targets r) ->
      content_at (snd (run_script w1 (script_lines (r_command r)))) t =
      content_at (snd (run_script S (script_lines (r_command r)))) t.
  Proof.
    intros He H1 HS. destruct (He w1 cs H1 eq_refl) as [_ F1]. destruct (He S cs HS eq_refl) as [_ F2].
    eapply (hash_agree (fun o : fstate => fs_t o)); eauto.
  Qed.

  (* no entry: the command ran with every target absent and succeeded; then it succeeds, with the same
     outputs, in every world with these sources (G1, one-sided form) *)
  Lemma rebuild_fresh (r : rule) cs ts (w1 : world) :
    det_rule r ->
    src_contents w1 (r_sources r) cs ->
    (forall t, In t (r_targets r) -> content_at w1 t = None) ->
    command_verdict (fst (run_script w1 (script_lines (r_command r)))) = None ->
    Forall2 (has_hash (snd (run_script w1 (script_lines (r_command r))))) (r_targets r) ts ->
    forall w0 : world, src_contents w0 (r_sources r) cs ->
      command_verdict (fst (run_script w0 (script_lines (r_command r)))) = None /\
      Forall2 (has_hash (snd (run_script w0 (script_lines (r_command r))))) (r_targets r) ts.
  Proof.
    intros [Hconf Hreads] H1 Habs Hv Hts w0 H0.
    assert (below (r_sources r) (r_targets r) w1 w0) as Hbelow.
    { split; [eapply src_contents_agree; eauto|]. intros t Ht. left. apply Habs. exact Ht. }
    destruct (run_script_below T (r_sources r) (r_targets r) (script_lines (r_command r)) w1 w0
                Hconf Hreads Hbelow (command_verdict_none _ Hv)) as [Ec Hb2].
    split; [rewrite Ec; exact Hv|].
    eapply Forall2_impl_in; [|exact Hts]. intros t tk Ht (c & Hc & Htk). cbn in *.
    exists c. split; [|exact Htk]. eapply below_present; eauto.
  Qed.

  (* ================================================================== *)
  (* one rule thread that returns Ok                                      *)
  (* ================================================================== *)

  Lemma handle_rule_ok (w : world) b h cs (r : rule) wr w' script :
    disk_inv w -> blob_ok w b -> map fst b = r_targets r -> NoDup (r_targets r) ->
    det_rule r -> (forall s, In s (r_sources r) -> ~ In s (r_targets r)) ->
    src_contents w (r_sources r) cs -> hist_ok r h ->
    handle_rule teqb hc w b h (hl (map hc cs)) (r_command r) = (Ok wr, w', script) ->
    (forall q, ~ In q (r_targets r) -> content_at w' q = content_at w q) /\
    rd_hist (w_rd w') = rd_hist (w_rd w) /\
    Forall2 (has_hash w') (r_targets r) (wr_tickets wr) /\
    (forall S : world, src_contents S (r_sources r) cs ->
       forall t, In t (r_targets r) ->
         content_at w' t = content_at (snd (run_script S (script_lines (r_command r)))) t) /\
    (forall h', wr_history wr = Some h' -> hist_ok r h').
  Proof.
    intros Hinv Hb Hfst Hnd Hdet Hdisj Hsrc Hh Hhr.
    pose proof Hdet as [Hconf Hreads].
    pose proof (handle_rule_steps T teqb hc teqb_spec _ _ _ _ _ _ _ _ Hinv Hb Hhr) as Hsteps.
    revert Hhr. unfold handle_rule.
    set (key := hl (map hc cs)). set (script0 := script_lines (r_command r)).
    (* the resolution phase, whichever branch *)
    set (resolved := match alookup teqb h key with
                     | Some remembered => resolve_remembered teqb hc w b remembered
                     | None => resolve_fresh teqb hc w b
                     end).
    destruct resolved as [[ress w1]|e] eqn:Eres; [|discriminate].
    assert (steps w w1) as Hs1.
    { unfold resolved in Eres. destruct (alookup teqb h key) as [rem|].
      - eapply (resolve_remembered_steps T teqb hc teqb_spec); eauto.
      - eapply (resolve_fresh_steps T teqb hc teqb_spec); eauto. }
    assert ((forall q, ~ In q (r_targets r) -> content_at w1 q = content_at w q) /\
            rd_hist (w_rd w1) = rd_hist (w_rd w)) as [F1 Hh1].
    { unfold resolved in Eres. rewrite <- Hfst. destruct (alookup teqb h key) as [rem|].
      - rewrite <- Hfst in Hnd. destruct (resolve_remembered_spec _ _ _ _ _ Hinv Hb Hnd Eres) as (F & Hx & _). auto.
      - destruct (resolve_fresh_spec _ _ _ _ Eres) as (F & _ & Hx & _). auto. }
    pose proof (inv_steps _ _ Hinv Hs1) as Hinv1.
    assert (src_contents w1 (r_sources r) cs) as Hsrc1.
    { eapply src_contents_transport; [|exact Hsrc]. intros s Hs. apply F1. apply Hdisj. exact Hs. }
    cbv zeta. set (b1 := forget_replaced hc b ress).
    assert (map fst b1 = r_targets r) as Hfst1 by (unfold b1; rewrite forget_replaced_fst; exact Hfst).
    assert (blob_ok w1 b1) as Hb1.
    { unfold b1. apply InvProofs.forget_replaced_ok; [exact teqb_spec|]. exact (blob_steps _ _ _ Hinv Hs1 Hb). }
    destruct (needs_rebuild ress) eqn:Enr.
    - (* the command runs *)
      destruct (run_script w1 script0) as [codes w2] eqn:Ers.
      assert (codes = fst (run_script w1 script0)) as Ecodes by (rewrite Ers; reflexivity).
      assert (w2 = snd (run_script w1 script0)) as Ew2 by (rewrite Ers; reflexivity).
      destruct (command_verdict codes) as [e|] eqn:Ev; [discriminate|].
      destruct (update_blob teqb hc w2 b1) as [b'|p] eqn:Eu; [|discriminate].
      pose proof (run_script_steps T teqb hc _ _ _ _ Ers) as Hs2.
      pose proof (blob_steps _ _ _ Hinv1 Hs2 Hb1) as Hb2.
      destruct (update_blob_hash _ _ _ Hb2 Eu) as [Ef' Hts]. rewrite Hfst1 in Hts.
      set (ts := map (fun e => fs_t (snd e)) b') in *.
      assert (forall q, ~ In q (r_targets r) -> content_at w2 q = content_at w q) as F2.
      { intros q Hq. rewrite Ew2. unfold script0. rewrite (run_script_frame T _ _ _ _ Hconf Hq). apply F1. exact Hq. }
      assert (rd_hist (w_rd w2) = rd_hist (w_rd w)) as Hh2.
      { rewrite Ew2. rewrite run_script_rd. exact Hh1. }
      destruct (history_insert teqb h key ts (map fst b1)) as [h'|e] eqn:Ehi; [|discriminate].
      intro H. injection H as <- <- _. cbn [wr_tickets wr_history].
      split; [exact F2|]. split; [exact Hh2|]. split; [exact Hts|].
      unfold resolved in Eres. unfold history_insert in Ehi.
      destruct (alookup teqb h key) as [old|] eqn:El.
      + (* an entry for these sources exists and is true *)
        pose proof (Hh _ _ El) as Htrue. split.
        * intros S HS t Ht. rewrite Ew2. unfold script0, key in *. eapply rebuild_entry; eauto.
        * intros h'' E. injection E as <-.
          destruct (negb (Nat.eqb (length old) (length ts))); [discriminate|].
          destruct (differing_indices T teqb 0 (map fs_t old) ts); [|discriminate].
          injection Ehi as <-. exact Hh.
      + (* no entry: every target was displaced before the command ran *)
        destruct (resolve_fresh_spec _ _ _ _ Eres) as (_ & Nn & _ & _). rewrite Hfst in Nn.
        assert (forall w0 : world, src_contents w0 (r_sources r) cs ->
                  command_verdict (fst (run_script w0 script0)) = None /\
                  Forall2 (has_hash (snd (run_script w0 script0))) (r_targets r) ts) as Hany.
        { apply (rebuild_fresh r cs ts w1 Hdet Hsrc1 Nn).
          - fold script0. rewrite <- Ecodes. exact Ev.
          - fold script0. rewrite <- Ew2. exact Hts. }
        split.
        * intros S HS t Ht. destruct (Hany S HS) as [_ HSt].
          eapply (hash_agree (fun x : T => x)); [exact Hts | exact HSt | exact Ht].
        * intros h'' E. injection E as <-. injection Ehi as <-.
          intros k outs Hl. rewrite alookup_snoc in Hl.
          destruct (alookup teqb h k) as [x|] eqn:Elk; [injection Hl as <-; eapply Hh; eauto|].
          destruct (teqb k key) eqn:Ek; [|discriminate]. injection Hl as <-.
          apply teqb_spec in Ek. subst k.
          intros w0 cs0 H0 Hkey. unfold key in Hkey. apply key_contents in Hkey. subst cs0.
          destruct (Hany w0 H0) as [Hv0 Ht0]. split; [exact Hv0|].
          apply Forall2_map_r. rewrite map_map. cbn [fs_t]. rewrite map_id. exact Ht0.
    - (* nothing to rebuild *)
      destruct (current_tickets teqb hc w1 b1) as [ts|p] eqn:Ect; [|discriminate].
      intro H. injection H as <- <- _. cbn [wr_tickets wr_history].
      pose proof (current_tickets_hash _ _ _ Hb1 Ect) as Hts. rewrite Hfst1 in Hts.
      split; [exact F1|]. split; [exact Hh1|]. split; [exact Hts|]. split.
      + intros S HS t Ht. unfold resolved in Eres.
        destruct (alookup teqb h key) as [old|] eqn:El.
        * pose proof (Hh _ _ El) as Htrue. destruct (Htrue S cs HS eq_refl) as [_ FS].
          rewrite <- Hfst in Hnd.
          destruct (resolve_remembered_spec _ _ _ _ _ Hinv Hb Hnd Eres) as (_ & _ & R).
          rewrite Hfst in R.
          assert (length old = length (r_targets r)) as Hlen by (symmetry; eapply Forall2_len; eauto).
          pose proof (resolved_ok_all _ _ _ _ R Enr Hlen) as F1'.
          eapply (hash_agree (fun o : fstate => fs_t o)); [exact F1' | exact FS | exact Ht].
        * destruct (resolve_fresh_spec _ _ _ _ Eres) as (_ & _ & _ & ->).
          destruct b as [|x b0]; [|cbn in Enr; discriminate]. cbn in Hfst. rewrite <- Hfst in Ht. destruct Ht.
      + intros h' E. injection E as <-. exact Hh.
  Qed.

  (* whatever the thread returns: nothing outside the rule's targets changes, nor do the histories *)
  Lemma handle_rule_frame (w : world) b h key (r : rule) res w' script :
    disk_inv w -> blob_ok w b -> map fst b = r_targets r -> NoDup (r_targets r) ->
    confined (r_targets r) (script_lines (r_command r)) ->
    handle_rule teqb hc w b h key (r_command r) = (res, w', script) ->
    (forall q, ~ In q (r_targets r) -> content_at w' q = content_at w q) /\
    rd_hist (w_rd w') = rd_hist (w_rd w).
  Proof.
    intros Hinv Hb Hfst Hnd Hconf. unfold handle_rule.
    set (resolved := match alookup teqb h key with
                     | Some remembered => resolve_remembered teqb hc w b remembered
                     | None => resolve_fresh teqb hc w b
                     end).
    destruct resolved as [[ress w1]|e] eqn:Eres; [|intro H; injection H as _ <- _; auto].
    assert ((forall q, ~ In q (r_targets r) -> content_at w1 q = content_at w q) /\
            rd_hist (w_rd w1) = rd_hist (w_rd w)) as [F1 Hh1].
    { unfold resolved in Eres. rewrite <- Hfst. destruct (alookup teqb h key) as [rem|].
      - rewrite <- Hfst in Hnd. destruct (resolve_remembered_spec _ _ _ _ _ Hinv Hb Hnd Eres) as (F & Hx & _). auto.
      - destruct (resolve_fresh_spec _ _ _ _ Eres) as (F & _ & Hx & _). auto. }
    cbv zeta. destruct (needs_rebuild ress).
    - destruct (run_script w1 (script_lines (r_command r))) as [codes w2] eqn:Ers.
      assert (w2 = snd (run_script w1 (script_lines (r_command r)))) as Ew2 by (rewrite Ers; reflexivity).
      assert ((forall q, ~ In q (r_targets r) -> content_at w2 q = content_at w q) /\
              rd_hist (w_rd w2) = rd_hist (w_rd w)) as Hgoal.
      { split.
        - intros q Hq. rewrite Ew2. rewrite (run_script_frame T _ _ _ _ Hconf Hq). apply F1. exact Hq.
        - rewrite Ew2. rewrite run_script_rd. exact Hh1. }
      destruct (command_verdict codes); [intro H; injection H as _ <- _; exact Hgoal|].
      destruct (update_blob teqb hc w2 (forget_replaced hc b ress)); [|intro H; injection H as _ <- _; exact Hgoal].
      destruct (history_insert teqb h key _ _); intro H; injection H as _ <- _; exact Hgoal.
    - destruct (current_tickets teqb hc w1 (forget_replaced hc b ress)); intro H; injection H as _ <- _; auto.
  Qed.
End Hist.
