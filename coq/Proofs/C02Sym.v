(* C02, history level: the closed instances with free symbolic hashes, and non-vacuity examples. *)
From Coq Require Import String Ascii.
From Coq Require Import Relations.Relation_Operators Relations.Operators_Properties.
From Ruler Require Import Tactics Bytes AList RuleSyntax Parser TopoSort TopoSpec World Cmdlang Work Build Ops Inv
     BuildSpec Ideal BytesFacts InvFacts TopoSortFacts BuildFacts C01Script C01Hist C01Build C01Plan C01Facts
     C02Extra C02Hist C02Repeat C02Recover C02Keep C02Revert.
Local Open Scope N_scope.

Notation build_sym := (build sym_eqb SContent SList SRule).
Notation apply_sym := (apply_op sym_eqb SContent SList SRule).
Notation run_sym ops w0 := (fold_left (fun w o => fst (apply_sym w o)) ops w0).

(* ================================================================== *)
(* A4: closed instances                                                 *)
(* ================================================================== *)

Theorem handle_rule_no_rerun_run_sym : forall (w : world sym) (b : blob sym) h key cmd remembered,
  alookup sym_eqb h key = Some remembered ->
  length remembered = length b -> NoDup (map fst b) -> cache_of w <> None ->
  (forall i p a r, nth_error b i = Some (p, a) -> nth_error remembered i = Some r ->
     get_file_ticket sym_eqb SContent w p a = Some (fs_t r) \/
     exists c f, cache_of w = Some c /\ alookup sym_eqb c (fs_t r) = Some f) ->
  (forall i j pi ai ri pj aj rj, i <> j ->
     nth_error b i = Some (pi, ai) -> nth_error remembered i = Some ri ->
     nth_error b j = Some (pj, aj) -> nth_error remembered j = Some rj ->
     get_file_ticket sym_eqb SContent w pi ai <> Some (fs_t ri) ->
     get_file_ticket sym_eqb SContent w pj aj <> Some (fs_t rj) -> fs_t ri <> fs_t rj) ->
  exists wr w' ress,
    handle_rule sym_eqb SContent w b h key cmd = (Ok wr, w', []) /\
    wr_option wr = Resolutions ress /\ needs_rebuild ress = false /\ wr_history wr = Some h /\
    resolve_remembered sym_eqb SContent w b remembered = Ok (ress, w') /\
    wr_blob wr = forget_replaced SContent b ress /\
    current_tickets sym_eqb SContent w' (forget_replaced SContent b ress) = Ok (wr_tickets wr).
Proof. exact (handle_rule_no_rerun_run sym sym_eqb SContent sym_eqb_spec). Qed.

Theorem handle_rule_no_rerun_sym : forall (w : world sym) (b : blob sym) h key cmd remembered,
  disk_inv sym_eqb SContent w -> InvProofs.blob_ok sym sym_eqb SContent w b ->
  alookup sym_eqb h key = Some remembered ->
  length remembered = length b -> NoDup (map fst b) -> cache_of w <> None ->
  (forall i p a r, nth_error b i = Some (p, a) -> nth_error remembered i = Some r ->
     get_file_ticket sym_eqb SContent w p a = Some (fs_t r) \/
     exists c f, cache_of w = Some c /\ alookup sym_eqb c (fs_t r) = Some f) ->
  (forall i j pi ai ri pj aj rj, i <> j ->
     nth_error b i = Some (pi, ai) -> nth_error remembered i = Some ri ->
     nth_error b j = Some (pj, aj) -> nth_error remembered j = Some rj ->
     get_file_ticket sym_eqb SContent w pi ai <> Some (fs_t ri) ->
     get_file_ticket sym_eqb SContent w pj aj <> Some (fs_t rj) -> fs_t ri <> fs_t rj) ->
  exists wr w' ress,
    handle_rule sym_eqb SContent w b h key cmd = (Ok wr, w', []) /\
    wr_option wr = Resolutions ress /\ needs_rebuild ress = false /\ wr_history wr = Some h /\
    wr_tickets wr = map fs_t remembered.
Proof. exact (handle_rule_no_rerun sym sym_eqb SContent sym_eqb_spec). Qed.

Theorem repeat_build_noop_confined_sym : forall (w : world sym) rp goal w1 tbl pack,
  disk_inv sym_eqb SContent w -> init_dir sym w = Ok (w1, tbl) -> get_nodes sym w1 rp goal = Ok pack ->
  Forall node_confined (p_nodes pack) -> ~ In rp (plan_targets pack) ->
  o_verdict (build_sym w rp goal) = VOk ->
  forall w2, w2 = o_world (build_sym w rp goal) \/ w2 = tick (o_world (build_sym w rp goal)) ->
  let o2 := build_sym w2 rp goal in
  o_verdict o2 = VOk /\ o_commands o2 = [] /\
  w_files (o_world o2) = w_files w2 /\
  rd_cache (w_rd (o_world o2)) = rd_cache (w_rd w2) /\
  Forall (fun s => fst s = BUpToDate) (o_status o2).
Proof. exact (repeat_build_noop_confined sym sym_eqb SContent SList SRule sym_eqb_spec SRule_inj). Qed.

Theorem repeat_build_noop_sym : forall (w : world sym) rp goal w1 tbl pack,
  disk_inv sym_eqb SContent w -> init_dir sym w = Ok (w1, tbl) -> get_nodes sym w1 rp goal = Ok pack ->
  Forall det_node (p_nodes pack) -> ~ In rp (plan_targets pack) ->
  o_verdict (build_sym w rp goal) = VOk ->
  forall w2, w2 = o_world (build_sym w rp goal) \/ w2 = tick (o_world (build_sym w rp goal)) ->
  let o2 := build_sym w2 rp goal in
  o_verdict o2 = VOk /\ o_commands o2 = [] /\
  w_files (o_world o2) = w_files w2 /\
  rd_cache (w_rd (o_world o2)) = rd_cache (w_rd w2) /\
  Forall (fun s => fst s = BUpToDate) (o_status o2).
Proof. exact (repeat_build_noop sym sym_eqb SContent SList SRule sym_eqb_spec SRule_inj). Qed.

(* ================================================================== *)
(* non-vacuity of A2: three copy rules and a source                     *)
(* ================================================================== *)

Definition rb_ops : list (op sym) := [OWrite (bs "s") (bs "1"); OWrite RULES_PATH cx_rules2].
Definition rb_w : world sym := run_sym rb_ops (init_world Fine 1).
Definition rb_w1 : world sym := match init_dir sym rb_w with Ok (w1, _) => w1 | Err _ => rb_w end.
Definition rb_tbl : table sym := match init_dir sym rb_w with Ok (_, t) => t | Err _ => [] end.
Definition rb_pack : node_pack :=
  match get_nodes sym rb_w1 RULES_PATH None with Ok p => p | Err _ => mk_pack [] [] end.

Lemma rb_inv : disk_inv sym_eqb SContent rb_w.
Proof. apply (reach_inv_sym 1 rb_ops); repeat constructor. Qed.

Lemma rb_init : init_dir sym rb_w = Ok (rb_w1, rb_tbl).
Proof. vm_compute. reflexivity. Qed.

Lemma rb_nodes : get_nodes sym rb_w1 RULES_PATH None = Ok rb_pack.
Proof. vm_compute. reflexivity. Qed.

Lemma rb_det : Forall det_node (p_nodes rb_pack).
Proof. apply det_nodesb_sound. vm_compute. reflexivity. Qed.

Lemma rb_rules_not_target : ~ In RULES_PATH (plan_targets rb_pack).
Proof. vm_compute. intros [H | [H | [H | []]]]; discriminate. Qed.

Lemma rb_ok : o_verdict (build_sym rb_w RULES_PATH None) = VOk.
Proof. vm_compute. reflexivity. Qed.

(* the first build does run the three commands *)
Example rb_first_runs : length (o_commands (build_sym rb_w RULES_PATH None)) = 3%nat.
Proof. vm_compute. reflexivity. Qed.

(* the theorem applies ... *)
Example rb_repeat :
  let w2 := tick (o_world (build_sym rb_w RULES_PATH None)) in
  let o2 := build_sym w2 RULES_PATH None in
  o_verdict o2 = VOk /\ o_commands o2 = [] /\
  w_files (o_world o2) = w_files w2 /\
  rd_cache (w_rd (o_world o2)) = rd_cache (w_rd w2) /\
  Forall (fun s => fst s = BUpToDate) (o_status o2).
Proof.
  exact (repeat_build_noop_sym rb_w RULES_PATH None rb_w1 rb_tbl rb_pack rb_inv rb_init rb_nodes rb_det
           rb_rules_not_target rb_ok _ (or_intror eq_refl)).
Qed.

(* ... and its conclusion is what the model computes: three "up to date" lines, nothing executed *)
Example rb_repeat_computed :
  let w2 := tick (o_world (build_sym rb_w RULES_PATH None)) in
  let o2 := build_sym w2 RULES_PATH None in
  o_verdict o2 = VOk /\ o_commands o2 = [] /\ w_files (o_world o2) = w_files w2 /\
  o_status o2 = [(BUpToDate, bs "a"); (BUpToDate, bs "b"); (BUpToDate, bs "c")].
Proof. vm_compute. repeat split; reflexivity. Qed.

(* ================================================================== *)
(* non-vacuity of A1: two targets, one still correct, one in the cache  *)
(* ================================================================== *)

Definition nr_fa : file := mk_file (bs "1") 3 false.
Definition nr_fb : file := mk_file (bs "junk") 5 false.
Definition nr_fc : file := mk_file (bs "2") 4 false.
Definition nr_w : world sym :=
  mk_world [(bs "a", nr_fa); (bs "b", nr_fb)]
           (mk_rdir true (Some [(SContent (bs "2"), nr_fc)]) (Some []) None) 10 Fine.
Definition nr_blob : blob sym := [(bs "a", empty_state SContent); (bs "b", empty_state SContent)].
Definition nr_rem : list (fstate sym) := [mk_fstate (SContent (bs "1")) 0 false; mk_fstate (SContent (bs "2")) 0 false].
Definition nr_key : sym := SList [SContent (bs "src")].
Definition nr_hist : history sym := [(nr_key, nr_rem)].
Definition nr_cmd : list bytes := [bs "gen a =never"; bs "gen b =never"].

Lemma nr_files f : any_file sym_eqb nr_w f -> f = nr_fa \/ f = nr_fb \/ f = nr_fc.
Proof.
  intros [(p & Hp) | (c & t & Hc & Hl)].
  - unfold fget in Hp. cbn in Hp.
    repeat match type of Hp with context [if ?c then _ else _] => destruct c end;
      try discriminate; injection Hp as <-; auto.
  - cbn in Hc. injection Hc as <-. cbn in Hl.
    repeat match type of Hl with context [if ?c then _ else _] => destruct c end;
      try discriminate; injection Hl as <-; auto.
Qed.

Lemma nr_inv : disk_inv sym_eqb SContent nr_w.
Proof.
  split; [reflexivity|]. split; [|split; [|split]].
  - intros f g Hf Hg.
    destruct (nr_files f Hf) as [-> | [-> | ->]]; destruct (nr_files g Hg) as [-> | [-> | ->]];
      cbn; intro H; try discriminate; reflexivity.
  - intros f Hf. destruct (nr_files f Hf) as [-> | [-> | ->]]; cbn; intro H; discriminate.
  - intros c t f Hc Hl. cbn in Hc. injection Hc as <-. cbn in Hl.
    match type of Hl with context [if ?c then _ else _] => destruct c eqn:E end; [|discriminate].
    injection Hl as <-. apply sym_eqb_spec in E. exact E.
  - intros tbl p st Ht. cbn in Ht. discriminate.
Qed.

Lemma nr_blob_ok : InvProofs.blob_ok sym sym_eqb SContent nr_w nr_blob.
Proof.
  intros p st [E | [E | []]]; injection E as <- <-;
    apply (InvProofs.empty_state_ok sym sym_eqb SContent sym_eqb_spec).
Qed.

(* the hypotheses of A1 hold of this world ... *)
Example nr_applies :
  exists wr w' ress,
    handle_rule sym_eqb SContent nr_w nr_blob nr_hist nr_key nr_cmd = (Ok wr, w', []) /\
    wr_option wr = Resolutions ress /\ needs_rebuild ress = false /\ wr_history wr = Some nr_hist /\
    wr_tickets wr = map fs_t nr_rem.
Proof.
  apply (handle_rule_no_rerun_sym nr_w nr_blob nr_hist nr_key nr_cmd nr_rem nr_inv nr_blob_ok).
  - vm_compute. reflexivity.
  - reflexivity.
  - repeat constructor; cbn; intuition discriminate.
  - discriminate.
  - intros [|[|i]] p a r Hb Hr; cbn in Hb, Hr; try discriminate.
    + injection Hb as <- <-. injection Hr as <-. left. vm_compute. reflexivity.
    + injection Hb as <- <-. injection Hr as <-. right. eexists. eexists. split; vm_compute; reflexivity.
    + destruct i; discriminate.
  - intros [|[|i]] [|[|j]] pi ai ri pj aj rj Hij Hbi Hri Hbj Hrj Hni Hnj; cbn in Hbi, Hri, Hbj, Hrj;
      try discriminate; try (destruct i; discriminate); try (destruct j; discriminate); try contradiction.
    + injection Hri as <-. injection Hrj as <-. cbn. discriminate.
    + injection Hri as <-. injection Hrj as <-. cbn. discriminate.
Qed.

(* ... and this is what happens: a is confirmed, b is taken out of the cache (the junk that was at b is
   kept in the cache under its own hash), the command is not run *)
Example nr_computed :
  match handle_rule sym_eqb SContent nr_w nr_blob nr_hist nr_key nr_cmd with
  | (Ok wr, w', script) =>
      wr_option wr = Resolutions [AlreadyCorrect; Recovered] /\ script = [] /\
      content_at w' (bs "a") = Some (bs "1") /\ content_at w' (bs "b") = Some (bs "2") /\
      cache_of w' = Some [(SContent (bs "junk"), nr_fb)] /\
      wr_tickets wr = [SContent (bs "1"); SContent (bs "2")]
  | _ => False
  end.
Proof. vm_compute. repeat split; reflexivity. Qed.

(* the tickets conjunct of A1 does need a content-addressed cache: without the disk invariant the file
   stored under the remembered ticket may hold anything *)
Definition bad_w : world sym :=
  mk_world [] (mk_rdir true (Some [(SContent (bs "2"), mk_file (bs "other") 4 false)]) (Some []) None) 10 Fine.

Example no_rerun_tickets_need_inv :
  match handle_rule sym_eqb SContent bad_w [(bs "b", empty_state SContent)]
          [(nr_key, [mk_fstate (SContent (bs "2")) 0 false])] nr_key nr_cmd with
  | (Ok wr, _, script) => script = [] /\ wr_tickets wr = [SContent (bs "other")]
  | _ => False
  end.
Proof. vm_compute. split; reflexivity. Qed.

(* ================================================================== *)
(* A3 and its two ingredients, closed                                   *)
(* ================================================================== *)

Theorem recoverable_build_sym : forall E (w2 : world sym) rp goal pack,
  disk_inv sym_eqb SContent w2 -> get_nodes sym w2 rp goal = Ok pack ->
  recoverable_world sym sym_eqb SContent SList SRule E w2 pack ->
  let o3 := build_sym w2 rp goal in
  o_verdict o3 = VOk /\ o_commands o3 = [] /\
  (forall t, In t (plan_targets pack) -> content_at (o_world o3) t = E t) /\
  (forall p, ~ In p (plan_targets pack) -> content_at (o_world o3) p = content_at w2 p) /\
  Forall calm_banner (o_status o3).
Proof. exact (recoverable_build sym sym_eqb SContent SList SRule sym_eqb_spec SContent_inj). Qed.

Theorem build_keeps_protected_sym : forall (w : world sym) rp goal w1 tbl pack,
  disk_inv sym_eqb SContent w -> init_dir sym w = Ok (w1, tbl) -> get_nodes sym w1 rp goal = Ok pack ->
  Forall node_confined (p_nodes pack) ->
  o_verdict (build_sym w rp goal) = VOk ->
  forall c, protected_content sym_eqb (plan_targets pack) w c ->
            protected_content sym_eqb (plan_targets pack) (o_world (build_sym w rp goal)) c.
Proof. exact (build_keeps_protected sym sym_eqb SContent SList SRule sym_eqb_spec SContent_inj). Qed.

Theorem revert_recovers_confined_sym : forall (w0 : world sym) rp goal w1 tbl pack s f c',
  disk_inv sym_eqb SContent w0 ->
  init_dir sym w0 = Ok (w1, tbl) -> get_nodes sym w1 rp goal = Ok pack ->
  Forall node_confined (p_nodes pack) -> ~ In rp (plan_targets pack) ->
  In s (p_leaves pack) -> s <> rp -> fget w0 s = Some f ->
  let b1 := build_sym w0 rp goal in
  let wA := tick (o_world b1) in
  let b2 := build_sym (tick (write_file wA s c')) rp goal in
  let wB := tick (o_world b2) in
  let wC := tick (write_file wB s (f_content f)) in
  let b3 := build_sym wC rp goal in
  o_verdict b1 = VOk -> o_verdict b2 = VOk ->
  (forall t t' c, In t (plan_targets pack) -> In t' (plan_targets pack) -> t <> t' ->
     content_at wA t = Some c -> (content_at wA t' = Some c \/ content_at wB t' = Some c) -> False) ->
  o_verdict b3 = VOk /\ o_commands b3 = [] /\
  (forall t, In t (plan_targets pack) -> content_at (o_world b3) t = content_at wA t) /\
  Forall (fun st => fst st = BUpToDate \/ fst st = BRecovered) (o_status b3).
Proof.
  exact (revert_recovers_confined sym sym_eqb SContent SList SRule sym_eqb_spec SContent_inj SRule_inj).
Qed.

Theorem revert_recovers_sym : forall (w0 : world sym) rp goal w1 tbl pack s f c',
  disk_inv sym_eqb SContent w0 -> hist_sound sym sym_eqb SContent SList SRule w0 ->
  init_dir sym w0 = Ok (w1, tbl) -> get_nodes sym w1 rp goal = Ok pack ->
  Forall det_node (p_nodes pack) -> ~ In rp (plan_targets pack) ->
  In s (p_leaves pack) -> s <> rp -> fget w0 s = Some f ->
  let b1 := build_sym w0 rp goal in
  let wA := tick (o_world b1) in
  let b2 := build_sym (tick (write_file wA s c')) rp goal in
  let wB := tick (o_world b2) in
  let wC := tick (write_file wB s (f_content f)) in
  let b3 := build_sym wC rp goal in
  o_verdict b1 = VOk -> o_verdict b2 = VOk ->
  (forall t t' c, In t (plan_targets pack) -> In t' (plan_targets pack) -> t <> t' ->
     content_at wA t = Some c -> (content_at wA t' = Some c \/ content_at wB t' = Some c) -> False) ->
  o_verdict b3 = VOk /\ o_commands b3 = [] /\
  (forall t, In t (plan_targets pack) -> content_at (o_world b3) t = content_at wA t) /\
  Forall (fun st => fst st = BUpToDate \/ fst st = BRecovered) (o_status b3).
Proof.
  exact (revert_recovers sym sym_eqb SContent SList SRule sym_eqb_spec SContent_inj SRule_inj).
Qed.

(* ================================================================== *)
(* non-vacuity of A3: three rules whose outputs differ                  *)
(* ================================================================== *)

(* (computations are done on goals only: vm_compute in a hypothesis is re-checked by the kernel with the
   lazy machine at Qed, which does not terminate in reasonable space on whole builds) *)

Definition rv_rules : bytes := join_with [NL] (map bs
  ["a";":";"s";":";"gen a @s =A";":";
   "b";":";"a";":";"gen b @a =B";":";
   "c";":";"a";":";"gen c @a =C";":";""]%string).

Definition rv_ops : list (op sym) := [OWrite (bs "s") (bs "1"); OWrite RULES_PATH rv_rules].
Definition rv_w : world sym := run_sym rv_ops (init_world Fine 1).
Definition rv_w1 : world sym := match init_dir sym rv_w with Ok (w1, _) => w1 | Err _ => rv_w end.
Definition rv_tbl : table sym := match init_dir sym rv_w with Ok (_, t) => t | Err _ => [] end.
Definition rv_pack : node_pack :=
  match get_nodes sym rv_w1 RULES_PATH None with Ok p => p | Err _ => mk_pack [] [] end.
Definition rv_f : file := match fget rv_w (bs "s") with Some f => f | None => mk_file [] 0 false end.

Definition rv_wA : world sym := tick (o_world (build_sym rv_w RULES_PATH None)).
Definition rv_wB : world sym := tick (o_world (build_sym (tick (write_file rv_wA (bs "s") (bs "2"))) RULES_PATH None)).
Definition rv_wC : world sym := tick (write_file rv_wB (bs "s") (f_content rv_f)).

Lemma rv_inv : disk_inv sym_eqb SContent rv_w.
Proof. apply (reach_inv_sym 1 rv_ops); repeat constructor. Qed.

Lemma rv_facts :
  plan_targets rv_pack = [bs "a"; bs "b"; bs "c"] /\
  content_at rv_wA (bs "a") = Some (bs "1A") /\ content_at rv_wA (bs "b") = Some (bs "1AB") /\
  content_at rv_wA (bs "c") = Some (bs "1AC") /\
  content_at rv_wB (bs "a") = Some (bs "2A") /\ content_at rv_wB (bs "b") = Some (bs "2AB") /\
  content_at rv_wB (bs "c") = Some (bs "2AC").
Proof. vm_compute. repeat split; reflexivity. Qed.

Lemma rv_distinct : forall t t' c, In t (plan_targets rv_pack) -> In t' (plan_targets rv_pack) -> t <> t' ->
  content_at rv_wA t = Some c -> (content_at rv_wA t' = Some c \/ content_at rv_wB t' = Some c) -> False.
Proof.
  destruct rv_facts as (Ft & Aa & Ab & Ac & Ba & Bb & Bc).
  intros t t' c Ht Ht' Hne HA HB. rewrite Ft in Ht, Ht'. cbn [In] in Ht, Ht'.
  destruct Ht as [<- | [<- | [<- | []]]]; destruct Ht' as [<- | [<- | [<- | []]]];
    try (apply Hne; reflexivity);
    rewrite ?Aa, ?Ab, ?Ac in HA; injection HA as <-;
    destruct HB as [HB | HB]; rewrite ?Aa, ?Ab, ?Ac, ?Ba, ?Bb, ?Bc in HB; cbv in HB; discriminate.
Qed.

Lemma rv_init : init_dir sym rv_w = Ok (rv_w1, rv_tbl).
Proof. vm_compute. reflexivity. Qed.
Lemma rv_nodes : get_nodes sym rv_w1 RULES_PATH None = Ok rv_pack.
Proof. vm_compute. reflexivity. Qed.
Lemma rv_confined : Forall node_confined (p_nodes rv_pack).
Proof. apply nodes_confinedb_sound. vm_compute. reflexivity. Qed.
Lemma rv_rules_not_target : ~ In RULES_PATH (plan_targets rv_pack).
Proof. vm_compute. intros [H | [H | [H | []]]]; discriminate. Qed.
Lemma rv_s_leaf : In (bs "s") (p_leaves rv_pack).
Proof. vm_compute. left. reflexivity. Qed.
Lemma rv_s_ne : bs "s" <> RULES_PATH.
Proof. vm_compute. discriminate. Qed.
Lemma rv_s_file : fget rv_w (bs "s") = Some rv_f.
Proof. vm_compute. reflexivity. Qed.
Lemma rv_ok1 : o_verdict (build_sym rv_w RULES_PATH None) = VOk.
Proof. vm_compute. reflexivity. Qed.
Lemma rv_ok2 : o_verdict (build_sym (tick (write_file rv_wA (bs "s") (bs "2"))) RULES_PATH None) = VOk.
Proof. vm_compute. reflexivity. Qed.

(* the theorem applies ... *)
Example rv_revert :
  o_verdict (build_sym rv_wC RULES_PATH None) = VOk /\ o_commands (build_sym rv_wC RULES_PATH None) = [] /\
  (forall t, In t (plan_targets rv_pack) ->
             content_at (o_world (build_sym rv_wC RULES_PATH None)) t = content_at rv_wA t) /\
  Forall (fun st => fst st = BUpToDate \/ fst st = BRecovered) (o_status (build_sym rv_wC RULES_PATH None)).
Proof.
  exact (revert_recovers_confined_sym rv_w RULES_PATH None rv_w1 rv_tbl rv_pack (bs "s") rv_f (bs "2") rv_inv
           rv_init rv_nodes rv_confined rv_rules_not_target rv_s_leaf rv_s_ne rv_s_file rv_ok1 rv_ok2 rv_distinct).
Qed.

(* ... and this is what the model computes: the second build runs the three commands again, the third
   takes everything back from the cache *)
Example rv_revert_computed :
  length (o_commands (build_sym (tick (write_file rv_wA (bs "s") (bs "2"))) RULES_PATH None)) = 3%nat /\
  o_verdict (build_sym rv_wC RULES_PATH None) = VOk /\ o_commands (build_sym rv_wC RULES_PATH None) = [] /\
  o_status (build_sym rv_wC RULES_PATH None) = [(BRecovered, bs "a"); (BRecovered, bs "b"); (BRecovered, bs "c")] /\
  content_at (o_world (build_sym rv_wC RULES_PATH None)) (bs "a") = Some (bs "1A") /\
  content_at (o_world (build_sym rv_wC RULES_PATH None)) (bs "b") = Some (bs "1AB") /\
  content_at (o_world (build_sym rv_wC RULES_PATH None)) (bs "c") = Some (bs "1AC").
Proof. vm_compute. repeat split; reflexivity. Qed.

(* the hypothesis on the contents is needed: with three COPY rules every target holds the same content, the
   (content addressed) cache keeps one file for the three of them, and after the revert only the first
   target can be recovered: the other commands run again *)
Definition rb_f : file := match fget rb_w (bs "s") with Some f => f | None => mk_file [] 0 false end.
Definition rc_wA : world sym := tick (o_world (build_sym rb_w RULES_PATH None)).
Definition rc_wB : world sym := tick (o_world (build_sym (tick (write_file rc_wA (bs "s") (bs "2"))) RULES_PATH None)).
Definition rc_wC : world sym := tick (write_file rc_wB (bs "s") (f_content rb_f)).

Example revert_needs_distinct_contents :
  o_verdict (build_sym rc_wC RULES_PATH None) = VOk /\
  o_commands (build_sym rc_wC RULES_PATH None) = [bs "gen b @a"; bs "gen c @a"] /\
  o_status (build_sym rc_wC RULES_PATH None) = [(BRecovered, bs "a"); (BBuilt, bs "b"); (BBuilt, bs "c")].
Proof. vm_compute. repeat split; reflexivity. Qed.

Lemma rb_s_leaf : In (bs "s") (p_leaves rb_pack).
Proof. vm_compute. left. reflexivity. Qed.
Lemma rb_s_file : fget rb_w (bs "s") = Some rb_f.
Proof. vm_compute. reflexivity. Qed.
Lemma rb_ok2 : o_verdict (build_sym (tick (write_file rc_wA (bs "s") (bs "2"))) RULES_PATH None) = VOk.
Proof. vm_compute. reflexivity. Qed.
Lemma rb_hist_sound : hist_sound sym sym_eqb SContent SList SRule rb_w.
Proof. apply (reach_hist_sound_partial_sym 1 rb_ops); cbn; auto. Qed.

Theorem revert_recovers_without_distinctness_refuted :
  ~ (forall (w0 : world sym) rp goal w1 tbl pack s f c',
       disk_inv sym_eqb SContent w0 -> hist_sound sym sym_eqb SContent SList SRule w0 ->
       init_dir sym w0 = Ok (w1, tbl) -> get_nodes sym w1 rp goal = Ok pack ->
       Forall det_node (p_nodes pack) -> ~ In rp (plan_targets pack) ->
       In s (p_leaves pack) -> s <> rp -> fget w0 s = Some f ->
       let b1 := build_sym w0 rp goal in
       let wA := tick (o_world b1) in
       let b2 := build_sym (tick (write_file wA s c')) rp goal in
       let wB := tick (o_world b2) in
       let wC := tick (write_file wB s (f_content f)) in
       let b3 := build_sym wC rp goal in
       o_verdict b1 = VOk -> o_verdict b2 = VOk -> o_commands b3 = []).
Proof.
  intro H.
  pose proof (H rb_w RULES_PATH None rb_w1 rb_tbl rb_pack (bs "s") rb_f (bs "2") rb_inv rb_hist_sound rb_init rb_nodes
                rb_det rb_rules_not_target rb_s_leaf rv_s_ne rb_s_file rb_ok rb_ok2) as X.
  pose proof (proj1 (proj2 revert_needs_distinct_contents)) as Y.
  pose proof (eq_trans (eq_sym X) Y) as Z. discriminate Z.
Qed.
