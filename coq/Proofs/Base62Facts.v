From Ruler Require Import Tactics Bytes Base62 BytesFacts.
Local Open Scope N_scope.

Lemma two256_lt_62_43 : two256 < 62 ^ 43.
Proof. vm_compute. reflexivity. Qed.

Lemma two256_eq : two256 = 256 ^ N.of_nat 32.
Proof. vm_compute. reflexivity. Qed.

Lemma digit_char d : d < 62 -> digit_of_char (char_of_digit d) = Some d.
Proof.
  intros Hd. unfold char_of_digit, digit_of_char.
  destruct (d <? 10) eqn:E1.
  - replace ((48 <=? 48 + d) && (48 + d <=? 57)) with true by lia. f_equal; lia.
  - destruct (d <? 36) eqn:E2.
    + replace ((48 <=? 87 + d) && (87 + d <=? 57)) with false by lia.
      replace ((97 <=? 87 + d) && (87 + d <=? 122)) with true by lia. f_equal; lia.
    + replace ((48 <=? 29 + d) && (29 + d <=? 57)) with false by lia.
      replace ((97 <=? 29 + d) && (29 + d <=? 122)) with false by lia.
      replace ((65 <=? 29 + d) && (29 + d <=? 90)) with true by lia. f_equal; lia.
Qed.

Lemma char_digit c d : digit_of_char c = Some d -> d < 62 /\ char_of_digit d = c.
Proof.
  unfold digit_of_char, char_of_digit.
  destruct ((48 <=? c) && (c <=? 57)) eqn:E1.
  { intros [= <-]. replace (c - 48 <? 10) with true by lia. lia. }
  destruct ((97 <=? c) && (c <=? 122)) eqn:E2.
  { intros [= <-]. replace (c - 87 <? 10) with false by lia. replace (c - 87 <? 36) with true by lia. lia. }
  destruct ((65 <=? c) && (c <=? 90)) eqn:E3; [|discriminate].
  intros [= <-]. replace (c - 29 <? 10) with false by lia. replace (c - 29 <? 36) with false by lia. lia.
Qed.

Definition is_alnum (c : N) : Prop :=
  (48 <= c <= 57) \/ (97 <= c <= 122) \/ (65 <= c <= 90).

Lemma digit_of_char_some_iff c : (exists d, digit_of_char c = Some d) <-> is_alnum c.
Proof.
  unfold digit_of_char, is_alnum. split.
  - intros [d H].
    destruct ((48 <=? c) && (c <=? 57)) eqn:E1; [lia|].
    destruct ((97 <=? c) && (c <=? 122)) eqn:E2; [lia|].
    destruct ((65 <=? c) && (c <=? 90)) eqn:E3; [lia|discriminate].
  - intros H.
    destruct ((48 <=? c) && (c <=? 57)) eqn:E1; [eauto|].
    destruct ((97 <=? c) && (c <=? 122)) eqn:E2; [eauto|].
    destruct ((65 <=? c) && (c <=? 90)) eqn:E3; [eauto|lia].
Qed.

Lemma digits62_length n v : length (digits62 n v) = n.
Proof. revert v; induction n as [|n IH]; intros v; cbn [digits62 length]; [reflexivity|]. rewrite IH; reflexivity. Qed.

Lemma digits62_lt n v : Forall (fun d => d < 62) (digits62 n v).
Proof. revert v; induction n as [|n IH]; intros v; cbn [digits62]; constructor; [lia|apply IH]. Qed.

Lemma from_digits62_digits62 n v : v < 62 ^ N.of_nat n -> from_digits62 (digits62 n v) = v.
Proof.
  revert v; induction n as [|n IH]; intros v Hv; cbn [digits62 from_digits62].
  - change (62 ^ N.of_nat 0) with 1 in Hv. lia.
  - rewrite Nat2N.inj_succ, N.pow_succ_r' in Hv.
    rewrite IH; [lia|]. remember (62 ^ N.of_nat n) as K. lia.
Qed.

Lemma from_digits62_bound ds :
  Forall (fun d => d < 62) ds -> from_digits62 ds < 62 ^ N.of_nat (length ds).
Proof.
  induction 1 as [|d ds Hd Hds IH]; cbn [from_digits62 length].
  - change (62 ^ N.of_nat 0) with 1. lia.
  - rewrite Nat2N.inj_succ, N.pow_succ_r'. remember (62 ^ N.of_nat (length ds)) as K. lia.
Qed.

Lemma digits62_from_digits62 ds :
  Forall (fun d => d < 62) ds -> digits62 (length ds) (from_digits62 ds) = ds.
Proof.
  induction 1 as [|d ds Hd Hds IH]; cbn [from_digits62 length digits62]; [reflexivity|].
  assert (E1 : (d + 62 * from_digits62 ds) mod 62 = d) by lia.
  assert (E2 : (d + 62 * from_digits62 ds) / 62 = from_digits62 ds) by lia.
  rewrite E1, E2, IH; reflexivity.
Qed.

Lemma chars_to_digits_encode ds :
  Forall (fun d => d < 62) ds -> chars_to_digits (map char_of_digit ds) = inr ds.
Proof.
  induction 1 as [|d ds Hd Hds IH]; cbn [map chars_to_digits]; [reflexivity|].
  rewrite digit_char by exact Hd. rewrite IH; reflexivity.
Qed.

Lemma chars_to_digits_inr s ds :
  chars_to_digits s = inr ds ->
  Forall (fun d => d < 62) ds /\ map char_of_digit ds = s /\ length ds = length s.
Proof.
  revert ds; induction s as [|c s IH]; intros ds; cbn [chars_to_digits].
  - intros [= <-]. repeat split; constructor.
  - destruct (digit_of_char c) as [d|] eqn:Ed; [|discriminate].
    destruct (chars_to_digits s) as [bad|ds'] eqn:Es; [discriminate|].
    intros [= <-]. destruct (IH ds' eq_refl) as (H1 & H2 & H3).
    apply char_digit in Ed as [Hd Hc].
    repeat split; cbn [map length]; [constructor; assumption | congruence | congruence].
Qed.

(* first bad character: everything before it is alphanumeric, and it is not *)
Lemma chars_to_digits_inl s c :
  chars_to_digits s = inl c ->
  exists pre post, s = pre ++ c :: post /\ Forall is_alnum pre /\ ~ is_alnum c.
Proof.
  revert c; induction s as [|x s IH]; intros c; cbn [chars_to_digits]; [discriminate|].
  destruct (digit_of_char x) as [d|] eqn:Ed.
  - destruct (chars_to_digits s) as [bad|ds'] eqn:Es; [|discriminate].
    intros [= <-]. destruct (IH bad eq_refl) as (pre & post & -> & Hpre & Hbad).
    exists (x :: pre), post. repeat split; [|exact Hbad].
    constructor; [|exact Hpre]. apply digit_of_char_some_iff; eauto.
  - intros [= <-]. exists [], s. repeat split; [constructor|].
    intro H. apply digit_of_char_some_iff in H as [d Hd]. congruence.
Qed.

Lemma chars_to_digits_alnum s :
  Forall is_alnum s -> exists ds, chars_to_digits s = inr ds.
Proof.
  induction 1 as [|c s Hc Hs IH]; cbn [chars_to_digits]; [eauto|].
  apply digit_of_char_some_iff in Hc as [d Hd]. rewrite Hd.
  destruct IH as [ds ->]. eauto.
Qed.

Lemma encode62_length b : length (encode62 b) = 43%nat.
Proof. unfold encode62. rewrite map_length, digits62_length. reflexivity. Qed.

Lemma encode62_alnum b : Forall is_alnum (encode62 b).
Proof.
  unfold encode62. apply Forall_map. eapply Forall_impl; [|apply digits62_lt].
  intros d Hd. apply digit_of_char_some_iff. exists d. apply digit_char; exact Hd.
Qed.

(* ---- the three statements of C15 about the text form ---- *)

Theorem decode62_encode62 b :
  length b = 32%nat -> all_bytes b -> decode62 (encode62 b) = Ok b.
Proof.
  intros Hlen Hb. unfold decode62.
  rewrite encode62_length. cbn [N.of_nat Pos.of_succ_nat]. change (negb (43 =? 43)) with false. cbv iota.
  unfold encode62. rewrite chars_to_digits_encode by apply digits62_lt.
  pose proof (le_to_N_bound b Hb) as Hbound. rewrite Hlen in Hbound. rewrite <- two256_eq in Hbound.
  rewrite from_digits62_digits62.
  - replace (le_to_N b <? two256) with true by lia.
    rewrite <- Hlen. rewrite N_to_le_le_to_N by exact Hb. reflexivity.
  - pose proof two256_lt_62_43. change (N.of_nat 43) with 43. lia.
Qed.

Theorem encode62_decode62 s b :
  decode62 s = Ok b -> encode62 b = s /\ length b = 32%nat /\ all_bytes b.
Proof.
  unfold decode62.
  destruct (negb (N.of_nat (length s) =? 43)) eqn:El; [discriminate|].
  destruct (chars_to_digits s) as [bad|ds] eqn:Es; [discriminate|].
  destruct (from_digits62 ds <? two256) eqn:Ev; [|discriminate].
  remember (N_to_le 32 (from_digits62 ds)) as r eqn:Er.
  intros [= <-]. subst r. apply chars_to_digits_inr in Es as (Hds & Hmap & Hlen).
  split; [|split; [apply N_to_le_length | apply N_to_le_bytes]].
  unfold encode62. rewrite le_to_N_N_to_le by (rewrite <- two256_eq; lia).
  assert (length ds = 43%nat) as H43 by lia.
  rewrite <- H43. rewrite digits62_from_digits62 by exact Hds. exact Hmap.
Qed.

(* exact classification of what decode62 rejects *)
Theorem decode62_invalid_length s :
  decode62 s = Err InvalidLength <-> length s <> 43%nat.
Proof.
  unfold decode62. split.
  - destruct (negb (N.of_nat (length s) =? 43)) eqn:El; [lia|].
    destruct (chars_to_digits s); [discriminate|].
    destruct (_ <? _); discriminate.
  - intro H. replace (negb (N.of_nat (length s) =? 43)) with true by lia. reflexivity.
Qed.

Theorem decode62_invalid_character s c :
  decode62 s = Err (InvalidCharacter c) <->
  length s = 43%nat /\ exists pre post, s = pre ++ c :: post /\ Forall is_alnum pre /\ ~ is_alnum c.
Proof.
  unfold decode62. split.
  - destruct (negb (N.of_nat (length s) =? 43)) eqn:El; [discriminate|].
    destruct (chars_to_digits s) as [bad|ds] eqn:Es.
    + intros [= ->]. split; [lia|]. apply chars_to_digits_inl; exact Es.
    + destruct (_ <? _); discriminate.
  - intros (Hlen & pre & post & -> & Hpre & Hbad).
    replace (negb (N.of_nat (length (pre ++ c :: post)) =? 43)) with false by lia.
    clear Hlen. induction Hpre as [|x pre Hx Hpre IH]; cbn [app chars_to_digits].
    + destruct (digit_of_char c) as [d|] eqn:Ed; [|reflexivity].
      exfalso; apply Hbad; apply digit_of_char_some_iff; eauto.
    + apply digit_of_char_some_iff in Hx as [d Hd]. rewrite Hd.
      destruct (chars_to_digits (pre ++ c :: post)) as [bad|ds] eqn:Es.
      * injection IH as ->. reflexivity.
      * destruct (_ <? _); discriminate.
Qed.

Theorem decode62_overflow s :
  decode62 s = Err Overflow <->
  length s = 43%nat /\ exists ds, chars_to_digits s = inr ds /\ two256 <= from_digits62 ds.
Proof.
  unfold decode62. split.
  - destruct (negb (N.of_nat (length s) =? 43)) eqn:El; [discriminate|].
    destruct (chars_to_digits s) as [bad|ds] eqn:Es; [discriminate|].
    destruct (from_digits62 ds <? two256) eqn:Ev; [discriminate|].
    intros _. split; [lia|]. exists ds. split; [reflexivity|lia].
  - intros (Hlen & ds & -> & Hv).
    replace (negb (N.of_nat (length s) =? 43)) with false by lia.
    replace (from_digits62 ds <? two256) with false by lia. reflexivity.
Qed.

(* decode62 is total and its result is one of the four shapes: by construction. The text form is
   injective on 256-bit values: *)
Corollary encode62_injective a b :
  length a = 32%nat -> all_bytes a -> length b = 32%nat -> all_bytes b ->
  encode62 a = encode62 b -> a = b.
Proof.
  intros La Ha Lb Hb E.
  pose proof (decode62_encode62 a La Ha) as Da. rewrite E, (decode62_encode62 b Lb Hb) in Da.
  congruence.
Qed.
