(* TASK "COARSE-CRASH": a kill at ANY point of a build or a clean, under ANY clock, leaves the per-path invariant.

   The analysis of the action lists is in CoarseCrash.v (CoarseCrashProofs.build_all_pre / clean_all_pre).  This
   file states the results (Q1 - Q5), their closed instances for the free symbolic hashes (Q6), and checks them on
   the coarse-clock history of C18CoarseFacts.v (Q7): the third build of the swap history restores into q the very
   file the second build wrote at p; killed right after that restore, the disk satisfies pre_inv -- and does NOT
   when the early `AWriteTable (table_rest t pack)` (the repair of F6) is taken out of the action list.

   Only teqb_spec is used: no injectivity of the hashes. *)
From Coq Require Import String.
From Ruler Require Import Tactics Bytes AList RuleSyntax Parser TopoSort World Cmdlang Work Build Ops Inv Acts BuildSpec Ideal
     BytesFacts InvFacts BuildFacts C01Build C01Plan C01Facts C18Facts ActsSound F6Facts
     CoarseInv C18Coarse CoarseBuild C18CoarseFacts CoarseCrash.
Local Open Scope N_scope.

Section Results.
  Variable T : Type.
  Variable teqb : T -> T -> bool.
  Variable hc : bytes -> T.
  Variable hl : list T -> T.
  Variable hr : rule -> T.
  Hypothesis teqb_spec : forall a b, teqb a b = true <-> a = b.

  Local Notation apply_op := (apply_op teqb hc hl hr).
  Local Notation run_ops ops w0 := (fold_left (fun w o => fst (apply_op w o)) ops w0).
  Local Notation build := (build teqb hc hl hr).
  Local Notation build_acts := (build_acts teqb hc hl hr).
  Local Notation clean_acts := (clean_acts teqb hc).
  Local Notation run_acts := (run_acts teqb hr).
  Local Notation coarse_inv := (coarse_inv teqb hc).
  Local Notation pre_inv := (pre_inv teqb hc).

  (* what pre_inv says *)
  Theorem pre_inv_unfold : forall w : world T,
    pre_inv w <->
    (cache_addressed teqb hc w /\ (forall f, any_file teqb w f -> f_mtime f <= w_clock w)) /\
    (forall tbl, rd_table (w_rd w) = Some (SF_ok tbl) ->
       forall p st, alookup bytes_eqb tbl p = Some st ->
         state_ok_at teqb hc w p st /\ fs_mtime st <= w_clock w).
  Proof. intro w. reflexivity. Qed.

  (* ---- Q1, Q2 ---- *)
  Theorem coarse_build_crash_point : forall (w : world T) goal pre suf,
    coarse_inv w -> build_confined T w goal ->
    build_acts w RULES_PATH goal = pre ++ suf ->
    pre_inv (run_acts pre w).
  Proof. exact (CoarseCrashProofs.coarse_build_crash_point_main T teqb hc hl hr teqb_spec). Qed.

  Theorem coarse_clean_crash_point : forall (w : world T) goal pre suf,
    coarse_inv w ->
    clean_acts w RULES_PATH goal = pre ++ suf ->
    pre_inv (run_acts pre w).
  Proof. exact (CoarseCrashProofs.coarse_clean_crash_point_main T teqb hc hr teqb_spec). Qed.

  (* the same for any rules path, and by position *)
  Theorem coarse_build_crash_point_at : forall (w : world T) rp goal k,
    coarse_inv w ->
    (forall w1 tbl pack, init_dir T w = Ok (w1, tbl) -> get_nodes T w1 rp goal = Ok pack ->
                         Forall node_confined (p_nodes pack)) ->
    pre_inv (run_acts (firstn k (build_acts w rp goal)) w).
  Proof.
    intros w rp goal k Hinv Hc.
    apply (CoarseCrashProofs.build_all_pre T teqb hc hl hr teqb_spec w rp goal Hinv Hc _ (skipn k (build_acts w rp goal))).
    symmetry. apply firstn_skipn.
  Qed.

  Theorem coarse_clean_crash_point_at : forall (w : world T) rp goal k,
    coarse_inv w -> pre_inv (run_acts (firstn k (clean_acts w rp goal)) w).
  Proof.
    intros w rp goal k Hinv.
    apply (CoarseCrashProofs.clean_all_pre T teqb hc hr teqb_spec w rp goal Hinv _ (skipn k (clean_acts w rp goal))).
    symmetry. apply firstn_skipn.
  Qed.

  (* ---- Q3 ---- *)
  Theorem coarse_crash_then_tick : forall (w : world T) goal pre suf,
    coarse_inv w -> build_confined T w goal ->
    build_acts w RULES_PATH goal = pre ++ suf ->
    coarse_inv (tick (run_acts pre w)).
  Proof.
    intros w goal pre suf Hinv Hc E. apply (CoarseBuildProofs.tick_coarse T teqb hc).
    eapply coarse_build_crash_point; eauto.
  Qed.

  Theorem coarse_clean_crash_then_tick : forall (w : world T) goal pre suf,
    coarse_inv w ->
    clean_acts w RULES_PATH goal = pre ++ suf ->
    coarse_inv (tick (run_acts pre w)).
  Proof.
    intros w goal pre suf Hinv E. apply (CoarseBuildProofs.tick_coarse T teqb hc).
    eapply coarse_clean_crash_point; eauto.
  Qed.

  (* ---- Q4 ---- *)

  (* (a) C07 at the crash point itself *)
  Theorem coarse_crash_cache_addressed : forall (w : world T) goal pre suf,
    coarse_inv w -> build_confined T w goal ->
    build_acts w RULES_PATH goal = pre ++ suf ->
    cache_addressed teqb hc (run_acts pre w).
  Proof. intros w goal pre suf Hinv Hc E. apply (coarse_build_crash_point w goal pre suf Hinv Hc E). Qed.

  Theorem coarse_clean_crash_cache_addressed : forall (w : world T) goal pre suf,
    coarse_inv w ->
    clean_acts w RULES_PATH goal = pre ++ suf ->
    cache_addressed teqb hc (run_acts pre w).
  Proof. intros w goal pre suf Hinv E. apply (coarse_clean_crash_point w goal pre suf Hinv E). Qed.

  (* (b) the shared form: whatever state satisfies coarse_inv *)
  Theorem coarse_inv_next_build_table_irrelevant : forall (wc : world T) goal',
    coarse_inv wc -> build_confined T wc goal' ->
    let o1 := build wc RULES_PATH goal' in
    let o2 := build (erase_table T wc) RULES_PATH goal' in
    o_verdict o1 = o_verdict o2 /\ w_files (o_world o1) = w_files (o_world o2) /\
    rd_cache (w_rd (o_world o1)) = rd_cache (w_rd (o_world o2)) /\
    rd_hist (w_rd (o_world o1)) = rd_hist (w_rd (o_world o2)) /\
    o_commands o1 = o_commands o2 /\ o_status o1 = o_status o2.
  Proof. intros wc goal' Hinv Hc. apply (c18_coarse T teqb hc hl hr teqb_spec); assumption. Qed.

  Theorem coarse_crash_next_build_table_irrelevant : forall (w : world T) goal pre suf goal',
    coarse_inv w -> build_confined T w goal ->
    build_acts w RULES_PATH goal = pre ++ suf ->
    let wc := tick (run_acts pre w) in
    build_confined T wc goal' ->
    let o1 := build wc RULES_PATH goal' in
    let o2 := build (erase_table T wc) RULES_PATH goal' in
    o_verdict o1 = o_verdict o2 /\ w_files (o_world o1) = w_files (o_world o2) /\
    rd_cache (w_rd (o_world o1)) = rd_cache (w_rd (o_world o2)) /\
    rd_hist (w_rd (o_world o1)) = rd_hist (w_rd (o_world o2)) /\
    o_commands o1 = o_commands o2 /\ o_status o1 = o_status o2.
  Proof.
    intros w goal pre suf goal' Hinv Hc E wc Hc'. apply coarse_inv_next_build_table_irrelevant; [|exact Hc'].
    eapply coarse_crash_then_tick; eauto.
  Qed.

  Theorem coarse_clean_crash_next_build_table_irrelevant : forall (w : world T) goal pre suf goal',
    coarse_inv w ->
    clean_acts w RULES_PATH goal = pre ++ suf ->
    let wc := tick (run_acts pre w) in
    build_confined T wc goal' ->
    let o1 := build wc RULES_PATH goal' in
    let o2 := build (erase_table T wc) RULES_PATH goal' in
    o_verdict o1 = o_verdict o2 /\ w_files (o_world o1) = w_files (o_world o2) /\
    rd_cache (w_rd (o_world o1)) = rd_cache (w_rd (o_world o2)) /\
    rd_hist (w_rd (o_world o1)) = rd_hist (w_rd (o_world o2)) /\
    o_commands o1 = o_commands o2 /\ o_status o1 = o_status o2.
  Proof.
    intros w goal pre suf goal' Hinv E wc Hc'. apply coarse_inv_next_build_table_irrelevant; [|exact Hc'].
    eapply coarse_clean_crash_then_tick; eauto.
  Qed.

  (* (c) the invariant goes on *)
  Theorem coarse_crash_history_goes_on : forall (w : world T) goal pre suf (ops : list (op T)),
    coarse_inv w -> build_confined T w goal ->
    build_acts w RULES_PATH goal = pre ++ suf ->
    let wc := tick (run_acts pre w) in
    confined_history T teqb hc hl hr wc ops ->
    coarse_inv (run_ops ops wc).
  Proof.
    intros w goal pre suf ops Hinv Hc E wc Hh.
    apply (CoarseBuildProofs.coarse_inv_history T teqb hc hl hr teqb_spec); [|exact Hh].
    eapply coarse_crash_then_tick; eauto.
  Qed.

  Theorem coarse_clean_crash_history_goes_on : forall (w : world T) goal pre suf (ops : list (op T)),
    coarse_inv w ->
    clean_acts w RULES_PATH goal = pre ++ suf ->
    let wc := tick (run_acts pre w) in
    confined_history T teqb hc hl hr wc ops ->
    coarse_inv (run_ops ops wc).
  Proof.
    intros w goal pre suf ops Hinv E wc Hh.
    apply (CoarseBuildProofs.coarse_inv_history T teqb hc hl hr teqb_spec); [|exact Hh].
    eapply coarse_clean_crash_then_tick; eauto.
  Qed.

  (* ---- Q5: histories with kills ---- *)

  Inductive kop :=
  | KOp (o : op T)
  | KBuildKilled (goal : option bytes) (k : nat)
  | KCleanKilled (goal : option bytes) (k : nat).

  Definition apply_kop (w : world T) (x : kop) : world T :=
    match x with
    | KOp o => fst (apply_op w o)
    | KBuildKilled goal k => tick (run_acts (firstn k (build_acts w RULES_PATH goal)) w)
    | KCleanKilled goal k => tick (run_acts (firstn k (clean_acts w RULES_PATH goal)) w)
    end.

  Definition kop_confined (w : world T) (x : kop) : Prop :=
    match x with
    | KOp o => safe_op T o /\ op_confined T w o
    | KBuildKilled goal _ => build_confined T w goal
    | KCleanKilled _ _ => True
    end.

  Fixpoint confined_khistory (w : world T) (kops : list kop) : Prop :=
    match kops with
    | [] => True
    | x :: rest => kop_confined w x /\ confined_khistory (apply_kop w x) rest
    end.

  Theorem coarse_inv_apply_kop : forall (w : world T) (x : kop),
    coarse_inv w -> kop_confined w x -> coarse_inv (apply_kop w x).
  Proof.
    intros w x Hinv Hc. destruct x as [o | goal k | goal k]; cbn [apply_kop kop_confined] in *.
    - destruct Hc as [Hs Hc]. apply (CoarseBuildProofs.coarse_inv_apply_op_main T teqb hc hl hr teqb_spec); assumption.
    - apply (CoarseBuildProofs.tick_coarse T teqb hc). apply coarse_build_crash_point_at; assumption.
    - apply (CoarseBuildProofs.tick_coarse T teqb hc). apply coarse_clean_crash_point_at; assumption.
  Qed.

  Theorem coarse_inv_khistory : forall (kops : list kop) (w : world T),
    coarse_inv w -> confined_khistory w kops -> coarse_inv (fold_left apply_kop kops w).
  Proof.
    induction kops as [|x rest IH]; intros w Hinv Hh; cbn [fold_left]; [exact Hinv|].
    destruct Hh as [Hc Hrest]. apply IH; [|exact Hrest]. apply coarse_inv_apply_kop; assumption.
  Qed.

  Theorem coarse_inv_every_history_with_kills : forall mode t0 (kops : list kop),
    confined_khistory (init_world mode t0) kops ->
    coarse_inv (fold_left apply_kop kops (init_world mode t0)).
  Proof.
    intros mode t0 kops Hh. apply coarse_inv_khistory; [|exact Hh].
    apply (CoarseBuildProofs.coarse_inv_init_main T teqb hc).
  Qed.

  (* after any such history a confined build does not depend on the saved table *)
  Theorem c18_every_history_with_kills : forall mode t0 (kops : list kop) goal,
    confined_khistory (init_world mode t0) kops ->
    build_confined T (fold_left apply_kop kops (init_world mode t0)) goal ->
    let w := fold_left apply_kop kops (init_world mode t0) in
    let o1 := build w RULES_PATH goal in
    let o2 := build (erase_table T w) RULES_PATH goal in
    o_verdict o1 = o_verdict o2 /\ w_files (o_world o1) = w_files (o_world o2) /\
    rd_cache (w_rd (o_world o1)) = rd_cache (w_rd (o_world o2)) /\
    rd_hist (w_rd (o_world o1)) = rd_hist (w_rd (o_world o2)) /\
    o_commands o1 = o_commands o2 /\ o_status o1 = o_status o2.
  Proof.
    intros mode t0 kops goal Hh Hc. apply coarse_inv_next_build_table_irrelevant; [|exact Hc].
    apply coarse_inv_every_history_with_kills; assumption.
  Qed.

  (* ... and every crash point of the NEXT build or clean satisfies pre_inv again *)
  Theorem coarse_crash_point_after_kills : forall mode t0 (kops : list kop) goal k,
    confined_khistory (init_world mode t0) kops ->
    build_confined T (fold_left apply_kop kops (init_world mode t0)) goal ->
    let w := fold_left apply_kop kops (init_world mode t0) in
    pre_inv (run_acts (firstn k (build_acts w RULES_PATH goal)) w).
  Proof.
    intros mode t0 kops goal k Hh Hc w. apply coarse_build_crash_point_at; [|exact Hc].
    apply coarse_inv_every_history_with_kills; assumption.
  Qed.

  (* a history of operations is a history with kills *)
  Lemma khistory_of_history : forall (ops : list (op T)) (w : world T),
    confined_history T teqb hc hl hr w ops -> confined_khistory w (map KOp ops) /\
    fold_left apply_kop (map KOp ops) w = run_ops ops w.
  Proof.
    induction ops as [|o rest IH]; intros w Hh; cbn [map fold_left confined_khistory]; [split; [exact I | reflexivity]|].
    destruct Hh as (Hs & Hc & Hrest). destruct (IH _ Hrest) as [H1 H2].
    split; [|exact H2]. split; [split; assumption | exact H1].
  Qed.
End Results.

Arguments KOp {T}.
Arguments KBuildKilled {T}.
Arguments KCleanKilled {T}.

(* ================================================================== *)
(* ==== Q6: the instance with free symbolic hashes ==== *)
(* ================================================================== *)

Notation build_acts_sym := (build_acts sym_eqb SContent SList SRule).
Notation clean_acts_sym := (clean_acts sym_eqb SContent).
Notation run_acts_sym := (run_acts sym_eqb SRule).
Notation coarse_inv_sym := (coarse_inv sym_eqb SContent).
Notation pre_inv_sym := (pre_inv sym_eqb SContent).
Notation apply_kop_sym := (apply_kop sym sym_eqb SContent SList SRule).
Notation confined_khistory_sym := (confined_khistory sym sym_eqb SContent SList SRule).

Theorem coarse_build_crash_point_sym : forall (w : world sym) goal pre suf,
  coarse_inv_sym w -> build_confined sym w goal ->
  build_acts_sym w RULES_PATH goal = pre ++ suf ->
  pre_inv_sym (run_acts_sym pre w).
Proof. exact (coarse_build_crash_point sym sym_eqb SContent SList SRule sym_eqb_spec). Qed.

Theorem coarse_clean_crash_point_sym : forall (w : world sym) goal pre suf,
  coarse_inv_sym w ->
  clean_acts_sym w RULES_PATH goal = pre ++ suf ->
  pre_inv_sym (run_acts_sym pre w).
Proof. exact (coarse_clean_crash_point sym sym_eqb SContent SRule sym_eqb_spec). Qed.

Theorem coarse_crash_then_tick_sym : forall (w : world sym) goal pre suf,
  coarse_inv_sym w -> build_confined sym w goal ->
  build_acts_sym w RULES_PATH goal = pre ++ suf ->
  coarse_inv_sym (tick (run_acts_sym pre w)).
Proof. exact (coarse_crash_then_tick sym sym_eqb SContent SList SRule sym_eqb_spec). Qed.

Theorem coarse_clean_crash_then_tick_sym : forall (w : world sym) goal pre suf,
  coarse_inv_sym w ->
  clean_acts_sym w RULES_PATH goal = pre ++ suf ->
  coarse_inv_sym (tick (run_acts_sym pre w)).
Proof. exact (coarse_clean_crash_then_tick sym sym_eqb SContent SRule sym_eqb_spec). Qed.

Theorem coarse_crash_cache_addressed_sym : forall (w : world sym) goal pre suf,
  coarse_inv_sym w -> build_confined sym w goal ->
  build_acts_sym w RULES_PATH goal = pre ++ suf ->
  cache_addressed sym_eqb SContent (run_acts_sym pre w).
Proof. exact (coarse_crash_cache_addressed sym sym_eqb SContent SList SRule sym_eqb_spec). Qed.

Theorem coarse_clean_crash_cache_addressed_sym : forall (w : world sym) goal pre suf,
  coarse_inv_sym w ->
  clean_acts_sym w RULES_PATH goal = pre ++ suf ->
  cache_addressed sym_eqb SContent (run_acts_sym pre w).
Proof. exact (coarse_clean_crash_cache_addressed sym sym_eqb SContent SRule sym_eqb_spec). Qed.

Theorem coarse_crash_next_build_table_irrelevant_sym : forall (w : world sym) goal pre suf goal',
  coarse_inv_sym w -> build_confined sym w goal ->
  build_acts_sym w RULES_PATH goal = pre ++ suf ->
  let wc := tick (run_acts_sym pre w) in
  build_confined sym wc goal' ->
  let o1 := build_sym wc RULES_PATH goal' in
  let o2 := build_sym (erase_table sym wc) RULES_PATH goal' in
  o_verdict o1 = o_verdict o2 /\ w_files (o_world o1) = w_files (o_world o2) /\
  rd_cache (w_rd (o_world o1)) = rd_cache (w_rd (o_world o2)) /\
  rd_hist (w_rd (o_world o1)) = rd_hist (w_rd (o_world o2)) /\
  o_commands o1 = o_commands o2 /\ o_status o1 = o_status o2.
Proof. exact (coarse_crash_next_build_table_irrelevant sym sym_eqb SContent SList SRule sym_eqb_spec). Qed.

Theorem coarse_clean_crash_next_build_table_irrelevant_sym : forall (w : world sym) goal pre suf goal',
  coarse_inv_sym w ->
  clean_acts_sym w RULES_PATH goal = pre ++ suf ->
  let wc := tick (run_acts_sym pre w) in
  build_confined sym wc goal' ->
  let o1 := build_sym wc RULES_PATH goal' in
  let o2 := build_sym (erase_table sym wc) RULES_PATH goal' in
  o_verdict o1 = o_verdict o2 /\ w_files (o_world o1) = w_files (o_world o2) /\
  rd_cache (w_rd (o_world o1)) = rd_cache (w_rd (o_world o2)) /\
  rd_hist (w_rd (o_world o1)) = rd_hist (w_rd (o_world o2)) /\
  o_commands o1 = o_commands o2 /\ o_status o1 = o_status o2.
Proof. exact (coarse_clean_crash_next_build_table_irrelevant sym sym_eqb SContent SList SRule sym_eqb_spec). Qed.

Theorem coarse_crash_history_goes_on_sym : forall (w : world sym) goal pre suf (ops : list (op sym)),
  coarse_inv_sym w -> build_confined sym w goal ->
  build_acts_sym w RULES_PATH goal = pre ++ suf ->
  let wc := tick (run_acts_sym pre w) in
  confined_history_sym wc ops ->
  coarse_inv_sym (run_sym ops wc).
Proof. exact (coarse_crash_history_goes_on sym sym_eqb SContent SList SRule sym_eqb_spec). Qed.

Theorem coarse_clean_crash_history_goes_on_sym : forall (w : world sym) goal pre suf (ops : list (op sym)),
  coarse_inv_sym w ->
  clean_acts_sym w RULES_PATH goal = pre ++ suf ->
  let wc := tick (run_acts_sym pre w) in
  confined_history_sym wc ops ->
  coarse_inv_sym (run_sym ops wc).
Proof. exact (coarse_clean_crash_history_goes_on sym sym_eqb SContent SList SRule sym_eqb_spec). Qed.

Theorem coarse_inv_every_history_with_kills_sym : forall mode t0 (kops : list (kop sym)),
  confined_khistory_sym (init_world mode t0) kops ->
  coarse_inv_sym (fold_left apply_kop_sym kops (init_world mode t0)).
Proof. exact (coarse_inv_every_history_with_kills sym sym_eqb SContent SList SRule sym_eqb_spec). Qed.

Theorem c18_every_history_with_kills_sym : forall mode t0 (kops : list (kop sym)) goal,
  confined_khistory_sym (init_world mode t0) kops ->
  build_confined sym (fold_left apply_kop_sym kops (init_world mode t0)) goal ->
  let w := fold_left apply_kop_sym kops (init_world mode t0) in
  let o1 := build_sym w RULES_PATH goal in
  let o2 := build_sym (erase_table sym w) RULES_PATH goal in
  o_verdict o1 = o_verdict o2 /\ w_files (o_world o1) = w_files (o_world o2) /\
  rd_cache (w_rd (o_world o1)) = rd_cache (w_rd (o_world o2)) /\
  rd_hist (w_rd (o_world o1)) = rd_hist (w_rd (o_world o2)) /\
  o_commands o1 = o_commands o2 /\ o_status o1 = o_status o2.
Proof. exact (c18_every_history_with_kills sym sym_eqb SContent SList SRule sym_eqb_spec). Qed.

Theorem coarse_crash_point_after_kills_sym : forall mode t0 (kops : list (kop sym)) goal k,
  confined_khistory_sym (init_world mode t0) kops ->
  build_confined sym (fold_left apply_kop_sym kops (init_world mode t0)) goal ->
  let w := fold_left apply_kop_sym kops (init_world mode t0) in
  pre_inv_sym (run_acts_sym (firstn k (build_acts_sym w RULES_PATH goal)) w).
Proof. exact (coarse_crash_point_after_kills sym sym_eqb SContent SList SRule sym_eqb_spec). Qed.

(* ================================================================== *)
(* ==== Q7: non-vacuity, and the necessity of the repair of F6 ==== *)
(* ================================================================== *)

(* the action list as it was before the repair: the first AWriteTable (the early one: the init actions write no
   table, F6Facts.init_acts_no_write) is dropped; the workers never read the table file, so nothing else changes *)
Section LegacyActs.
  Variable T : Type.
  Variable teqb : T -> T -> bool.
  Variable hc : bytes -> T.
  Variable hl : list T -> T.
  Variable hr : rule -> T.

  Fixpoint drop_early_write (l : list (act T)) : list (act T) :=
    match l with
    | [] => []
    | AWriteTable _ :: rest => rest
    | a :: rest => a :: drop_early_write rest
    end.

  Definition build_acts_legacy (w : world T) (rp : bytes) (goal : option bytes) : list (act T) :=
    drop_early_write (build_acts teqb hc hl hr w rp goal).
End LegacyActs.

Notation build_acts_legacy_sym := (build_acts_legacy sym sym_eqb SContent SList SRule).

Definition cc_p : bytes := [112].          (* p *)
Definition cc_q : bytes := [113].          (* q *)
Definition cc_rp : bytes := [114; 112].    (* rp *)
Definition cc_rq : bytes := [114; 113].    (* rq *)

Lemma sw_build_confined_none : build_confined sym sw_w None.
Proof. exact sw_build_confined. Qed.

Lemma sw_build_confined_rq : build_confined sym sw_w (Some cc_rq).
Proof. apply build_confinedb_sound. vm_compute. reflexivity. Qed.

Notation cc_acts := (build_acts_sym sw_w RULES_PATH None).
(* killed right after the restore into q *)
Notation cc_wc := (run_acts_sym (firstn 5 cc_acts) sw_w).

Definition is_restore (a : act sym) : bool := match a with ARestore _ _ => true | _ => false end.

(* the clock is coarse, sw_w satisfies coarse_inv (sw_inv), the fifth action of the third build restores the file
   filed under the hash of "Y" into q; that file is the one the second build wrote at p, and it carries the very
   time q's entry in the table the build STARTED from remembers -- for "X" *)
Example cc_scenario :
  w_mode sw_w = Coarse /\
  nth_error cc_acts 4 = Some (ARestore (SContent [89]) cc_q) /\
  existsb is_restore (firstn 5 cc_acts) = true /\
  fget cc_wc cc_q = fget sw_w cc_p /\
  content_at sw_w cc_q = Some [88] /\ content_at cc_wc cc_q = Some [89] /\
  mtime_at cc_wc cc_q = Some 6001 /\
  match rd_table (w_rd sw_w) with
  | Some (SF_ok tbl) => alookup bytes_eqb tbl cc_q = Some (mk_fstate (SContent [88]) 6001 false)
  | _ => False
  end /\
  (* the table on disk at the crash point does not mention q *)
  rd_table (w_rd cc_wc) = Some (SF_ok []).
Proof. vm_compute. repeat split. Qed.

(* Q1 applies *)
Example cc_pre_inv_at_restore : pre_inv_sym cc_wc.
Proof.
  apply (coarse_build_crash_point_sym sw_w None (firstn 5 cc_acts) (skipn 5 cc_acts)).
  - exact sw_inv.
  - exact sw_build_confined_none.
  - symmetry. apply firstn_skipn.
Qed.

Example cc_coarse_inv_after_tick : coarse_inv_sym (tick cc_wc).
Proof.
  apply (coarse_crash_then_tick_sym sw_w None (firstn 5 cc_acts) (skipn 5 cc_acts));
    [exact sw_inv | exact sw_build_confined_none | symmetry; apply firstn_skipn].
Qed.

(* every crash point of that build, and of a clean *)
Example cc_every_crash_point : forall k, pre_inv_sym (run_acts_sym (firstn k cc_acts) sw_w).
Proof.
  intro k. apply (coarse_build_crash_point_sym sw_w None (firstn k cc_acts) (skipn k cc_acts));
    [exact sw_inv | exact sw_build_confined_none | symmetry; apply firstn_skipn].
Qed.

Example cc_every_clean_crash_point : forall k,
  pre_inv_sym (run_acts_sym (firstn k (clean_acts_sym sw_w RULES_PATH None)) sw_w) /\
  (4 <= length (clean_acts_sym sw_w RULES_PATH None))%nat.
Proof.
  intro k. split; [|vm_compute; lia].
  apply (coarse_clean_crash_point_sym sw_w None (firstn k (clean_acts_sym sw_w RULES_PATH None))
           (skipn k (clean_acts_sym sw_w RULES_PATH None))); [exact sw_inv | symmetry; apply firstn_skipn].
Qed.

(* the next build after the kill: the saved table is irrelevant (Q4b), and the build ends well *)
Lemma cc_next_confined : build_confined sym (tick cc_wc) None.
Proof. apply build_confinedb_sound. vm_compute. reflexivity. Qed.

Example cc_next_build :
  let o1 := build_sym (tick cc_wc) RULES_PATH None in
  let o2 := build_sym (erase_table sym (tick cc_wc)) RULES_PATH None in
  o_verdict o1 = o_verdict o2 /\ w_files (o_world o1) = w_files (o_world o2) /\
  rd_cache (w_rd (o_world o1)) = rd_cache (w_rd (o_world o2)) /\
  rd_hist (w_rd (o_world o1)) = rd_hist (w_rd (o_world o2)) /\
  o_commands o1 = o_commands o2 /\ o_status o1 = o_status o2.
Proof.
  exact (coarse_crash_next_build_table_irrelevant_sym sw_w None (firstn 5 cc_acts) (skipn 5 cc_acts) None
           sw_inv sw_build_confined_none (eq_sym (firstn_skipn 5 cc_acts)) cc_next_confined).
Qed.

Example cc_next_build_values :
  let o1 := build_sym (tick cc_wc) RULES_PATH None in
  o_verdict o1 = VOk /\
  content_at (o_world o1) cc_p = Some [88] /\ content_at (o_world o1) cc_q = Some [89] /\
  content_at (o_world o1) cc_rp = Some [88] /\ content_at (o_world o1) cc_rq = Some [89].
Proof. vm_compute. repeat split. Qed.

(* a crash point at which the table on disk is NOT empty: the build of the goal rq leaves the entries of s1, p, rp
   on disk while q is restored *)
Notation cc_acts_rq := (build_acts_sym sw_w RULES_PATH (Some cc_rq)).
Notation cc_wc_rq := (run_acts_sym (firstn 3 cc_acts_rq) sw_w).

Example cc_scenario_rq :
  nth_error cc_acts_rq 2 = Some (ARestore (SContent [89]) cc_q) /\
  content_at cc_wc_rq cc_q = Some [89] /\
  match rd_table (w_rd cc_wc_rq) with
  | Some (SF_ok tbl) => length tbl = 3%nat /\ alookup bytes_eqb tbl cc_q = None /\ alookup bytes_eqb tbl cc_p <> None
  | _ => False
  end.
Proof. vm_compute. repeat split. discriminate. Qed.

Example cc_pre_inv_rq : pre_inv_sym cc_wc_rq.
Proof.
  apply (coarse_build_crash_point_sym sw_w (Some cc_rq) (firstn 3 cc_acts_rq) (skipn 3 cc_acts_rq));
    [exact sw_inv | exact sw_build_confined_rq | symmetry; apply firstn_skipn].
Qed.

(* a history with two kills (a build killed after the restore into q, then a clean killed after two actions) *)
Definition cc_kops : list (kop sym) :=
  map KOp sw_ops ++ [KBuildKilled None 5; KCleanKilled None 2; KOp (OBuild None)].

Lemma cc_kops_confined : confined_khistory_sym (init_world Coarse 1) cc_kops.
Proof.
  unfold cc_kops, sw_ops, sw_ops2, sw_ops1, sw_ops0.
  cbn [app map confined_khistory kop_confined CoarseBuildProofs.op_confined safe_op].
  repeat (split; [split; exact I|]).
  split; [split; [exact I | apply build_confinedb_sound; vm_compute; reflexivity]|].
  repeat (split; [split; exact I|]).
  split; [split; [exact I | apply build_confinedb_sound; vm_compute; reflexivity]|].
  repeat (split; [split; exact I|]).
  split; [apply build_confinedb_sound; vm_compute; reflexivity|].
  split; [exact I|].
  split; [split; [exact I | apply build_confinedb_sound; vm_compute; reflexivity]|].
  exact I.
Qed.

Example cc_kops_inv : coarse_inv_sym (fold_left apply_kop_sym cc_kops (init_world Coarse 1)).
Proof. apply coarse_inv_every_history_with_kills_sym. exact cc_kops_confined. Qed.

Example cc_kops_values :
  let w := fold_left apply_kop_sym cc_kops (init_world Coarse 1) in
  content_at w cc_p = Some [88] /\ content_at w cc_q = Some [89] /\
  content_at w cc_rp = Some [88] /\ content_at w cc_rq = Some [89].
Proof. vm_compute. repeat split. Qed.

(* ---------- the same kill WITHOUT the early write of the table ---------- *)

Notation cc_acts_legacy := (build_acts_legacy_sym sw_w RULES_PATH None).
(* the same point: right after the restore into q (one action fewer before it) *)
Notation cc_wl := (run_acts_sym (firstn 4 cc_acts_legacy) sw_w).

Example cc_legacy_list :
  cc_acts_legacy = tl cc_acts /\ (length cc_acts_legacy = 13)%nat /\
  nth_error cc_acts_legacy 3 = Some (ARestore (SContent [89]) cc_q) /\
  (* the files, the cache and the history files at the crash point are those of the repaired build *)
  w_files cc_wl = w_files cc_wc /\ rd_cache (w_rd cc_wl) = rd_cache (w_rd cc_wc) /\
  rd_hist (w_rd cc_wl) = rd_hist (w_rd cc_wc) /\
  (* the table on disk is the one the build started from *)
  rd_table (w_rd cc_wl) = rd_table (w_rd sw_w) /\
  (* and the complete legacy list ends where the build ends *)
  run_acts_sym cc_acts_legacy sw_w = o_world (build_sym sw_w RULES_PATH None).
Proof. vm_compute. repeat split. Qed.

(* q's entry (the hash of "X", time 6001) accepts the file that is now at q ("Y", time 6001) *)
Lemma cc_legacy_unsound :
  exists tbl st f,
    rd_table (w_rd cc_wl) = Some (SF_ok tbl) /\ alookup bytes_eqb tbl cc_q = Some st /\
    fget cc_wl cc_q = Some f /\ shortcut sym_eqb SContent f st = true /\
    fs_t st = SContent [88] /\ f_content f = [89].
Proof. eexists _, _, _. vm_compute. repeat split. Qed.

Theorem cc_legacy_not_pre_inv : ~ pre_inv_sym cc_wl.
Proof.
  intros [_ Ht]. destruct cc_legacy_unsound as (tbl & st & f & Htb & Hl & Hf & Hsc & Hst & Hc).
  destruct (Ht tbl Htb cc_q st Hl) as [Hok _]. pose proof (Hok f Hf Hsc) as H. rewrite Hst, Hc in H. discriminate.
Qed.

Lemma table_sound_at_tick (w : world sym) :
  table_sound_at sym_eqb SContent (tick w) ->
  forall tbl p st, rd_table (w_rd w) = Some (SF_ok tbl) -> alookup bytes_eqb tbl p = Some st ->
                   state_ok_at sym_eqb SContent w p st.
Proof. intros H tbl p st Htb Hl. exact (H tbl p st Htb Hl). Qed.

Theorem cc_legacy_not_table_sound : ~ table_sound_at sym_eqb SContent (tick cc_wl).
Proof.
  intro Hs. destruct cc_legacy_unsound as (tbl & st & f & Htb & Hl & Hf & Hsc & Hst & Hc).
  pose proof (table_sound_at_tick _ Hs tbl cc_q st Htb Hl f Hf Hsc) as H. rewrite Hst, Hc in H. discriminate.
Qed.

Theorem cc_legacy_not_coarse_inv : ~ coarse_inv_sym (tick cc_wl).
Proof. intros (_ & Hs & _). exact (cc_legacy_not_table_sound Hs). Qed.

(* Q1 is false for the action list without the early write *)
Theorem coarse_build_crash_point_legacy_refuted :
  ~ (forall (w : world sym) goal pre suf,
       coarse_inv_sym w -> build_confined sym w goal ->
       build_acts_legacy_sym w RULES_PATH goal = pre ++ suf ->
       pre_inv_sym (run_acts_sym pre w)).
Proof.
  intro H. apply cc_legacy_not_pre_inv.
  apply (H sw_w None (firstn 4 cc_acts_legacy) (skipn 4 cc_acts_legacy));
    [exact sw_inv | exact sw_build_confined_none | symmetry; apply firstn_skipn].
Qed.

(* what F6 did: the next build trusts q's entry, takes q ("Y") for "X", files it under the hash of "X", and then
   recovers that file into rp, whose source p is "X": rp ends as "Y", the verdict is Ok.  With the table erased the
   same build gives rp = "X". *)
Example cc_legacy_next_build_wrong :
  let o1 := build_sym (tick cc_wl) RULES_PATH None in
  let o2 := build_sym (erase_table sym (tick cc_wl)) RULES_PATH None in
  o_verdict o1 = VOk /\ o_verdict o2 = VOk /\
  content_at (o_world o1) cc_p = Some [88] /\ content_at (o_world o1) cc_rp = Some [89] /\
  content_at (o_world o2) cc_p = Some [88] /\ content_at (o_world o2) cc_rp = Some [88] /\
  In (BRecovered, cc_rp) (o_status o1).
Proof. vm_compute. repeat split. auto. Qed.
