(* Non-vacuity: the build-level facts of BuildFacts.v on the executable instance (SHA-256 tickets). *)
From Coq Require Import String.
From Ruler Require Import Tactics Bytes AList RuleSyntax TopoSort World Cmdlang Work Build Ops BuildSpec
     Show Concrete BytesFacts BuildFacts.
Local Open Scope list_scope.
Local Open Scope nat_scope.

(* two rules: out1 from src, out2 from out1; "other" is a file no rule mentions *)
Definition rules_text : bytes :=
  join_with [NL] [lit "out1"; lit ":"; lit "src"; lit ":"; lit "gen out1 @src =-one"; lit ":"; lit "";
                  lit "out2"; lit ":"; lit "out1"; lit ":"; lit "gen out2 @out1 =-two"; lit ":"; lit ""].

Fixpoint run_ops (w : cworld) (ops : list cop) : cworld * list (option (outcome cticket)) :=
  match ops with
  | [] => (w, [])
  | o :: r => let (w', oc) := c_apply w o in let (w'', ocs) := run_ops w' r in (w'', oc :: ocs)
  end.

Definition after (w : cworld) (ops : list cop) : cworld := fst (run_ops w ops).

Definition w0 : cworld :=
  after (init_world Fine 0)
        [OWrite (lit "src") (lit "hello"); OWrite (lit "other") (lit "keep"); OWrite RULES_PATH rules_text].

Definition c_build (w : cworld) := build c_teqb c_hc c_hl c_hr w RULES_PATH None.
Definition c_clean (w : cworld) := clean c_teqb c_hc w RULES_PATH None.
Definition content_at (w : cworld) (p : string) : option bytes := option_map f_content (fget w (lit p)).
Definition cache_size (w : cworld) : option nat := option_map (@length _) (cache_of w).

(* first build: both commands run, once each, in plan order; two "Built" lines *)
Example ex_build_first :
  let o := c_build w0 in
  o_verdict o = VOk /\
  o_commands o = [lit "gen out1 @src =-one"; lit "gen out2 @out1 =-two"] /\
  o_status o = [(BBuilt, lit "out1"); (BBuilt, lit "out2")] /\
  content_at (o_world o) "out1" = Some (lit "hello-one") /\
  content_at (o_world o) "out2" = Some (lit "hello-one-two") /\
  fget (o_world o) (lit "other") = fget w0 (lit "other").
Proof. vm_compute. repeat split. Qed.

Definition w1 : cworld := after w0 [OBuild None].

(* clean: no command, the targets are gone and sit in the cache, everything else is as it was *)
Example ex_clean :
  let o := c_clean w1 in
  o_verdict o = VOk /\ o_commands o = [] /\ o_status o = [] /\
  fget (o_world o) (lit "out1") = None /\ fget (o_world o) (lit "out2") = None /\
  cache_size w1 = Some 0 /\ cache_size (o_world o) = Some 2 /\
  fget (o_world o) (lit "other") = fget w1 (lit "other") /\
  fget (o_world o) (lit "src") = fget w1 (lit "src").
Proof. vm_compute. repeat split. Qed.

Definition w2 : cworld := after w1 [OClean None].

(* build after clean: nothing runs, both targets come back from the cache *)
Example ex_build_after_clean :
  let o := c_build w2 in
  o_verdict o = VOk /\ o_commands o = [] /\
  o_status o = [(BRecovered, lit "out1"); (BRecovered, lit "out2")] /\
  fget (o_world o) (lit "out1") = fget w1 (lit "out1") /\
  fget (o_world o) (lit "out2") = fget w1 (lit "out2") /\
  cache_size (o_world o) = Some 0.
Proof. vm_compute. repeat split. Qed.

Definition w3 : cworld := after w2 [OBuild None].

(* and once more: up to date *)
Example ex_build_noop :
  let o := c_build w3 in
  o_verdict o = VOk /\ o_commands o = [] /\
  o_status o = [(BUpToDate, lit "out1"); (BUpToDate, lit "out2")] /\
  w_files (o_world o) = w_files w3.
Proof. vm_compute. repeat split. Qed.

(* editing the source: out1's command runs, and then out2's *)
Example ex_build_after_edit :
  let o := c_build (after w3 [OWrite (lit "src") (lit "bye")]) in
  o_verdict o = VOk /\
  o_commands o = [lit "gen out1 @src =-one"; lit "gen out2 @out1 =-two"] /\
  o_status o = [(BBuilt, lit "out1"); (BBuilt, lit "out2")] /\
  content_at (o_world o) "out2" = Some (lit "bye-one-two").
Proof. vm_compute. repeat split. Qed.

(* ---- the hypotheses of the general theorems are satisfiable: they hold here ---- *)

Definition plan0 : node_pack :=
  match init_dir cticket w0 with
  | Ok (w, _) => match get_nodes cticket w RULES_PATH None with Ok p => p | Err _ => mk_pack [] [] end
  | Err _ => mk_pack [] []
  end.

Example ex_plan0 :
  map n_targets (p_nodes plan0) = [[lit "out1"]; [lit "out2"]] /\ p_leaves plan0 = [lit "src"] /\
  forallb node_confinedb (p_nodes plan0) = true.
Proof. vm_compute. repeat split. Qed.

Example ex_plan0_targets : plan_targets plan0 = [lit "out1"; lit "out2"].
Proof. vm_compute. reflexivity. Qed.

Example ex_build_frame_applies : forall p,
  p <> lit "out1" -> p <> lit "out2" -> fget (o_world (c_build w0)) p = fget w0 p.
Proof.
  intros p H1 H2.
  destruct (init_dir cticket w0) as [[wi ti]|f] eqn:Hi; [|vm_compute in Hi; discriminate].
  destruct (get_nodes cticket wi RULES_PATH None) as [pack|f] eqn:Hg.
  2:{ vm_compute in Hi. injection Hi as <- <-. vm_compute in Hg. discriminate. }
  assert (pack = plan0) as Hp.
  { unfold plan0. rewrite Hi, Hg. reflexivity. }
  apply (build_frame cticket c_teqb c_hc c_hl c_hr w0 RULES_PATH None wi ti pack p Hi Hg).
  - rewrite Hp. apply nodes_confinedb_sound. vm_compute. reflexivity.
  - rewrite Hp, ex_plan0_targets. intros [E|[E|[]]]; [apply H1 | apply H2]; symmetry; exact E.
Qed.

Example ex_clean_removes_applies : forall p,
  In p [lit "out1"; lit "out2"] -> fget (o_world (c_clean w1)) p = None.
Proof.
  intros p Hp.
  destruct (init_dir cticket w1) as [[wi ti]|f] eqn:Hi; [|vm_compute in Hi; discriminate].
  destruct (get_nodes cticket wi RULES_PATH None) as [pack|f] eqn:Hg.
  2:{ vm_compute in Hi. injection Hi as <- <-. vm_compute in Hg. discriminate. }
  apply (clean_removes_all_targets cticket c_teqb c_hc w1 RULES_PATH None wi ti pack Hi Hg).
  - vm_compute. reflexivity.
  - vm_compute in Hi. injection Hi as <- <-. vm_compute in Hg. injection Hg as <-. exact Hp.
Qed.

(* ---- contradiction (C17): a command reading a file that is not among its sources ---- *)

Definition rules_hidden : bytes :=
  join_with [NL] [lit "out"; lit ":"; lit "src"; lit ":"; lit "gen out @src @hidden"; lit ":"; lit ""].

Definition v0 : cworld :=
  after (init_world Fine 0)
        [OWrite (lit "src") (lit "a"); OWrite (lit "hidden") (lit "1"); OWrite RULES_PATH rules_hidden;
         OBuild None;
         (* same sources, but the command would now produce something else; the target is lost *)
         OWrite (lit "hidden") (lit "2"); ORemove (lit "out")].

Example ex_contradiction :
  let o := c_build v0 in
  o_verdict o = VWorkErrors [WContradiction [lit "out"]] /\
  o_commands o = [lit "gen out @src @hidden"] /\
  o_status o = [] /\
  (* the rule's history file is what it was *)
  rd_hist (w_rd (o_world o)) = rd_hist (w_rd v0).
Proof. vm_compute. repeat split. Qed.

(* history_insert on its own *)
Example ex_history_insert :
  let st (t : N) := @mk_fstate cticket [t] 0 false in
  let h : World.history cticket := [([7%N], [st 1%N; st 2%N; st 3%N])] in
  history_insert c_teqb h [7%N] [[1%N]; [9%N]; [8%N]] [lit "a"; lit "b"; lit "c"]
    = Err (WContradiction [lit "b"; lit "c"]) /\
  history_insert c_teqb h [7%N] [[1%N]; [2%N]; [3%N]] [lit "a"; lit "b"; lit "c"] = Ok h /\
  history_insert c_teqb h [5%N] [[4%N]] [lit "a"] = Ok (h ++ [([5%N], [st 4%N])]).
Proof. vm_compute. repeat split. Qed.

(* the build-level theorem applies to that run: no history file at all was touched *)
Example ex_history_unchanged_applies : forall k,
  hist_at cticket c_teqb (o_world (c_build v0)) k = hist_at cticket c_teqb v0 k.
Proof.
  intro k.
  destruct (init_dir cticket v0) as [[wi ti]|f] eqn:Hi; [|vm_compute in Hi; discriminate].
  destruct (get_nodes cticket wi RULES_PATH None) as [pack|f] eqn:Hg.
  2:{ vm_compute in Hi. injection Hi as <- <-. vm_compute in Hg. discriminate. }
  apply (build_failed_rule_history_unchanged cticket c_teqb c_hc c_hl c_hr bytes_eqb_eq
           v0 RULES_PATH None wi ti pack k Hi Hg).
  destruct (run_nodes cticket c_teqb c_hc c_hl c_hr (st_leaves cticket c_teqb c_hc wi ti pack) (p_nodes pack))
    as [st2|] eqn:ER; [|exact I].
  vm_compute in Hi. injection Hi as <- <-. vm_compute in Hg. injection Hg as <-.
  vm_compute in ER. injection ER as <-. cbn [rs_results].
  intros r wr [E|[E|[]]]; discriminate E.
Qed.
