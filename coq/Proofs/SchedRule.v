(* SCHED, part 3: one rule thread under a sound history, completely: with an entry for the sources the thread
   succeeds (no Contradiction / Weird / missing-cache error can arise); with no entry its result and the
   files it leaves are those of the command run from absent targets, a function of the sources alone. *)
From Coq Require Import Relations.Relation_Operators Relations.Operators_Properties.
From Ruler Require Import Tactics Bytes AList RuleSyntax TopoSort World Cmdlang Work Build Ops Inv
     BuildSpec Ideal Sched BytesFacts InvFacts BuildFacts C01Script C01Hist C01Build C01Plan C04Facts SchedBasic.
Local Open Scope nat_scope.

Section Rule.
  Variable T : Type.
  Variable teqb : T -> T -> bool.
  Variable hc : bytes -> T.
  Variable hl : list T -> T.
  Hypothesis teqb_spec : forall a b, teqb a b = true <-> a = b.
  Hypothesis hc_inj : forall a b, hc a = hc b -> a = b.
  Hypothesis hl_inj : forall a b, hl a = hl b -> a = b.

  Notation world := (world T).
  Notation fstate := (fstate T).
  Notation state_ok := (state_ok teqb hc).
  Notation disk_inv := (disk_inv teqb hc).
  Notation steps := (clos_refl_trans world (step teqb hc)).
  Notation blob_ok := (InvProofs.blob_ok T teqb hc).
  Notation has_hash := (has_hash T hc).
  Notation src_contents := (src_contents T).
  Notation hist_ok := (hist_ok T teqb hc hl).

  (* ================================================================== *)
  (* the cache directory stays                                            *)
  (* ================================================================== *)

  Lemma cache_set_cache (w : world) c : cache_of (set_cache w c) <> None.
  Proof. unfold cache_of, set_cache. cbn. discriminate. Qed.

  Lemma back_up_cache (w : world) t p w' : back_up teqb w t p = Some w' -> cache_of w' <> None.
  Proof. intro H. apply InvProofs.back_up_inv in H as (c & f & _ & _ & ->). apply cache_set_cache. Qed.

  Lemma back_up_some (w : world) t p : cache_of w <> None -> fget w p <> None -> back_up teqb w t p <> None.
  Proof. unfold back_up. destruct (cache_of w); destruct (fget w p); congruence. Qed.

  Lemma gft_some_fget (w : world) p a t : get_file_ticket teqb hc w p a = Some t -> fget w p <> None.
  Proof. unfold get_file_ticket. destruct (fget w p); [discriminate | discriminate]. Qed.

  Lemma restore_or_rebuild_total (w : world) t p :
    cache_of w <> None ->
    exists res w', restore_or_rebuild T teqb w t p = Ok (res, w') /\ cache_of w' <> None.
  Proof.
    intro Hc. unfold restore_or_rebuild. destruct (restore teqb w t p) as [w1| |] eqn:Er.
    - exists Recovered, w1. split; [reflexivity|].
      apply InvProofs.restore_inv in Er as (c & f & _ & _ & ->). apply cache_set_cache.
    - exists NeedsRebuild, w. auto.
    - exfalso. unfold restore in Er. destruct (cache_of w) as [c|]; [|congruence].
      destruct (alookup teqb c t); discriminate.
  Qed.

  Lemma resolve_single_total (w : world) rem p a :
    cache_of w <> None ->
    exists res w', resolve_single teqb hc w rem p a = Ok (res, w') /\ cache_of w' <> None.
  Proof.
    intro Hc. unfold resolve_single. destruct (get_file_ticket teqb hc w p a) as [cur|] eqn:Eg.
    - destruct (teqb rem cur); [exists AlreadyCorrect, w; auto|].
      destruct (back_up teqb w cur p) as [w1|] eqn:Eb.
      + apply restore_or_rebuild_total. eapply back_up_cache; eauto.
      + exfalso. apply (back_up_some w cur p Hc); [|exact Eb]. eapply gft_some_fget; eauto.
    - apply restore_or_rebuild_total. exact Hc.
  Qed.

  Lemma resolve_remembered_total b : forall (w : world) rem,
    cache_of w <> None -> length b <= length rem ->
    exists ress w', resolve_remembered teqb hc w b rem = Ok (ress, w') /\ cache_of w' <> None.
  Proof.
    induction b as [|[p a] rest IH]; intros w rem Hc Hlen; cbn [resolve_remembered].
    - exists [], w. auto.
    - destruct rem as [|r rrest]; [cbn in Hlen; lia|]. cbn [length] in Hlen.
      destruct (resolve_single_total w (fs_t r) p a Hc) as (res & w1 & -> & Hc1).
      destruct (IH w1 rrest Hc1 ltac:(lia)) as (ress & w2 & -> & Hc2).
      exists (res :: ress), w2. auto.
  Qed.

  Lemma resolve_fresh_total b : forall (w : world),
    cache_of w <> None ->
    exists ress w', resolve_fresh teqb hc w b = Ok (ress, w') /\ cache_of w' <> None.
  Proof.
    induction b as [|[p a] rest IH]; intros w Hc; cbn [resolve_fresh].
    - exists [], w. auto.
    - destruct (get_file_ticket teqb hc w p a) as [cur|] eqn:Eg.
      + destruct (back_up teqb w cur p) as [w1|] eqn:Eb.
        * destruct (IH w1 (back_up_cache _ _ _ _ Eb)) as (ress & w2 & -> & Hc2). exists (NeedsRebuild :: ress), w2. auto.
        * exfalso. apply (back_up_some w cur p Hc); [|exact Eb]. eapply gft_some_fget; eauto.
      + destruct (IH w Hc) as (ress & w2 & -> & Hc2). exists (NeedsRebuild :: ress), w2. auto.
  Qed.

  Lemma run_script_cache (w : world) script : cache_of (snd (run_script w script)) = cache_of w.
  Proof. unfold cache_of. rewrite run_script_rd. reflexivity. Qed.

  (* ================================================================== *)
  (* which target is reported missing                                     *)
  (* ================================================================== *)

  Fixpoint first_missing (w : world) (ps : list bytes) : option bytes :=
    match ps with
    | [] => None
    | p :: r => match content_at w p with None => Some p | Some _ => first_missing w r end
    end.

  Lemma first_missing_ext (w w' : world) ps :
    (forall p, In p ps -> content_at w p = content_at w' p) -> first_missing w ps = first_missing w' ps.
  Proof.
    induction ps as [|p r IH]; intro H; cbn [first_missing]; [reflexivity|].
    rewrite (H p (or_introl eq_refl)). rewrite IH; [reflexivity|]. intros q Hq. apply H. right. exact Hq.
  Qed.

  Lemma first_missing_some (w : world) ps p : first_missing w ps = Some p -> In p ps /\ content_at w p = None.
  Proof.
    induction ps as [|q r IH]; cbn [first_missing]; [discriminate|].
    destruct (content_at w q) eqn:E.
    - intro H. destruct (IH H). split; [right|]; assumption.
    - intro H. injection H as <-. split; [left; reflexivity | exact E].
  Qed.

  Lemma first_missing_none (w : world) ps : first_missing w ps = None -> forall p, In p ps -> content_at w p <> None.
  Proof.
    induction ps as [|q r IH]; cbn [first_missing]; [intros _ p []|].
    destruct (content_at w q) eqn:E; [|discriminate].
    intros H p [<- | Hp]; [congruence | apply IH; assumption].
  Qed.

  Lemma first_missing_present (w : world) ps : (forall p, In p ps -> content_at w p <> None) -> first_missing w ps = None.
  Proof.
    intro H. destruct (first_missing w ps) as [p|] eqn:E; [|reflexivity].
    apply first_missing_some in E as [Hin Hn]. exfalso. apply (H p Hin). exact Hn.
  Qed.

  Lemma update_blob_missing b : forall (w : world),
    match update_blob teqb hc w b with
    | Ok _ => first_missing w (map fst b) = None
    | Err p => first_missing w (map fst b) = Some p
    end.
  Proof.
    induction b as [|[p a] rest IH]; intros w; cbn [update_blob map fst first_missing]; [reflexivity|].
    unfold get_actual_file_state, content_at. destruct (fget w p) as [f|]; cbn [option_map]; [|reflexivity].
    specialize (IH w). destruct (update_blob teqb hc w rest); exact IH.
  Qed.

  Lemma current_tickets_missing b : forall (w : world),
    match current_tickets teqb hc w b with
    | Ok _ => first_missing w (map fst b) = None
    | Err p => first_missing w (map fst b) = Some p
    end.
  Proof.
    induction b as [|[p a] rest IH]; intros w; cbn [current_tickets map fst first_missing]; [reflexivity|].
    unfold get_file_ticket, content_at. destruct (fget w p) as [f|]; cbn [option_map]; [|reflexivity].
    destruct (shortcut teqb hc f a); specialize (IH w); destruct (current_tickets teqb hc w rest); exact IH.
  Qed.

  (* ================================================================== *)
  (* hashes                                                               *)
  (* ================================================================== *)

  Lemma has_hash_fun (w : world) p a b : has_hash w p a -> has_hash w p b -> a = b.
  Proof. intros (c & Hc & ->) (c' & Hc' & ->). congruence. Qed.

  Lemma has_hash_present (w : world) p a : has_hash w p a -> content_at w p <> None.
  Proof. intros (c & Hc & _). congruence. Qed.

  Lemma hashes_agree (w : world) ts : forall (os : list fstate) tks,
    Forall2 (fun t o => has_hash w t (fs_t o)) ts os -> Forall2 (has_hash w) ts tks -> map fs_t os = tks.
  Proof.
    induction ts as [|t ts IH]; intros os tks H1 H2; inversion H1; inversion H2; subst; [reflexivity|].
    cbn [map]. f_equal; [eapply has_hash_fun; eauto | apply IH; assumption].
  Qed.

  (* the tickets of present files, as a function of the world *)
  Definition hashes (S : world) (ps : list bytes) : list T :=
    map (fun p => match content_at S p with Some c => hc c | None => hc [] end) ps.

  Lemma hashes_of_has_hash (w' S : world) ts : forall tks,
    Forall2 (has_hash w') ts tks -> (forall t, In t ts -> content_at w' t = content_at S t) -> tks = hashes S ts.
  Proof.
    induction ts as [|t ts IH]; intros tks H E; inversion H as [|? tk ? tks' (c & Hc & ->) Hrest]; subst; [reflexivity|].
    cbn [hashes map]. f_equal.
    - rewrite <- (E t (or_introl eq_refl)), Hc. reflexivity.
    - apply IH; [exact Hrest|]. intros q Hq. apply E. right. exact Hq.
  Qed.

  Lemma hashes_ext (S S' : world) ps : (forall p, In p ps -> content_at S p = content_at S' p) -> hashes S ps = hashes S' ps.
  Proof. intro H. unfold hashes. apply map_ext_in. intros p Hp. rewrite (H p Hp). reflexivity. Qed.

  (* ================================================================== *)
  (* one rule thread, every outcome                                       *)
  (* ================================================================== *)

  Section Thread.
    Variable w : world.
    Variable b : list (bytes * fstate).
    Variable h : history T.
    Variable cs : list bytes.
    Variable r : rule.
    Hypothesis Hinv : disk_inv w.
    Hypothesis Hb : blob_ok w b.
    Hypothesis Hfst : map fst b = r_targets r.
    Hypothesis Hnd : NoDup (r_targets r).
    Hypothesis Hdet : det_rule r.
    Hypothesis Hdisj : forall s, In s (r_sources r) -> ~ In s (r_targets r).
    Hypothesis Hsrc : src_contents w (r_sources r) cs.
    Hypothesis Hh : hist_ok r h.
    Hypothesis Hcache : cache_of w <> None.

    Let key := hl (map hc cs).

    Lemma handle_rule_cache res w' script :
      handle_rule teqb hc w b h key (r_command r) = (res, w', script) -> cache_of w' <> None.
    Proof.
      intro H. apply (BuildFacts.handle_rule_cases T teqb hc) in H.
      unfold resolved_of in H.
      assert (forall ress w1, match alookup teqb h key with
                              | Some rem => resolve_remembered teqb hc w b rem
                              | None => resolve_fresh teqb hc w b
                              end = Ok (ress, w1) -> cache_of w1 <> None) as Hc1.
      { intros ress w1. destruct (alookup teqb h key) as [old|] eqn:El.
        - destruct (Hh _ _ El w cs Hsrc eq_refl) as [_ F0]. apply Forall2_len in F0.
          destruct (resolve_remembered_total b w old Hcache) as (ress0 & w0 & -> & Hc0).
          { rewrite <- (map_length fst b), Hfst. lia. }
          intro E. injection E as _ <-. exact Hc0.
        - destruct (resolve_fresh_total b w Hcache) as (ress0 & w0 & -> & Hc0).
          intro E. injection E as _ <-. exact Hc0. }
      destruct (match alookup teqb h key with
                | Some rem => resolve_remembered teqb hc w b rem
                | None => resolve_fresh teqb hc w b
                end) as [[ress w1]|e]; [|destruct H as (_ & -> & _); exact Hcache].
      specialize (Hc1 ress w1 eq_refl). cbv zeta in H. destruct (needs_rebuild ress).
      - destruct H as (-> & -> & _). rewrite run_script_cache. exact Hc1.
      - destruct H as (_ & -> & _). exact Hc1.
    Qed.

    (* an entry for these sources: the thread succeeds *)
    Lemma handle_rule_hit old res w' script :
      alookup teqb h key = Some old ->
      handle_rule teqb hc w b h key (r_command r) = (res, w', script) ->
      exists wr, res = Ok wr.
    Proof.
      intros El Hhr. pose proof (Hh _ _ El) as Htrue.
      destruct (Htrue w cs Hsrc eq_refl) as [_ F0]. pose proof (Forall2_len _ _ _ F0) as Hlen.
      apply (BuildFacts.handle_rule_cases T teqb hc) in Hhr. unfold resolved_of in Hhr. rewrite El in Hhr.
      destruct (resolve_remembered_total b w old Hcache) as (ress & w1 & Er & Hc1).
      { rewrite <- (map_length fst b), Hfst. lia. }
      rewrite Er in Hhr. cbv zeta in Hhr.
      assert (NoDup (map fst b)) as Hnd' by (rewrite Hfst; exact Hnd).
      destruct (resolve_remembered_spec T teqb hc teqb_spec _ _ _ _ _ Hinv Hb Hnd' Er) as (F1 & _ & R).
      rewrite Hfst in F1, R.
      pose proof (InvProofs.resolve_remembered_steps T teqb hc teqb_spec _ _ _ _ _ Hinv Hb Er) as Hs1.
      pose proof (inv_steps T teqb hc teqb_spec _ _ Hinv Hs1) as Hinv1.
      assert (src_contents w1 (r_sources r) cs) as Hsrc1.
      { eapply src_contents_transport; [|exact Hsrc]. intros s Hs. apply F1. apply Hdisj. exact Hs. }
      set (fb := forget_replaced hc b ress) in *.
      assert (map fst fb = r_targets r) as Hfst1 by (unfold fb; rewrite C01Hist.forget_replaced_fst; exact Hfst).
      assert (blob_ok w1 fb) as Hb1.
      { unfold fb. apply InvProofs.forget_replaced_ok; [exact teqb_spec|]. exact (blob_steps T teqb hc teqb_spec _ _ _ Hinv Hs1 Hb). }
      destruct (needs_rebuild ress) eqn:Enr.
      - destruct Hhr as (-> & -> & Hres).
        destruct (Htrue w1 cs Hsrc1 eq_refl) as [Hv F2]. rewrite Hv in Hres.
        set (w2 := snd (run_script w1 (script_lines (r_command r)))) in *.
        assert (steps w1 w2) as Hs2.
        { unfold w2. destruct (run_script w1 (script_lines (r_command r))) as [codes w2'] eqn:Ers.
          exact (InvProofs.run_script_steps T teqb hc _ _ _ _ Ers). }
        pose proof (blob_steps T teqb hc teqb_spec _ _ _ Hinv1 Hs2 Hb1) as Hb2.
        pose proof (update_blob_missing fb w2) as Hm. rewrite Hfst1 in Hm.
        destruct (update_blob teqb hc w2 fb) as [b'|p] eqn:Eu.
        + destruct (update_blob_hash T teqb hc _ _ _ Hb2 Eu) as [_ Hts]. rewrite Hfst1 in Hts.
          pose proof (hashes_agree _ _ _ _ F2 Hts) as Eq.
          unfold history_insert in Hres. rewrite El in Hres.
          assert (Nat.eqb (length old) (length (map (fun e : bytes * fstate => fs_t (snd e)) b')) = true) as Hl2.
          { apply Nat.eqb_eq. rewrite <- Eq, map_length. reflexivity. }
          rewrite Hl2 in Hres. cbn [negb] in Hres. rewrite Eq in Hres.
          rewrite (BuildFacts.differing_indices_refl T teqb teqb_spec) in Hres. eauto.
        + exfalso. apply first_missing_some in Hm as [Hin Hnone].
          destruct (Forall2_in_l _ _ _ _ F2 Hin) as (o & _ & Hp). apply (has_hash_present _ _ _ Hp). exact Hnone.
      - destruct Hhr as (_ & -> & Hres).
        assert (length old = length (r_targets r)) as Hlen' by (symmetry; exact Hlen).
        pose proof (resolved_ok_all T hc _ _ _ _ R Enr Hlen') as F1'.
        pose proof (current_tickets_missing fb w1) as Hm. rewrite Hfst1 in Hm.
        destruct (current_tickets teqb hc w1 fb) as [ts|p]; [eauto|].
        exfalso. apply first_missing_some in Hm as [Hin Hnone].
        destruct (Forall2_in_l _ _ _ _ F1' Hin) as (o & _ & Hp). apply (has_hash_present _ _ _ Hp). exact Hnone.
    Qed.

    (* no entry, and the rule has a target: everything the thread does is what the command does from
       absent targets, in any world S with these sources and the targets absent *)
    Lemma handle_rule_miss res w' script (S : world) :
      alookup teqb h key = None -> r_targets r <> [] ->
      src_contents S (r_sources r) cs -> (forall t, In t (r_targets r) -> content_at S t = None) ->
      handle_rule teqb hc w b h key (r_command r) = (res, w', script) ->
      let codes := fst (run_script S (script_lines (r_command r))) in
      let S' := snd (run_script S (script_lines (r_command r))) in
      (forall t, In t (r_targets r) -> content_at w' t = content_at S' t) /\
      match command_verdict codes with
      | Some e => res = Err e
      | None =>
          match first_missing S' (r_targets r) with
          | Some p => res = Err (WTargetNotGenerated p)
          | None => exists wr, res = Ok wr /\ Forall2 (has_hash w') (r_targets r) (wr_tickets wr)
          end
      end.
    Proof.
      intros El Hne HsrcS HabsS Hhr codes S'.
      apply (BuildFacts.handle_rule_cases T teqb hc) in Hhr. unfold resolved_of in Hhr. rewrite El in Hhr.
      destruct (resolve_fresh_total b w Hcache) as (ress & w1 & Er & Hc1). rewrite Er in Hhr. cbv zeta in Hhr.
      destruct (resolve_fresh_spec T teqb hc _ _ _ _ Er) as (F1 & Nn & _ & Eress). rewrite Hfst in F1, Nn.
      pose proof (InvProofs.resolve_fresh_steps T teqb hc teqb_spec _ _ _ _ Hinv Hb Er) as Hs1.
      pose proof (inv_steps T teqb hc teqb_spec _ _ Hinv Hs1) as Hinv1.
      assert (src_contents w1 (r_sources r) cs) as Hsrc1.
      { eapply src_contents_transport; [|exact Hsrc]. intros s Hs. apply F1. apply Hdisj. exact Hs. }
      set (fb := forget_replaced hc b ress) in *.
      assert (map fst fb = r_targets r) as Hfst1 by (unfold fb; rewrite C01Hist.forget_replaced_fst; exact Hfst).
      assert (blob_ok w1 fb) as Hb1.
      { unfold fb. apply InvProofs.forget_replaced_ok; [exact teqb_spec|]. exact (blob_steps T teqb hc teqb_spec _ _ _ Hinv Hs1 Hb). }
      assert (needs_rebuild ress = true) as Enr.
      { rewrite Eress. destruct b as [|x b0]; [cbn in Hfst; congruence | reflexivity]. }
      rewrite Enr in Hhr. destruct Hhr as (-> & -> & Hres).
      destruct Hdet as [Hconf Hreads].
      assert (agree_on (r_sources r ++ r_targets r) w1 S) as Hag0.
      { intros p Hp. apply in_app_or in Hp as [Hp | Hp].
        - exact (src_contents_agree T _ _ _ _ Hsrc1 HsrcS p Hp).
        - rewrite (Nn p Hp), (HabsS p Hp). reflexivity. }
      destruct (run_script_det T _ _ _ w1 S Hconf Hreads Hag0) as [Ec Hag].
      set (w2 := snd (run_script w1 (script_lines (r_command r)))) in *.
      assert (forall t, In t (r_targets r) -> content_at w2 t = content_at S' t) as Htg.
      { intros t Ht. apply Hag. apply in_or_app. right. exact Ht. }
      split; [exact Htg|]. rewrite Ec in Hres. fold codes in Hres.
      destruct (command_verdict codes) as [e|]; [exact Hres|].
      assert (steps w1 w2) as Hs2.
      { unfold w2. destruct (run_script w1 (script_lines (r_command r))) as [codes' w2'] eqn:Ers.
        exact (InvProofs.run_script_steps T teqb hc _ _ _ _ Ers). }
      pose proof (blob_steps T teqb hc teqb_spec _ _ _ Hinv1 Hs2 Hb1) as Hb2.
      pose proof (update_blob_missing fb w2) as Hm. rewrite Hfst1 in Hm.
      rewrite (first_missing_ext w2 S' _ Htg) in Hm.
      destruct (update_blob teqb hc w2 fb) as [b'|p] eqn:Eu; rewrite Hm; [|exact Hres].
      destruct (update_blob_hash T teqb hc _ _ _ Hb2 Eu) as [_ Hts]. rewrite Hfst1 in Hts.
      unfold history_insert in Hres. rewrite El in Hres. eexists. split; [exact Hres|]. exact Hts.
    Qed.

    (* no entry, no target: nothing happens *)
    Lemma handle_rule_miss_empty res w' script :
      alookup teqb h key = None -> r_targets r = [] ->
      handle_rule teqb hc w b h key (r_command r) = (res, w', script) ->
      w' = w /\ exists wr, res = Ok wr /\ wr_tickets wr = [].
    Proof.
      intros El Hempty Hhr. rewrite Hempty in Hfst. destruct b as [|x b0]; [|discriminate].
      unfold handle_rule in Hhr. rewrite El in Hhr. cbn in Hhr. injection Hhr as <- <- _.
      split; [reflexivity|]. eexists. split; reflexivity.
    Qed.
  End Thread.
End Rule.
