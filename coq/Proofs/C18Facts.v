(* C18 (fine clock): the modification-time shortcut is only an optimisation.  Under the disk invariant
   every ticket ruler computes through the shortcut is the true hash of the file's content, whatever
   sound state it assumed; hence what a build does (verdict, workspace files, cache, history files,
   commands run, status lines) does not depend on the file-state table at all: deleting
   current_file_states (or replacing it by any other sound table) changes nothing but the table. *)
From Coq Require Import Relations.Relation_Operators Relations.Operators_Properties.
From Ruler Require Import Tactics Bytes AList RuleSyntax Parser TopoSort World Cmdlang Work Build Ops Inv
  BytesFacts InvFacts BuildFacts.
Local Open Scope N_scope.

Module C18Proofs.

Section C18.
  Variable T : Type.
  Variable teqb : T -> T -> bool.
  Variable hc : bytes -> T.
  Variable hl : list T -> T.
  Variable hr : rule -> T.
  Hypothesis teqb_spec : forall a b, teqb a b = true <-> a = b.

  Notation world := (world T).
  Notation fstate := (fstate T).
  Notation blob := (blob T).
  Notation history := (World.history T).
  Notation work_result := (work_result T).
  Notation thread_result := (thread_result T).
  Notation run_state := (run_state T).
  Notation join_state := (join_state T).
  Notation any_file := (any_file teqb).
  Notation state_ok := (state_ok teqb hc).
  Notation disk_inv := (disk_inv teqb hc).
  Notation step := (step teqb hc).
  Notation steps := (clos_refl_trans world step).
  Notation blob_ok := (InvProofs.blob_ok T teqb hc).
  Notation tbl_ok := (InvProofs.tbl_ok T teqb hc).

  (* ================================================================== *)
  (* S1: the shortcut is transparent                                      *)
  (* ================================================================== *)

  (* disk_inv is not even needed: soundness of the assumed state is enough *)
  Theorem shortcut_transparent_main (w : world) p assumed :
    state_ok w assumed ->
    get_file_ticket teqb hc w p assumed = option_map (fun f => hc (f_content f)) (fget w p).
  Proof.
    intros Hok. unfold get_file_ticket. destruct (fget w p) as [f|] eqn:Ef; [|reflexivity].
    cbn [option_map]. destruct (shortcut teqb hc f assumed) eqn:E; [|reflexivity]. f_equal.
    eapply InvProofs.state_ok_shortcut; [exact Hok | eapply InvProofs.any_file_path; exact Ef | exact E].
  Qed.

  Theorem actual_state_transparent_main (w : world) p assumed :
    state_ok w assumed ->
    get_actual_file_state teqb hc w p assumed =
    option_map (fun f => mk_fstate (hc (f_content f)) (f_mtime f) (f_exec f)) (fget w p).
  Proof.
    intros Hok. unfold get_actual_file_state. destruct (fget w p) as [f|] eqn:Ef; [|reflexivity].
    cbn [option_map]. destruct (shortcut teqb hc f assumed) eqn:E; [|reflexivity]. do 2 f_equal.
    eapply InvProofs.state_ok_shortcut; [exact Hok | eapply InvProofs.any_file_path; exact Ef | exact E].
  Qed.

  (* ================================================================== *)
  (* worlds that differ in the table only                                 *)
  (* ================================================================== *)

  (* w with its table file replaced by x (None: deleted) *)
  Definition wt (w : world) (x : option (sf (table T))) : world :=
    set_rd w (mk_rdir (rd_exists (w_rd w)) (rd_cache (w_rd w)) (rd_hist (w_rd w)) x).

  Lemma wt_same (w : world) : wt w (rd_table (w_rd w)) = w.
  Proof. destruct w as [fs [ex ca hi tb] ck md]. reflexivity. Qed.

  Lemma wt_wt (w : world) x y : wt (wt w x) y = wt w y.
  Proof. reflexivity. Qed.

  Lemma any_file_wt (w : world) x f : any_file (wt w x) f <-> any_file w f.
  Proof. unfold Inv.any_file. reflexivity. Qed.

  Lemma state_ok_wt (w : world) x st : state_ok (wt w x) st <-> state_ok w st.
  Proof. unfold Inv.state_ok. reflexivity. Qed.

  Lemma tbl_ok_wt (w : world) x t : tbl_ok (wt w x) t <-> tbl_ok w t.
  Proof. unfold InvProofs.tbl_ok. reflexivity. Qed.

  (* ================================================================== *)
  (* S2: deleting the table                                               *)
  (* ================================================================== *)

  Definition erase_table (w : world) : world :=
    match rd_table (w_rd w) with
    | Some (SF_ok _) => wt w None
    | _ => w
    end.

  Lemma wt_none_step (w : world) : step w (wt w None).
  Proof.
    unfold wt. apply SUserRd. split; [|split]; cbn.
    - intros c' t f Hc Hl. exists c'. auto.
    - intros tbl' H. discriminate.
    - intros hs' t h Hh Hl. exists hs'. auto.
  Qed.

  Theorem erase_table_inv_main (w : world) : disk_inv w -> disk_inv (erase_table w).
  Proof.
    intro Hinv. unfold erase_table. destruct (rd_table (w_rd w)) as [[t|]|]; try exact Hinv.
    eapply (InvProofs.step_preserves_inv T teqb hc teqb_spec); [exact Hinv | apply wt_none_step].
  Qed.

  (* ================================================================== *)
  (* the primitives do not look at the table                              *)
  (* ================================================================== *)

  Section Commute.
  Variable x : option (sf (table T)).

  (* results that carry a world: replace the table in it *)
  Definition lw {A : Type} (r : result (A * world) work_err) : result (A * world) work_err :=
    match r with Ok (a, w) => Ok (a, wt w x) | Err e => Err e end.

  Definition lrr (r : restore_result T) : restore_result T :=
    match r with RDone w => RDone (wt w x) | RNotThere => RNotThere | RCacheMissing => RCacheMissing end.

  Lemma back_up_wt (w : world) t p :
    back_up teqb (wt w x) t p = option_map (fun w1 => wt w1 x) (back_up teqb w t p).
  Proof.
    unfold back_up. change (cache_of (wt w x)) with (cache_of w). change (fget (wt w x) p) with (fget w p).
    destruct (cache_of w) as [c|]; [|reflexivity]. destruct (fget w p) as [f|]; reflexivity.
  Qed.

  Lemma restore_wt (w : world) t p : restore teqb (wt w x) t p = lrr (restore teqb w t p).
  Proof.
    unfold restore. change (cache_of (wt w x)) with (cache_of w).
    destruct (cache_of w) as [c|]; [|reflexivity]. destruct (alookup teqb c t) as [f|]; reflexivity.
  Qed.

  Lemma restore_or_rebuild_wt (w : world) t p :
    restore_or_rebuild T teqb (wt w x) t p = lw (restore_or_rebuild T teqb w t p).
  Proof.
    unfold restore_or_rebuild. rewrite restore_wt. destruct (restore teqb w t p); reflexivity.
  Qed.

  Lemma write_file_wt (w : world) p c : write_file (wt w x) p c = wt (write_file w p c) x.
  Proof. unfold write_file, stamp. change (w_mode (wt w x)) with (w_mode w). destruct (w_mode w); reflexivity. Qed.

  Lemma remove_file_wt (w : world) p : remove_file (wt w x) p = wt (remove_file w p) x.
  Proof. reflexivity. Qed.

  Lemma set_exec_wt (w : world) p b : set_exec (wt w x) p b = wt (set_exec w p b) x.
  Proof. unfold set_exec. change (fget (wt w x) p) with (fget w p). destruct (fget w p); reflexivity. Qed.

  Lemma gather_wt (w : world) pieces : gather (wt w x) pieces = gather w pieces.
  Proof.
    induction pieces as [|pc r IH]; cbn [gather]; [reflexivity|].
    destruct pc as [|c body]; [reflexivity|]. rewrite IH.
    change (fget (wt w x) body) with (fget w body). reflexivity.
  Qed.

  Lemma run_line_wt (w : world) line :
    run_line (wt w x) line = (fst (run_line w line), wt (snd (run_line w line)) x).
  Proof.
    unfold run_line. destruct (tokens line) as [|op args]; [reflexivity|].
    destruct (bytes_eqb op [116; 114; 117; 101]); [reflexivity|].
    destruct (bytes_eqb op [102; 97; 105; 108]); [reflexivity|].
    destruct (bytes_eqb op [103; 101; 110]).
    { destruct args as [|out pieces]; [reflexivity|]. rewrite gather_wt.
      destruct (gather w pieces) as [e|d]; [reflexivity|]. rewrite write_file_wt. reflexivity. }
    destruct (bytes_eqb op [99; 104; 109; 111; 100]).
    { destruct args as [|p [|q r]]; try reflexivity. change (fget (wt w x) p) with (fget w p).
      destruct (fget w p); [|reflexivity]. rewrite set_exec_wt. reflexivity. }
    destruct (bytes_eqb op [114; 109]).
    { destruct args as [|p [|q r]]; reflexivity. }
    reflexivity.
  Qed.

  Lemma run_script_wt lines : forall (w : world),
    run_script (wt w x) lines = (fst (run_script w lines), wt (snd (run_script w lines)) x).
  Proof.
    induction lines as [|l r IH]; intro w; cbn [run_script]; [reflexivity|].
    rewrite run_line_wt. destruct (run_line w l) as [code w1]. cbn [fst snd].
    rewrite IH. destruct (run_script w1 r) as [codes w2]. reflexivity.
  Qed.

  (* ---------- with two sound blobs over the same paths ---------- *)

  Lemma get_file_ticket_tr (w : world) p a a' :
    state_ok w a -> state_ok w a' -> get_file_ticket teqb hc (wt w x) p a' = get_file_ticket teqb hc w p a.
  Proof.
    intros Ha Ha'. change (get_file_ticket teqb hc (wt w x) p a') with (get_file_ticket teqb hc w p a').
    rewrite !shortcut_transparent_main by assumption. reflexivity.
  Qed.

  Lemma get_actual_file_state_tr (w : world) p a a' :
    state_ok w a -> state_ok w a' ->
    get_actual_file_state teqb hc (wt w x) p a' = get_actual_file_state teqb hc w p a.
  Proof.
    intros Ha Ha'.
    change (get_actual_file_state teqb hc (wt w x) p a') with (get_actual_file_state teqb hc w p a').
    rewrite !actual_state_transparent_main by assumption. reflexivity.
  Qed.

  Lemma resolve_single_tr (w : world) rem p a a' :
    state_ok w a -> state_ok w a' ->
    resolve_single teqb hc (wt w x) rem p a' = lw (resolve_single teqb hc w rem p a).
  Proof.
    intros Ha Ha'. unfold resolve_single. rewrite (get_file_ticket_tr w p a a' Ha Ha').
    destruct (get_file_ticket teqb hc w p a) as [cur|].
    - destruct (teqb rem cur); [reflexivity|]. rewrite back_up_wt.
      destruct (back_up teqb w cur p) as [w1|]; cbn [option_map]; [apply restore_or_rebuild_wt | reflexivity].
    - apply restore_or_rebuild_wt.
  Qed.

  (* two blobs over the same paths, both sound *)
  Definition blobs_ok (w : world) (b b' : blob) : Prop :=
    blob_ok w b /\ blob_ok w b' /\ map fst b = map fst b'.

  Lemma blobs_ok_cons_inv (w : world) p a b p' a' b' :
    blobs_ok w ((p, a) :: b) ((p', a') :: b') -> p' = p /\ state_ok w a /\ state_ok w a' /\ blobs_ok w b b'.
  Proof.
    intros (H1 & H2 & H3). cbn [map fst] in H3. injection H3 as <- H3.
    apply InvProofs.blob_ok_cons in H1 as [Ha H1]. apply InvProofs.blob_ok_cons in H2 as [Ha' H2].
    split; [reflexivity|]. split; [exact Ha|]. split; [exact Ha'|]. split; [exact H1|]. split; [exact H2 | exact H3].
  Qed.

  Lemma blobs_ok_steps (w w' : world) b b' : disk_inv w -> steps w w' -> blobs_ok w b b' -> blobs_ok w' b b'.
  Proof.
    intros Hinv Hs (H1 & H2 & H3).
    split; [|split; [|exact H3]]; eapply (InvProofs.blob_ok_steps T teqb hc teqb_spec); eauto.
  Qed.

  Lemma blobs_ok_nil_l (w : world) b' : blobs_ok w [] b' -> b' = [].
  Proof. intros (_ & _ & H). destruct b'; [reflexivity | discriminate]. Qed.

  Lemma blobs_ok_nil_r (w : world) p a b : ~ blobs_ok w ((p, a) :: b) [].
  Proof. intros (_ & _ & H). discriminate. Qed.

  Lemma resolve_remembered_tr (b : blob) : forall b' (w : world) rem,
    disk_inv w -> blobs_ok w b b' ->
    resolve_remembered teqb hc (wt w x) b' rem = lw (resolve_remembered teqb hc w b rem).
  Proof.
    induction b as [|[p a] rest IH]; intros b' w rem Hinv Hb.
    - apply blobs_ok_nil_l in Hb as ->. reflexivity.
    - destruct b' as [|[p' a'] rest']; [destruct (blobs_ok_nil_r _ _ _ _ Hb)|].
      apply blobs_ok_cons_inv in Hb as (-> & Ha & Ha' & Hrest). cbn [resolve_remembered].
      destruct rem as [|r rrest]; [reflexivity|].
      rewrite (resolve_single_tr w (fs_t r) p a a' Ha Ha').
      destruct (resolve_single teqb hc w (fs_t r) p a) as [[res w1]|e] eqn:E1; cbn [lw]; [|reflexivity].
      pose proof (InvProofs.resolve_single_steps T teqb hc _ _ _ _ _ _ Ha E1) as Hs1.
      rewrite (IH rest' w1 rrest).
      + destruct (resolve_remembered teqb hc w1 rest rrest) as [[ress w2]|e]; reflexivity.
      + eapply (InvProofs.steps_preserve_inv T teqb hc teqb_spec); eauto.
      + eapply blobs_ok_steps; eauto.
  Qed.

  Lemma resolve_fresh_tr (b : blob) : forall b' (w : world),
    disk_inv w -> blobs_ok w b b' ->
    resolve_fresh teqb hc (wt w x) b' = lw (resolve_fresh teqb hc w b).
  Proof.
    induction b as [|[p a] rest IH]; intros b' w Hinv Hb.
    - apply blobs_ok_nil_l in Hb as ->. reflexivity.
    - destruct b' as [|[p' a'] rest']; [destruct (blobs_ok_nil_r _ _ _ _ Hb)|].
      apply blobs_ok_cons_inv in Hb as (-> & Ha & Ha' & Hrest). cbn [resolve_fresh].
      rewrite (get_file_ticket_tr w p a a' Ha Ha').
      destruct (get_file_ticket teqb hc w p a) as [cur|] eqn:Eg.
      + rewrite back_up_wt. destruct (back_up teqb w cur p) as [w1|] eqn:Eb; cbn [option_map]; [|reflexivity].
        pose proof (InvProofs.back_up_steps T teqb hc _ _ _ _ _ Ha Eg Eb) as Hs1.
        rewrite (IH rest' w1).
        * destruct (resolve_fresh teqb hc w1 rest) as [[ress w2]|e]; reflexivity.
        * eapply (InvProofs.steps_preserve_inv T teqb hc teqb_spec); eauto.
        * eapply blobs_ok_steps; eauto.
      + rewrite (IH rest' w Hinv Hrest).
        destruct (resolve_fresh teqb hc w rest) as [[ress w2]|e]; reflexivity.
  Qed.

  Lemma current_tickets_tr (b : blob) : forall b' (w : world),
    blobs_ok w b b' -> current_tickets teqb hc (wt w x) b' = current_tickets teqb hc w b.
  Proof.
    induction b as [|[p a] rest IH]; intros b' w Hb.
    - apply blobs_ok_nil_l in Hb as ->. reflexivity.
    - destruct b' as [|[p' a'] rest']; [destruct (blobs_ok_nil_r _ _ _ _ Hb)|].
      apply blobs_ok_cons_inv in Hb as (-> & Ha & Ha' & Hrest). cbn [current_tickets].
      rewrite (get_file_ticket_tr w p a a' Ha Ha'), (IH rest' w Hrest). reflexivity.
  Qed.

  (* careful point (i): the updated blobs are EQUAL (ticket = true hash, time and exec bit = the file's) *)
  Lemma update_blob_tr (b : blob) : forall b' (w : world),
    blobs_ok w b b' -> update_blob teqb hc (wt w x) b' = update_blob teqb hc w b.
  Proof.
    induction b as [|[p a] rest IH]; intros b' w Hb.
    - apply blobs_ok_nil_l in Hb as ->. reflexivity.
    - destruct b' as [|[p' a'] rest']; [destruct (blobs_ok_nil_r _ _ _ _ Hb)|].
      apply blobs_ok_cons_inv in Hb as (-> & Ha & Ha' & Hrest). cbn [update_blob].
      rewrite (get_actual_file_state_tr w p a a' Ha Ha'), (IH rest' w Hrest). reflexivity.
  Qed.

  Lemma clean_targets_tr (b : blob) : forall b' (w : world),
    disk_inv w -> blobs_ok w b b' ->
    clean_targets teqb hc (wt w x) b' =
    match clean_targets teqb hc w b with Ok w' => Ok (wt w' x) | Err e => Err e end.
  Proof.
    induction b as [|[p a] rest IH]; intros b' w Hinv Hb.
    - apply blobs_ok_nil_l in Hb as ->. reflexivity.
    - destruct b' as [|[p' a'] rest']; [destruct (blobs_ok_nil_r _ _ _ _ Hb)|].
      apply blobs_ok_cons_inv in Hb as (-> & Ha & Ha' & Hrest). cbn [clean_targets].
      rewrite (get_file_ticket_tr w p a a' Ha Ha').
      destruct (get_file_ticket teqb hc w p a) as [cur|] eqn:Eg; [|apply IH; assumption].
      rewrite back_up_wt. destruct (back_up teqb w cur p) as [w1|] eqn:Eb; cbn [option_map]; [|reflexivity].
      pose proof (InvProofs.back_up_steps T teqb hc _ _ _ _ _ Ha Eg Eb) as Hs1.
      apply IH.
      + eapply (InvProofs.steps_preserve_inv T teqb hc teqb_spec); eauto.
      + eapply blobs_ok_steps; eauto.
  Qed.

  (* careful point (ii): forgetting replaced states keeps both blobs sound, over the same paths *)
  Lemma forget_replaced_blobs_ok (w : world) b b' ress :
    clock_ok teqb w -> blobs_ok w b b' -> blobs_ok w (forget_replaced hc b ress) (forget_replaced hc b' ress).
  Proof.
    intros Hk (H1 & H2 & H3). split; [|split].
    - apply InvProofs.forget_replaced_ok; assumption.
    - apply InvProofs.forget_replaced_ok; assumption.
    - rewrite !(forget_replaced_fst T hc). exact H3.
  Qed.


  (* ================================================================== *)
  (* one rule thread                                                      *)
  (* ================================================================== *)

  (* two thread results that agree on everything but the remembered states inside the blob *)
  Definition wr_rel (wr wr' : work_result) : Prop :=
    wr_tickets wr = wr_tickets wr' /\ map fst (wr_blob wr) = map fst (wr_blob wr') /\
    wr_option wr = wr_option wr' /\ wr_history wr = wr_history wr'.

  Definition res_rel (r r' : result work_result work_err) : Prop :=
    match r, r' with
    | Ok wr, Ok wr' => wr_rel wr wr'
    | Err e, Err e' => e = e'
    | _, _ => False
    end.

  Lemma wr_rel_refl wr : wr_rel wr wr.
  Proof. repeat split. Qed.

  (* handle_rule after the resolution phase *)
  Definition handle_tail (w : world) (resolved : result (list resolution * world) work_err)
      (b : blob) (h : history) (st : T) (cmd : list bytes)
    : result work_result work_err * world * list bytes :=
    match resolved with
    | Err e => (Err e, w, [])
    | Ok (ress, w1) =>
        if needs_rebuild ress then
          let (codes, w2) := run_script w1 (script_lines cmd) in
          match command_verdict codes with
          | Some e => (Err e, w2, script_lines cmd)
          | None =>
              match update_blob teqb hc w2 (forget_replaced hc b ress) with
              | Err p => (Err (WTargetNotGenerated p), w2, script_lines cmd)
              | Ok b' =>
                  match history_insert teqb h st (map (fun e => fs_t (snd e)) b')
                                       (map fst (forget_replaced hc b ress)) with
                  | Err e => (Err e, w2, script_lines cmd)
                  | Ok h' => (Ok (mk_wr (map (fun e => fs_t (snd e)) b') b' CommandExecuted (Some h')), w2,
                              script_lines cmd)
                  end
              end
          end
        else
          match current_tickets teqb hc w1 (forget_replaced hc b ress) with
          | Err p => (Err (WFileNotFound p), w1, [])
          | Ok ts => (Ok (mk_wr ts (forget_replaced hc b ress) (Resolutions ress) (Some h)), w1, [])
          end
    end.

  Lemma handle_rule_eq (w : world) b h st cmd :
    handle_rule teqb hc w b h st cmd = handle_tail w (resolved_of T teqb hc w b h st) b h st cmd.
  Proof. reflexivity. Qed.

  (* same result up to wr_rel, worlds equal up to the table, same script *)
  Definition hr_rel (o o' : result work_result work_err * world * list bytes) : Prop :=
    res_rel (fst (fst o)) (fst (fst o')) /\ snd (fst o') = wt (snd (fst o)) x /\ snd o' = snd o.

  Lemma handle_tail_tr (w : world) R b b' h st cmd :
    (forall ress w1, R = Ok (ress, w1) -> disk_inv w1 /\ blobs_ok w1 b b') ->
    hr_rel (handle_tail w R b h st cmd) (handle_tail (wt w x) (lw R) b' h st cmd).
  Proof.
    intro HR. destruct R as [[ress w1]|e]; cbn [lw handle_tail].
    2:{ split; [reflexivity|]. split; reflexivity. }
    destruct (HR ress w1 eq_refl) as [Hinv1 Hb1].
    assert (clock_ok teqb w1) as Hk1 by apply Hinv1.
    pose proof (forget_replaced_blobs_ok w1 b b' ress Hk1 Hb1) as Hfb.
    set (fb := forget_replaced hc b ress) in *. set (fb' := forget_replaced hc b' ress) in *.
    destruct (needs_rebuild ress).
    - rewrite run_script_wt. destruct (run_script w1 (script_lines cmd)) as [codes w2] eqn:Er. cbn [fst snd].
      pose proof (InvProofs.run_script_steps T teqb hc _ _ _ _ Er) as Hs2.
      destruct (command_verdict codes) as [e|].
      { split; [reflexivity|]. split; reflexivity. }
      rewrite (update_blob_tr fb fb' w2 (blobs_ok_steps _ _ _ _ Hinv1 Hs2 Hfb)).
      destruct (update_blob teqb hc w2 fb) as [bu|p].
      2:{ split; [reflexivity|]. split; reflexivity. }
      replace (map fst fb') with (map fst fb) by apply Hfb.
      destruct (history_insert teqb h st (map (fun e => fs_t (snd e)) bu) (map fst fb)) as [h'|e].
      + split; [apply wr_rel_refl|]. split; reflexivity.
      + split; [reflexivity|]. split; reflexivity.
    - rewrite (current_tickets_tr fb fb' w1 Hfb).
      destruct (current_tickets teqb hc w1 fb) as [ts|p].
      + split; [|split; reflexivity]. cbn [fst res_rel]. unfold wr_rel. cbn [wr_tickets wr_blob wr_option wr_history].
        split; [reflexivity|]. split; [apply Hfb|]. split; reflexivity.
      + split; [reflexivity|]. split; reflexivity.
  Qed.

  Theorem handle_rule_tr (w : world) b b' h st cmd :
    disk_inv w -> blobs_ok w b b' ->
    hr_rel (handle_rule teqb hc w b h st cmd) (handle_rule teqb hc (wt w x) b' h st cmd).
  Proof.
    intros Hinv Hb. rewrite !handle_rule_eq.
    assert (resolved_of T teqb hc (wt w x) b' h st = lw (resolved_of T teqb hc w b h st)) as ->.
    { unfold resolved_of. destruct (alookup teqb h st);
        [apply resolve_remembered_tr | apply resolve_fresh_tr]; assumption. }
    apply handle_tail_tr. intros ress w1 E.
    assert (steps w w1) as Hs.
    { unfold resolved_of in E. destruct (alookup teqb h st).
      - eapply (InvProofs.resolve_remembered_steps T teqb hc teqb_spec); [exact Hinv | exact (proj1 Hb) | exact E].
      - eapply (InvProofs.resolve_fresh_steps T teqb hc teqb_spec); [exact Hinv | exact (proj1 Hb) | exact E]. }
    split; [eapply (InvProofs.steps_preserve_inv T teqb hc teqb_spec); eauto | eapply blobs_ok_steps; eauto].
  Qed.

  (* ================================================================== *)
  (* the serial schedule: two runs that differ in the tables only         *)
  (* ================================================================== *)

  Definition tr_rel (t t' : thread_result) : Prop :=
    match t, t' with
    | TOk wr, TOk wr' => wr_rel wr wr'
    | TErr e, TErr e' => e = e'
    | TCanceled, TCanceled => True
    | _, _ => False
    end.

  Definition rr_rel (r r' : option rule * thread_result) : Prop := fst r = fst r' /\ tr_rel (snd r) (snd r').

  (* both tables are sound in the first run's world; everything else is equal *)
  Definition RI (st st' : run_state) : Prop :=
    disk_inv (rs_world T st) /\ rs_world T st' = wt (rs_world T st) x /\
    tbl_ok (rs_world T st) (rs_table T st) /\ tbl_ok (rs_world T st) (rs_table T st') /\
    rs_leaf_sent T st' = rs_leaf_sent T st /\ rs_node_sent T st' = rs_node_sent T st /\
    rs_commands T st' = rs_commands T st /\ Forall2 rr_rel (rs_results T st) (rs_results T st').

  Lemma take_blobs_ok (w : world) t t' paths b t1 b' t1' :
    clock_ok teqb w -> tbl_ok w t -> tbl_ok w t' ->
    take_blob T hc t paths = (b, t1) -> take_blob T hc t' paths = (b', t1') ->
    blobs_ok w b b' /\ tbl_ok w t1 /\ tbl_ok w t1'.
  Proof.
    intros Hk Ht Ht' E E'.
    destruct (InvProofs.take_blob_ok T teqb hc teqb_spec _ _ _ _ _ Ht E) as [Hb Ht1].
    destruct (InvProofs.take_blob_ok T teqb hc teqb_spec _ _ _ _ _ Ht' E') as [Hb' Ht1'].
    pose proof (take_blob_fst T hc paths t) as F. rewrite E in F.
    pose proof (take_blob_fst T hc paths t') as F'. rewrite E' in F'. cbn [fst] in F, F'.
    split; [|split; assumption]. split; [exact Hb|]. split; [exact Hb'|]. congruence.
  Qed.

  Lemma Forall2_snoc {A B} (R : A -> B -> Prop) l l' a a' :
    Forall2 R l l' -> R a a' -> Forall2 R (l ++ [a]) (l' ++ [a']).
  Proof. intros H1 H2. apply Forall2_app; [exact H1|]. constructor; [exact H2 | constructor]. Qed.

  Lemma run_leaf_RI st st' leaf : RI st st' -> RI (run_leaf T teqb hc st leaf) (run_leaf T teqb hc st' leaf).
  Proof.
    intros (Hinv & Hw & Ht & Ht' & Hl & Hn & Hc & Hr). unfold run_leaf.
    destruct (take_blob T hc (rs_table T st) [leaf]) as [b t1] eqn:E1.
    destruct (take_blob T hc (rs_table T st') [leaf]) as [b' t1'] eqn:E2.
    assert (clock_ok teqb (rs_world T st)) as Hk by apply Hinv.
    destruct (take_blobs_ok _ _ _ _ _ _ _ _ Hk Ht Ht' E1 E2) as (Hb & Ht1 & Ht1').
    unfold handle_leaf. rewrite Hw, (current_tickets_tr b b' _ Hb), Hl, Hn, Hc.
    destruct (current_tickets teqb hc (rs_world T st) b) as [ts|p]; unfold RI;
      cbn [rs_world rs_table rs_leaf_sent rs_node_sent rs_results rs_commands];
      (split; [exact Hinv|]); (split; [reflexivity|]); (split; [exact Ht1|]); (split; [exact Ht1'|]);
      (split; [reflexivity|]); (split; [reflexivity|]); (split; [reflexivity|]);
      apply Forall2_snoc; try exact Hr; (split; [reflexivity|]); cbn [snd tr_rel].
    - unfold wr_rel. cbn [wr_tickets wr_blob wr_option wr_history].
      split; [reflexivity|]. split; [apply Hb|]. split; reflexivity.
    - reflexivity.
  Qed.

  Lemma run_leaves_RI leaves : forall st st',
    RI st st' -> RI (fold_left (run_leaf T teqb hc) leaves st) (fold_left (run_leaf T teqb hc) leaves st').
  Proof.
    induction leaves as [|l r IH]; intros st st' H; cbn [fold_left]; [exact H|].
    apply IH. apply run_leaf_RI. exact H.
  Qed.

  Definition opt_RI (o o' : option run_state) : Prop :=
    match o, o' with
    | Some a, Some a' => RI a a'
    | None, None => True
    | _, _ => False
    end.

  Notation run_node := (run_node T teqb hc hl hr).
  Notation run_nodes := (run_nodes T teqb hc hl hr).
  Notation upto := (upto T teqb hc hl hr).

  Lemma run_node_RI st st' n : RI st st' -> opt_RI (run_node st n) (run_node st' n).
  Proof.
    intros (Hinv & Hw & Ht & Ht' & Hl & Hn & Hc & Hr). unfold Build.run_node.
    destruct (take_blob T hc (rs_table T st) (n_targets n)) as [b t1] eqn:E1.
    destruct (take_blob T hc (rs_table T st') (n_targets n)) as [b' t1'] eqn:E2.
    assert (clock_ok teqb (rs_world T st)) as Hk by apply Hinv.
    destruct (take_blobs_ok _ _ _ _ _ _ _ _ Hk Ht Ht' E1 E2) as (Hb & Ht1 & Ht1').
    rewrite Hw, Hl, Hn, Hc.
    change (read_history T teqb hr (wt (rs_world T st) x) (n_rule n))
      with (read_history T teqb hr (rs_world T st) (n_rule n)).
    destruct (read_history T teqb hr (rs_world T st) (n_rule n)) as [h|]; [|exact I].
    destruct (all_some (map (received T (rs_leaf_sent T st) (rs_node_sent T st)) (n_source_indices n)))
      as [tickets|].
    2:{ unfold opt_RI, RI. cbn [rs_world rs_table rs_leaf_sent rs_node_sent rs_results rs_commands].
        split; [exact Hinv|]. split; [reflexivity|]. split; [exact Ht1|]. split; [exact Ht1'|].
        split; [reflexivity|]. split; [reflexivity|]. split; [reflexivity|].
        apply Forall2_snoc; [exact Hr|]. split; [reflexivity | exact I]. }
    pose proof (handle_rule_tr (rs_world T st) b b' h (hl tickets) (n_command n) Hinv Hb) as Hh.
    destruct (handle_rule teqb hc (rs_world T st) b h (hl tickets) (n_command n)) as [[r w1] s] eqn:EH.
    destruct (handle_rule teqb hc (wt (rs_world T st) x) b' h (hl tickets) (n_command n)) as [[r' w1'] s'] eqn:EH'.
    destruct Hh as (Hres & Hw1 & Hs). cbn [fst snd] in Hres, Hw1, Hs. subst w1' s'.
    destruct Hb as (Hbok & _ & _).
    pose proof (InvProofs.handle_rule_steps T teqb hc teqb_spec _ _ _ _ _ _ _ _ Hinv Hbok EH) as Hst.
    pose proof (InvProofs.steps_preserve_inv T teqb hc teqb_spec _ _ Hinv Hst) as Hinv1.
    pose proof (InvProofs.tbl_ok_steps T teqb hc teqb_spec _ _ _ Hinv Hst Ht1) as Ht2.
    pose proof (InvProofs.tbl_ok_steps T teqb hc teqb_spec _ _ _ Hinv Hst Ht1') as Ht2'.
    destruct r as [wr|e], r' as [wr'|e']; cbn [res_rel] in Hres; try contradiction;
      unfold opt_RI, RI; cbn [rs_world rs_table rs_leaf_sent rs_node_sent rs_results rs_commands];
      (split; [exact Hinv1|]); (split; [reflexivity|]); (split; [exact Ht2|]); (split; [exact Ht2'|]);
      (split; [reflexivity|]).
    - destruct Hres as (Htk & Hrest). rewrite Htk. split; [reflexivity|]. split; [reflexivity|].
      apply Forall2_snoc; [exact Hr|]. split; [reflexivity|]. cbn [snd tr_rel]. split; [exact Htk | exact Hrest].
    - subst e'. split; [reflexivity|]. split; [reflexivity|].
      apply Forall2_snoc; [exact Hr|]. split; reflexivity.
  Qed.

  Lemma run_nodes_RI ns : forall st st', RI st st' -> opt_RI (run_nodes st ns) (run_nodes st' ns).
  Proof.
    induction ns as [|n rest IH]; intros st st' H; cbn [Build.run_nodes]; [exact H|].
    pose proof (run_node_RI st st' n H) as H1.
    destruct (run_node st n) as [a|], (run_node st' n) as [a'|]; cbn [opt_RI] in H1; try contradiction.
    - apply IH. exact H1.
    - exact I.
  Qed.

  Lemma upto_RI ns : forall st st', RI st st' -> RI (upto st ns) (upto st' ns).
  Proof.
    induction ns as [|n rest IH]; intros st st' H; cbn [BuildFacts.upto]; [exact H|].
    pose proof (run_node_RI st st' n H) as H1.
    destruct (run_node st n) as [a|], (run_node st' n) as [a'|]; cbn [opt_RI] in H1; try contradiction.
    - apply IH. exact H1.
    - exact H.
  Qed.

  (* ---------- main's join loop ---------- *)

  Notation join_one := (join_one T teqb hr).

  Definition JI (js js' : join_state) : Prop :=
    js_world T js' = wt (js_world T js) x /\ js_status T js' = js_status T js /\
    js_errors T js' = js_errors T js.

  Lemma write_history_wt (w : world) r h :
    write_history T teqb hr (wt w x) r h = wt (write_history T teqb hr w r h) x.
  Proof.
    unfold write_history. change (rd_hist (w_rd (wt w x))) with (rd_hist (w_rd w)).
    destruct (rd_hist (w_rd w)); reflexivity.
  Qed.

  Lemma combine_map_fst {A B C D} (f : C -> D) (l : list (A * B)) : forall (rs : list C),
    map (fun pr : (A * B) * C => (f (snd pr), fst (fst pr))) (combine l rs) =
    map (fun pr : A * C => (f (snd pr), fst pr)) (combine (map fst l) rs).
  Proof.
    induction l as [|[a b] l IH]; intros [|r rs]; cbn [map combine fst snd]; try reflexivity.
    rewrite IH. reflexivity.
  Qed.

  Lemma status_lines_rel (wr wr' : work_result) : wr_rel wr wr' -> status_lines T wr' = status_lines T wr.
  Proof.
    intros (_ & Hb & Ho & _). destruct (wr_option wr) as [|rs|] eqn:E.
    - unfold status_lines. rewrite <- Ho, E. reflexivity.
    - rewrite (status_lines_resolutions T wr rs E), (status_lines_resolutions T wr' rs (eq_sym Ho)).
      rewrite (combine_map_fst banner_of (wr_blob wr')), (combine_map_fst banner_of (wr_blob wr)), Hb.
      reflexivity.
    - rewrite (status_lines_executed T wr E), (status_lines_executed T wr' (eq_sym Ho)).
      rewrite <- (map_map fst (fun p => (BBuilt, p)) (wr_blob wr')),
              <- (map_map fst (fun p => (BBuilt, p)) (wr_blob wr)), Hb. reflexivity.
  Qed.

  Lemma join_one_JI js js' res res' : rr_rel res res' -> JI js js' -> JI (join_one js res) (join_one js' res').
  Proof.
    destruct res as [r t], res' as [r' t']. intros [Hr Ht] (Hw & Hs & He). cbn [fst snd] in Hr, Ht. subst r'.
    unfold Build.join_one. cbn [fst snd].
    destruct t as [wr|e|], t' as [wr'|e'|]; cbn [tr_rel] in Ht; try contradiction.
    - unfold JI. cbn [js_world js_status js_errors]. split; [|split].
      + destruct Ht as (_ & _ & _ & Hh). rewrite <- Hh, Hw.
        destruct r as [r0|]; [|reflexivity]. destruct (wr_history wr) as [h|]; [|reflexivity].
        apply write_history_wt.
      + rewrite Hs, (status_lines_rel wr wr' Ht). reflexivity.
      + exact He.
    - subst e'. unfold JI. cbn [js_world js_status js_errors]. split; [exact Hw|]. split; [exact Hs|].
      rewrite He. reflexivity.
    - split; [exact Hw|]. split; [exact Hs | exact He].
  Qed.

  Lemma join_all_JI rs : forall rs' js js',
    Forall2 rr_rel rs rs' -> JI js js' -> JI (fold_left join_one rs js) (fold_left join_one rs' js').
  Proof.
    induction rs as [|res rs IH]; intros rs' js js' HF HJ; inversion HF as [|? res' ? rs1' Hres Hrest]; subst;
      cbn [fold_left]; [exact HJ|].
    apply IH; [exact Hrest|]. apply join_one_JI; assumption.
  Qed.

  (* ---------- build after init_dir ---------- *)

  Definition out_rel (o1 o2 : outcome T) : Prop :=
    o_verdict o1 = o_verdict o2 /\ w_files (o_world o1) = w_files (o_world o2) /\
    rd_cache (w_rd (o_world o1)) = rd_cache (w_rd (o_world o2)) /\
    rd_hist (w_rd (o_world o1)) = rd_hist (w_rd (o_world o2)) /\
    o_commands o1 = o_commands o2 /\ o_status o1 = o_status o2.

  Definition build_from (w1 : world) (t : table T) (rp : bytes) (goal : option bytes) : outcome T :=
    match get_nodes T w1 rp goal with
    | Err f => mk_outcome w1 (VFatal f) [] []
    | Ok pack =>
        let st1 := st_leaves T teqb hc w1 t pack in
        match run_nodes st1 (p_nodes pack) with
        | None =>
            let stx := upto st1 (p_nodes pack) in
            mk_outcome (write_table T (rs_world T stx) (table_rest T hc t pack)) (VFatal FHistory)
                       (rs_commands T stx) []
        | Some st2 =>
            let js := joined T teqb hr st2 in
            mk_outcome (write_table T (js_world T js) (js_table T js))
                       (match js_errors T js with [] => VOk | es => VWorkErrors es end)
                       (rs_commands T st2) (js_status T js)
        end
    end.

  Lemma build_from_tr (w1 : world) t t' rp goal :
    disk_inv w1 -> tbl_ok w1 t -> tbl_ok w1 t' ->
    out_rel (build_from w1 t rp goal) (build_from (wt w1 x) t' rp goal).
  Proof.
    intros Hinv Ht Ht'. unfold build_from.
    change (get_nodes T (wt w1 x) rp goal) with (get_nodes T w1 rp goal).
    destruct (get_nodes T w1 rp goal) as [pack|f].
    2:{ repeat split. }
    cbv zeta.
    assert (RI (st_leaves T teqb hc w1 t pack) (st_leaves T teqb hc (wt w1 x) t' pack)) as H1.
    { unfold st_leaves. apply run_leaves_RI. unfold RI.
      cbn [rs_world rs_table rs_leaf_sent rs_node_sent rs_results rs_commands].
      split; [exact Hinv|]. split; [reflexivity|]. split; [exact Ht|]. split; [exact Ht'|].
      split; [reflexivity|]. split; [reflexivity|]. split; [reflexivity|]. constructor. }
    pose proof (run_nodes_RI (p_nodes pack) _ _ H1) as H2.
    pose proof (upto_RI (p_nodes pack) _ _ H1) as H3.
    destruct (run_nodes (st_leaves T teqb hc w1 t pack) (p_nodes pack)) as [st2|],
             (run_nodes (st_leaves T teqb hc (wt w1 x) t' pack) (p_nodes pack)) as [st2'|];
      cbn [opt_RI] in H2; try contradiction.
    - destruct H2 as (_ & Hw & _ & _ & _ & _ & Hc & Hr).
      assert (JI (joined T teqb hr st2) (joined T teqb hr st2')) as (HJw & HJs & HJe).
      { unfold joined. apply join_all_JI; [exact Hr|]. unfold JI. cbn [js_world js_status js_errors].
        split; [exact Hw|]. split; reflexivity. }
      unfold out_rel. cbn [o_verdict o_world o_commands o_status]. rewrite HJw, HJs, HJe, Hc.
      repeat split.
    - destruct H3 as (_ & Hw & _ & _ & _ & _ & Hc & _).
      unfold out_rel. cbn [o_verdict o_world o_commands o_status]. rewrite Hw, Hc. repeat split.
  Qed.

  (* ---------- clean after init_dir ---------- *)

  Notation clean_nodes := (clean_nodes T teqb hc).

  Lemma clean_nodes_tr ns : forall (w : world) t t' errs,
    disk_inv w -> tbl_ok w t -> tbl_ok w t' ->
    clean_nodes (wt w x) t' ns errs = (wt (fst (clean_nodes w t ns errs)) x, snd (clean_nodes w t ns errs)).
  Proof.
    induction ns as [|n rest IH]; intros w t t' errs Hinv Ht Ht'; cbn [Build.clean_nodes]; [reflexivity|].
    destruct (take_blob T hc t (n_targets n)) as [b t1] eqn:E1.
    destruct (take_blob T hc t' (n_targets n)) as [b' t1'] eqn:E2.
    assert (clock_ok teqb w) as Hk by apply Hinv.
    destruct (take_blobs_ok _ _ _ _ _ _ _ _ Hk Ht Ht' E1 E2) as (Hb & Ht1 & Ht1').
    rewrite (clean_targets_tr b b' w Hinv Hb).
    destruct (clean_targets teqb hc w b) as [w'|e] eqn:Ec.
    - pose proof (InvProofs.clean_targets_steps T teqb hc teqb_spec _ _ _ Hinv (proj1 Hb) Ec) as Hs.
      apply IH.
      + exact (InvProofs.steps_preserve_inv T teqb hc teqb_spec _ _ Hinv Hs).
      + exact (InvProofs.tbl_ok_steps T teqb hc teqb_spec _ _ _ Hinv Hs Ht1).
      + exact (InvProofs.tbl_ok_steps T teqb hc teqb_spec _ _ _ Hinv Hs Ht1').
    - apply IH; assumption.
  Qed.

  Definition clean_from (w1 : world) (t : table T) (rp : bytes) (goal : option bytes) : outcome T :=
    match get_nodes T w1 rp goal with
    | Err f => mk_outcome w1 (VFatal f) [] []
    | Ok pack =>
        mk_outcome (fst (clean_nodes w1 t (p_nodes pack) []))
                   (match snd (clean_nodes w1 t (p_nodes pack) []) with [] => VOk | es => VWorkErrors es end)
                   [] []
    end.

  Lemma clean_from_tr (w1 : world) t t' rp goal :
    disk_inv w1 -> tbl_ok w1 t -> tbl_ok w1 t' ->
    out_rel (clean_from w1 t rp goal) (clean_from (wt w1 x) t' rp goal).
  Proof.
    intros Hinv Ht Ht'. unfold clean_from.
    change (get_nodes T (wt w1 x) rp goal) with (get_nodes T w1 rp goal).
    destruct (get_nodes T w1 rp goal) as [pack|f].
    2:{ repeat split. }
    rewrite (clean_nodes_tr (p_nodes pack) w1 t t' [] Hinv Ht Ht'). cbn [fst snd]. repeat split.
  Qed.

  End Commute.

  (* ================================================================== *)
  (* S3: the whole build                                                  *)
  (* ================================================================== *)

  Lemma build_eq' (w : world) rp goal :
    build teqb hc hl hr w rp goal =
    match init_dir T w with
    | Err f => mk_outcome (init_dir_world_on_error T w) (VFatal f) [] []
    | Ok (w1, t) => build_from w1 t rp goal
    end.
  Proof. rewrite (build_eq T teqb hc hl hr). destruct (init_dir T w) as [[w1 t]|f]; reflexivity. Qed.

  Lemma init_dir_wt (w : world) x :
    rd_table (w_rd w) <> Some SF_bad -> x <> Some SF_bad ->
    exists w1 t x' t', init_dir T w = Ok (w1, t) /\ init_dir T (wt w x) = Ok (wt w1 x', t').
  Proof.
    intros H1 H2. unfold init_dir. cbv zeta. change (rd_table (w_rd (wt w x))) with x.
    destruct (rd_table (w_rd w)) as [[t|]|], x as [[t'|]|]; try contradiction.
    - eexists _, t, (Some (SF_ok t')), t'. split; reflexivity.
    - eexists _, t, (Some (SF_ok [])), []. split; reflexivity.
    - eexists _, [], (Some (SF_ok t')), t'. split; reflexivity.
    - eexists _, [], (Some (SF_ok [])), []. split; reflexivity.
  Qed.

  (* the table is only an optimisation: any two sound, readable-or-absent tables give the same build *)
  Theorem build_table_irrelevant_main (w : world) x rp goal :
    disk_inv w -> disk_inv (wt w x) -> rd_table (w_rd w) <> Some SF_bad -> x <> Some SF_bad ->
    out_rel (build teqb hc hl hr w rp goal) (build teqb hc hl hr (wt w x) rp goal).
  Proof.
    intros Hinv Hinv' Hb Hb'. destruct (init_dir_wt w x Hb Hb') as (w1 & t & x' & t' & E1 & E2).
    rewrite !build_eq', E1, E2.
    destruct (InvProofs.init_dir_rs_inv T teqb hc teqb_spec _ _ _ Hinv E1) as [Hs1 Ht1].
    destruct (InvProofs.init_dir_rs_inv T teqb hc teqb_spec _ _ _ Hinv' E2) as [_ Ht1'].
    apply build_from_tr.
    - exact (InvProofs.steps_preserve_inv T teqb hc teqb_spec _ _ Hinv Hs1).
    - exact Ht1.
    - apply (tbl_ok_wt w1 x' t'). exact Ht1'.
  Qed.

  Lemma out_rel_refl o : out_rel o o.
  Proof. repeat split. Qed.

  Theorem c18_fine_main (w : world) rp goal :
    disk_inv w ->
    out_rel (build teqb hc hl hr w rp goal) (build teqb hc hl hr (erase_table w) rp goal).
  Proof.
    intro Hinv. pose proof (erase_table_inv_main w Hinv) as Hinv'. unfold erase_table in *.
    destruct (rd_table (w_rd w)) as [[t|]|] eqn:Et; try apply out_rel_refl.
    apply build_table_irrelevant_main; try assumption; [rewrite Et|]; discriminate.
  Qed.

  (* ---------- the same for clean ---------- *)

  Lemma clean_eq' (w : world) rp goal :
    clean teqb hc w rp goal =
    match init_dir T w with
    | Err f => mk_outcome (init_dir_world_on_error T w) (VFatal f) [] []
    | Ok (w1, t) => clean_from w1 t rp goal
    end.
  Proof.
    rewrite (clean_eq T teqb hc). destruct (init_dir T w) as [[w1 t]|f]; reflexivity.
  Qed.

  Theorem clean_table_irrelevant_main (w : world) x rp goal :
    disk_inv w -> disk_inv (wt w x) -> rd_table (w_rd w) <> Some SF_bad -> x <> Some SF_bad ->
    out_rel (clean teqb hc w rp goal) (clean teqb hc (wt w x) rp goal).
  Proof.
    intros Hinv Hinv' Hb Hb'. destruct (init_dir_wt w x Hb Hb') as (w1 & t & x' & t' & E1 & E2).
    rewrite !clean_eq', E1, E2.
    destruct (InvProofs.init_dir_rs_inv T teqb hc teqb_spec _ _ _ Hinv E1) as [Hs1 Ht1].
    destruct (InvProofs.init_dir_rs_inv T teqb hc teqb_spec _ _ _ Hinv' E2) as [_ Ht1'].
    apply clean_from_tr.
    - exact (InvProofs.steps_preserve_inv T teqb hc teqb_spec _ _ Hinv Hs1).
    - exact Ht1.
    - apply (tbl_ok_wt w1 x' t'). exact Ht1'.
  Qed.

  Theorem c18_fine_clean_main (w : world) rp goal :
    disk_inv w ->
    out_rel (clean teqb hc w rp goal) (clean teqb hc (erase_table w) rp goal).
  Proof.
    intro Hinv. pose proof (erase_table_inv_main w Hinv) as Hinv'. unfold erase_table in *.
    destruct (rd_table (w_rd w)) as [[t|]|] eqn:Et; try apply out_rel_refl.
    apply clean_table_irrelevant_main; try assumption; [rewrite Et|]; discriminate.
  Qed.

  (* ---------- handle_rule in one world, two blobs ---------- *)

  Theorem handle_rule_two_blobs (w : world) b b' h st cmd :
    disk_inv w -> blob_ok w b -> blob_ok w b' -> map fst b = map fst b' ->
    res_rel (fst (fst (handle_rule teqb hc w b h st cmd))) (fst (fst (handle_rule teqb hc w b' h st cmd))) /\
    snd (fst (handle_rule teqb hc w b' h st cmd)) = snd (fst (handle_rule teqb hc w b h st cmd)) /\
    snd (handle_rule teqb hc w b' h st cmd) = snd (handle_rule teqb hc w b h st cmd).
  Proof.
    intros Hinv Hb Hb' Hp.
    pose proof (handle_rule_tr (rd_table (w_rd w)) w b b' h st cmd Hinv (conj Hb (conj Hb' Hp))) as H.
    (* handle_rule leaves the table file alone: run it against itself *)
    pose proof (handle_rule_tr (rd_table (w_rd w)) w b b h st cmd Hinv (conj Hb (conj Hb eq_refl))) as H0.
    unfold hr_rel in H, H0. rewrite !wt_same in H, H0.
    destruct H as (H1 & H2 & H3). destruct H0 as (_ & H0 & _).
    split; [exact H1|]. split; [|exact H3]. rewrite H2. symmetry. exact H0.
  Qed.

End C18.
End C18Proofs.

(* ================================================================== *)
(* ==== RESULTS ==== *)
(* ================================================================== *)

Notation erase_table := C18Proofs.erase_table.
Notation with_table := C18Proofs.wt.          (* the world with its table file replaced (None: deleted) *)

Section Results.
  Variable T : Type.
  Variable teqb : T -> T -> bool.
  Variable hc : bytes -> T.
  Variable hl : list T -> T.
  Variable hr : rule -> T.
  Hypothesis teqb_spec : forall a b, teqb a b = true <-> a = b.

  (* ---- S1 (disk_inv is not needed: see shortcut_transparent_strong) ---- *)
  Theorem shortcut_transparent : forall w p assumed,
    disk_inv teqb hc w -> state_ok teqb hc w assumed ->
    get_file_ticket teqb hc w p assumed = option_map (fun f => hc (f_content f)) (fget w p).
  Proof. intros w p assumed _. exact (C18Proofs.shortcut_transparent_main T teqb hc w p assumed). Qed.

  Theorem shortcut_transparent_strong : forall w p assumed,
    state_ok teqb hc w assumed ->
    get_file_ticket teqb hc w p assumed = option_map (fun f => hc (f_content f)) (fget w p).
  Proof. exact (C18Proofs.shortcut_transparent_main T teqb hc). Qed.

  Theorem actual_state_transparent : forall w p assumed,
    disk_inv teqb hc w -> state_ok teqb hc w assumed ->
    get_actual_file_state teqb hc w p assumed =
    option_map (fun f => mk_fstate (hc (f_content f)) (f_mtime f) (f_exec f)) (fget w p).
  Proof. intros w p assumed _. exact (C18Proofs.actual_state_transparent_main T teqb hc w p assumed). Qed.

  (* ---- S2 ---- *)
  Theorem erase_table_spec : forall w : world T,
    erase_table T w =
    match rd_table (w_rd w) with
    | Some (SF_ok _) =>
        set_rd w (mk_rdir (rd_exists (w_rd w)) (rd_cache (w_rd w)) (rd_hist (w_rd w)) None)
    | _ => w
    end.
  Proof. reflexivity. Qed.

  Theorem erase_table_preserves_inv : forall w, disk_inv teqb hc w -> disk_inv teqb hc (erase_table T w).
  Proof. exact (C18Proofs.erase_table_inv_main T teqb hc teqb_spec). Qed.

  (* ---- handle_rule: two sound blobs over the same paths ---- *)
  Theorem c18_handle_rule_transparent : forall w b b' h st cmd,
    disk_inv teqb hc w -> InvProofs.blob_ok T teqb hc w b -> InvProofs.blob_ok T teqb hc w b' ->
    map fst b = map fst b' ->
    let o := handle_rule teqb hc w b h st cmd in
    let o' := handle_rule teqb hc w b' h st cmd in
    match fst (fst o), fst (fst o') with
    | Ok wr, Ok wr' =>
        wr_tickets wr = wr_tickets wr' /\ map fst (wr_blob wr) = map fst (wr_blob wr') /\
        wr_option wr = wr_option wr' /\ wr_history wr = wr_history wr'
    | Err e, Err e' => e = e'
    | _, _ => False
    end /\
    snd (fst o') = snd (fst o) /\ snd o' = snd o.
  Proof. exact (C18Proofs.handle_rule_two_blobs T teqb hc teqb_spec). Qed.

  (* the same across two worlds that differ in the table file only *)
  Theorem c18_handle_rule_transparent_tables : forall x w b b' h st cmd,
    disk_inv teqb hc w -> InvProofs.blob_ok T teqb hc w b -> InvProofs.blob_ok T teqb hc w b' ->
    map fst b = map fst b' ->
    let o := handle_rule teqb hc w b h st cmd in
    let o' := handle_rule teqb hc (with_table T w x) b' h st cmd in
    match fst (fst o), fst (fst o') with
    | Ok wr, Ok wr' =>
        wr_tickets wr = wr_tickets wr' /\ map fst (wr_blob wr) = map fst (wr_blob wr') /\
        wr_option wr = wr_option wr' /\ wr_history wr = wr_history wr'
    | Err e, Err e' => e = e'
    | _, _ => False
    end /\
    snd (fst o') = with_table T (snd (fst o)) x /\ snd o' = snd o.
  Proof.
    intros x w b b' h st cmd Hinv Hb Hb' Hp.
    exact (C18Proofs.handle_rule_tr T teqb hc teqb_spec x w b b' h st cmd Hinv (conj Hb (conj Hb' Hp))).
  Qed.

  (* ---- S3 ---- *)
  Theorem c18_fine : forall w rp goal,
    disk_inv teqb hc w ->
    let o1 := build teqb hc hl hr w rp goal in
    let o2 := build teqb hc hl hr (erase_table T w) rp goal in
    o_verdict o1 = o_verdict o2 /\ w_files (o_world o1) = w_files (o_world o2) /\
    rd_cache (w_rd (o_world o1)) = rd_cache (w_rd (o_world o2)) /\
    rd_hist (w_rd (o_world o1)) = rd_hist (w_rd (o_world o2)) /\
    o_commands o1 = o_commands o2 /\ o_status o1 = o_status o2.
  Proof. exact (C18Proofs.c18_fine_main T teqb hc hl hr teqb_spec). Qed.

  (* stronger: ANY two sound tables (absent or readable) give the same build; w_files, cache and
     history directory are literally equal *)
  Theorem c18_table_irrelevant : forall w x rp goal,
    disk_inv teqb hc w -> disk_inv teqb hc (with_table T w x) ->
    rd_table (w_rd w) <> Some SF_bad -> x <> Some SF_bad ->
    let o1 := build teqb hc hl hr w rp goal in
    let o2 := build teqb hc hl hr (with_table T w x) rp goal in
    o_verdict o1 = o_verdict o2 /\ w_files (o_world o1) = w_files (o_world o2) /\
    rd_cache (w_rd (o_world o1)) = rd_cache (w_rd (o_world o2)) /\
    rd_hist (w_rd (o_world o1)) = rd_hist (w_rd (o_world o2)) /\
    o_commands o1 = o_commands o2 /\ o_status o1 = o_status o2.
  Proof. exact (C18Proofs.build_table_irrelevant_main T teqb hc hl hr teqb_spec). Qed.

  (* the same for clean *)
  Theorem c18_fine_clean : forall w rp goal,
    disk_inv teqb hc w ->
    let o1 := clean teqb hc w rp goal in
    let o2 := clean teqb hc (erase_table T w) rp goal in
    o_verdict o1 = o_verdict o2 /\ w_files (o_world o1) = w_files (o_world o2) /\
    rd_cache (w_rd (o_world o1)) = rd_cache (w_rd (o_world o2)) /\
    rd_hist (w_rd (o_world o1)) = rd_hist (w_rd (o_world o2)) /\
    o_commands o1 = o_commands o2 /\ o_status o1 = o_status o2.
  Proof. exact (C18Proofs.c18_fine_clean_main T teqb hc teqb_spec). Qed.
End Results.

(* ---- S4: the instance with free symbolic hashes: closed statements ---- *)

Theorem c18_fine_sym : forall (w : world sym) rp goal,
  disk_inv sym_eqb SContent w ->
  let o1 := build sym_eqb SContent SList SRule w rp goal in
  let o2 := build sym_eqb SContent SList SRule (erase_table sym w) rp goal in
  o_verdict o1 = o_verdict o2 /\ w_files (o_world o1) = w_files (o_world o2) /\
  rd_cache (w_rd (o_world o1)) = rd_cache (w_rd (o_world o2)) /\
  rd_hist (w_rd (o_world o1)) = rd_hist (w_rd (o_world o2)) /\
  o_commands o1 = o_commands o2 /\ o_status o1 = o_status o2.
Proof. exact (c18_fine sym sym_eqb SContent SList SRule sym_eqb_spec). Qed.

Theorem shortcut_transparent_sym : forall (w : world sym) p assumed,
  disk_inv sym_eqb SContent w -> state_ok sym_eqb SContent w assumed ->
  get_file_ticket sym_eqb SContent w p assumed = option_map (fun f => SContent (f_content f)) (fget w p).
Proof. exact (shortcut_transparent sym sym_eqb SContent). Qed.

Theorem c18_fine_clean_sym : forall (w : world sym) rp goal,
  disk_inv sym_eqb SContent w ->
  let o1 := clean sym_eqb SContent w rp goal in
  let o2 := clean sym_eqb SContent (erase_table sym w) rp goal in
  o_verdict o1 = o_verdict o2 /\ w_files (o_world o1) = w_files (o_world o2) /\
  rd_cache (w_rd (o_world o1)) = rd_cache (w_rd (o_world o2)) /\
  rd_hist (w_rd (o_world o1)) = rd_hist (w_rd (o_world o2)) /\
  o_commands o1 = o_commands o2 /\ o_status o1 = o_status o2.
Proof. exact (c18_fine_clean sym sym_eqb SContent sym_eqb_spec). Qed.
