(* C02, history level, part 1: one rule thread.
   A rule whose history holds an entry for the present sources, and whose targets each still hold the
   remembered output or can be taken back from the cache, runs no command (A1, handle_rule_no_rerun);
   plus the two single-thread facts the build-level theorems of C02Repeat.v rest on:
   what a successful thread records (handle_rule_records) and what a thread does when every target still
   holds the remembered output (handle_rule_uptodate). *)
From Coq Require Import Relations.Relation_Operators Relations.Operators_Properties.
From Ruler Require Import Tactics Bytes AList RuleSyntax TopoSort World Cmdlang Work Build Ops Inv
     BuildSpec Ideal BytesFacts InvFacts BuildFacts C01Script C01Hist C02Extra.
Local Open Scope N_scope.

(* ---------- generic list facts ---------- *)

Lemma Forall2_fun {A B} (R : A -> B -> Prop) :
  (forall a b b', R a b -> R a b' -> b = b') ->
  forall l m m', Forall2 R l m -> Forall2 R l m' -> m = m'.
Proof.
  intros HR l m m' H. revert m'. induction H as [|a b l m Hab _ IH]; intros m' H'.
  - inversion H'. reflexivity.
  - inversion H' as [|? b' ? m'' Hab' Hrest]; subst. f_equal; [eapply HR; eauto | apply IH; exact Hrest].
Qed.

Lemma Forall2_nth_intro {A B} (R : A -> B -> Prop) : forall l m,
  length l = length m ->
  (forall i a b, nth_error l i = Some a -> nth_error m i = Some b -> R a b) ->
  Forall2 R l m.
Proof.
  induction l as [|a l IH]; intros [|b m] Hlen H; cbn in Hlen; try discriminate; constructor.
  - apply (H O); reflexivity.
  - apply IH; [congruence|]. intros i x y Hx Hy. apply (H (S i)); assumption.
Qed.

(* R holds between l and the prefix of m of the same length (m may be longer: resolve_remembered only looks
   at the first entries of a remembered vector) *)
Inductive Forall2p {A B} (R : A -> B -> Prop) : list A -> list B -> Prop :=
| F2p_nil m : Forall2p R [] m
| F2p_cons a b l m : R a b -> Forall2p R l m -> Forall2p R (a :: l) (b :: m).

Lemma Forall2p_of_Forall2 {A B} (R : A -> B -> Prop) l m : Forall2 R l m -> Forall2p R l m.
Proof. induction 1; constructor; auto. Qed.

Lemma Forall2p_firstn {A B} (R : A -> B -> Prop) l m :
  Forall2p R l m -> Forall2 R l (firstn (length l) m).
Proof. induction 1; cbn [length firstn]; constructor; auto. Qed.

Lemma Forall2p_impl {A B} (R R' : A -> B -> Prop) l m :
  (forall a b, In a l -> R a b -> R' a b) -> Forall2p R l m -> Forall2p R' l m.
Proof.
  intros Hi H. induction H as [|a b l m Hab _ IH]; constructor.
  - apply Hi; [left; reflexivity | exact Hab].
  - apply IH. intros x y Hx. apply Hi. right. exact Hx.
Qed.

Lemma Forall2p_map_l {A B C} (R : C -> B -> Prop) (f : A -> C) l m :
  Forall2p (fun a b => R (f a) b) l m <-> Forall2p R (map f l) m.
Proof.
  split.
  - induction 1; cbn [map]; constructor; auto.
  - revert m. induction l as [|a l IH]; intros m H; cbn [map] in H; [constructor|].
    inversion H; subst. constructor; auto.
Qed.

Section Thread.
  Variable T : Type.
  Variable teqb : T -> T -> bool.
  Variable hc : bytes -> T.
  Hypothesis teqb_spec : forall a b, teqb a b = true <-> a = b.

  Notation world := (world T).
  Notation fstate := (fstate T).
  Notation blob := (blob T).
  Notation state_ok := (state_ok teqb hc).
  Notation disk_inv := (disk_inv teqb hc).
  Notation steps := (clos_refl_trans world (step teqb hc)).
  Notation blob_ok := (InvProofs.blob_ok T teqb hc).
  Notation has_hash := (has_hash T hc).
  Notation gft := (get_file_ticket teqb hc).

  Lemma teqb_rfl a : teqb a a = true.
  Proof. apply teqb_spec. reflexivity. Qed.

  Lemma teqb_neq a b : a <> b -> teqb a b = false.
  Proof. intro H. destruct (teqb a b) eqn:E; [apply teqb_spec in E; contradiction | reflexivity]. Qed.

  Lemma opt_dec (o : option T) t : o = Some t \/ o <> Some t.
  Proof.
    destruct o as [x|]; [|right; discriminate].
    destruct (teqb x t) eqn:E.
    - left. apply teqb_spec in E. subst x. reflexivity.
    - right. intro H. injection H as ->. rewrite teqb_rfl in E. discriminate.
  Qed.

  Lemma has_hash_fun (w : world) p t t' : has_hash w p t -> has_hash w p t' -> t = t'.
  Proof. intros (c & Hc & ->) (c' & Hc' & ->). congruence. Qed.

  (* the cache holds a file under ticket t *)
  Definition cache_has (w : world) (t : T) : Prop :=
    exists c f, cache_of w = Some c /\ alookup teqb c t = Some f.

  (* ================================================================== *)
  (* the two primitive moves                                              *)
  (* ================================================================== *)

  Lemma back_up_props (w : world) cur p w1 :
    back_up teqb w cur p = Some w1 ->
    (forall q, q <> p -> fget w1 q = fget w q) /\ cache_of w1 <> None /\
    (forall t, cache_has w t -> cache_has w1 t).
  Proof.
    intro H. pose proof (fun q => back_up_fget_neq T teqb _ _ _ _ q H) as Hf.
    apply back_up_spec in H as (c & f & Hc & Hfp & ->).
    split; [intros q Hq; apply Hf; exact Hq|]. split; [cbn; discriminate|].
    intros t (c' & f' & Hc' & Hl). rewrite Hc in Hc'. injection Hc' as <-.
    destruct (opt_dec (Some cur) t) as [E | NE].
    - injection E as <-. exists (ainsert teqb c cur f), f. split; [reflexivity|].
      apply (BuildFacts.alookup_ainsert_eq teqb teqb_spec).
    - exists (ainsert teqb c cur f), f'. split; [reflexivity|].
      rewrite (BuildFacts.alookup_ainsert_neq teqb teqb_spec); [exact Hl|]. intro E. apply NE. congruence.
  Qed.

  Lemma restore_hit (w : world) t p :
    cache_has w t ->
    exists w', restore teqb w t p = RDone w' /\
      (forall q, q <> p -> fget w' q = fget w q) /\ fget w' p <> None /\ cache_of w' <> None /\
      (forall t', t' <> t -> cache_has w t' -> cache_has w' t').
  Proof.
    intros (c & f & Hc & Hl). unfold restore. rewrite Hc, Hl. eexists. split; [reflexivity|].
    split; [|split; [|split]].
    - intros q Hq. unfold fget. cbn. apply (BuildFacts.alookup_ainsert_neq bytes_eqb bytes_eqb_eq).
      intro E. apply Hq. congruence.
    - unfold fget. cbn. rewrite (BuildFacts.alookup_ainsert_eq bytes_eqb bytes_eqb_eq). discriminate.
    - cbn. discriminate.
    - intros t' Hne (c' & f' & Hc' & Hl'). rewrite Hc in Hc'. injection Hc' as <-.
      exists (aremove teqb c t), f'. split; [reflexivity|].
      rewrite (BuildFacts.alookup_aremove_neq teqb teqb_spec); [exact Hl'|]. intro E. apply Hne. congruence.
  Qed.

  (* ================================================================== *)
  (* one target                                                           *)
  (* ================================================================== *)

  Lemma resolve_single_correct (w : world) r p a :
    gft w p a = Some r -> resolve_single teqb hc w r p a = Ok (AlreadyCorrect, w).
  Proof. intro E. unfold resolve_single. rewrite E, teqb_rfl. reflexivity. Qed.

  Lemma resolve_single_recover (w : world) r p a :
    cache_has w r -> gft w p a <> Some r ->
    exists w', resolve_single teqb hc w r p a = Ok (Recovered, w') /\
      (forall q, q <> p -> fget w' q = fget w q) /\ fget w' p <> None /\ cache_of w' <> None /\
      (forall t', t' <> r -> cache_has w t' -> cache_has w' t').
  Proof.
    intros Hc Hne. unfold resolve_single. destruct (gft w p a) as [cur|] eqn:Eg.
    - rewrite teqb_neq by (intro E; apply Hne; congruence).
      destruct (back_up teqb w cur p) as [w1|] eqn:Eb.
      + destruct (back_up_props _ _ _ _ Eb) as (F1 & _ & C1).
        destruct (restore_hit w1 r p (C1 _ Hc)) as (w2 & Er & F2 & P2 & K2 & C2).
        exists w2. unfold restore_or_rebuild. rewrite Er. split; [reflexivity|].
        split; [intros q Hq; rewrite (F2 q Hq); apply F1; exact Hq|]. split; [exact P2|]. split; [exact K2|].
        intros t' Ht' Hh. apply C2; [exact Ht'|]. apply C1. exact Hh.
      + exfalso. unfold back_up in Eb. destruct Hc as (c & f & Hc & _). rewrite Hc in Eb.
        unfold get_file_ticket in Eg. destruct (fget w p); discriminate.
    - destruct (restore_hit w r p Hc) as (w2 & Er & F2 & P2 & K2 & C2).
      exists w2. unfold restore_or_rebuild. rewrite Er. auto.
  Qed.

  (* ================================================================== *)
  (* all targets of the rule                                              *)
  (* ================================================================== *)

  (* the two hypotheses of A1 about (w, b, remembered) *)
  Definition recoverable (w : world) (b : blob) (rem : list fstate) : Prop :=
    (forall i p a r, nth_error b i = Some (p, a) -> nth_error rem i = Some r ->
       gft w p a = Some (fs_t r) \/ cache_has w (fs_t r)) /\
    (forall i j pi ai ri pj aj rj, i <> j ->
       nth_error b i = Some (pi, ai) -> nth_error rem i = Some ri ->
       nth_error b j = Some (pj, aj) -> nth_error rem j = Some rj ->
       gft w pi ai <> Some (fs_t ri) -> gft w pj aj <> Some (fs_t rj) -> fs_t ri <> fs_t rj).

  Lemma recoverable_tail (w w1 : world) p a r b rem :
    recoverable w ((p, a) :: b) (r :: rem) -> ~ In p (map fst b) ->
    (forall q, q <> p -> fget w1 q = fget w q) ->
    (forall t, cache_has w t -> gft w p a = Some (fs_t r) \/ t <> fs_t r -> cache_has w1 t) ->
    recoverable w1 b rem.
  Proof.
    intros [H4 H5] Hnin Hf Hc.
    assert (forall i pi ai, nth_error b i = Some (pi, ai) -> gft w1 pi ai = gft w pi ai) as Hg.
    { intros i pi ai Hb. apply get_file_ticket_ext. apply Hf. intros ->. apply Hnin.
      apply nth_error_In in Hb. apply (in_map fst) in Hb. exact Hb. }
    split.
    - intros i pi ai ri Hb Hr. rewrite (Hg _ _ _ Hb).
      destruct (H4 (S i) pi ai ri Hb Hr) as [L | R]; [left; exact L|].
      destruct (opt_dec (gft w pi ai) (fs_t ri)) as [E | NE]; [left; exact E|].
      right. apply Hc; [exact R|].
      destruct (opt_dec (gft w p a) (fs_t r)) as [E0 | NE0]; [left; exact E0|].
      right. intro X. apply (H5 O (S i) p a r pi ai ri); auto.
    - intros i j pi ai ri pj aj rj Hij Hbi Hri Hbj Hrj Hni Hnj.
      rewrite (Hg _ _ _ Hbi) in Hni. rewrite (Hg _ _ _ Hbj) in Hnj.
      apply (H5 (S i) (S j) pi ai ri pj aj rj); auto.
  Qed.

  (* tickets that the resolution of (b, rem) in w takes out of the cache: the remembered tickets of the
     targets that do not hold them *)
  Definition untouched (w : world) (b : blob) (rem : list fstate) (x : T) : Prop :=
    forall i p a r, nth_error b i = Some (p, a) -> nth_error rem i = Some r ->
                    gft w p a <> Some (fs_t r) -> x <> fs_t r.

  Lemma resolve_no_rebuild (b : blob) : forall (w : world) rem,
    (length b <= length rem)%nat -> NoDup (map fst b) -> cache_of w <> None -> recoverable w b rem ->
    exists ress w', resolve_remembered teqb hc w b rem = Ok (ress, w') /\
      needs_rebuild ress = false /\
      (forall p, In p (map fst b) -> fget w' p <> None) /\
      cache_of w' <> None /\
      (forall x, cache_has w x -> untouched w b rem x -> cache_has w' x).
  Proof.
    induction b as [|[p a] rest IH]; intros w rem Hlen Hnd Hc Hpre.
    - exists [], w. cbn. split; [reflexivity|]. split; [reflexivity|]. split; [intros p []|]. auto.
    - destruct rem as [|r rrest]; [cbn in Hlen; lia|]. cbn [length] in Hlen. cbn [map fst] in Hnd.
      inversion Hnd as [|? ? Hnin Hnd']; subst.
      pose proof Hpre as [H4 _]. specialize (H4 O p a r eq_refl eq_refl).
      assert (forall (w1 : world) i pi ai, (forall q, q <> p -> fget w1 q = fget w q) ->
                nth_error rest i = Some (pi, ai) -> gft w1 pi ai = gft w pi ai) as Hg.
      { intros w1 i pi ai Hf Hb. apply get_file_ticket_ext. apply Hf. intros ->. apply Hnin.
        apply nth_error_In in Hb. apply (in_map fst) in Hb. exact Hb. }
      cbn [resolve_remembered].
      destruct (opt_dec (gft w p a) (fs_t r)) as [E | NE].
      + rewrite (resolve_single_correct _ _ _ _ E).
        assert (recoverable w rest rrest) as Hpre'.
        { eapply recoverable_tail; [exact Hpre | exact Hnin | auto | auto]. }
        destruct (IH w rrest ltac:(lia) Hnd' Hc Hpre') as (ress & w' & Er & Hn & Hex & Hc' & Hk).
        rewrite Er. exists (AlreadyCorrect :: ress), w'. split; [reflexivity|]. split; [exact Hn|].
        split; [|split; [exact Hc'|]].
        * intros q Hq. cbn [map fst In] in Hq. destruct Hq as [<- | Hq]; [|apply Hex; exact Hq].
          destruct (resolve_remembered_frame T teqb hc _ _ _ _ _ Er) as [[_ F] _].
          rewrite (F p Hnin). intro X. apply (get_file_ticket_none T teqb hc w p a) in X. congruence.
        * intros x Hx Hu. apply Hk; [exact Hx|]. intros i pi ai ri Hb Hr. apply (Hu (S i) pi ai ri Hb Hr).
      + destruct H4 as [L | R]; [contradiction|].
        destruct (resolve_single_recover w (fs_t r) p a R NE) as (w1 & Es & F1 & P1 & K1 & C1).
        rewrite Es.
        assert (recoverable w1 rest rrest) as Hpre'.
        { eapply recoverable_tail; [exact Hpre | exact Hnin | exact F1 |].
          intros t Ht [X | X]; [contradiction|]. apply C1; assumption. }
        destruct (IH w1 rrest ltac:(lia) Hnd' K1 Hpre') as (ress & w' & Er & Hn & Hex & Hc' & Hk).
        rewrite Er. exists (Recovered :: ress), w'. split; [reflexivity|]. split; [exact Hn|].
        split; [|split; [exact Hc'|]].
        * intros q Hq. cbn [map fst In] in Hq. destruct Hq as [<- | Hq]; [|apply Hex; exact Hq].
          destruct (resolve_remembered_frame T teqb hc _ _ _ _ _ Er) as [[_ F] _].
          rewrite (F p Hnin). exact P1.
        * intros x Hx Hu. apply Hk.
          -- apply C1; [|exact Hx]. apply (Hu O p a r eq_refl eq_refl NE).
          -- intros i pi ai ri Hb Hr Hne. rewrite (Hg w1 i pi ai F1 Hb) in Hne.
             apply (Hu (S i) pi ai ri Hb Hr Hne).
  Qed.

  Lemma current_tickets_total (b : blob) : forall (w : world),
    (forall p, In p (map fst b) -> fget w p <> None) -> exists ts, current_tickets teqb hc w b = Ok ts.
  Proof.
    induction b as [|[p a] rest IH]; intros w H; cbn [current_tickets]; [eauto|].
    destruct (gft w p a) as [t|] eqn:Eg.
    - destruct (IH w) as (ts & E); [intros q Hq; apply H; right; exact Hq|]. rewrite E. eauto.
    - exfalso. apply (get_file_ticket_none T teqb hc) in Eg. apply (H p); [left; reflexivity | exact Eg].
  Qed.

  (* ================================================================== *)
  (* A1                                                                   *)
  (* ================================================================== *)

  (* no command line is executed, whatever the command is; no assumption on the state of the disk *)
  Theorem handle_rule_no_rerun_run : forall (w : world) (b : blob) h key cmd remembered,
    alookup teqb h key = Some remembered ->
    length remembered = length b -> NoDup (map fst b) -> cache_of w <> None ->
    (forall i p a r, nth_error b i = Some (p, a) -> nth_error remembered i = Some r ->
       get_file_ticket teqb hc w p a = Some (fs_t r) \/
       exists c f, cache_of w = Some c /\ alookup teqb c (fs_t r) = Some f) ->
    (forall i j pi ai ri pj aj rj, i <> j ->
       nth_error b i = Some (pi, ai) -> nth_error remembered i = Some ri ->
       nth_error b j = Some (pj, aj) -> nth_error remembered j = Some rj ->
       get_file_ticket teqb hc w pi ai <> Some (fs_t ri) ->
       get_file_ticket teqb hc w pj aj <> Some (fs_t rj) -> fs_t ri <> fs_t rj) ->
    exists wr w' ress,
      handle_rule teqb hc w b h key cmd = (Ok wr, w', []) /\
      wr_option wr = Resolutions ress /\ needs_rebuild ress = false /\ wr_history wr = Some h /\
      resolve_remembered teqb hc w b remembered = Ok (ress, w') /\
      wr_blob wr = forget_replaced hc b ress /\
      current_tickets teqb hc w' (forget_replaced hc b ress) = Ok (wr_tickets wr).
  Proof.
    intros w b h key cmd rem Hl Hlen Hnd Hc H4 H5.
    assert (length b <= length rem)%nat as Hle by (rewrite Hlen; apply le_n).
    destruct (resolve_no_rebuild b w rem Hle Hnd Hc (conj H4 H5)) as (ress & w' & Er & Hn & Hex & _).
    destruct (current_tickets_total (forget_replaced hc b ress) w') as (ts & Ect).
    { rewrite BuildFacts.forget_replaced_fst. exact Hex. }
    exists (mk_wr ts (forget_replaced hc b ress) (Resolutions ress) (Some h)), w', ress.
    unfold handle_rule. rewrite Hl, Er. cbv zeta. rewrite Hn, Ect. cbn [wr_option wr_history wr_tickets wr_blob].
    repeat split; reflexivity.
  Qed.

  (* A1 as asked, with the tickets sent on; that part needs the disk invariant and sound assumed states
     (the remembered ticket of a recovered target is compared with the hash of the file taken out of the
     cache: they agree because the cache is content addressed) *)
  Theorem handle_rule_no_rerun : forall (w : world) (b : blob) h key cmd remembered,
    disk_inv w -> blob_ok w b ->
    alookup teqb h key = Some remembered ->
    length remembered = length b -> NoDup (map fst b) -> cache_of w <> None ->
    (forall i p a r, nth_error b i = Some (p, a) -> nth_error remembered i = Some r ->
       get_file_ticket teqb hc w p a = Some (fs_t r) \/
       exists c f, cache_of w = Some c /\ alookup teqb c (fs_t r) = Some f) ->
    (forall i j pi ai ri pj aj rj, i <> j ->
       nth_error b i = Some (pi, ai) -> nth_error remembered i = Some ri ->
       nth_error b j = Some (pj, aj) -> nth_error remembered j = Some rj ->
       get_file_ticket teqb hc w pi ai <> Some (fs_t ri) ->
       get_file_ticket teqb hc w pj aj <> Some (fs_t rj) -> fs_t ri <> fs_t rj) ->
    exists wr w' ress,
      handle_rule teqb hc w b h key cmd = (Ok wr, w', []) /\
      wr_option wr = Resolutions ress /\ needs_rebuild ress = false /\ wr_history wr = Some h /\
      wr_tickets wr = map fs_t remembered.
  Proof.
    intros w b h key cmd rem Hinv Hb Hl Hlen Hnd Hc H4 H5.
    destruct (handle_rule_no_rerun_run w b h key cmd rem Hl Hlen Hnd Hc H4 H5)
      as (wr & w' & ress & Hh & Ho & Hn & Hhist & Er & Hbl & Ect).
    exists wr, w', ress. repeat (split; [assumption|]).
    pose proof (InvProofs.resolve_remembered_steps T teqb hc teqb_spec _ _ _ _ _ Hinv Hb Er) as Hs.
    pose proof (inv_steps T teqb hc teqb_spec _ _ Hinv Hs) as Hinv'.
    destruct (resolve_remembered_spec T teqb hc teqb_spec _ _ _ _ _ Hinv Hb Hnd Er) as (_ & _ & R).
    assert (length rem = length (map fst b)) as Hlen' by (rewrite map_length; exact Hlen).
    pose proof (resolved_ok_all T hc _ _ _ _ R Hn Hlen') as F1.
    assert (blob_ok w' (forget_replaced hc b ress)) as Hb1.
    { apply InvProofs.forget_replaced_ok; [exact teqb_spec|]. exact (blob_steps T teqb hc teqb_spec _ _ _ Hinv Hs Hb). }
    pose proof (current_tickets_hash T teqb hc _ _ _ Hb1 Ect) as F2.
    rewrite BuildFacts.forget_replaced_fst in F2.
    apply Forall2_map_r in F1.
    exact (Forall2_fun (has_hash w') (has_hash_fun w') _ _ _ F2 F1).
  Qed.

  (* ================================================================== *)
  (* every target still holds the remembered output: nothing happens      *)
  (* ================================================================== *)

  Definition holds (w : world) (pa : bytes * fstate) (r : fstate) : Prop :=
    gft w (fst pa) (snd pa) = Some (fs_t r).

  Lemma resolve_all_correct (b : blob) (w : world) rem :
    Forall2p (holds w) b rem ->
    resolve_remembered teqb hc w b rem = Ok (repeat AlreadyCorrect (length b), w).
  Proof.
    induction 1 as [|[p a] r rest rrest Hh _ IH]; [reflexivity|].
    cbn [resolve_remembered length repeat]. unfold holds in Hh. cbn [fst snd] in Hh.
    rewrite (resolve_single_correct _ _ _ _ Hh), IH. reflexivity.
  Qed.

  Lemma forget_replaced_correct (b : blob) : forget_replaced hc b (repeat AlreadyCorrect (length b)) = b.
  Proof.
    induction b as [|[p a] rest IH]; [reflexivity|]. cbn [length repeat forget_replaced]. rewrite IH. reflexivity.
  Qed.

  Lemma needs_rebuild_correct n : needs_rebuild (repeat AlreadyCorrect n) = false.
  Proof. induction n as [|n IH]; [reflexivity|]. exact IH. Qed.

  Lemma current_tickets_correct (b : blob) (w : world) rem :
    Forall2p (holds w) b rem ->
    current_tickets teqb hc w b = Ok (map fs_t (firstn (length b) rem)).
  Proof.
    induction 1 as [|[p a] r rest rrest Hh _ IH]; [reflexivity|].
    cbn [current_tickets length firstn map]. unfold holds in Hh. cbn [fst snd] in Hh. rewrite Hh, IH. reflexivity.
  Qed.

  Theorem handle_rule_uptodate (w : world) (b : blob) h key cmd rem :
    alookup teqb h key = Some rem -> Forall2p (holds w) b rem ->
    handle_rule teqb hc w b h key cmd =
    (Ok (mk_wr (map fs_t (firstn (length b) rem)) b (Resolutions (repeat AlreadyCorrect (length b))) (Some h)), w, []).
  Proof.
    intros Hl Hh. unfold handle_rule. rewrite Hl, (resolve_all_correct _ _ _ Hh). cbv zeta.
    rewrite needs_rebuild_correct, forget_replaced_correct, (current_tickets_correct _ _ _ Hh). reflexivity.
  Qed.

  (* a sound assumed state never hides the true hash *)
  Lemma gft_of_hash (w : world) p a t : state_ok w a -> has_hash w p t -> gft w p a = Some t.
  Proof.
    intros Hok Hh. destruct (gft w p a) as [t'|] eqn:Eg.
    - f_equal. eapply has_hash_fun; [|exact Hh]. eapply gft_hash; eauto.
    - exfalso. apply (gft_none T teqb hc) in Eg. destruct Hh as (c & Hc & _). congruence.
  Qed.

  Lemma holds_of_hashes (w : world) (b : blob) rem :
    blob_ok w b -> Forall2p (fun p r => has_hash w p (fs_t r)) (map fst b) rem -> Forall2p (holds w) b rem.
  Proof.
    intros Hb H. apply Forall2p_map_l in H. eapply Forall2p_impl; [|exact H].
    intros [p a] r Hin Hh. unfold holds. cbn [fst snd] in *. apply gft_of_hash; [|exact Hh]. eapply Hb; eauto.
  Qed.

  (* ================================================================== *)
  (* what a successful thread records                                     *)
  (* ================================================================== *)

  Lemma resolved_ok_prefix (w' : world) ps : forall rem ress,
    resolved_ok T hc w' ps rem ress -> needs_rebuild ress = false ->
    Forall2p (fun p r => has_hash w' p (fs_t r)) ps rem.
  Proof.
    induction ps as [|p ps IH]; intros rem ress; [constructor|].
    destruct ress as [|res ress]; cbn [resolved_ok]; [contradiction|].
    destruct rem as [|r rem]; [contradiction|]. intros [H1 H2] Hn.
    unfold needs_rebuild in Hn. cbn [existsb] in Hn. apply orb_false_iff in Hn as [Hn1 Hn2].
    constructor; [apply H1; intros ->; discriminate | eapply IH; eauto].
  Qed.

  (* after a thread that returns Ok, the history it hands to main has an entry for the sources it was
     started with, and that entry remembers what the targets now hold; the tickets it sends on are the
     hashes of what the targets now hold *)
  Theorem handle_rule_records (w : world) (b : blob) h key cmd wr w' s :
    disk_inv w -> blob_ok w b -> NoDup (map fst b) -> b <> [] ->
    handle_rule teqb hc w b h key cmd = (Ok wr, w', s) ->
    Forall2 (has_hash w') (map fst b) (wr_tickets wr) /\
    exists h' rem, wr_history wr = Some h' /\ alookup teqb h' key = Some rem /\
                   Forall2p (fun p r => has_hash w' p (fs_t r)) (map fst b) rem.
  Proof.
    intros Hinv Hb Hnd Hne H. apply handle_rule_cases in H. unfold resolved_of in H.
    destruct (alookup teqb h key) as [rem|] eqn:El.
    - destruct (resolve_remembered teqb hc w b rem) as [[ress w1]|e] eqn:Er; [|destruct H as [H _]; discriminate].
      pose proof (InvProofs.resolve_remembered_steps T teqb hc teqb_spec _ _ _ _ _ Hinv Hb Er) as Hs1.
      pose proof (inv_steps T teqb hc teqb_spec _ _ Hinv Hs1) as Hinv1.
      assert (blob_ok w1 (forget_replaced hc b ress)) as Hb1.
      { apply InvProofs.forget_replaced_ok; [exact teqb_spec|]. exact (blob_steps T teqb hc teqb_spec _ _ _ Hinv Hs1 Hb). }
      cbv zeta in H. destruct (needs_rebuild ress) eqn:En.
      + destruct (run_script w1 (script_lines cmd)) as [codes w2] eqn:Ers.
        destruct H as (-> & -> & H). rewrite Ers in H. cbn [fst snd] in H.
        destruct (command_verdict codes); [discriminate|].
        destruct (update_blob teqb hc w2 (forget_replaced hc b ress)) as [b'|p] eqn:Eu; [|discriminate].
        destruct (history_insert teqb h key (map (fun e => fs_t (snd e)) b') (map fst (forget_replaced hc b ress)))
          as [h'|e] eqn:Ehi; [|discriminate].
        injection H as ->. cbn [wr_tickets wr_history]. rewrite Ers. cbn [snd].
        pose proof (InvProofs.run_script_steps T teqb hc _ _ _ _ Ers) as Hs2.
        pose proof (blob_steps T teqb hc teqb_spec _ _ _ Hinv1 Hs2 Hb1) as Hb2.
        destruct (update_blob_hash T teqb hc _ _ _ Hb2 Eu) as [_ Hts]. rewrite BuildFacts.forget_replaced_fst in Hts.
        split; [exact Hts|].
        destruct (history_insert_ok T teqb teqb_spec _ _ _ _ _ Ehi) as ((v & Hv & Ev) & _).
        exists h', v. split; [reflexivity|]. split; [exact Hv|].
        apply Forall2p_of_Forall2. apply Forall2_map_r. rewrite Ev. exact Hts.
      + destruct H as (-> & -> & H).
        destruct (current_tickets teqb hc w1 (forget_replaced hc b ress)) as [ts|p] eqn:Ect; [|discriminate].
        injection H as ->. cbn [wr_tickets wr_history].
        pose proof (current_tickets_hash T teqb hc _ _ _ Hb1 Ect) as Hts. rewrite BuildFacts.forget_replaced_fst in Hts.
        split; [exact Hts|]. exists h, rem. split; [reflexivity|]. split; [exact El|].
        destruct (resolve_remembered_spec T teqb hc teqb_spec _ _ _ _ _ Hinv Hb Hnd Er) as (_ & _ & R).
        eapply resolved_ok_prefix; eauto.
    - destruct (resolve_fresh teqb hc w b) as [[ress w1]|e] eqn:Er; [|destruct H as [H _]; discriminate].
      pose proof (InvProofs.resolve_fresh_steps T teqb hc teqb_spec _ _ _ _ Hinv Hb Er) as Hs1.
      pose proof (inv_steps T teqb hc teqb_spec _ _ Hinv Hs1) as Hinv1.
      assert (blob_ok w1 (forget_replaced hc b ress)) as Hb1.
      { apply InvProofs.forget_replaced_ok; [exact teqb_spec|]. exact (blob_steps T teqb hc teqb_spec _ _ _ Hinv Hs1 Hb). }
      apply resolve_fresh_frame in Er as [_ Eress].
      cbv zeta in H. destruct (needs_rebuild ress) eqn:En.
      + destruct (run_script w1 (script_lines cmd)) as [codes w2] eqn:Ers.
        destruct H as (-> & -> & H). rewrite Ers in H. cbn [fst snd] in H.
        destruct (command_verdict codes); [discriminate|].
        destruct (update_blob teqb hc w2 (forget_replaced hc b ress)) as [b'|p] eqn:Eu; [|discriminate].
        destruct (history_insert teqb h key (map (fun e => fs_t (snd e)) b') (map fst (forget_replaced hc b ress)))
          as [h'|e] eqn:Ehi; [|discriminate].
        injection H as ->. cbn [wr_tickets wr_history]. rewrite Ers. cbn [snd].
        pose proof (InvProofs.run_script_steps T teqb hc _ _ _ _ Ers) as Hs2.
        pose proof (blob_steps T teqb hc teqb_spec _ _ _ Hinv1 Hs2 Hb1) as Hb2.
        destruct (update_blob_hash T teqb hc _ _ _ Hb2 Eu) as [_ Hts]. rewrite BuildFacts.forget_replaced_fst in Hts.
        split; [exact Hts|].
        destruct (history_insert_ok T teqb teqb_spec _ _ _ _ _ Ehi) as ((v & Hv & Ev) & _).
        exists h', v. split; [reflexivity|]. split; [exact Hv|].
        apply Forall2p_of_Forall2. apply Forall2_map_r. rewrite Ev. exact Hts.
      + exfalso. subst ress. apply needs_rebuild_repeat in En. destruct b; [contradiction | discriminate].
  Qed.

  (* ================================================================== *)
  (* A1 once more, with everything the build-level theorems need          *)
  (* ================================================================== *)

  Lemma Forall2p_len {A B} (R : A -> B -> Prop) l m : Forall2p R l m -> (length l <= length m)%nat.
  Proof. induction 1; cbn [length]; lia. Qed.

  Lemma Forall2p_nth_error {A B} (R : A -> B -> Prop) l m :
    Forall2p R l m -> forall i a b, nth_error l i = Some a -> nth_error m i = Some b -> R a b.
  Proof.
    induction 1 as [|x y l m Hxy _ IH]; intros [|i] a b Ha Hb; cbn in *; try discriminate.
    - injection Ha as <-. injection Hb as <-. exact Hxy.
    - eapply IH; eauto.
  Qed.

  Lemma Forall2p_nth_error_l {A B} (R : A -> B -> Prop) l m :
    Forall2p R l m -> forall i a, nth_error l i = Some a -> exists b, nth_error m i = Some b /\ R a b.
  Proof.
    induction 1 as [|x y l m Hxy _ IH]; intros [|i] a Ha; cbn in *; try discriminate.
    - injection Ha as <-. eauto.
    - eapply IH; eauto.
  Qed.

  Lemma Forall2p_and {A B} (R R' : A -> B -> Prop) l m :
    Forall2p R l m -> Forall2p R' l m -> Forall2p (fun a b => R a b /\ R' a b) l m.
  Proof.
    induction 1 as [|x y l m Hxy _ IH]; intro H'; [constructor|].
    inversion H'; subst. constructor; auto.
  Qed.

  Lemma Forall2p_in_l {A B} (R : A -> B -> Prop) l m a : Forall2p R l m -> In a l -> exists b, R a b.
  Proof.
    induction 1 as [|x y l m Hxy _ IH]; intros Hin; [destruct Hin|].
    destruct Hin as [<- | Hin]; [eauto | auto].
  Qed.

  (* the remembered vector may be longer than the blob: only its first entries are looked at *)
  Theorem handle_rule_no_rerun_full (w : world) (b : blob) h key cmd rem :
    disk_inv w -> blob_ok w b ->
    alookup teqb h key = Some rem -> (length b <= length rem)%nat -> NoDup (map fst b) -> cache_of w <> None ->
    recoverable w b rem ->
    exists w' ress,
      handle_rule teqb hc w b h key cmd =
        (Ok (mk_wr (map fs_t (firstn (length b) rem)) (forget_replaced hc b ress) (Resolutions ress) (Some h)), w', []) /\
      needs_rebuild ress = false /\ length ress = length b /\
      steps w w' /\
      Forall2p (fun p r => has_hash w' p (fs_t r)) (map fst b) rem /\
      (forall q, ~ In q (map fst b) -> content_at w' q = content_at w q) /\
      rd_hist (w_rd w') = rd_hist (w_rd w) /\
      cache_of w' <> None /\
      (forall x, cache_has w x -> untouched w b rem x -> cache_has w' x).
  Proof.
    intros Hinv Hb Hl Hle Hnd Hc Hpre.
    destruct (resolve_no_rebuild b w rem Hle Hnd Hc Hpre) as (ress & w' & Er & Hn & Hex & Hc' & Hk).
    destruct (current_tickets_total (forget_replaced hc b ress) w') as (ts & Ect).
    { rewrite BuildFacts.forget_replaced_fst. exact Hex. }
    pose proof (InvProofs.resolve_remembered_steps T teqb hc teqb_spec _ _ _ _ _ Hinv Hb Er) as Hs.
    pose proof (inv_steps T teqb hc teqb_spec _ _ Hinv Hs) as Hinv'.
    destruct (resolve_remembered_spec T teqb hc teqb_spec _ _ _ _ _ Hinv Hb Hnd Er) as (Fr & Hh & R).
    pose proof (resolved_ok_prefix _ _ _ _ R Hn) as F1.
    assert (blob_ok w' (forget_replaced hc b ress)) as Hb1.
    { apply InvProofs.forget_replaced_ok; [exact teqb_spec|]. exact (blob_steps T teqb hc teqb_spec _ _ _ Hinv Hs Hb). }
    pose proof (current_tickets_hash T teqb hc _ _ _ Hb1 Ect) as F2.
    rewrite BuildFacts.forget_replaced_fst in F2.
    assert (ts = map fs_t (firstn (length b) rem)) as ->.
    { pose proof (Forall2p_firstn _ _ _ F1) as F1'. rewrite map_length in F1'.
      exact (Forall2_fun (has_hash w') (has_hash_fun w') _ _ _ F2 (proj1 (Forall2_map_r _ _ _ _) F1')). }
    exists w', ress.
    split; [unfold handle_rule; rewrite Hl, Er; cbv zeta; rewrite Hn, Ect; reflexivity|].
    split; [exact Hn|]. split; [apply (resolve_remembered_frame T teqb hc _ _ _ _ _ Er)|].
    split; [exact Hs|]. split; [exact F1|]. split; [exact Fr|]. split; [exact Hh|]. split; [exact Hc' | exact Hk].
  Qed.

  (* the history a successful thread hands to main extends the one it was given *)
  Lemma handle_rule_history_grows (w : world) (b : blob) h key cmd wr w' s :
    handle_rule teqb hc w b h key cmd = (Ok wr, w', s) ->
    exists h', wr_history wr = Some h' /\ forall k v, alookup teqb h k = Some v -> alookup teqb h' k = Some v.
  Proof.
    intro H. apply handle_rule_cases in H.
    destruct (resolved_of T teqb hc w b h key) as [[ress w1]|e]; [|destruct H as [H _]; discriminate].
    cbv zeta in H. destruct (needs_rebuild ress).
    - destruct H as (_ & _ & H). destruct (command_verdict _); [discriminate|].
      destruct (update_blob teqb hc w' _) as [b'|p]; [|discriminate].
      destruct (history_insert teqb h key _ _) as [h'|e] eqn:Ehi; [|discriminate].
      injection H as ->. exists h'. split; [reflexivity|].
      destruct (history_insert_ok T teqb teqb_spec _ _ _ _ _ Ehi) as (_ & Hother & Hsame).
      intros k v Hk. destruct (opt_dec (Some k) key) as [E | NE].
      + injection E as ->. rewrite (Hsame v Hk). exact Hk.
      + rewrite Hother; [exact Hk|]. intro E. apply NE. congruence.
    - destruct H as (_ & _ & H). destruct (current_tickets teqb hc w1 _); [|discriminate].
      injection H as ->. exists h. split; [reflexivity | auto].
  Qed.

End Thread.
