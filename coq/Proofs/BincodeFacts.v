From Ruler Require Import Tactics Bytes Bincode BytesFacts.
Local Open Scope N_scope.

(* A codec is a serialiser, a deserialiser and a well-formedness predicate such that
   RT: decoding what was written (followed by anything) gives the value back and the rest;
   LI: whatever decodes was the serialisation of the value returned, followed by the rest;
   NE: nothing serialises to the empty string. *)
Record codec {A} (ser : A -> bytes) (de : bytes -> option (A * bytes)) (wf : A -> Prop) : Prop := {
  codec_rt : forall x rest, wf x -> de (ser x ++ rest) = Some (x, rest);
  codec_li : forall b x rest, all_bytes b -> de b = Some (x, rest) -> b = ser x ++ rest /\ wf x;
  codec_ne : forall x, wf x -> ser x <> [];
  codec_bytes : forall x, wf x -> all_bytes (ser x)
}.

Lemma all_bytes_app a b : all_bytes (a ++ b) <-> all_bytes a /\ all_bytes b.
Proof. unfold all_bytes. apply Forall_app. Qed.

(* ---------- take ---------- *)

Lemma take_app n a r : length a = n -> take n (a ++ r) = Some (a, r).
Proof.
  intros <-. unfold take. rewrite app_length.
  replace (Nat.ltb (length a + length r) (length a)) with false by lia.
  rewrite firstn_app, Nat.sub_diag, firstn_all. cbn [firstn]. rewrite app_nil_r.
  rewrite skipn_app, Nat.sub_diag, skipn_all. reflexivity.
Qed.

Lemma take_some n b a r : take n b = Some (a, r) -> b = a ++ r /\ length a = n.
Proof.
  unfold take. destruct (Nat.ltb (length b) n) eqn:E; [discriminate|].
  intros [= <- <-]. split; [symmetry; apply firstn_skipn|]. apply firstn_length_le. lia.
Qed.

Lemma take_none n b : take n b = None <-> (length b < n)%nat.
Proof. unfold take. destruct (Nat.ltb (length b) n) eqn:E; split; intros H; try discriminate; try reflexivity; lia. Qed.

(* ---------- u64 ---------- *)

Lemma two64_eq : two64 = 256 ^ N.of_nat 8.
Proof. vm_compute. reflexivity. Qed.

Lemma ser_u64_length v : length (ser_u64 v) = 8%nat.
Proof. apply N_to_le_length. Qed.

Lemma u64_codec : codec ser_u64 de_u64 (fun v => v < two64).
Proof.
  constructor.
  - intros v rest Hv. unfold de_u64. rewrite take_app by apply ser_u64_length.
    unfold ser_u64. rewrite le_to_N_N_to_le by (rewrite <- two64_eq; exact Hv). reflexivity.
  - intros b v rest Hb. unfold de_u64. destruct (take 8 b) as [[x r]|] eqn:E; [|discriminate].
    intros [= <- <-]. apply take_some in E as [-> Hlen].
    apply all_bytes_app in Hb as [Hx _]. split.
    + unfold ser_u64. rewrite <- Hlen. rewrite N_to_le_le_to_N by exact Hx. reflexivity.
    + rewrite two64_eq, <- Hlen. apply le_to_N_bound; exact Hx.
  - intros v _ E. apply (f_equal (@length N)) in E. rewrite ser_u64_length in E. discriminate.
  - intros v _. apply N_to_le_bytes.
Qed.

(* ---------- bool ---------- *)

Lemma bool_codec : codec ser_bool de_bool (fun _ => True).
Proof.
  constructor.
  - intros [] rest _; reflexivity.
  - intros b x rest _. unfold de_bool. destruct b as [|c r]; [discriminate|].
    destruct (c =? 0) eqn:E0.
    + intros [= <- <-]. apply N.eqb_eq in E0; subst. split; [reflexivity|exact I].
    + destruct (c =? 1) eqn:E1; [|discriminate].
      intros [= <- <-]. apply N.eqb_eq in E1; subst. split; [reflexivity|exact I].
  - intros [] _; discriminate.
  - intros [] _; repeat constructor; unfold is_byte; lia.
Qed.

(* ---------- ticket: 32 raw bytes ---------- *)

Definition wf_ticket (t : bytes) : Prop := length t = 32%nat /\ all_bytes t.

Lemma ticket_codec : codec ser_ticket de_ticket wf_ticket.
Proof.
  constructor.
  - intros t rest [Hl _]. unfold de_ticket, ser_ticket. apply take_app; exact Hl.
  - intros b t rest Hb E. unfold de_ticket in E. apply take_some in E as [-> Hl].
    apply all_bytes_app in Hb as [Ht _]. split; [reflexivity | split; assumption].
  - intros t [Hl _] E. unfold ser_ticket in E. subst. discriminate.
  - intros t [_ Hb]. exact Hb.
Qed.

(* ---------- sequential composition of two codecs (struct fields, map entries) ---------- *)

Section Pair.
  Context {A B : Type}.
  Variables (serA : A -> bytes) (deA : bytes -> option (A * bytes)) (wfA : A -> Prop).
  Variables (serB : B -> bytes) (deB : bytes -> option (B * bytes)) (wfB : B -> Prop).
  Hypothesis HA : codec serA deA wfA.
  Hypothesis HB : codec serB deB wfB.

  Definition ser_pair (p : A * B) : bytes := serA (fst p) ++ serB (snd p).
  Definition de_pair (b : bytes) : option ((A * B) * bytes) :=
    match deA b with
    | None => None
    | Some (x, r) =>
        match deB r with
        | None => None
        | Some (y, r') => Some ((x, y), r')
        end
    end.

  Lemma pair_codec : codec ser_pair de_pair (fun p => wfA (fst p) /\ wfB (snd p)).
  Proof.
    constructor.
    - intros [x y] rest [Hx Hy]. unfold de_pair, ser_pair. cbn [fst snd] in *.
      rewrite <- app_assoc, (codec_rt _ _ _ HA) by exact Hx.
      rewrite (codec_rt _ _ _ HB) by exact Hy. reflexivity.
    - intros b [x y] rest Hb. unfold de_pair.
      destruct (deA b) as [[x' r]|] eqn:EA; [|discriminate].
      destruct (deB r) as [[y' r']|] eqn:EB; [|discriminate].
      intros [= <- <- <-].
      destruct (codec_li _ _ _ HA _ _ _ Hb EA) as [-> Hx].
      apply all_bytes_app in Hb as [_ Hr].
      destruct (codec_li _ _ _ HB _ _ _ Hr EB) as [-> Hy].
      unfold ser_pair. cbn [fst snd]. rewrite app_assoc. split; [reflexivity | split; assumption].
    - intros [x y] [Hx _] E. unfold ser_pair in E. cbn [fst snd] in E.
      apply app_eq_nil in E as [E _]. exact (codec_ne _ _ _ HA x Hx E).
    - intros [x y] [Hx Hy]. unfold ser_pair. cbn [fst snd]. apply all_bytes_app. split.
      + exact (codec_bytes _ _ _ HA x Hx).
      + exact (codec_bytes _ _ _ HB y Hy).
  Qed.
End Pair.

(* ---------- length-prefixed sequences ---------- *)

Section Seq.
  Context {A : Type}.
  Variables (ser : A -> bytes) (de : bytes -> option (A * bytes)) (wf : A -> Prop).
  Hypothesis H : codec ser de wf.

  Lemma flat_map_ser_length l : Forall wf l -> (length l <= length (flat_map ser l))%nat.
  Proof.
    induction 1 as [|x l Hx Hl IH]; cbn [flat_map length]; [lia|].
    rewrite app_length. pose proof (codec_ne _ _ _ H x Hx) as Hne.
    destruct (ser x); [contradiction|]. cbn [length]. lia.
  Qed.

  Lemma flat_map_ser_bytes l : Forall wf l -> all_bytes (flat_map ser l).
  Proof.
    induction 1 as [|x l Hx Hl IH]; cbn [flat_map]; [constructor|].
    apply all_bytes_app. split; [exact (codec_bytes _ _ _ H x Hx) | exact IH].
  Qed.

  Lemma de_seq_rt l : forall fuel rest,
    Forall wf l -> (length l <= fuel)%nat ->
    de_seq de fuel (N.of_nat (length l)) (flat_map ser l ++ rest) = Some (l, rest).
  Proof.
    induction l as [|x l IH]; intros fuel rest Hwf Hfuel.
    - destruct fuel; reflexivity.
    - inversion Hwf as [|? ? Hx Hl]; subst.
      destruct fuel as [|fuel]; [cbn [length] in Hfuel; lia|].
      cbn [de_seq length flat_map].
      replace (N.of_nat (S (length l)) =? 0) with false by lia.
      rewrite <- app_assoc, (codec_rt _ _ _ H) by exact Hx.
      replace (N.of_nat (S (length l)) - 1) with (N.of_nat (length l)) by lia.
      rewrite IH by (try assumption; cbn [length] in Hfuel; lia). reflexivity.
  Qed.

  Lemma de_seq_li : forall fuel count b l rest,
    all_bytes b -> de_seq de fuel count b = Some (l, rest) ->
    b = flat_map ser l ++ rest /\ count = N.of_nat (length l) /\ Forall wf l.
  Proof.
    induction fuel as [|fuel IH]; intros count b l rest Hb; cbn [de_seq].
    - destruct (count =? 0) eqn:E; [|discriminate].
      intros [= <- <-]. cbn [length flat_map app]. repeat split; [lia | constructor].
    - destruct (count =? 0) eqn:E.
      + intros [= <- <-]. cbn [length flat_map app]. repeat split; [lia | constructor].
      + destruct (de b) as [[x r]|] eqn:Ed; [|discriminate].
        destruct (de_seq de fuel (count - 1) r) as [[xs r']|] eqn:Es; [|discriminate].
        intros [= <- <-].
        destruct (codec_li _ _ _ H _ _ _ Hb Ed) as [-> Hx].
        apply all_bytes_app in Hb as [_ Hr].
        destruct (IH _ _ _ _ Hr Es) as (-> & Hc & Hxs).
        cbn [flat_map length]. rewrite app_assoc. repeat split; [lia | constructor; assumption].
  Qed.

  Definition wf_seq (l : list A) : Prop := Forall wf l /\ N.of_nat (length l) < two64.

  Lemma seq_codec : codec (ser_seq ser) (de_vec de) wf_seq.
  Proof.
    constructor.
    - intros l rest [Hwf Hlen]. unfold de_vec, ser_seq.
      rewrite <- app_assoc, (codec_rt _ _ _ u64_codec) by exact Hlen.
      apply de_seq_rt; [exact Hwf|]. rewrite app_length. pose proof (flat_map_ser_length l Hwf). lia.
    - intros b l rest Hb. unfold de_vec.
      destruct (de_u64 b) as [[count r]|] eqn:Eu; [|discriminate].
      intros Es. destruct (codec_li _ _ _ u64_codec _ _ _ Hb Eu) as [-> Hcount].
      apply all_bytes_app in Hb as [_ Hr].
      destruct (de_seq_li _ _ _ _ _ Hr Es) as (-> & -> & Hwf).
      unfold ser_seq. rewrite app_assoc. split; [reflexivity | split; assumption].
    - intros l _ E. unfold ser_seq in E. apply app_eq_nil in E as [E _].
      apply (f_equal (@length N)) in E. rewrite ser_u64_length in E. discriminate.
    - intros l [Hwf _]. unfold ser_seq. apply all_bytes_app. split.
      + apply N_to_le_bytes.
      + apply flat_map_ser_bytes; exact Hwf.
  Qed.
End Seq.

(* ---------- consequences that hold of every codec ---------- *)

Section Consequences.
  Context {A : Type}.
  Variables (ser : A -> bytes) (de : bytes -> option (A * bytes)) (wf : A -> Prop).
  Hypothesis H : codec ser de wf.

  (* every strict prefix of a serialisation is rejected *)
  Lemma codec_prefix_rejected x p q :
    wf x -> ser x = p ++ q -> q <> [] -> de p = None.
  Proof.
    intros Hx E Hq. destruct (de p) as [[y r]|] eqn:Ed; [exfalso|reflexivity].
    assert (Hp : all_bytes p).
    { pose proof (codec_bytes _ _ _ H x Hx) as Hb. rewrite E in Hb. apply all_bytes_app in Hb. tauto. }
    destruct (codec_li _ _ _ H _ _ _ Hp Ed) as [-> Hy].
    pose proof (codec_rt _ _ _ H x [] Hx) as R1. rewrite app_nil_r, E, <- app_assoc in R1.
    rewrite (codec_rt _ _ _ H y (r ++ q) Hy) in R1. injection R1 as _ R1.
    apply app_eq_nil in R1 as [_ R1]. contradiction.
  Qed.

  (* the serialisation is injective on well-formed values *)
  Lemma codec_ser_injective x y : wf x -> wf y -> ser x = ser y -> x = y.
  Proof.
    intros Hx Hy E. pose proof (codec_rt _ _ _ H x [] Hx) as R1.
    rewrite E, (codec_rt _ _ _ H y [] Hy) in R1. congruence.
  Qed.
End Consequences.

(* ---------- the concrete codecs ---------- *)

Definition wf_file_state (s : file_state) : Prop := wf_ticket (fs_ticket s) /\ fs_time s < two64.

Lemma file_state_codec : codec ser_file_state de_file_state wf_file_state.
Proof.
  pose proof (pair_codec _ _ _ _ _ _ ticket_codec (pair_codec _ _ _ _ _ _ u64_codec bool_codec)) as P.
  constructor.
  - intros [t ts e] rest [Ht Hts]. cbn [fs_ticket fs_time] in *.
    pose proof (codec_rt _ _ _ P (t, (ts, e)) rest ltac:(cbn; tauto)) as R.
    unfold de_pair, ser_pair in R. cbn [fst snd] in R.
    unfold de_file_state, ser_file_state. cbn [fs_ticket fs_time fs_exec].
    destruct (de_ticket _) as [[t' r1]|]; [|discriminate].
    destruct (de_u64 r1) as [[ts' r2]|]; [|discriminate].
    destruct (de_bool r2) as [[e' r3]|]; [|discriminate].
    congruence.
  - intros b [t ts e] rest Hb Ed.
    assert (de_pair de_ticket (de_pair de_u64 de_bool) b = Some ((t, (ts, e)), rest)) as Ed'.
    { unfold de_pair. unfold de_file_state in Ed.
      destruct (de_ticket b) as [[t' r1]|]; [|discriminate].
      destruct (de_u64 r1) as [[ts' r2]|]; [|discriminate].
      destruct (de_bool r2) as [[e' r3]|]; [|discriminate]. congruence. }
    destruct (codec_li _ _ _ P _ _ _ Hb Ed') as [-> Hwf]. cbn [fst snd] in Hwf.
    split; [reflexivity|]. unfold wf_file_state; cbn [fs_ticket fs_time]. tauto.
  - intros [t ts e] [Ht _] E. unfold ser_file_state in E. cbn [fs_ticket] in E.
    apply app_eq_nil in E as [E _]. exact (codec_ne _ _ _ ticket_codec t Ht E).
  - intros [t ts e] [Ht Hts]. cbn [fs_ticket fs_time] in *.
    exact (codec_bytes _ _ _ P (t, (ts, e)) ltac:(cbn; tauto)).
Qed.

Definition wf_fsvec := wf_seq wf_file_state.

Lemma fsvec_codec : codec ser_fsvec de_fsvec wf_fsvec.
Proof. exact (seq_codec _ _ _ file_state_codec). Qed.

Definition wf_history_entry (e : history_entry) : Prop := wf_ticket (fst e) /\ wf_fsvec (snd e).

Lemma history_entry_codec : codec ser_history_entry de_history_entry wf_history_entry.
Proof. exact (pair_codec _ _ _ _ _ _ ticket_codec fsvec_codec). Qed.

Definition wf_history := wf_seq wf_history_entry.

Lemma history_codec : codec ser_history de_history_raw wf_history.
Proof. exact (seq_codec _ _ _ history_entry_codec). Qed.

(* strings *)

Definition wf_string (s : bytes) : Prop :=
  all_bytes s /\ utf8_valid s = true /\ N.of_nat (length s) < two64.

Lemma string_codec : codec ser_string de_string wf_string.
Proof.
  constructor.
  - intros s rest (Hb & Hu & Hl). unfold de_string, ser_string.
    rewrite <- app_assoc, (codec_rt _ _ _ u64_codec) by exact Hl.
    rewrite app_length. replace (N.of_nat (length s + length rest) <? N.of_nat (length s)) with false by lia.
    rewrite Nat2N.id, firstn_app, Nat.sub_diag, firstn_all. cbn [firstn]. rewrite app_nil_r, Hu.
    rewrite skipn_app, Nat.sub_diag, skipn_all. reflexivity.
  - intros b s rest Hb. unfold de_string.
    destruct (de_u64 b) as [[len r]|] eqn:Eu; [|discriminate].
    destruct (N.of_nat (length r) <? len) eqn:El; [discriminate|].
    destruct (utf8_valid (firstn (N.to_nat len) r)) eqn:Ev; [|discriminate].
    intros [= <- <-]. destruct (codec_li _ _ _ u64_codec _ _ _ Hb Eu) as [-> Hlen].
    apply all_bytes_app in Hb as [_ Hr].
    assert (length (firstn (N.to_nat len) r) = N.to_nat len) as Hfl by (apply firstn_length_le; lia).
    split.
    + unfold ser_string. rewrite Hfl, N2Nat.id, <- app_assoc, firstn_skipn. reflexivity.
    + repeat split; [| exact Ev | rewrite Hfl; lia].
      rewrite <- (firstn_skipn (N.to_nat len) r) in Hr. apply all_bytes_app in Hr. tauto.
  - intros s _ E. unfold ser_string in E. apply app_eq_nil in E as [E _].
    apply (f_equal (@length N)) in E. rewrite ser_u64_length in E. discriminate.
  - intros s (Hb & _ & _). unfold ser_string. apply all_bytes_app. split; [apply N_to_le_bytes | exact Hb].
Qed.

Definition wf_table_entry (e : table_entry) : Prop := wf_string (fst e) /\ wf_file_state (snd e).

Lemma table_entry_codec : codec ser_table_entry de_table_entry wf_table_entry.
Proof. exact (pair_codec _ _ _ _ _ _ string_codec file_state_codec). Qed.

Definition wf_table := wf_seq wf_table_entry.

Lemma table_codec : codec ser_table de_table_raw wf_table.
Proof. exact (seq_codec _ _ _ table_entry_codec). Qed.
