(* Concrete runs of the rules-file parser model (vm_compute): a two-rule file with bundles, one small text
   per error kind, and instances of the round-trip theorems showing that their hypotheses are satisfiable.
   Kept apart from ParserFacts.v because Coq.Strings.String shadows List.length. *)
From Coq Require Import List String.
From Ruler Require Import Tactics Bytes Show Bundle RuleSyntax Parser BundleFacts ParserFacts.
Import ListNotations.
Local Open Scope N_scope.

(* "|" stands for a newline and ">" for a tab *)
Definition txt (s : string) : bytes :=
  map (fun c => if c =? 124 then NL else if c =? 62 then TAB else c) (lit s).

(* build            prog
     a.o            :
     b.o            build/b.o
   :                build/a.o
   src              :
     b.c            ld
     a.c            :
   :
   cc -c
   :                (blank line between the two rules, final newline) *)
Example two_rules_with_bundles :
  parse (txt "build|>a.o|>b.o|:|src|>b.c|>a.c|:|cc -c|:||prog|:|build/b.o|build/a.o|:|ld|:|") =
  Ok [mk_rule [lit "build/a.o"; lit "build/b.o"] [lit "src/a.c"; lit "src/b.c"] [lit "cc -c"];
      mk_rule [lit "prog"] [lit "build/a.o"; lit "build/b.o"] [lit "ld"]].
Proof. vm_compute. reflexivity. Qed.

Example empty_file : parse (txt "") = Ok [].
Proof. vm_compute. reflexivity. Qed.

(* one text per error kind *)
Example err_empty_line : parse (txt "a||") = Err (UnexpectedEmptyLine 2).
Proof. vm_compute. reflexivity. Qed.
Example err_extra_colon : parse (txt ":") = Err (UnexpectedExtraColon 1).
Proof. vm_compute. reflexivity. Qed.
Example err_extra_colon_after_rule : parse (txt "a|:|b|:|c|:|:") = Err (UnexpectedExtraColon 7).
Proof. vm_compute. reflexivity. Qed.
Example err_eof_targets : parse (txt "a") = Err (EofMidTargets 2).
Proof. vm_compute. reflexivity. Qed.
Example err_eof_sources : parse (txt "a|:|b") = Err (EofMidSources 4).
Proof. vm_compute. reflexivity. Qed.
Example err_eof_command : parse (txt "a|:|b|:|c") = Err (EofMidCommand 6).
Proof. vm_compute. reflexivity. Qed.
Example err_bundle_empty : parse (txt "a|:|:|c|:") = Err (BundleError BEmpty).
Proof. vm_compute. reflexivity. Qed.
Example err_bundle_empty_lines : parse (txt "a|>|:|b|:|c|:") = Err (BundleError (BContainsEmptyLines [1%nat])).
Proof. vm_compute. reflexivity. Qed.
Example err_bundle_contradiction : parse (txt "a|>x|a|:|b|:|c|:") = Err (BundleError (BContradiction 0 2)).
Proof. vm_compute. reflexivity. Qed.
Example err_bundle_wrong_indent_first : parse (txt ">a|:|b|:|c|:") = Err (BundleError (BWrongIndent 0)).
Proof. vm_compute. reflexivity. Qed.
Example err_bundle_wrong_indent_deep : parse (txt "a|>>x|>y|:|b|:|c|:") = Err (BundleError (BWrongIndent 1)).
Proof. vm_compute. reflexivity. Qed.

(* duplicates among flat lines are merged, the order of lines is irrelevant *)
Example flat_duplicates :
  parse (txt "b|a|b|:|y|x|:|c2|c1|:") = Ok [mk_rule [lit "a"; lit "b"] [lit "x"; lit "y"] [lit "c2"; lit "c1"]].
Proof. vm_compute. reflexivity. Qed.

Example dedup_sort_example : dedup_sort [lit "b"; lit "a"; lit "b"; lit "ab"] = [lit "a"; lit "ab"; lit "b"].
Proof. vm_compute. reflexivity. Qed.

(* the hypotheses of the round-trip theorems are satisfiable: a concrete forest *)
Definition forest1 : list pnode :=
  [PParent (lit "src") [PLeaf (lit "b.c"); PParent (lit "inc") [PLeaf (lit "z.h"); PLeaf (lit "a.h")]; PLeaf (lit "a.c")];
   PLeaf (lit "Makefile")].

Example forest1_render :
  join_with [NL] (render_forest forest1) = txt "src|>b.c|>inc|>>z.h|>>a.h|>a.c|Makefile".
Proof. vm_compute. reflexivity. Qed.

Example forest1_sorted :
  sort_forest forest1 =
  [PLeaf (lit "Makefile");
   PParent (lit "src") [PLeaf (lit "a.c"); PLeaf (lit "b.c"); PParent (lit "inc") [PLeaf (lit "a.h"); PLeaf (lit "z.h")]]].
Proof. vm_compute. reflexivity. Qed.

Ltac solve_unindented := split; [discriminate | vm_compute; discriminate].
Ltac solve_nodup :=
  repeat (constructor; [cbn [map pnode_name In]; intros H;
                        repeat (destruct H as [H|H]; [vm_compute in H; discriminate|]); exact H|]);
  constructor.

Lemma forest1_good : good_forest forest1.
Proof.
  unfold good_forest, forest1. split; [discriminate|]. split; [solve_nodup|].
  repeat first [ apply Forall_nil
               | apply Forall_cons
               | apply good_leaf; solve_unindented
               | apply good_parent; [solve_unindented | discriminate | solve_nodup | ] ].
Qed.

Example forest1_roundtrip : parse_lines (render_forest forest1) = Ok (sort_forest forest1).
Proof. apply c14_bundle_roundtrip, forest1_good. Qed.

(* a flat rule satisfying flat_ok *)
Definition rule1 : rule := mk_rule [lit "b"; lit "a"] [lit "x"] [lit "cc -o b a x"].

Lemma rule1_flat_ok : flat_ok rule1.
Proof.
  unfold flat_ok, rule1; cbn [r_targets r_sources r_command].
  assert (forall s, s <> [] -> forallb (fun c => negb (c =? NL)) s = true -> ~ In NL s) as Hnl.
  { intros s _ Hs Hin. rewrite forallb_forall in Hs. apply Hs in Hin. vm_compute in Hin. discriminate. }
  repeat split; try discriminate;
    repeat first [ apply Forall_nil | apply Forall_cons | split ];
    try discriminate; try (apply Hnl; [discriminate | vm_compute; reflexivity]);
    try (vm_compute; discriminate).
Qed.

Example rule1_roundtrip :
  parse (join_with [NL] (render_rule rule1)) = Ok [mk_rule [lit "a"; lit "b"] [lit "x"] [lit "cc -o b a x"]].
Proof. rewrite (c14_flat_roundtrip_one _ rule1_flat_ok). vm_compute. reflexivity. Qed.
