(* FINE, part 2: the last step of a rule thread (Fine.rule_tail = Work.handle_rule from `forget_replaced` on) when the
   history it consults is sound, from ANY state of the targets that the resolution phase can leave under
   interleaving: with an entry for the sources, every target is either correct (found so, or recovered) or in an
   arbitrary state and marked NeedsRebuild; with no entry every target is absent. The atomic versions are
   SchedRule.handle_rule_hit / handle_rule_miss. *)
From Coq Require Import Relations.Relation_Operators Relations.Operators_Properties.
From Ruler Require Import Tactics Bytes AList RuleSyntax TopoSort World Cmdlang Work Build Ops Inv
     BuildSpec Ideal Sched Fine BytesFacts InvFacts BuildFacts C01Script C01Hist C01Build C01Plan C04Facts
     SchedBasic SchedSerial SchedRule.
Local Open Scope nat_scope.

Section FineRule.
  Variable T : Type.
  Variable teqb : T -> T -> bool.
  Variable hc : bytes -> T.
  Variable hl : list T -> T.
  Hypothesis teqb_spec : forall a b, teqb a b = true <-> a = b.
  Hypothesis hc_inj : forall a b, hc a = hc b -> a = b.

  Notation world := (world T).
  Notation fstate := (fstate T).
  Notation disk_inv := (disk_inv teqb hc).
  Notation steps := (clos_refl_trans world (step teqb hc)).
  Notation blob_ok := (InvProofs.blob_ok T teqb hc).
  Notation has_hash := (has_hash T hc).
  Notation src_contents := (src_contents T).
  Notation hist_ok := (hist_ok T teqb hc hl).
  Notation rule_tail := (rule_tail T teqb hc).
  Notation resolved_ok := (resolved_ok T hc).

  (* ---------- handle_rule = resolution, then rule_tail ---------- *)

  Lemma handle_rule_tail (w : world) b h key cmd ress w1 :
    resolved_of T teqb hc w b h key = Ok (ress, w1) ->
    handle_rule teqb hc w b h key cmd = rule_tail w1 b h key cmd ress.
  Proof. unfold resolved_of, handle_rule, Fine.rule_tail. intros ->. reflexivity. Qed.

  Lemma handle_rule_resolve_err (w : world) b h key cmd e :
    resolved_of T teqb hc w b h key = Err e -> handle_rule teqb hc w b h key cmd = (Err e, w, []).
  Proof. unfold resolved_of, handle_rule. intros ->. reflexivity. Qed.

  Lemma content_none_gft (w : world) p a : content_at w p = None -> get_file_ticket teqb hc w p a = None.
  Proof. intro H. apply content_at_none_inv in H. unfold get_file_ticket. rewrite H. reflexivity. Qed.

  Lemma resolve_fresh_absent b : forall (w : world),
    (forall p, In p (map fst b) -> content_at w p = None) ->
    resolve_fresh teqb hc w b = Ok (map (fun _ => NeedsRebuild) b, w).
  Proof.
    induction b as [|[p a] rest IH]; intros w H; cbn [resolve_fresh map]; [reflexivity|].
    rewrite (content_none_gft w p a) by (apply H; left; reflexivity).
    rewrite IH; [reflexivity|]. intros q Hq. apply H. right. exact Hq.
  Qed.

  Lemma rule_tail_fresh (w : world) b h key cmd :
    alookup teqb h key = None -> (forall p, In p (map fst b) -> content_at w p = None) ->
    rule_tail w b h key cmd (map (fun _ => NeedsRebuild) b) = handle_rule teqb hc w b h key cmd.
  Proof.
    intros El Habs. symmetry. apply handle_rule_tail. unfold resolved_of. rewrite El.
    apply resolve_fresh_absent. exact Habs.
  Qed.

  (* ---------- resolved_ok, one target at a time ---------- *)

  Lemma resolved_ok_length (w : world) ps : forall rem ress, resolved_ok w ps rem ress -> length ress = length ps /\ length ps <= length rem.
  Proof.
    induction ps as [|p ps IH]; intros rem [|res ress]; cbn [C01Hist.resolved_ok]; try contradiction.
    - intros _. split; [reflexivity | cbn; lia].
    - destruct rem as [|r rem]; [contradiction|]. intros [_ H]. destruct (IH _ _ H). cbn [length]. split; lia.
  Qed.

  Lemma resolved_ok_snoc (w : world) ps : forall rem ress p r res,
    resolved_ok w ps rem ress -> nth_error rem (length ps) = Some r ->
    (res <> NeedsRebuild -> has_hash w p (fs_t r)) ->
    resolved_ok w (ps ++ [p]) rem (ress ++ [res]).
  Proof.
    induction ps as [|q ps IH]; intros rem ress p r res; destruct ress as [|res0 ress]; cbn [C01Hist.resolved_ok app length]; try contradiction.
    - intros _ Hr Hp. destruct rem as [|r0 rem]; [discriminate|]. cbn in Hr. injection Hr as ->. auto.
    - destruct rem as [|r0 rem]; [contradiction|]. intros [H1 H2] Hr Hp. cbn [nth_error] in Hr.
      split; [exact H1|]. eapply IH; eauto.
  Qed.

  (* ================================================================== *)
  (* the tail of one rule thread                                          *)
  (* ================================================================== *)

  Section Thread.
    Variable w : world.
    Variable b : list (bytes * fstate).
    Variable h : history T.
    Variable cs : list bytes.
    Variable r : rule.
    Hypothesis Hinv : disk_inv w.
    Hypothesis Hb : blob_ok w b.
    Hypothesis Hfst : map fst b = r_targets r.
    Hypothesis Hdet : det_rule r.
    Hypothesis Hsrc : src_contents w (r_sources r) cs.
    Hypothesis Hh : hist_ok r h.
    Hypothesis Hcache : cache_of w <> None.

    Let key := hl (map hc cs).

    (* an entry for these sources: whatever is not marked NeedsRebuild has the remembered hash; then the
       thread succeeds and leaves the remembered = from-scratch files *)
    Lemma rule_tail_hit old ress res w' script :
      alookup teqb h key = Some old -> resolved_ok w (r_targets r) old ress ->
      rule_tail w b h key (r_command r) ress = (res, w', script) ->
      steps w w' /\ cache_of w' <> None /\
      (forall q, ~ In q (r_targets r) -> content_at w' q = content_at w q) /\
      exists wr, res = Ok wr /\ Forall2 (has_hash w') (r_targets r) (wr_tickets wr) /\
                 forall S : world, src_contents S (r_sources r) cs ->
                   forall t, In t (r_targets r) ->
                     content_at w' t = content_at (snd (run_script S (script_lines (r_command r)))) t.
    Proof.
      intros El R. pose proof (Hh _ _ El) as Htrue. fold key in Htrue.
      destruct (Htrue w cs Hsrc eq_refl) as [Hv F2]. pose proof (Forall2_len _ _ _ F2) as Hlen.
      destruct Hdet as [Hconf Hreads].
      set (fb := forget_replaced hc b ress).
      assert (map fst fb = r_targets r) as Hfst1 by (unfold fb; rewrite C01Hist.forget_replaced_fst; exact Hfst).
      assert (blob_ok w fb) as Hb1 by (unfold fb; apply InvProofs.forget_replaced_ok; [exact teqb_spec | exact Hb]).
      unfold Fine.rule_tail. fold fb. destruct (needs_rebuild ress) eqn:Enr.
      - destruct (run_script w (script_lines (r_command r))) as [codes w2] eqn:Ers.
        cbn [fst snd] in Hv, F2. rewrite Hv.
        pose proof (InvProofs.run_script_steps T teqb hc _ _ _ _ Ers) as Hs2.
        pose proof (blob_steps T teqb hc teqb_spec _ _ _ Hinv Hs2 Hb1) as Hb2.
        assert (w2 = snd (run_script w (script_lines (r_command r)))) as Ew2 by (rewrite Ers; reflexivity).
        pose proof (update_blob_missing T teqb hc fb w2) as Hm. rewrite Hfst1 in Hm.
        destruct (update_blob teqb hc w2 fb) as [b'|p] eqn:Eu.
        2:{ exfalso. apply first_missing_some in Hm as [Hin Hnone].
            destruct (Forall2_in_l _ _ _ _ F2 Hin) as (o & _ & Hp). apply (has_hash_present T hc _ _ _ Hp). exact Hnone. }
        destruct (update_blob_hash T teqb hc _ _ _ Hb2 Eu) as [_ Hts]. rewrite Hfst1 in Hts.
        pose proof (hashes_agree T hc _ _ _ _ F2 Hts) as Eq.
        unfold history_insert. fold key. rewrite El.
        assert (Nat.eqb (length old) (length (map (fun e : bytes * fstate => fs_t (snd e)) b')) = true) as Hl2.
        { apply Nat.eqb_eq. rewrite <- Eq, map_length. reflexivity. }
        rewrite Hl2. cbn [negb]. rewrite <- Eq at 1.
        rewrite (BuildFacts.differing_indices_refl T teqb teqb_spec).
        intro H. injection H as <- <- _.
        split; [exact Hs2|]. split; [rewrite Ew2, (run_script_cache T); exact Hcache|].
        split; [intros q Hq; rewrite Ew2; apply (run_script_frame T _ _ _ _ Hconf Hq)|].
        eexists. split; [reflexivity|]. cbn [wr_tickets]. split; [exact Hts|].
        intros S HS t Ht. rewrite Ew2. eapply (rebuild_entry T hc hl hc_inj); eauto.
      - assert (length old = length (r_targets r)) as Hlen' by (symmetry; exact Hlen).
        pose proof (resolved_ok_all T hc _ _ _ _ R Enr Hlen') as F1'.
        pose proof (current_tickets_missing T teqb hc fb w) as Hm. rewrite Hfst1 in Hm.
        destruct (current_tickets teqb hc w fb) as [ts|p] eqn:Ect.
        2:{ exfalso. apply first_missing_some in Hm as [Hin Hnone].
            destruct (Forall2_in_l _ _ _ _ F1' Hin) as (o & _ & Hp). apply (has_hash_present T hc _ _ _ Hp). exact Hnone. }
        pose proof (current_tickets_hash T teqb hc _ _ _ Hb1 Ect) as Hts. rewrite Hfst1 in Hts.
        intro H. injection H as <- <- _.
        split; [apply rt_refl|]. split; [exact Hcache|]. split; [reflexivity|].
        eexists. split; [reflexivity|]. cbn [wr_tickets]. split; [exact Hts|].
        intros S HS t Ht. destruct (Htrue S cs HS eq_refl) as [_ FS].
        eapply (hash_agree T hc hc_inj (fun o : fstate => fs_t o)); [exact F1' | exact FS | exact Ht].
    Qed.
  End Thread.
End FineRule.
