(* The action lists of Model/Acts.v reproduce Build.build / Build.clean exactly (D1, D2):
   running the whole list of primitive actions from w ends in the world the model computes.
   No hypothesis on the hashes is needed. *)
From Ruler Require Import Tactics Bytes AList RuleSyntax Parser TopoSort World Cmdlang Work Build Ops Inv Acts
  BytesFacts InvFacts BuildFacts.
Local Open Scope N_scope.

Section ActsSound.
  Variable T : Type.
  Variable teqb : T -> T -> bool.
  Variable hc : bytes -> T.
  Variable hl : list T -> T.
  Variable hr : rule -> T.

  Notation world := (world T).
  Notation do_act := (do_act teqb hr).
  Notation run_acts := (run_acts teqb hr).

  Lemma run_acts_nil (w : world) : run_acts [] w = w.
  Proof. reflexivity. Qed.

  Lemma run_acts_cons a l (w : world) : run_acts (a :: l) w = run_acts l (do_act w a).
  Proof. reflexivity. Qed.

  Lemma run_acts_one a (w : world) : run_acts [a] w = do_act w a.
  Proof. reflexivity. Qed.

  Lemma run_acts_app l1 l2 (w : world) : run_acts (l1 ++ l2) w = run_acts l2 (run_acts l1 w).
  Proof. unfold Acts.run_acts. apply fold_left_app. Qed.

  (* ---------- directory::init ---------- *)

  Lemma init_acts_ok (w w1 : world) t : init_dir T w = Ok (w1, t) -> run_acts (init_acts w) w = w1.
  Proof.
    destruct w as [fs [e c h tb] k m]. unfold init_dir, init_acts. cbn [w_rd rd_exists rd_cache rd_hist rd_table].
    destruct tb as [[tb|]|]; intro H; try discriminate; injection H as <- <-;
      destruct e, c, h; reflexivity.
  Qed.

  Lemma init_acts_err (w : world) f :
    init_dir T w = Err f -> run_acts (init_acts w) w = init_dir_world_on_error T w.
  Proof.
    destruct w as [fs [e c h tb] k m]. unfold init_dir, init_acts, init_dir_world_on_error.
    cbn [w_rd rd_exists rd_cache rd_hist rd_table].
    destruct tb as [[tb|]|]; intro H; try discriminate; destruct e, c, h; reflexivity.
  Qed.

  (* ---------- one rule thread ---------- *)

  Lemma restore_acts_world (w : world) t p :
    run_acts (restore_acts T teqb w t p) w = match restore teqb w t p with RDone w' => w' | _ => w end.
  Proof.
    unfold restore_acts. destruct (restore teqb w t p) as [w'| |] eqn:E; [|reflexivity|reflexivity].
    rewrite run_acts_one. cbn [Acts.do_act]. rewrite E. reflexivity.
  Qed.

  Lemma restore_or_rebuild_acts_world (w : world) t p res w' :
    restore_or_rebuild T teqb w t p = Ok (res, w') -> run_acts (restore_acts T teqb w t p) w = w'.
  Proof.
    rewrite restore_acts_world. unfold restore_or_rebuild.
    destruct (restore teqb w t p) as [w1| |]; intro H; try discriminate; injection H as _ <-; reflexivity.
  Qed.

  Lemma backup_act_world (w : world) p t w1 : back_up teqb w t p = Some w1 -> do_act w (ABackup p t) = w1.
  Proof. intro E. cbn [Acts.do_act]. rewrite E. reflexivity. Qed.

  Lemma resolve_single_acts_world (w : world) rem p a res w' :
    resolve_single teqb hc w rem p a = Ok (res, w') ->
    run_acts (resolve_single_acts T teqb hc w rem p a) w = w'.
  Proof.
    unfold resolve_single, resolve_single_acts.
    destruct (get_file_ticket teqb hc w p a) as [cur|].
    - destruct (teqb rem cur).
      + intro H. injection H as _ <-. reflexivity.
      + destruct (back_up teqb w cur p) as [w1|] eqn:Eb; [|discriminate].
        intro H. rewrite run_acts_cons, (backup_act_world _ _ _ _ Eb).
        eapply restore_or_rebuild_acts_world; eauto.
    - apply restore_or_rebuild_acts_world.
  Qed.

  Lemma resolve_remembered_acts_world b : forall (w : world) rem ress w',
    resolve_remembered teqb hc w b rem = Ok (ress, w') ->
    run_acts (resolve_remembered_acts T teqb hc w b rem) w = w'.
  Proof.
    induction b as [|[p a] rest IH]; intros w rem ress w'; cbn [resolve_remembered resolve_remembered_acts].
    - intro H. injection H as _ <-. reflexivity.
    - destruct rem as [|r rrest]; [discriminate|].
      destruct (resolve_single teqb hc w (fs_t r) p a) as [[res w1]|e] eqn:E1; [|discriminate].
      destruct (resolve_remembered teqb hc w1 rest rrest) as [[ress2 w2]|e] eqn:E2; [|discriminate].
      intro H. injection H as _ <-.
      rewrite run_acts_app, (resolve_single_acts_world _ _ _ _ _ _ E1). eapply IH; eauto.
  Qed.

  Lemma resolve_fresh_acts_world b : forall (w : world) ress w',
    resolve_fresh teqb hc w b = Ok (ress, w') -> run_acts (resolve_fresh_acts T teqb hc w b) w = w'.
  Proof.
    induction b as [|[p a] rest IH]; intros w ress w'; cbn [resolve_fresh resolve_fresh_acts].
    - intro H. injection H as _ <-. reflexivity.
    - destruct (get_file_ticket teqb hc w p a) as [cur|].
      + destruct (back_up teqb w cur p) as [w1|] eqn:Eb; [|discriminate].
        destruct (resolve_fresh teqb hc w1 rest) as [[ress2 w2]|e] eqn:E2; [|discriminate].
        intro H. injection H as _ <-. rewrite run_acts_cons, (backup_act_world _ _ _ _ Eb). eapply IH; eauto.
      + destruct (resolve_fresh teqb hc w rest) as [[ress2 w2]|e] eqn:E2; [|discriminate].
        intro H. injection H as _ <-. eapply IH; eauto.
  Qed.

  Lemma lines_acts_world lines : forall w : world, run_acts (map ALine lines) w = snd (run_script w lines).
  Proof.
    induction lines as [|l r IH]; intros w; cbn [map run_script]; [reflexivity|].
    rewrite run_acts_cons. cbn [Acts.do_act]. rewrite IH.
    destruct (run_line w l) as [code w1]. cbn [snd]. destruct (run_script w1 r) as [codes w2]. reflexivity.
  Qed.

  (* the resolution phase of handle_rule, as Acts.handle_rule_acts sees it *)
  Definition resolved_acts (w : world) (b : blob T) (h : history T) (st : T) : list (act T) :=
    match alookup teqb h st with
    | Some remembered => resolve_remembered_acts T teqb hc w b remembered
    | None => resolve_fresh_acts T teqb hc w b
    end.

  Lemma resolved_acts_world (w : world) b h st ress w1 :
    resolved_of T teqb hc w b h st = Ok (ress, w1) -> run_acts (resolved_acts w b h st) w = w1.
  Proof.
    unfold resolved_of, resolved_acts. destruct (alookup teqb h st) as [rem|].
    - apply resolve_remembered_acts_world.
    - apply resolve_fresh_acts_world.
  Qed.

  Lemma handle_rule_acts_eq (w : world) b h st cmd :
    handle_rule_acts teqb hc w b h st cmd =
    match resolved_of T teqb hc w b h st with
    | Err _ => []
    | Ok (ress, _) => resolved_acts w b h st ++ (if needs_rebuild ress then map ALine (script_lines cmd) else [])
    end.
  Proof. reflexivity. Qed.

  Lemma handle_rule_acts_world (w : world) b h st cmd :
    run_acts (handle_rule_acts teqb hc w b h st cmd) w = snd (fst (handle_rule teqb hc w b h st cmd)).
  Proof.
    rewrite handle_rule_acts_eq. unfold handle_rule. fold (resolved_of T teqb hc w b h st).
    destruct (resolved_of T teqb hc w b h st) as [[ress w1]|e] eqn:Er; [|reflexivity].
    rewrite run_acts_app, (resolved_acts_world _ _ _ _ _ _ Er). cbv zeta.
    destruct (needs_rebuild ress).
    - rewrite lines_acts_world. destruct (run_script w1 (script_lines cmd)) as [codes w2]. cbn [snd].
      destruct (command_verdict codes); [reflexivity|].
      destruct (update_blob teqb hc w2 (forget_replaced hc b ress)); [|reflexivity].
      destruct (history_insert teqb h st _ _); reflexivity.
    - destruct (current_tickets teqb hc w1 (forget_replaced hc b ress)); reflexivity.
  Qed.

  (* ---------- the rule threads in spawn order ---------- *)

  Lemma run_node_acts_world st n st' :
    run_node T teqb hc hl hr st n = Some st' ->
    run_acts (run_node_acts T teqb hc hl hr st n) (rs_world T st) = rs_world T st'.
  Proof.
    unfold run_node, run_node_acts. destruct (take_blob T hc (rs_table T st) (n_targets n)) as [b t'].
    destruct (read_history T teqb hr (rs_world T st) (n_rule n)) as [h|]; [|discriminate].
    destruct (all_some _) as [tickets|].
    - rewrite handle_rule_acts_world.
      destruct (handle_rule teqb hc (rs_world T st) b h (hl tickets) (n_command n)) as [[res w'] s].
      destruct res as [wr|e]; intro H; injection H as <-; reflexivity.
    - intro H; injection H as <-. reflexivity.
  Qed.

  Lemma run_nodes_acts_world ns : forall st (w : world),
    w = rs_world T st ->
    run_acts (run_nodes_acts T teqb hc hl hr st ns) w = rs_world T (upto T teqb hc hl hr st ns).
  Proof.
    induction ns as [|n rest IH]; intros st w ->; cbn [run_nodes_acts upto]; [reflexivity|].
    destruct (run_node T teqb hc hl hr st n) as [st1|] eqn:E1; [|reflexivity].
    rewrite run_acts_app, (run_node_acts_world _ _ _ E1). apply IH. reflexivity.
  Qed.

  Lemma upto_some ns : forall st st',
    run_nodes T teqb hc hl hr st ns = Some st' -> upto T teqb hc hl hr st ns = st'.
  Proof.
    induction ns as [|n rest IH]; intros st st'; cbn [run_nodes upto].
    - intro H. injection H as <-. reflexivity.
    - destruct (run_node T teqb hc hl hr st n) as [st1|]; [apply IH | discriminate].
  Qed.

  (* ---------- main's join loop ---------- *)

  Definition join_one_acts (res : option rule * thread_result T) : list (act T) :=
    match res with
    | (Some r, TOk wr) => match wr_history wr with Some h => [AWriteHist r h] | None => [] end
    | _ => []
    end.

  Lemma join_acts_cons res rest : join_acts T (res :: rest) = join_one_acts res ++ join_acts T rest.
  Proof. destruct res as [[r|] [wr|e|]]; reflexivity. Qed.

  Lemma join_one_acts_world js res :
    run_acts (join_one_acts res) (js_world T js) = js_world T (join_one T teqb hr js res).
  Proof.
    unfold join_one, join_one_acts. destruct res as [r tr]. cbn [fst snd].
    destruct tr as [wr|e|]; destruct r as [r0|]; try reflexivity.
    destruct (wr_history wr) as [h|]; reflexivity.
  Qed.

  Lemma join_acts_world results : forall js,
    run_acts (join_acts T results) (js_world T js) = js_world T (fold_left (join_one T teqb hr) results js).
  Proof.
    induction results as [|res rest IH]; intros js; cbn [fold_left]; [reflexivity|].
    rewrite join_acts_cons, run_acts_app, join_one_acts_world. apply IH.
  Qed.

  (* ---------- build ---------- *)

  Lemma build_acts_eq (w : world) rp goal :
    build_acts teqb hc hl hr w rp goal =
    init_acts w ++
    match init_dir T w with
    | Err _ => []
    | Ok (w1, t) =>
        match get_nodes T w1 rp goal with
        | Err _ => []
        | Ok pack =>
            let w1t := write_table T w1 (table_rest T hc t pack) in
            AWriteTable (table_rest T hc t pack) ::
            run_nodes_acts T teqb hc hl hr (st_leaves T teqb hc w1t t pack) (p_nodes pack) ++
            match run_nodes T teqb hc hl hr (st_leaves T teqb hc w1t t pack) (p_nodes pack) with
            | None => []
            | Some st2 => join_acts T (rs_results T st2) ++ [AWriteTable (js_table T (joined T teqb hr st2))]
            end
        end
    end.
  Proof. reflexivity. Qed.

  Theorem acts_build_sound : forall (w : world) rp goal,
    run_acts (build_acts teqb hc hl hr w rp goal) w = o_world (build teqb hc hl hr w rp goal).
  Proof.
    intros w rp goal. rewrite build_acts_eq, (build_eq0 T teqb hc hl hr), run_acts_app.
    destruct (init_dir T w) as [[w1 t]|f] eqn:Ei.
    2:{ rewrite (init_acts_err _ _ Ei). reflexivity. }
    rewrite (init_acts_ok _ _ _ Ei).
    destruct (get_nodes T w1 rp goal) as [pack|f]; [|reflexivity].
    cbv zeta. rewrite run_acts_cons. cbn [do_act].
    set (w1t := write_table T w1 (table_rest T hc t pack)). rewrite run_acts_app.
    rewrite (run_nodes_acts_world (p_nodes pack) (st_leaves T teqb hc w1t t pack) w1t)
      by (symmetry; apply st_leaves_world).
    destruct (run_nodes T teqb hc hl hr (st_leaves T teqb hc w1t t pack) (p_nodes pack)) as [st2|] eqn:En.
    - rewrite (upto_some _ _ _ En). cbn [o_world]. rewrite run_acts_app.
      change (rs_world T st2) with (js_world T (mk_js T (rs_world T st2) (rs_table T st2) [] [])).
      rewrite join_acts_world. reflexivity.
    - reflexivity.
  Qed.

  (* ---------- clean ---------- *)

  Lemma clean_targets_acts_world b : forall (w w' : world),
    clean_targets teqb hc w b = Ok w' -> run_acts (clean_targets_acts T teqb hc w b) w = w'.
  Proof.
    induction b as [|[p a] rest IH]; intros w w'; cbn [clean_targets clean_targets_acts].
    - intro H. injection H as <-. reflexivity.
    - destruct (get_file_ticket teqb hc w p a) as [t|]; [|apply IH].
      destruct (back_up teqb w t p) as [w1|] eqn:Eb; [|discriminate].
      intro H. rewrite run_acts_cons, (backup_act_world _ _ _ _ Eb). apply IH. exact H.
  Qed.

  Lemma clean_nodes_acts_world ns : forall (w : world) t errs,
    run_acts (clean_nodes_acts T teqb hc w t ns) w = fst (clean_nodes T teqb hc w t ns errs).
  Proof.
    induction ns as [|n rest IH]; intros w t errs; cbn [clean_nodes clean_nodes_acts]; [reflexivity|].
    destruct (take_blob T hc t (n_targets n)) as [b t'].
    destruct (clean_targets teqb hc w b) as [w1|e] eqn:Ec.
    - rewrite run_acts_app, (clean_targets_acts_world _ _ _ Ec). apply IH.
    - apply IH.
  Qed.

  Theorem acts_clean_sound : forall (w : world) rp goal,
    run_acts (clean_acts teqb hc w rp goal) w = o_world (clean teqb hc w rp goal).
  Proof.
    intros w rp goal. unfold clean_acts. rewrite (clean_eq T teqb hc), run_acts_app.
    destruct (init_dir T w) as [[w1 t]|f] eqn:Ei.
    2:{ rewrite (init_acts_err _ _ Ei). reflexivity. }
    rewrite (init_acts_ok _ _ _ Ei).
    destruct (get_nodes T w1 rp goal) as [pack|f]; [|reflexivity].
    cbn [o_world]. apply clean_nodes_acts_world.
  Qed.
End ActsSound.
