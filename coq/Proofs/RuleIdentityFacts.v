(* C13: rule identity (canon_rule / ser_rule / rule_ticket) and the range of the parser. *)
From Coq Require Import List Permutation Bool.
From Ruler Require Import Tactics Bytes SortList TicketModel RuleSyntax Bundle Parser.
From Ruler Require Import BytesFacts SortListFacts.
Import ListNotations.
Local Open Scope N_scope.

(* ---------- sort_strs: instance of the generic sort facts ---------- *)

Lemma sort_strs_perm_invariant l1 l2 : Permutation l1 l2 -> sort_strs l1 = sort_strs l2.
Proof.
  unfold sort_strs.
  apply (sort_perm_invariant bytes_leb bytes_leb_total bytes_leb_trans bytes_leb_antisym).
Qed.

Lemma sort_strs_eq_iff_perm l1 l2 : sort_strs l1 = sort_strs l2 <-> Permutation l1 l2.
Proof.
  unfold sort_strs.
  apply (sort_eq_iff_perm bytes_leb bytes_leb_total bytes_leb_trans bytes_leb_antisym).
Qed.

Lemma sort_strs_perm l : Permutation (sort_strs l) l.
Proof. unfold sort_strs. apply sort_perm. Qed.

Lemma sort_strs_in x l : In x (sort_strs l) <-> In x l.
Proof. unfold sort_strs. apply sort_in. Qed.

Lemma sort_strs_Forall (P : bytes -> Prop) l : Forall P l -> Forall P (sort_strs l).
Proof.
  intros H. apply Forall_forall. intros x Hx.
  assert (Hin : In x l) by (apply (proj1 (sort_strs_in x l)); exact Hx).
  exact (proj1 (Forall_forall P l) H x Hin).
Qed.

(* ---------- R1 / R2 ---------- *)

Lemma canon_rule_eq_iff r1 r2 :
  canon_rule r1 = canon_rule r2 <->
  (Permutation (r_targets r1) (r_targets r2) /\ Permutation (r_sources r1) (r_sources r2) /\
   r_command r1 = r_command r2).
Proof.
  unfold canon_rule. split.
  - intros E. injection E as Et Es Ec.
    split; [apply sort_strs_eq_iff_perm; exact Et|].
    split; [apply sort_strs_eq_iff_perm; exact Es | exact Ec].
  - intros (Ht & Hs & Hc).
    rewrite (sort_strs_perm_invariant _ _ Ht), (sort_strs_perm_invariant _ _ Hs), Hc. reflexivity.
Qed.

(* ---------- R3: the preimage is injective on clean rules ---------- *)

Definition clean_str (s : bytes) : Prop := s <> [] /\ ~ In NL s.
Definition producible (r : rule) : Prop :=
  Forall clean_str (r_targets r) /\ Forall clean_str (r_sources r) /\ Forall clean_str (r_command r).

Definition sec (l : list bytes) : bytes := flat_map (fun s => s ++ [NL]) l ++ [NL; COLON; NL].

Lemma rule_preimage_sec t s c : rule_preimage t s c = sec t ++ sec s ++ sec c.
Proof. reflexivity. Qed.

Lemma sec_nil : sec [] = [NL; COLON; NL].
Proof. reflexivity. Qed.

Lemma sec_cons s l : sec (s :: l) = s ++ NL :: sec l.
Proof.
  unfold sec. cbn [flat_map]. rewrite <- !app_assoc. reflexivity.
Qed.

(* reading up to the first NL *)
Lemma read_to_nl (s1 s2 x y : bytes) :
  ~ In NL s1 -> ~ In NL s2 -> s1 ++ NL :: x = s2 ++ NL :: y -> s1 = s2 /\ x = y.
Proof.
  revert s2. induction s1 as [|a s1 IH]; intros [|b s2] H1 H2 E; cbn [app] in E.
  - injection E as E. split; [reflexivity | exact E].
  - injection E as E _. exfalso. apply H2. left. symmetry. exact E.
  - injection E as E _. exfalso. apply H1. left. exact E.
  - injection E as Eab E.
    destruct (IH s2) as [Hs Hxy].
    + intro Hin. apply H1. right. exact Hin.
    + intro Hin. apply H2. right. exact Hin.
    + exact E.
    + subst. split; reflexivity.
Qed.

Lemma sec_inj (l1 l2 : list bytes) (rest1 rest2 : bytes) :
  Forall clean_str l1 -> Forall clean_str l2 ->
  sec l1 ++ rest1 = sec l2 ++ rest2 -> l1 = l2 /\ rest1 = rest2.
Proof.
  intros H1. revert l2. induction H1 as [|s1 l1 Hs1 Hl1 IH]; intros l2 H2 E.
  - destruct H2 as [|s2 l2 Hs2 Hl2].
    + rewrite sec_nil in E. cbn [app] in E. injection E as E. split; [reflexivity | exact E].
    + exfalso. rewrite sec_nil, sec_cons in E. destruct Hs2 as [Hne Hnl].
      destruct s2 as [|c s2]; [apply Hne; reflexivity|].
      cbn [app] in E. injection E as E _. apply Hnl. left. symmetry. exact E.
  - destruct H2 as [|s2 l2 Hs2 Hl2].
    + exfalso. rewrite sec_nil, sec_cons in E. destruct Hs1 as [Hne Hnl].
      destruct s1 as [|c s1]; [apply Hne; reflexivity|].
      cbn [app] in E. injection E as E _. apply Hnl. left. exact E.
    + rewrite !sec_cons in E. rewrite <- !app_assoc in E. cbn [app] in E.
      destruct Hs1 as [_ Hnl1]. destruct Hs2 as [_ Hnl2].
      destruct (read_to_nl _ _ _ _ Hnl1 Hnl2 E) as [-> E'].
      destruct (IH l2 Hl2 E') as [-> Hr]. split; [reflexivity | exact Hr].
Qed.

Lemma ser_rule_sec r : ser_rule r = sec (r_targets r) ++ sec (r_sources r) ++ sec (r_command r).
Proof. reflexivity. Qed.

Lemma canon_rule_producible r : producible r -> producible (canon_rule r).
Proof.
  unfold producible, canon_rule. cbn [r_targets r_sources r_command].
  intros (Ht & Hs & Hc).
  split; [apply sort_strs_Forall; exact Ht|].
  split; [apply sort_strs_Forall; exact Hs | exact Hc].
Qed.

Lemma ser_rule_injective r1 r2 :
  producible r1 -> producible r2 -> ser_rule r1 = ser_rule r2 -> r1 = r2.
Proof.
  intros (Ht1 & Hs1 & Hc1) (Ht2 & Hs2 & Hc2) E.
  rewrite !ser_rule_sec in E.
  destruct (sec_inj _ _ _ _ Ht1 Ht2 E) as [Et E1].
  destruct (sec_inj _ _ _ _ Hs1 Hs2 E1) as [Es E2].
  rewrite <- (app_nil_r (sec (r_command r1))), <- (app_nil_r (sec (r_command r2))) in E2.
  destruct (sec_inj _ _ _ _ Hc1 Hc2 E2) as [Ec _].
  destruct r1 as [t1 s1 c1], r2 as [t2 s2 c2]. cbn [r_targets r_sources r_command] in *.
  subst. reflexivity.
Qed.

(* ---------- R4: outside the producible rules the preimage is ambiguous ---------- *)

(* empty strings: "" then ":" among the targets reads as an end of section *)
Definition amb_empty_1 : rule := mk_rule [[]; [COLON]] [] [].
Definition amb_empty_2 : rule := mk_rule [] [[]; [COLON]] [].
(* embedded newlines: "a\nb","c" against "a","b\nc" *)
Definition amb_nl_1 : rule := mk_rule [[97; NL; 98]; [99]] [] [].
Definition amb_nl_2 : rule := mk_rule [[97]; [98; NL; 99]] [] [].

Lemma amb_empty_facts :
  amb_empty_1 <> amb_empty_2 /\ canon_rule amb_empty_1 <> canon_rule amb_empty_2 /\
  ~ producible amb_empty_1 /\ ~ producible amb_empty_2 /\
  ser_rule amb_empty_1 = ser_rule amb_empty_2 /\
  ser_rule (canon_rule amb_empty_1) = ser_rule (canon_rule amb_empty_2).
Proof.
  split; [discriminate|]. split; [vm_compute; discriminate|].
  split.
  { intros (H & _ & _). inversion H as [|? ? [Hne _] _]. apply Hne. reflexivity. }
  split.
  { intros (_ & H & _). inversion H as [|? ? [Hne _] _]. apply Hne. reflexivity. }
  split; vm_compute; reflexivity.
Qed.

Lemma amb_nl_facts :
  amb_nl_1 <> amb_nl_2 /\ canon_rule amb_nl_1 <> canon_rule amb_nl_2 /\
  ~ producible amb_nl_1 /\ ~ producible amb_nl_2 /\
  ser_rule amb_nl_1 = ser_rule amb_nl_2 /\
  ser_rule (canon_rule amb_nl_1) = ser_rule (canon_rule amb_nl_2).
Proof.
  split; [discriminate|]. split; [vm_compute; discriminate|].
  split.
  { intros (H & _ & _). inversion H as [|? ? [_ Hnl] _]. apply Hnl. cbn [In]. tauto. }
  split.
  { intros (H & _ & _). inversion H as [|? ? _ H']. inversion H' as [|? ? [_ Hnl] _].
    apply Hnl. cbn [In]. tauto. }
  split; vm_compute; reflexivity.
Qed.

(* ---------- R5: what the parser can produce ---------- *)

Definition nl_free (s : bytes) : Prop := ~ In NL s.

Lemma nl_free_app a b : nl_free a -> nl_free b -> nl_free (a ++ b).
Proof.
  unfold nl_free. intros Ha Hb Hin. apply in_app_or in Hin. destruct Hin as [Hin|Hin]; auto.
Qed.

Lemma clean_str_nl_free s : clean_str s -> nl_free s.
Proof. intros [_ H]. exact H. Qed.

(* --- bundle: names are stripped input lines --- *)

Lemma strip_tabs_suffix s : forall k t, strip_tabs s = (k, t) -> forall x, In x t -> In x s.
Proof.
  induction s as [|c s IH]; intros k t E x Hx; cbn [strip_tabs] in E.
  - injection E as _ Et. subst t. exact Hx.
  - destruct (c =? TAB) eqn:Ec.
    + destruct (strip_tabs s) as [n t'] eqn:Es. injection E as _ Et. subst t'.
      right. apply (IH n t eq_refl). exact Hx.
    + injection E as _ Et. subst t. exact Hx.
Qed.

Lemma strip_tabs_nonempty s : forall k t, strip_tabs s = (k, t) -> all_tabs s = false -> t <> [].
Proof.
  induction s as [|c s IH]; intros k t E Ha; cbn [strip_tabs] in E; unfold all_tabs in Ha;
    cbn [forallb] in Ha.
  - discriminate.
  - destruct (c =? TAB) eqn:Ec.
    + destruct (strip_tabs s) as [n t'] eqn:Es. injection E as _ Et. subst t'.
      cbn [andb] in Ha. apply (IH n t eq_refl). exact Ha.
    + injection E as _ Et. subst t. discriminate.
Qed.

Definition nline_ok (l : nline) : Prop := clean_str (nl_text l).

Lemma empty_indices_nil ls : forall n, empty_indices n ls = [] -> Forall (fun l => all_tabs l = false) ls.
Proof.
  induction ls as [|l ls IH]; intros n E; cbn [empty_indices] in E; [constructor|].
  destruct (all_tabs l) eqn:Ea; [discriminate|].
  constructor; [exact Ea | apply (IH (S n)); exact E].
Qed.

Lemma number_from_ok ls : forall n,
  Forall nl_free ls -> Forall (fun l => all_tabs l = false) ls -> Forall nline_ok (number_from n ls).
Proof.
  induction ls as [|l ls IH]; intros n Hf Ha; cbn [number_from]; [constructor|].
  inversion Hf as [|? ? Hl Hls]; subst. inversion Ha as [|? ? Hal Hals]; subst.
  destruct (strip_tabs l) as [lvl t] eqn:Es.
  constructor; [|apply IH; assumption].
  unfold nline_ok. cbn [nl_text]. split.
  - apply (strip_tabs_nonempty l lvl t Es Hal).
  - intro Hin. apply Hl. apply (strip_tabs_suffix l lvl t Es). exact Hin.
Qed.

Lemma drop_last_empty_Forall (P : bytes -> Prop) ls : Forall P ls -> Forall P (drop_last_empty ls).
Proof.
  intros H. unfold drop_last_empty. destruct (rev ls) as [|x r] eqn:Er; [exact H|].
  destruct x as [|c x]; [|exact H].
  assert (E : ls = rev r ++ [[]]).
  { rewrite <- (rev_involutive ls), Er. reflexivity. }
  rewrite E in H. apply Forall_app in H. destruct H as [H _]. exact H.
Qed.

(* all names in a tree satisfy P *)
Inductive names_ok (P : bytes -> Prop) : pnode -> Prop :=
| names_ok_leaf s : P s -> names_ok P (PLeaf s)
| names_ok_parent s cs : P s -> Forall (names_ok P) cs -> names_ok P (PParent s cs).

Fixpoint pnode_ind' (Q : pnode -> Prop)
    (Hleaf : forall s, Q (PLeaf s))
    (Hpar : forall s cs, Forall Q cs -> Q (PParent s cs)) (n : pnode) : Q n :=
  match n with
  | PLeaf s => Hleaf s
  | PParent s cs =>
      Hpar s cs ((fix go (l : list pnode) : Forall Q l :=
                    match l with
                    | [] => Forall_nil Q
                    | c :: r => Forall_cons c (pnode_ind' Q Hleaf Hpar c) (go r)
                    end) cs)
  end.

Lemma span_deeper_Forall (P : nline -> Prop) lvl ls : forall a b,
  span_deeper lvl ls = (a, b) -> Forall P ls -> Forall P a /\ Forall P b.
Proof.
  induction ls as [|l ls IH]; intros a b E H; cbn [span_deeper] in E.
  - injection E as <- <-. split; constructor.
  - destruct (Nat.ltb lvl (nl_level l)) eqn:El.
    + destruct (span_deeper lvl ls) as [a' b'] eqn:Es. injection E as <- <-.
      inversion H as [|? ? Hl Hls]; subst.
      destruct (IH a' b' eq_refl Hls) as [Ha Hb]. split; [constructor; assumption | exact Hb].
    + injection E as <- <-. split; [constructor | exact H].
Qed.

Lemma add_to_nodes_Forall (P : pnode -> Prop) acc : forall n idx acc',
  add_to_nodes acc n idx = Ok acc' -> Forall P (map fst acc) -> P n -> Forall P (map fst acc').
Proof.
  induction acc as [|[m i] rest IH]; intros n idx acc' E Hacc Hn; cbn [add_to_nodes] in E.
  - injection E as <-. cbn [map fst]. constructor; [exact Hn | constructor].
  - destruct (bytes_compare (pnode_name n) (pnode_name m)) eqn:Ec.
    + destruct (same_type m n) eqn:Et; [|discriminate]. injection E as <-. exact Hacc.
    + injection E as <-. cbn [map fst]. constructor; [exact Hn | exact Hacc].
    + destruct (add_to_nodes rest n idx) as [rest'|e] eqn:Er; [|discriminate].
      injection E as <-. cbn [map fst] in *. inversion Hacc as [|? ? Hm Hrest]; subst.
      constructor; [exact Hm|]. apply (IH n idx rest' Er Hrest Hn).
Qed.

(* the inner loop of parse_level, named *)
Definition entries_of (f lvl : nat) :=
  fix entries (fuel2 : nat) (ls : list nline) (acc : list (pnode * nat)) {struct fuel2}
    : result (list pnode) bundle_err :=
    match ls with
    | [] => Ok (map fst acc)
    | l :: rest =>
        match fuel2 with
        | O => Err BOutOfFuel
        | S f2 =>
            let (kids, rest') := span_deeper lvl rest in
            let node :=
              match kids with
              | [] => Ok (PLeaf (nl_text l))
              | _ => match parse_level f (S lvl) kids with
                     | Ok cs => Ok (PParent (nl_text l) cs)
                     | Err e => Err e
                     end
              end in
            match node with
            | Err e => Err e
            | Ok nd =>
                match add_to_nodes acc nd (nl_num l) with
                | Err e => Err e
                | Ok acc' => entries f2 rest' acc'
                end
            end
        end
    end.

Lemma parse_level_S f lvl ls :
  parse_level (S f) lvl ls =
  match ls with
  | [] => Err BEmpty
  | first :: _ =>
      if Nat.eqb (nl_level first) lvl then entries_of f lvl (length ls) ls []
      else Err (BWrongIndent (nl_num first))
  end.
Proof. reflexivity. Qed.

Lemma entries_of_S f lvl f2 l rest acc :
  entries_of f lvl (S f2) (l :: rest) acc =
  let (kids, rest') := span_deeper lvl rest in
  match (match kids with
         | [] => Ok (PLeaf (nl_text l))
         | _ => match parse_level f (S lvl) kids with
                | Ok cs => Ok (PParent (nl_text l) cs)
                | Err e => Err e
                end
         end) with
  | Err e => Err e
  | Ok nd =>
      match add_to_nodes acc nd (nl_num l) with
      | Err e => Err e
      | Ok acc' => entries_of f lvl f2 rest' acc'
      end
  end.
Proof. reflexivity. Qed.

Definition lineP (P : bytes -> Prop) (l : nline) : Prop := P (nl_text l).

Lemma entries_of_names (P : bytes -> Prop) f lvl
  (IHf : forall lvl' ls ns, Forall (lineP P) ls -> parse_level f lvl' ls = Ok ns -> Forall (names_ok P) ns) :
  forall fuel2 ls acc ns,
    Forall (lineP P) ls -> Forall (names_ok P) (map fst acc) ->
    entries_of f lvl fuel2 ls acc = Ok ns -> Forall (names_ok P) ns.
Proof.
  induction fuel2 as [|f2 IH2]; intros ls acc ns Hls Hacc E.
  - destruct ls as [|l rest]; cbn [entries_of] in E; [|discriminate].
    injection E as <-. exact Hacc.
  - destruct ls as [|l rest].
    + cbn [entries_of] in E. injection E as <-. exact Hacc.
    + rewrite entries_of_S in E.
      inversion Hls as [|? ? Hl Hrest]; subst.
      destruct (span_deeper lvl rest) as [kids rest'] eqn:Es.
      destruct (span_deeper_Forall (lineP P) lvl rest kids rest' Es Hrest) as [Hkids Hrest'].
      assert (Hnode : forall nd,
                 (match kids with
                  | [] => Ok (PLeaf (nl_text l))
                  | _ => match parse_level f (S lvl) kids with
                         | Ok cs => Ok (PParent (nl_text l) cs)
                         | Err e => Err e
                         end
                  end) = Ok nd -> names_ok P nd).
      { intros nd En. destruct kids as [|k kids'].
        - injection En as <-. constructor. exact Hl.
        - destruct (parse_level f (S lvl) (k :: kids')) as [cs|e] eqn:Ep; [|discriminate].
          injection En as <-. constructor; [exact Hl|].
          apply (IHf (S lvl) (k :: kids') cs Hkids Ep). }
      destruct (match kids with
                | [] => Ok (PLeaf (nl_text l))
                | _ => match parse_level f (S lvl) kids with
                       | Ok cs => Ok (PParent (nl_text l) cs)
                       | Err e => Err e
                       end
                end) as [nd|e] eqn:En; [|discriminate].
      destruct (add_to_nodes acc nd (nl_num l)) as [acc'|e] eqn:Ea; [|discriminate].
      apply (IH2 rest' acc' ns Hrest').
      * apply (add_to_nodes_Forall (names_ok P) acc nd (nl_num l) acc' Ea Hacc).
        apply Hnode. reflexivity.
      * exact E.
Qed.

Lemma parse_level_names (P : bytes -> Prop) : forall fuel lvl ls ns,
  Forall (lineP P) ls -> parse_level fuel lvl ls = Ok ns -> Forall (names_ok P) ns.
Proof.
  induction fuel as [|f IHf]; intros lvl ls ns Hls E.
  - cbn [parse_level] in E. discriminate.
  - rewrite parse_level_S in E. destruct ls as [|first rest]; [discriminate|].
    destruct (Nat.eqb (nl_level first) lvl); [|discriminate].
    apply (entries_of_names P f lvl IHf (length (first :: rest)) (first :: rest) [] ns Hls).
    + constructor.
    + exact E.
Qed.

Lemma parse_lines_names ls0 ns :
  Forall nl_free ls0 -> parse_lines ls0 = Ok ns -> Forall (names_ok clean_str) ns.
Proof.
  intros H0 E. unfold parse_lines in E.
  pose proof (drop_last_empty_Forall nl_free ls0 H0) as Hls.
  set (ls := drop_last_empty ls0) in *.
  destruct (empty_indices O ls) as [|i idx] eqn:Ei; [|discriminate].
  apply (parse_level_names clean_str (S (length ls)) O (number_from O ls) ns); [|exact E].
  apply number_from_ok; [exact Hls|]. apply (empty_indices_nil ls O Ei).
Qed.

(* --- flatten --- *)

Lemma flatten_node_clean n : forall prefix,
  names_ok clean_str n -> nl_free prefix -> Forall clean_str (flatten_node prefix n).
Proof.
  induction n as [s|s cs IHcs] using pnode_ind'; intros prefix Hn Hp.
  - inversion Hn as [? [Hne Hnl]|]; subst. cbn [flatten_node]. constructor; [|constructor].
    split.
    + intro E. apply app_eq_nil in E. destruct E as [_ E]. apply Hne. exact E.
    + apply nl_free_app; assumption.
  - inversion Hn as [|? ? [Hne Hnl] Hcs]; subst. cbn [flatten_node].
    assert (Hp' : nl_free (prefix ++ s ++ [SLASH])).
    { apply nl_free_app; [exact Hp|]. apply nl_free_app; [exact Hnl|].
      intros [H|[]]. discriminate. }
    clear Hn. revert Hcs. induction IHcs as [|c cs' Hc _ IHgo]; intros Hcs; [constructor|].
    inversion Hcs as [|? ? Hc1 Hcs1]; subst.
    apply Forall_app. split; [apply Hc; assumption | apply IHgo; exact Hcs1].
Qed.

Lemma flatten_clean ns : Forall (names_ok clean_str) ns -> Forall clean_str (flatten ns).
Proof.
  unfold flatten. induction 1 as [|n ns Hn Hns IH]; cbn [flat_map]; [constructor|].
  apply Forall_app. split; [|exact IH].
  apply flatten_node_clean; [exact Hn | intros []].
Qed.

Lemma parse_lines_flatten_clean ls0 ns :
  Forall nl_free ls0 -> parse_lines ls0 = Ok ns -> Forall clean_str (flatten ns).
Proof. intros H E. apply flatten_clean. apply (parse_lines_names ls0 ns H E). Qed.

(* --- the line machine --- *)

Definition st_ok (st : pstate) : Prop :=
  Forall producible (ps_rules st) /\ Forall nl_free (ps_targets st) /\
  Forall nl_free (ps_sources st) /\ Forall clean_str (ps_command st).

Lemma Forall_rev' {A} (P : A -> Prop) l : Forall P l -> Forall P (rev l).
Proof.
  intros H. apply Forall_forall. intros x Hx. apply in_rev in Hx.
  exact (proj1 (Forall_forall P l) H x Hx).
Qed.

Lemma finish_rule_ok st st' : st_ok st -> finish_rule st = Ok st' -> st_ok st'.
Proof.
  intros (Hr & Ht & Hs & Hc) E. unfold finish_rule in E.
  destruct (parse_lines (rev (ps_targets st))) as [tb|e] eqn:Et; [|discriminate].
  destruct (parse_lines (rev (ps_sources st))) as [sb|e] eqn:Es; [|discriminate].
  injection E as <-. unfold st_ok. cbn [ps_rules ps_targets ps_sources ps_command].
  split; [|split; [constructor | split; constructor]].
  constructor; [|exact Hr].
  unfold producible. cbn [r_targets r_sources r_command].
  split; [apply (parse_lines_flatten_clean _ _ (Forall_rev' _ _ Ht) Et)|].
  split; [apply (parse_lines_flatten_clean _ _ (Forall_rev' _ _ Hs) Es)|].
  apply Forall_rev'. exact Hc.
Qed.

Lemma is_empty_false l : is_empty l = false -> l <> [].
Proof. destruct l; [discriminate | intros _; discriminate]. Qed.

Lemma step_line_ok st l st' : st_ok st -> nl_free l -> step_line st l = Ok st' -> st_ok st'.
Proof.
  intros Hst Hl E. pose proof Hst as (Hr & Ht & Hs & Hc). unfold step_line in E.
  destruct (ps_mode st); destruct (is_empty l) eqn:Ee; try discriminate;
    destruct (is_colon l) eqn:Eco; try discriminate;
    try (injection E as <-; unfold st_ok; cbn [ps_rules ps_targets ps_sources ps_command];
         repeat split; try assumption; try (constructor; assumption)).
  - apply (finish_rule_ok st st' Hst E).
  - constructor; [|exact Hc]. split; [apply is_empty_false; exact Ee | exact Hl].
Qed.

Lemma run_lines_ok ls : forall st st',
  st_ok st -> Forall nl_free ls -> run_lines st ls = Ok st' -> st_ok st'.
Proof.
  induction ls as [|l ls IH]; intros st st' Hst Hls E; cbn [run_lines] in E.
  - injection E as <-. exact Hst.
  - inversion Hls as [|? ? Hl Hls']; subst.
    destruct (step_line st l) as [st1|e] eqn:Es; [|discriminate].
    apply (IH st1 st' (step_line_ok st l st1 Hst Hl Es) Hls' E).
Qed.

Lemma init_pstate_ok : st_ok init_pstate.
Proof. unfold st_ok, init_pstate. cbn. repeat split; constructor. Qed.

Lemma parse_producible content rules : parse content = Ok rules -> Forall producible rules.
Proof.
  unfold parse. intros E.
  destruct (run_lines init_pstate (split_on NL content)) as [st|e] eqn:Er; [|discriminate].
  pose proof (run_lines_ok _ _ _ init_pstate_ok (split_on_no_sep NL content) Er) as (Hr & _).
  unfold finish in E. destruct (ps_mode st); try discriminate.
  injection E as <-. apply Forall_rev'. exact Hr.
Qed.

Lemma parse_all_producible contents : forall rules,
  parse_all contents = Ok rules -> Forall producible rules.
Proof.
  induction contents as [|c cs IH]; intros rules E; cbn [parse_all] in E.
  - injection E as <-. constructor.
  - destruct (parse c) as [rs|e] eqn:Ep; [|discriminate].
    destruct (parse_all cs) as [rs'|e] eqn:Ea; [|discriminate].
    injection E as <-. apply Forall_app. split; [apply (parse_producible c rs Ep) | apply IH; reflexivity].
Qed.

(* each half of clean_str is needed on its own: the first pair has no newline anywhere,
   the second pair has no empty string anywhere *)
Lemma amb_empty_nl_free :
  Forall nl_free (r_targets amb_empty_1 ++ r_sources amb_empty_1 ++ r_command amb_empty_1) /\
  Forall nl_free (r_targets amb_empty_2 ++ r_sources amb_empty_2 ++ r_command amb_empty_2).
Proof.
  split; cbn; repeat constructor; unfold nl_free; cbn [In]; intros H;
    repeat (destruct H as [H|H]; [discriminate|]); exact H.
Qed.

Lemma amb_nl_nonempty :
  Forall (fun s => s <> []) (r_targets amb_nl_1 ++ r_sources amb_nl_1 ++ r_command amb_nl_1) /\
  Forall (fun s => s <> []) (r_targets amb_nl_2 ++ r_sources amb_nl_2 ++ r_command amb_nl_2).
Proof. split; cbn; repeat constructor; discriminate. Qed.

(* non-vacuity of the parser range: "a\n\tb\n\tc\n:\nd\n:\ncmd x\n:\n" parses to one rule with
   targets a/b, a/c *)
Example parse_example :
  parse [97;10; 9;98;10; 9;99;10; 58;10; 100;10; 58;10; 99;109;100;32;120;10; 58;10] =
  Ok [mk_rule [[97;47;98]; [97;47;99]] [[100]] [[99;109;100;32;120]]].
Proof. vm_compute. reflexivity. Qed.

(* ==== RESULTS ==== *)

(* R1 *)
Theorem c13_reorder_invariant : forall r1 r2,
  Permutation (r_targets r1) (r_targets r2) -> Permutation (r_sources r1) (r_sources r2) ->
  r_command r1 = r_command r2 -> canon_rule r1 = canon_rule r2.
Proof. intros r1 r2 Ht Hs Hc. apply canon_rule_eq_iff. auto. Qed.

Corollary c13_reorder_same_ticket : forall r1 r2,
  Permutation (r_targets r1) (r_targets r2) -> Permutation (r_sources r1) (r_sources r2) ->
  r_command r1 = r_command r2 -> rule_ticket r1 = rule_ticket r2.
Proof.
  intros r1 r2 Ht Hs Hc. unfold rule_ticket.
  rewrite (c13_reorder_invariant r1 r2 Ht Hs Hc). reflexivity.
Qed.

(* R2 *)
Theorem c13_identity_iff : forall r1 r2,
  canon_rule r1 = canon_rule r2 <->
  (Permutation (r_targets r1) (r_targets r2) /\ Permutation (r_sources r1) (r_sources r2) /\
   r_command r1 = r_command r2).
Proof. exact canon_rule_eq_iff. Qed.

(* R3 (clean_str and producible are defined above, exactly as requested) *)
Theorem c13_ser_injective : forall r1 r2,
  producible r1 -> producible r2 -> ser_rule r1 = ser_rule r2 -> r1 = r2.
Proof. exact ser_rule_injective. Qed.

Theorem c13_identity_preimage : forall r1 r2, producible r1 -> producible r2 ->
  ser_rule (canon_rule r1) = ser_rule (canon_rule r2) -> canon_rule r1 = canon_rule r2.
Proof.
  intros r1 r2 H1 H2 E.
  apply c13_ser_injective; [apply canon_rule_producible; exact H1
                           | apply canon_rule_producible; exact H2 | exact E].
Qed.

Theorem c13_ticket_preimage_iff : forall r1 r2, producible r1 -> producible r2 ->
  (ser_rule (canon_rule r1) = ser_rule (canon_rule r2) <->
   (Permutation (r_targets r1) (r_targets r2) /\ Permutation (r_sources r1) (r_sources r2) /\
    r_command r1 = r_command r2)).
Proof.
  intros r1 r2 H1 H2. split.
  - intros E. apply c13_identity_iff. apply c13_identity_preimage; assumption.
  - intros H. apply c13_identity_iff in H. rewrite H. reflexivity.
Qed.

(* R4: without the hypothesis of R3 two different rules (different even up to reordering)
   share the preimage, hence the ticket. First witness: empty strings only; second: embedded
   newlines only (see amb_empty_nl_free / amb_nl_nonempty). *)
Theorem c13_not_injective_outside :
  exists r1 r2,
    ~ producible r1 /\ ~ producible r2 /\ r1 <> r2 /\ canon_rule r1 <> canon_rule r2 /\
    ser_rule r1 = ser_rule r2 /\ ser_rule (canon_rule r1) = ser_rule (canon_rule r2) /\
    rule_ticket r1 = rule_ticket r2.
Proof.
  exists amb_empty_1, amb_empty_2.
  destruct amb_empty_facts as (Hne & Hcne & Hp1 & Hp2 & Es & Ec).
  split; [exact Hp1|]. split; [exact Hp2|]. split; [exact Hne|]. split; [exact Hcne|].
  split; [exact Es|]. split; [exact Ec|]. unfold rule_ticket. exact (f_equal sha256 Ec).
Qed.

Theorem c13_not_injective_outside_nl :
  exists r1 r2,
    ~ producible r1 /\ ~ producible r2 /\ r1 <> r2 /\ canon_rule r1 <> canon_rule r2 /\
    ser_rule r1 = ser_rule r2 /\ ser_rule (canon_rule r1) = ser_rule (canon_rule r2) /\
    rule_ticket r1 = rule_ticket r2.
Proof.
  exists amb_nl_1, amb_nl_2.
  destruct amb_nl_facts as (Hne & Hcne & Hp1 & Hp2 & Es & Ec).
  split; [exact Hp1|]. split; [exact Hp2|]. split; [exact Hne|]. split; [exact Hcne|].
  split; [exact Es|]. split; [exact Ec|]. unfold rule_ticket. exact (f_equal sha256 Ec).
Qed.

(* R5 *)
Theorem c13_parser_range : forall content rules,
  parse content = Ok rules -> Forall producible rules.
Proof. exact parse_producible. Qed.

Corollary c13_parser_range_command : forall content rules,
  parse content = Ok rules -> Forall (fun r => Forall clean_str (r_command r)) rules.
Proof.
  intros content rules E. pose proof (c13_parser_range content rules E) as H.
  apply Forall_forall. intros r Hr.
  destruct (proj1 (Forall_forall producible rules) H r Hr) as (_ & _ & Hc). exact Hc.
Qed.

Corollary c13_parser_range_all : forall contents rules,
  parse_all contents = Ok rules -> Forall producible rules.
Proof. exact parse_all_producible. Qed.

(* parsed rules: same ticket preimage exactly when same rule up to the order of targets and
   of sources *)
Corollary c13_parsed_ticket_preimage_iff : forall c1 c2 rs1 rs2 r1 r2,
  parse c1 = Ok rs1 -> parse c2 = Ok rs2 -> In r1 rs1 -> In r2 rs2 ->
  (ser_rule (canon_rule r1) = ser_rule (canon_rule r2) <->
   (Permutation (r_targets r1) (r_targets r2) /\ Permutation (r_sources r1) (r_sources r2) /\
    r_command r1 = r_command r2)).
Proof.
  intros c1 c2 rs1 rs2 r1 r2 E1 E2 H1 H2. apply c13_ticket_preimage_iff.
  - exact (proj1 (Forall_forall producible rs1) (c13_parser_range c1 rs1 E1) r1 H1).
  - exact (proj1 (Forall_forall producible rs2) (c13_parser_range c2 rs2 E2) r2 H2).
Qed.

