(* C10, part 3: clean moves every target that exists into the cache, under the hash of its bytes; with
   pairwise different contents no entry replaces another. *)
From Coq Require Import Relations.Relation_Operators Relations.Operators_Properties.
From Ruler Require Import Tactics Bytes AList RuleSyntax Parser TopoSort TopoSpec World Cmdlang Work Build Ops Inv
     BuildSpec Ideal BytesFacts InvFacts TopoSortFacts BuildFacts C01Script C01Hist C01Build C01Plan C10Facts.
Local Open Scope N_scope.

Section Clean.
  Variable T : Type.
  Variable teqb : T -> T -> bool.
  Variable hc : bytes -> T.
  Hypothesis teqb_spec : forall a b, teqb a b = true <-> a = b.
  Hypothesis hc_inj : forall a b, hc a = hc b -> a = b.

  Notation world := (world T).
  Notation fstate := (fstate T).
  Notation state_ok := (state_ok teqb hc).
  Notation disk_inv := (disk_inv teqb hc).
  Notation steps := (clos_refl_trans world (step teqb hc)).
  Notation blob_ok := (InvProofs.blob_ok T teqb hc).
  Notation tbl_ok := (InvProofs.tbl_ok T teqb hc).
  Notation hist_of := (hist_of T).
  Notation clean_nodes := (clean_nodes T teqb hc).
  Notation clean := (clean teqb hc).

  (* F: the files of reference (what was in the workspace before the clean) *)

  (* the files at the paths P have pairwise different contents *)
  Definition distinct_on (F : bytes -> option file) (P : list bytes) : Prop :=
    forall p q f g, In p P -> In q P -> F p = Some f -> F q = Some g -> f_content f = f_content g -> p = q.

  (* the cache holds the reference file of every path of P, under the hash of its content *)
  Definition cache_has (w : world) (F : bytes -> option file) (P : list bytes) : Prop :=
    exists c, cache_of w = Some c /\
              forall p f, In p P -> F p = Some f -> alookup teqb c (hc (f_content f)) = Some f.

  Lemma distinct_on_incl F P P' : incl P' P -> distinct_on F P -> distinct_on F P'.
  Proof. intros Hi H p q f g Hp Hq. apply H; apply Hi; assumption. Qed.

  Lemma distinct_on_of_nodup (w : world) P :
    NoDup (map (fun t => content_at w t) P) -> distinct_on (fget w) P.
  Proof.
    intros Hnd p q f g Hp Hq Hf Hg E.
    apply (NoDup_map_eq (fun t => content_at w t) P p q Hnd Hp Hq).
    unfold content_at. rewrite Hf, Hg. cbn. f_equal. exact E.
  Qed.

  Lemma cache_has_incl (w : world) F P P' : incl P' P -> cache_has w F P -> cache_has w F P'.
  Proof. intros Hi (c & Hc & H). exists c. split; [exact Hc|]. intros p f Hp. apply H. apply Hi. exact Hp. Qed.

  Lemma clean_targets_good F (b : blob T) : forall (w : world) Pd,
    disk_inv w -> blob_ok w b -> NoDup (Pd ++ map fst b) ->
    (forall p, In p (map fst b) -> fget w p = F p /\ F p <> None) ->
    distinct_on F (Pd ++ map fst b) -> cache_has w F Pd ->
    exists w', clean_targets teqb hc w b = Ok w' /\ cache_has w' F (Pd ++ map fst b) /\
               rd_table (w_rd w') = rd_table (w_rd w).
  Proof.
    induction b as [|[p a] rest IH]; intros w Pd Hinv Hb Hnd Hf Hdist Hcache; cbn [clean_targets map fst].
    - exists w. rewrite app_nil_r. auto.
    - cbn [map fst] in *. apply InvProofs.blob_ok_cons in Hb as [Hok Hrest].
      destruct (Hf p (or_introl eq_refl)) as [Hfp HFp].
      destruct (F p) as [f|] eqn:EF; [|contradiction].
      destruct (get_file_ticket teqb hc w p a) as [t|] eqn:Eg.
      2:{ apply (get_file_ticket_none T teqb hc) in Eg. congruence. }
      destruct (InvProofs.get_file_ticket_sound T teqb hc _ _ _ _ Hok Eg) as (f' & Hf' & Et).
      assert (f' = f) as -> by congruence.
      destruct Hcache as (c & Hc & Hcf).
      destruct (back_up teqb w t p) as [w1|] eqn:Eb.
      2:{ unfold back_up in Eb. rewrite Hc, Hfp in Eb. discriminate. }
      pose proof (InvProofs.back_up_steps T teqb hc _ _ _ _ _ Hok Eg Eb) as Hs1.
      pose proof (back_up_spec T teqb _ _ _ _ Eb) as (c' & f'' & Hc' & Hf'' & Ew1).
      assert (c' = c) as -> by congruence. assert (f'' = f) as -> by congruence.
      assert (~ In p Pd) as HpPd.
      { intro X. apply (NoDup_app_disjoint _ _ p Hnd X). left. reflexivity. }
      destruct (IH w1 (Pd ++ [p])) as (w' & Hct & Hch & Htb).
      + exact (inv_steps T teqb hc teqb_spec _ _ Hinv Hs1).
      + exact (blob_steps T teqb hc teqb_spec _ _ _ Hinv Hs1 Hrest).
      + rewrite <- app_assoc. exact Hnd.
      + intros q Hq. rewrite (back_up_fget_neq T teqb _ _ _ _ q Eb); [apply Hf; right; exact Hq|].
        intros ->. apply NoDup_app_r in Hnd. inversion Hnd; contradiction.
      + rewrite <- app_assoc. exact Hdist.
      + exists (ainsert teqb c t f). split; [subst w1; reflexivity|].
        intros q g Hq Hg. apply in_app_or in Hq as [Hq | [<- | []]].
        * rewrite (BuildFacts.alookup_ainsert_neq teqb teqb_spec); [apply (Hcf q g); assumption|].
          intro E. rewrite Et in E. apply hc_inj in E.
          assert (p = q) as <-; [|contradiction].
          apply (Hdist p q f g); auto.
          -- apply in_or_app. right. left. reflexivity.
          -- apply in_or_app. left. exact Hq.
        * assert (g = f) as -> by congruence. rewrite Et.
          apply (BuildFacts.alookup_ainsert_eq teqb teqb_spec).
      + exists w'. split; [exact Hct|]. split; [rewrite <- app_assoc in Hch; exact Hch|].
        rewrite Htb. subst w1. reflexivity.
  Qed.

  Lemma clean_nodes_good F ns : forall (w : world) t errs Pd,
    disk_inv w -> tbl_ok w t -> NoDup (Pd ++ flat_map n_targets ns) ->
    (forall p, In p (flat_map n_targets ns) -> fget w p = F p /\ F p <> None) ->
    distinct_on F (Pd ++ flat_map n_targets ns) -> cache_has w F Pd ->
    exists w', clean_nodes w t ns errs = (w', errs) /\ cache_has w' F (Pd ++ flat_map n_targets ns) /\
               rd_table (w_rd w') = rd_table (w_rd w).
  Proof.
    induction ns as [|n rest IH]; intros w t errs Pd Hinv Ht Hnd Hf Hdist Hcache; cbn [Build.clean_nodes flat_map].
    - exists w. rewrite app_nil_r. auto.
    - cbn [flat_map] in *.
      destruct (take_blob T hc t (n_targets n)) as [b t'] eqn:Etb.
      pose proof (C01Build.take_blob_fst T hc _ _ _ _ Etb) as Hfst.
      assert (clock_ok teqb w) as Hk by apply Hinv.
      destruct (InvProofs.take_blob_ok T teqb hc teqb_spec _ _ _ _ _ Ht Etb) as [Hb Ht'].
      rewrite app_assoc in Hnd, Hdist.
      destruct (clean_targets_good F b w Pd Hinv Hb) as (w1 & Hct & Hch & Htb).
      + rewrite Hfst. eapply NoDup_app_l; eauto.
      + rewrite Hfst. intros p Hp. apply Hf. apply in_or_app. left. exact Hp.
      + rewrite Hfst. eapply distinct_on_incl; [|exact Hdist]. intros x Hx. apply in_or_app. left. exact Hx.
      + exact Hcache.
      + rewrite Hct. rewrite Hfst in Hch.
        pose proof (InvProofs.clean_targets_steps T teqb hc teqb_spec _ _ _ Hinv Hb Hct) as Hs1.
        destruct (IH w1 t' errs (Pd ++ n_targets n)) as (w' & Hcn & Hch' & Htb').
        * exact (inv_steps T teqb hc teqb_spec _ _ Hinv Hs1).
        * exact (InvProofs.tbl_ok_steps T teqb hc teqb_spec _ _ _ Hinv Hs1 Ht').
        * exact Hnd.
        * intros p Hp. pose proof (clean_targets_frame T teqb hc _ _ _ Hct) as Hfr. rewrite Hfst in Hfr.
          rewrite (frame_at_fget T _ _ _ p Hfr); [apply Hf; apply in_or_app; right; exact Hp|].
          intro X. apply (NoDup_app_disjoint _ _ p Hnd); [apply in_or_app; right; exact X | exact Hp].
        * exact Hdist.
        * exact Hch.
        * exists w'. split; [exact Hcn|]. split; [rewrite app_assoc; exact Hch' | congruence].
  Qed.

  Theorem clean_summary (wa : world) rp goal wa1 tbl pack :
    disk_inv wa -> init_dir T wa = Ok (wa1, tbl) -> get_nodes T wa1 rp goal = Ok pack ->
    NoDup (plan_targets pack) ->
    (forall t, In t (plan_targets pack) -> fget wa t <> None) ->
    distinct_on (fget wa) (plan_targets pack) ->
    o_verdict (clean wa rp goal) = VOk /\
    cache_has (o_world (clean wa rp goal)) (fget wa) (plan_targets pack) /\
    hist_of (o_world (clean wa rp goal)) = hist_of wa1 /\
    rd_table (w_rd (o_world (clean wa rp goal))) = Some (SF_ok tbl).
  Proof.
    intros Hinv Hi Hg Hnd Hex Hdist. rewrite clean_eq, Hi, Hg.
    destruct (InvProofs.init_dir_rs_inv T teqb hc teqb_spec _ _ _ Hinv Hi) as [Hs1 Ht1].
    destruct (init_dir_ok T teqb _ _ _ Hi) as (Hfiles & _ & Hcsome & _).
    destruct (InvProofs.init_dir_inv T teqb _ _ _ Hi) as (_ & _ & _ & _ & Htbl & _).
    destruct (clean_nodes_good (fget wa) (p_nodes pack) wa1 tbl [] []) as (w' & Hcn & Hch & Htb).
    - exact (inv_steps T teqb hc teqb_spec _ _ Hinv Hs1).
    - exact Ht1.
    - exact Hnd.
    - intros p Hp. split; [apply files_fget; exact Hfiles | apply Hex; exact Hp].
    - exact Hdist.
    - destruct (cache_of wa1) as [c|] eqn:Ec; [|contradiction]. exists c. split; [exact Ec|]. intros p f [].
    - destruct (clean_nodes_frame T teqb hc (p_nodes pack) wa1 tbl []) as [[Hh _] _].
      rewrite Hcn in *. cbn [fst snd o_verdict o_world] in *.
      split; [reflexivity|]. split; [exact Hch|]. split; [exact Hh | congruence].
  Qed.
End Clean.
