(* CLEAN-FINE, part 3: the results about Model/CleanFine.v (clean() under every interleaving of its rule threads).
   K1: the serial run is Build.clean (clean_fine_serial, clean_fine_fatal);
   K2: every step decreases the measure, a state that is not complete has a thread that can move, every run can be
       completed (clean_fine_step_decreases, clean_fine_no_deadlock, clean_fine_completable);
   K3: any two complete runs give the same verdict, the same workspace, the same cache CONTENTS, the same history
       directory and the same saved table -- from disk_inv (clean_fine_schedule_independent) and from coarse_inv
       (clean_fine_schedule_independent_coarse); hence every complete run agrees with Build.clean
       (clean_fine_equals_clean, _coarse).  The cache FILES need not be equal
       (clean_fine_entry_attributes_depend_on_order).  No run, complete or not, has an error (clean_fine_verdict_ok).
   K4: every state of every run satisfies disk_inv, resp. pre_inv (clean_fine_every_state_inv,
       clean_fine_every_state_pre_inv), each step being an Inv.step or the identity (clean_fine_step_is_step);
   K5: C08 and C10 (clean_fine_keeps_content, clean_fine_complete_run_cleans, clean_fine_frame);
   K6: the closed instances for the free symbolic hashes;  K7: examples.
   hc is assumed injective where the cache is compared BY CONTENT (K3, K5): under a collision the content that
   survives under the one name is the one moved last. *)
From Coq Require Import String Ascii.
From Coq Require Import Relations.Relation_Operators Relations.Operators_Properties.
From Ruler Require Import Tactics Bytes AList RuleSyntax Parser TopoSort World Cmdlang Work Build Ops Inv
     BuildSpec Ideal Sched CleanFine BytesFacts InvFacts BuildFacts C01Build C01Plan C01Facts SchedBasic FineBasic
     CoarseInv C18Coarse CoarseBuild C18CoarseFacts CleanFineBasic CleanFineInv.
Local Open Scope nat_scope.

Section Theorems.
  Variable T : Type.
  Variable teqb : T -> T -> bool.
  Variable hc : bytes -> T.
  Hypothesis teqb_spec : forall a b, teqb a b = true <-> a = b.

  Notation world := (world T).
  Notation fstate := (fstate T).
  Notation cstate := (cstate T).
  Notation cstep := (cstep teqb hc).
  Notation crun := (crun teqb hc).
  Notation clean_fine := (clean_fine teqb hc).
  Notation clean := (clean teqb hc).
  Notation clean_complete := (clean_complete teqb hc).
  Notation disk_inv := (disk_inv teqb hc).
  Notation coarse_inv := (coarse_inv teqb hc).
  Notation pre_inv := (pre_inv teqb hc).
  Notation cache_addressed := (cache_addressed teqb hc).
  Notation state_ok := (state_ok teqb hc).
  Notation step := (step teqb hc).
  Notation steps := (clos_refl_trans world step).
  Notation blob_ok := (InvProofs.blob_ok T teqb hc).
  Notation tbl_ok := (InvProofs.tbl_ok T teqb hc).
  Notation protected_content := (protected_content teqb).
  Notation cinit := (cinit T).

  Definition errs_of (st : cstate) : list work_err :=
    flat_map (fun o : option work_err => match o with Some e => [e] | None => [] end) (cs_err st).

  (* ================================================================== *)
  (* clean_fine, unfolded                                                 *)
  (* ================================================================== *)

  Lemma clean_fine_eq ch (w : world) rp goal w1 tbl pack :
    init_dir T w = Ok (w1, tbl) -> get_nodes T w1 rp goal = Ok pack ->
    clean_fine ch w rp goal =
    let blobs := node_blobs hc tbl (p_nodes pack) in
    let st := crun blobs ch (cinit w1 (length blobs)) in
    mk_outcome (cs_world st) (match errs_of st with [] => VOk | es => VWorkErrors es end) [] [].
  Proof.
    intros Hi Hg. unfold CleanFine.clean_fine. rewrite Hi, Hg. cbv zeta. unfold errs_of, CleanFineBasic.cinit.
    match goal with |- context [match ?e with [] => _ | _ :: _ => _ end] => destruct e end; reflexivity.
  Qed.

  Lemma clean_complete_eq ch (w : world) rp goal w1 tbl pack :
    init_dir T w = Ok (w1, tbl) -> get_nodes T w1 rp goal = Ok pack ->
    (clean_complete ch w rp goal <->
     call_done (crun (node_blobs hc tbl (p_nodes pack)) ch
                     (cinit w1 (length (node_blobs hc tbl (p_nodes pack))))) = true).
  Proof. intros Hi Hg. unfold CleanFineInv.clean_complete, clean_final. rewrite Hi, Hg. reflexivity. Qed.

  (* ================================================================== *)
  (* K1                                                                   *)
  (* ================================================================== *)

  Theorem clean_fine_serial : forall (w : world) rp goal w1 tbl pack,
    init_dir T w = Ok (w1, tbl) -> get_nodes T w1 rp goal = Ok pack ->
    clean_fine (cserial (node_blobs hc tbl (p_nodes pack))) w rp goal = clean w rp goal.
  Proof. intros w rp goal. exact (proj1 (clean_fine_serial_main T teqb hc w rp goal)). Qed.

  (* when clean stops before spawning its threads there is nothing to schedule *)
  Theorem clean_fine_fatal : forall (w : world) rp goal ch,
    (forall w1 tbl pack, init_dir T w = Ok (w1, tbl) -> get_nodes T w1 rp goal <> Ok pack) ->
    clean_fine ch w rp goal = clean w rp goal.
  Proof.
    intros w rp goal ch Hno. destruct (clean_fine_serial_main T teqb hc w rp goal) as (_ & H2 & H3).
    destruct (init_dir T w) as [[w1 tbl]|f] eqn:Hi; [|eapply H2; eauto].
    destruct (get_nodes T w1 rp goal) as [pack|f] eqn:Hg; [|eapply H3; eauto].
    exfalso. eapply Hno; eauto.
  Qed.

  Theorem clean_serial_complete : forall (w : world) rp goal w1 tbl pack,
    init_dir T w = Ok (w1, tbl) -> get_nodes T w1 rp goal = Ok pack ->
    clean_complete (cserial (node_blobs hc tbl (p_nodes pack))) w rp goal.
  Proof.
    intros w rp goal w1 tbl pack Hi Hg. apply (clean_complete_eq _ _ _ _ _ _ _ Hi Hg).
    apply cserial_complete. eapply init_dir_cache; eauto.
  Qed.

  (* ================================================================== *)
  (* K2                                                                   *)
  (* ================================================================== *)

  Theorem clean_fine_step_decreases : forall blobs (st : cstate) k st',
    cstep blobs st k = Some st' -> cmeasure T blobs st' < cmeasure T blobs st.
  Proof. exact (cstep_decreases T teqb hc). Qed.

  Theorem clean_fine_no_deadlock : forall blobs ch (w1 : world),
    let st := crun blobs ch (cinit w1 (length blobs)) in
    call_done st = false -> exists k, cstep blobs st k <> None.
  Proof. intros blobs ch w1 st. apply (clean_no_deadlock T teqb hc). Qed.

  Theorem clean_fine_stuck_is_complete : forall blobs ch (w1 : world),
    let st := crun blobs ch (cinit w1 (length blobs)) in
    (forall k, cstep blobs st k = None) -> call_done st = true.
  Proof. intros blobs ch w1 st. apply (clean_stuck_is_complete T teqb hc). Qed.

  Theorem clean_fine_completable : forall blobs ch (w1 : world),
    exists ch', call_done (crun blobs (ch ++ ch') (cinit w1 (length blobs))) = true.
  Proof. intros blobs ch w1. apply (clean_completable T teqb hc). Qed.

  Theorem clean_fine_completable_run : forall (w : world) rp goal ch,
    exists ch', clean_complete (ch ++ ch') w rp goal.
  Proof.
    intros w rp goal ch. unfold CleanFineInv.clean_complete, clean_final.
    destruct (init_dir T w) as [[w1 tbl]|f]; [|exists []; exact I].
    destruct (get_nodes T w1 rp goal) as [pack|f]; [|exists []; exact I].
    apply (clean_completable T teqb hc).
  Qed.

  (* ================================================================== *)
  (* the frame: no hypothesis at all                                      *)
  (* ================================================================== *)

  Lemma crun_frame blobs (w1 : world) p :
    ~ target T blobs p -> forall ch st, fget (cs_world st) p = fget w1 p ->
    fget (cs_world (crun blobs ch st)) p = fget w1 p.
  Proof.
    intro Hnt. apply (crun_ind T teqb hc (fun st => fget (cs_world st) p = fget w1 p)).
    intros st k st' Hs H.
    destruct (cstep_cases T teqb hc _ _ _ _ H) as [i Ep Eb E | i q a Ep Eb Eg E | i q a t Ep Eb Eg Ebk E | i q a t w2 Ep Eb Eg Ebk E];
      subst st'; cbn [cs_world]; try exact Hs.
    rewrite (back_up_fget_neq T teqb _ _ _ _ p Ebk); [exact Hs|].
    intros ->. apply Hnt. exists k, i, a. exact Eb.
  Qed.

  Theorem clean_fine_frame : forall (w : world) rp goal w1 tbl pack ch p,
    init_dir T w = Ok (w1, tbl) -> get_nodes T w1 rp goal = Ok pack ->
    ~ In p (plan_targets pack) ->
    fget (o_world (clean_fine ch w rp goal)) p = fget w p.
  Proof.
    intros w rp goal w1 tbl pack ch p Hi Hg Hp. rewrite (clean_fine_eq _ _ _ _ _ _ _ Hi Hg). cbv zeta. cbn [o_world].
    rewrite (crun_frame _ w1 p).
    - apply files_fget. apply (init_dir_ok T teqb _ _ _ Hi).
    - intro Ht. apply Hp. apply (target_plan T hc tbl pack p). exact Ht.
    - reflexivity.
  Qed.

  Theorem clean_fine_frame_fatal : forall (w : world) rp goal ch,
    (forall w1 tbl pack, init_dir T w = Ok (w1, tbl) -> get_nodes T w1 rp goal <> Ok pack) ->
    w_files (o_world (clean_fine ch w rp goal)) = w_files w.
  Proof.
    intros w rp goal ch Hno. rewrite (clean_fine_fatal w rp goal ch Hno).
    destruct (clean_frame_fatal_main T teqb hc w rp goal) as [H1 H2].
    destruct (init_dir T w) as [[w1 tbl]|f] eqn:Hi; [|eapply H1; eauto].
    destruct (get_nodes T w1 rp goal) as [pack|f] eqn:Hg; [|eapply H2; eauto].
    exfalso. eapply Hno; eauto.
  Qed.

  (* ================================================================== *)
  (* the common part of K3 - K5: a start in which every remembered state  *)
  (* is sound for its path and the cache is content-addressed             *)
  (* ================================================================== *)

  Definition start_ok (w1 : world) (tbl : table T) : Prop := cache_addressed w1 /\ tbl_at teqb hc w1 tbl.

  Lemma start_of_disk_inv (w w1 : world) tbl :
    disk_inv w -> init_dir T w = Ok (w1, tbl) -> disk_inv w1 /\ tbl_ok w1 tbl /\ steps w w1 /\ start_ok w1 tbl.
  Proof.
    intros Hinv Hi. destruct (InvProofs.init_dir_rs_inv T teqb hc teqb_spec _ _ _ Hinv Hi) as [Hs Ht].
    pose proof (InvProofs.steps_preserve_inv T teqb hc teqb_spec _ _ Hinv Hs) as Hinv1.
    split; [exact Hinv1|]. split; [exact Ht|]. split; [exact Hs|]. split; [apply Hinv1 | apply tbl_ok_at; exact Ht].
  Qed.

  Lemma start_of_coarse_inv (w w1 : world) tbl :
    coarse_inv w -> init_dir T w = Ok (w1, tbl) ->
    inflight teqb hc w1 /\ tbl_held teqb hc w1 tbl /\ rd_table (w_rd w1) = Some (SF_ok tbl) /\ start_ok w1 tbl.
  Proof.
    intros Hinv Hi.
    (* the lemma of CoarseBuild.v is stated in a section with hl, hr that it does not use *)
    destruct (CoarseBuildProofs.init_dir_coarse T teqb hc _ _ _ Hinv Hi) as (H1 & H2 & H3).
    split; [exact H1|]. split; [exact H2|]. split; [exact H3|]. split; [apply H1 | apply tbl_held_at; exact H2].
  Qed.

  Section Plan.
    Variable w w1 : world.
    Variable rp : bytes.
    Variable goal : option bytes.
    Variable tbl : table T.
    Variable pack : node_pack.
    Hypothesis Hi : init_dir T w = Ok (w1, tbl).
    Hypothesis Hg : get_nodes T w1 rp goal = Ok pack.
    Hypothesis Hstart : start_ok w1 tbl.

    Let blobs := node_blobs hc tbl (p_nodes pack).
    Let st_of (ch : list nat) : cstate := crun blobs ch (cinit w1 (length blobs)).

    Lemma plan_cinv ch : cinv T teqb hc w1 blobs (st_of ch).
    Proof.
      destruct Hstart as [Ha Ht]. apply (cinv_run T teqb hc teqb_spec w1 blobs).
      - eapply init_dir_cache; eauto.
      - exact Ha.
      - apply (node_blobs_ok_at T teqb hc teqb_spec). exact Ht.
    Qed.

    Lemma plan_outcome ch :
      clean_fine ch w rp goal = mk_outcome (cs_world (st_of ch)) VOk [] [].
    Proof.
      rewrite (clean_fine_eq _ _ _ _ _ _ _ Hi Hg). cbv zeta. fold blobs. fold (st_of ch).
      unfold errs_of. rewrite (cinv_errs T teqb hc w1 blobs _ (plan_cinv ch)). reflexivity.
    Qed.

    Lemma plan_agree (hc_inj : forall a b, hc a = hc b -> a = b) ch1 ch2 :
      call_done (st_of ch1) = true -> call_done (st_of ch2) = true ->
      let o1 := clean_fine ch1 w rp goal in
      let o2 := clean_fine ch2 w rp goal in
      o_verdict o1 = o_verdict o2 /\
      (forall p, fget (o_world o1) p = fget (o_world o2) p) /\
      (forall t, cache_content teqb (o_world o1) t = cache_content teqb (o_world o2) t) /\
      rd_hist (w_rd (o_world o1)) = rd_hist (w_rd (o_world o2)) /\
      rd_table (w_rd (o_world o1)) = rd_table (w_rd (o_world o2)).
    Proof.
      intros Hd1 Hd2. cbv zeta. rewrite !plan_outcome. cbn [o_verdict o_world].
      pose proof (plan_cinv ch1) as C1. pose proof (plan_cinv ch2) as C2.
      split; [reflexivity|]. split; [|split; [|split]].
      - intro p. exact (complete_files T teqb hc w1 blobs _ _ p C1 C2 Hd1 Hd2).
      - intro t. exact (complete_cache_content T teqb hc w1 blobs hc_inj _ _ t C1 C2 Hd1 Hd2).
      - destruct (cinv_rd T teqb hc w1 blobs _ C1) as [E1 _]. destruct (cinv_rd T teqb hc w1 blobs _ C2) as [E2 _].
        congruence.
      - destruct (cinv_rd T teqb hc w1 blobs _ C1) as [_ E1]. destruct (cinv_rd T teqb hc w1 blobs _ C2) as [_ E2].
        congruence.
    Qed.

    Lemma plan_keeps_content (hc_inj : forall a b, hc a = hc b -> a = b) ch k st' paths c :
      cstep blobs (st_of ch) k = Some st' ->
      protected_content paths (cs_world (st_of ch)) c -> protected_content paths (cs_world st') c.
    Proof.
      destruct Hstart as [Ha Ht]. intros H.
      apply (cinv_step_keeps_content T teqb hc teqb_spec w1 blobs
               (node_blobs_ok_at T teqb hc teqb_spec _ _ _ Ht) hc_inj _ k st' paths c (plan_cinv ch) H).
    Qed.

    Lemma plan_cleans (hc_inj : forall a b, hc a = hc b -> a = b) ch :
      call_done (st_of ch) = true ->
      let o := clean_fine ch w rp goal in
      o_verdict o = VOk /\
      (forall p, In p (plan_targets pack) -> fget (o_world o) p = None) /\
      (forall p f, In p (plan_targets pack) -> fget w p = Some f ->
         exists c g, cache_of (o_world o) = Some c /\ alookup teqb c (hc (f_content f)) = Some g /\
                     f_content g = f_content f).
    Proof.
      intros Hd. cbv zeta. rewrite plan_outcome. cbn [o_verdict o_world]. pose proof (plan_cinv ch) as C.
      split; [reflexivity|]. split.
      - intros p Hp. apply (cinv_complete_gone T teqb hc w1 blobs _ p C Hd). apply (target_plan T hc tbl pack p). exact Hp.
      - intros p f Hp Hf. apply (cinv_complete_cached T teqb hc w1 blobs hc_inj _ p f C Hd).
        + apply (target_plan T hc tbl pack p). exact Hp.
        + rewrite <- Hf. apply files_fget. apply (init_dir_ok T teqb _ _ _ Hi).
    Qed.
  End Plan.

  Lemma clean_fine_verdict_ok_gen (w : world) rp goal w1 tbl pack ch :
    init_dir T w = Ok (w1, tbl) -> get_nodes T w1 rp goal = Ok pack -> start_ok w1 tbl ->
    o_verdict (clean_fine ch w rp goal) = VOk.
  Proof. intros Hi Hg Hs. rewrite (plan_outcome w w1 rp goal tbl pack Hi Hg Hs ch). reflexivity. Qed.

  Lemma agree_gen (hc_inj : forall a b, hc a = hc b -> a = b) (w : world) rp goal ch1 ch2 :
    (forall w1 tbl, init_dir T w = Ok (w1, tbl) -> start_ok w1 tbl) ->
    clean_complete ch1 w rp goal -> clean_complete ch2 w rp goal ->
    let o1 := clean_fine ch1 w rp goal in
    let o2 := clean_fine ch2 w rp goal in
    o_verdict o1 = o_verdict o2 /\
    (forall p, fget (o_world o1) p = fget (o_world o2) p) /\
    (forall t, cache_content teqb (o_world o1) t = cache_content teqb (o_world o2) t) /\
    rd_hist (w_rd (o_world o1)) = rd_hist (w_rd (o_world o2)) /\
    rd_table (w_rd (o_world o1)) = rd_table (w_rd (o_world o2)).
  Proof.
    intros Hstart Hc1 Hc2.
    destruct (init_dir T w) as [[w1 tbl]|f] eqn:Hi.
    2:{ cbv zeta. unfold CleanFine.clean_fine. rewrite Hi. repeat split; reflexivity. }
    destruct (get_nodes T w1 rp goal) as [pack|f] eqn:Hg.
    2:{ cbv zeta. unfold CleanFine.clean_fine. rewrite Hi, Hg. repeat split; reflexivity. }
    apply (clean_complete_eq _ _ _ _ _ _ _ Hi Hg) in Hc1, Hc2.
    exact (plan_agree w w1 rp goal tbl pack Hi Hg (Hstart w1 tbl eq_refl) hc_inj ch1 ch2 Hc1 Hc2).
  Qed.

  Lemma equals_clean_gen (hc_inj : forall a b, hc a = hc b -> a = b) (w : world) rp goal ch :
    (forall w1 tbl, init_dir T w = Ok (w1, tbl) -> start_ok w1 tbl) ->
    clean_complete ch w rp goal ->
    let o1 := clean_fine ch w rp goal in
    let o2 := clean w rp goal in
    o_verdict o1 = o_verdict o2 /\
    (forall p, fget (o_world o1) p = fget (o_world o2) p) /\
    (forall t, cache_content teqb (o_world o1) t = cache_content teqb (o_world o2) t) /\
    rd_hist (w_rd (o_world o1)) = rd_hist (w_rd (o_world o2)) /\
    rd_table (w_rd (o_world o1)) = rd_table (w_rd (o_world o2)).
  Proof.
    intros Hstart Hc.
    destruct (init_dir T w) as [[w1 tbl]|f] eqn:Hi.
    2:{ cbv zeta. rewrite (clean_fine_fatal w rp goal ch); [repeat split; reflexivity|].
        intros w1 tbl pack Hi'. congruence. }
    destruct (get_nodes T w1 rp goal) as [pack|f] eqn:Hg.
    2:{ cbv zeta. rewrite (clean_fine_fatal w rp goal ch); [repeat split; reflexivity|].
        intros w1' tbl' pack Hi' Hg'. rewrite Hi in Hi'. injection Hi' as <- <-. congruence. }
    cbv zeta. rewrite <- (clean_fine_serial w rp goal w1 tbl pack Hi Hg).
    apply (agree_gen hc_inj w rp goal); [| exact Hc | apply (clean_serial_complete w rp goal w1 tbl pack Hi Hg)].
    intros w1' tbl' Hi'. apply Hstart. rewrite <- Hi. exact Hi'.
  Qed.

  (* ================================================================== *)
  (* K4, fine clock: every step is a step of Model/Inv.v or the identity  *)
  (* ================================================================== *)

  Lemma node_blobs_ok ns : forall (w : world) t,
    tbl_ok w t -> forall b, In b (node_blobs hc t ns) -> blob_ok w b.
  Proof.
    induction ns as [|n rest IH]; intros w t Ht b; cbn [node_blobs]; [intros []|].
    destruct (take_blob T hc t (n_targets n)) as [b1 t1] eqn:E1.
    destruct (InvProofs.take_blob_ok T teqb hc teqb_spec _ _ _ _ _ Ht E1) as [Hb1 Ht1].
    intros [<- | Hin]; [exact Hb1 | eapply IH; eauto].
  Qed.

  Theorem clean_fine_step_is_step : forall (blobs : list (list (bytes * fstate))) (st : cstate) k st',
    (forall b, In b blobs -> blob_ok (cs_world st) b) ->
    cstep blobs st k = Some st' ->
    cs_world st' = cs_world st \/ step (cs_world st) (cs_world st').
  Proof.
    intros blobs st k st' Hok H.
    destruct (cstep_cases T teqb hc _ _ _ _ H) as [i Ep Eb E | i q a Ep Eb Eg E | i q a t Ep Eb Eg Ebk E | i q a t w2 Ep Eb Eg Ebk E];
      subst st'; cbn [cs_world]; try (left; reflexivity).
    right. unfold blob in *. destruct (nth_error_blobs_in T _ _ _ _ _ Eb) as [H1 H2].
    eapply SBackup; [eapply Hok; eauto | exact Eg | exact Ebk].
  Qed.

  Lemma crun_steps (blobs : list (list (bytes * fstate))) (w1 : world) :
    disk_inv w1 -> (forall b, In b blobs -> blob_ok w1 b) ->
    forall ch st, steps w1 (cs_world st) -> steps w1 (cs_world (crun blobs ch st)).
  Proof.
    intros Hinv Hb. apply (crun_ind T teqb hc (fun st => steps w1 (cs_world st))).
    intros st k st' Hs H.
    destruct (clean_fine_step_is_step blobs st k st') as [-> | Hstep]; [ | exact H | exact Hs |].
    - intros b Hin p a Hpa.
      eapply (InvProofs.state_ok_stable_steps T teqb hc teqb_spec); [exact Hinv | exact Hs | eapply Hb; eauto].
    - eapply rt_trans; [exact Hs | apply rt_step; exact Hstep].
  Qed.

  Theorem clean_fine_every_state_inv : forall (w : world) rp goal w1 tbl pack ch,
    disk_inv w -> init_dir T w = Ok (w1, tbl) -> get_nodes T w1 rp goal = Ok pack ->
    let blobs := node_blobs hc tbl (p_nodes pack) in
    let st := crun blobs ch (cinit w1 (length blobs)) in
    disk_inv (cs_world st) /\ steps w (cs_world st).
  Proof.
    intros w rp goal w1 tbl pack ch Hinv Hi Hg blobs st.
    destruct (start_of_disk_inv _ _ _ Hinv Hi) as (Hinv1 & Ht & Hs & _).
    assert (steps w1 (cs_world st)) as Hs1.
    { apply crun_steps; [exact Hinv1 | apply node_blobs_ok; exact Ht | apply rt_refl]. }
    split; [eapply (InvProofs.steps_preserve_inv T teqb hc teqb_spec); eauto|].
    eapply rt_trans; eauto.
  Qed.

  (* the same for the outcome of any run, complete or not, the fatal branches included *)
  Theorem clean_fine_steps : forall (w : world) rp goal ch,
    disk_inv w -> steps w (o_world (clean_fine ch w rp goal)).
  Proof.
    intros w rp goal ch Hinv.
    destruct (init_dir T w) as [[w1 tbl]|f] eqn:Hi.
    2:{ unfold CleanFine.clean_fine. rewrite Hi. cbn [o_world]. apply rt_step. apply InvProofs.init_dir_error_step. }
    destruct (get_nodes T w1 rp goal) as [pack|f] eqn:Hg.
    2:{ unfold CleanFine.clean_fine. rewrite Hi, Hg. cbn [o_world]. apply (start_of_disk_inv _ _ _ Hinv Hi). }
    rewrite (clean_fine_eq _ _ _ _ _ _ _ Hi Hg). cbv zeta. cbn [o_world].
    apply (clean_fine_every_state_inv w rp goal w1 tbl pack ch Hinv Hi Hg).
  Qed.

  Theorem clean_fine_world_inv : forall (w : world) rp goal ch,
    disk_inv w -> disk_inv (o_world (clean_fine ch w rp goal)).
  Proof.
    intros w rp goal ch Hinv. eapply (InvProofs.steps_preserve_inv T teqb hc teqb_spec); [exact Hinv|].
    apply clean_fine_steps. exact Hinv.
  Qed.

  (* ================================================================== *)
  (* K4, any clock                                                        *)
  (* ================================================================== *)

  Theorem clean_fine_every_state_pre_inv : forall (w : world) rp goal w1 tbl pack ch,
    coarse_inv w -> init_dir T w = Ok (w1, tbl) -> get_nodes T w1 rp goal = Ok pack ->
    let blobs := node_blobs hc tbl (p_nodes pack) in
    let st := crun blobs ch (cinit w1 (length blobs)) in
    pre_inv (cs_world st).
  Proof.
    intros w rp goal w1 tbl pack ch Hinv Hi Hg blobs st. subst st blobs.
    destruct (start_of_coarse_inv _ _ _ Hinv Hi) as ([Ha1 Hf1] & Hheld & Htb & Hstart).
    pose proof (plan_cinv w w1 tbl pack Hi Hstart ch) as C.
    pose proof C as (_ & _ & Hw & _).
    split.
    - split; [apply (wi_addr _ _ _ _ _ Hw) | apply (cinv_files_le T teqb hc w1 _ _ C Hf1)].
    - intros tb Etb. rewrite (wi_table _ _ _ _ _ Hw), Htb in Etb. injection Etb as <-.
      apply (CoarseProofs.tbl_held_done T teqb hc).
      apply (CoarseProofs.tbl_held_sub T teqb hc w1 _ tbl); [| |exact Hheld].
      + rewrite (wi_clock _ _ _ _ _ Hw). apply N.le_refl.
      + intro q. destruct (wi_sub _ _ _ _ _ Hw q) as [E | E]; [right | left]; exact E.
  Qed.

  Theorem clean_fine_world_pre_inv : forall (w : world) rp goal ch,
    coarse_inv w -> pre_inv (o_world (clean_fine ch w rp goal)).
  Proof.
    intros w rp goal ch Hinv.
    destruct (init_dir T w) as [[w1 tbl]|f] eqn:Hi.
    2:{ unfold CleanFine.clean_fine. rewrite Hi. cbn [o_world].
        eapply (CoarseBuildProofs.init_dir_error_pre_inv T teqb hc); eauto. }
    destruct (get_nodes T w1 rp goal) as [pack|f] eqn:Hg.
    2:{ unfold CleanFine.clean_fine. rewrite Hi, Hg. cbn [o_world].
        destruct (start_of_coarse_inv _ _ _ Hinv Hi) as (Hfl & Hheld & Htb & _).
        split; [exact Hfl|]. intros tb Etb. rewrite Htb in Etb. injection Etb as <-.
        apply (CoarseProofs.tbl_held_done T teqb hc). exact Hheld. }
    rewrite (clean_fine_eq _ _ _ _ _ _ _ Hi Hg). cbv zeta. cbn [o_world].
    apply (clean_fine_every_state_pre_inv w rp goal w1 tbl pack ch Hinv Hi Hg).
  Qed.

  (* ================================================================== *)
  (* no run has an error                                                  *)
  (* ================================================================== *)

  Theorem clean_fine_verdict_ok : forall (w : world) rp goal w1 tbl pack ch,
    disk_inv w -> init_dir T w = Ok (w1, tbl) -> get_nodes T w1 rp goal = Ok pack ->
    o_verdict (clean_fine ch w rp goal) = VOk.
  Proof.
    intros w rp goal w1 tbl pack ch Hinv Hi Hg.
    apply (clean_fine_verdict_ok_gen w rp goal w1 tbl pack ch Hi Hg). apply (start_of_disk_inv _ _ _ Hinv Hi).
  Qed.

  Theorem clean_fine_verdict_ok_coarse : forall (w : world) rp goal w1 tbl pack ch,
    coarse_inv w -> init_dir T w = Ok (w1, tbl) -> get_nodes T w1 rp goal = Ok pack ->
    o_verdict (clean_fine ch w rp goal) = VOk.
  Proof.
    intros w rp goal w1 tbl pack ch Hinv Hi Hg.
    apply (clean_fine_verdict_ok_gen w rp goal w1 tbl pack ch Hi Hg). apply (start_of_coarse_inv _ _ _ Hinv Hi).
  Qed.

  (* ================================================================== *)
  (* K3, K5: with an injective hash of contents                           *)
  (* ================================================================== *)

  Section Injective.
    Hypothesis hc_inj : forall a b, hc a = hc b -> a = b.

    (* K3 MAIN *)
    Theorem clean_fine_schedule_independent : forall (w : world) rp goal ch1 ch2,
      disk_inv w ->
      clean_complete ch1 w rp goal -> clean_complete ch2 w rp goal ->
      let o1 := clean_fine ch1 w rp goal in
      let o2 := clean_fine ch2 w rp goal in
      o_verdict o1 = o_verdict o2 /\
      (forall p, fget (o_world o1) p = fget (o_world o2) p) /\
      (forall t, cache_content teqb (o_world o1) t = cache_content teqb (o_world o2) t) /\
      rd_hist (w_rd (o_world o1)) = rd_hist (w_rd (o_world o2)) /\
      rd_table (w_rd (o_world o1)) = rd_table (w_rd (o_world o2)).
    Proof.
      intros w rp goal ch1 ch2 Hinv. apply (agree_gen hc_inj w rp goal ch1 ch2).
      intros w1 tbl Hi. apply (start_of_disk_inv _ _ _ Hinv Hi).
    Qed.

    Theorem clean_fine_schedule_independent_coarse : forall (w : world) rp goal ch1 ch2,
      coarse_inv w ->
      clean_complete ch1 w rp goal -> clean_complete ch2 w rp goal ->
      let o1 := clean_fine ch1 w rp goal in
      let o2 := clean_fine ch2 w rp goal in
      o_verdict o1 = o_verdict o2 /\
      (forall p, fget (o_world o1) p = fget (o_world o2) p) /\
      (forall t, cache_content teqb (o_world o1) t = cache_content teqb (o_world o2) t) /\
      rd_hist (w_rd (o_world o1)) = rd_hist (w_rd (o_world o2)) /\
      rd_table (w_rd (o_world o1)) = rd_table (w_rd (o_world o2)).
    Proof.
      intros w rp goal ch1 ch2 Hinv. apply (agree_gen hc_inj w rp goal ch1 ch2).
      intros w1 tbl Hi. apply (start_of_coarse_inv _ _ _ Hinv Hi).
    Qed.

    (* every complete run is, in these respects, Build.clean *)
    Theorem clean_fine_equals_clean : forall (w : world) rp goal ch,
      disk_inv w -> clean_complete ch w rp goal ->
      let o1 := clean_fine ch w rp goal in
      let o2 := clean w rp goal in
      o_verdict o1 = o_verdict o2 /\
      (forall p, fget (o_world o1) p = fget (o_world o2) p) /\
      (forall t, cache_content teqb (o_world o1) t = cache_content teqb (o_world o2) t) /\
      rd_hist (w_rd (o_world o1)) = rd_hist (w_rd (o_world o2)) /\
      rd_table (w_rd (o_world o1)) = rd_table (w_rd (o_world o2)).
    Proof.
      intros w rp goal ch Hinv. apply (equals_clean_gen hc_inj w rp goal ch).
      intros w1 tbl Hi. apply (start_of_disk_inv _ _ _ Hinv Hi).
    Qed.

    Theorem clean_fine_equals_clean_coarse : forall (w : world) rp goal ch,
      coarse_inv w -> clean_complete ch w rp goal ->
      let o1 := clean_fine ch w rp goal in
      let o2 := clean w rp goal in
      o_verdict o1 = o_verdict o2 /\
      (forall p, fget (o_world o1) p = fget (o_world o2) p) /\
      (forall t, cache_content teqb (o_world o1) t = cache_content teqb (o_world o2) t) /\
      rd_hist (w_rd (o_world o1)) = rd_hist (w_rd (o_world o2)) /\
      rd_table (w_rd (o_world o1)) = rd_table (w_rd (o_world o2)).
    Proof.
      intros w rp goal ch Hinv. apply (equals_clean_gen hc_inj w rp goal ch).
      intros w1 tbl Hi. apply (start_of_coarse_inv _ _ _ Hinv Hi).
    Qed.

    (* K5, C08: no step of any run loses a protected content, whatever the set of protected paths *)
    Theorem clean_fine_keeps_content : forall (w : world) rp goal w1 tbl pack ch k st',
      disk_inv w -> init_dir T w = Ok (w1, tbl) -> get_nodes T w1 rp goal = Ok pack ->
      let blobs := node_blobs hc tbl (p_nodes pack) in
      let st := crun blobs ch (cinit w1 (length blobs)) in
      cstep blobs st k = Some st' ->
      forall paths c, protected_content paths (cs_world st) c -> protected_content paths (cs_world st') c.
    Proof.
      intros w rp goal w1 tbl pack ch k st' Hinv Hi Hg blobs st H paths c.
      apply (plan_keeps_content w w1 tbl pack Hi (proj2 (proj2 (proj2 (start_of_disk_inv _ _ _ Hinv Hi))))
               hc_inj ch k st' paths c H).
    Qed.

    Theorem clean_fine_keeps_content_coarse : forall (w : world) rp goal w1 tbl pack ch k st',
      coarse_inv w -> init_dir T w = Ok (w1, tbl) -> get_nodes T w1 rp goal = Ok pack ->
      let blobs := node_blobs hc tbl (p_nodes pack) in
      let st := crun blobs ch (cinit w1 (length blobs)) in
      cstep blobs st k = Some st' ->
      forall paths c, protected_content paths (cs_world st) c -> protected_content paths (cs_world st') c.
    Proof.
      intros w rp goal w1 tbl pack ch k st' Hinv Hi Hg blobs st H paths c.
      apply (plan_keeps_content w w1 tbl pack Hi (proj2 (proj2 (proj2 (start_of_coarse_inv _ _ _ Hinv Hi))))
               hc_inj ch k st' paths c H).
    Qed.

    (* along a whole run *)
    Theorem clean_fine_run_keeps_content : forall (w : world) rp goal w1 tbl pack ch paths c,
      disk_inv w -> init_dir T w = Ok (w1, tbl) -> get_nodes T w1 rp goal = Ok pack ->
      protected_content paths w1 c -> protected_content paths (o_world (clean_fine ch w rp goal)) c.
    Proof.
      intros w rp goal w1 tbl pack ch paths c Hinv Hi Hg Hp.
      rewrite (clean_fine_eq _ _ _ _ _ _ _ Hi Hg). cbv zeta. cbn [o_world].
      induction ch as [|k ch IH] using rev_ind; [exact Hp|].
      rewrite (crun_app T teqb hc). rewrite (crun_cons T teqb hc), (crun_nil T teqb hc). unfold cstep'.
      destruct (cstep (node_blobs hc tbl (p_nodes pack))
                  (crun (node_blobs hc tbl (p_nodes pack)) ch (cinit w1 (length (node_blobs hc tbl (p_nodes pack))))) k)
        as [st'|] eqn:E; [|exact IH].
      exact (clean_fine_keeps_content w rp goal w1 tbl pack ch k st' Hinv Hi Hg E paths c IH).
    Qed.

    (* K5, C10: what a complete run leaves *)
    Theorem clean_fine_complete_run_cleans : forall (w : world) rp goal w1 tbl pack ch,
      disk_inv w -> init_dir T w = Ok (w1, tbl) -> get_nodes T w1 rp goal = Ok pack ->
      clean_complete ch w rp goal ->
      let o := clean_fine ch w rp goal in
      o_verdict o = VOk /\
      (forall p, In p (plan_targets pack) -> fget (o_world o) p = None) /\
      (forall p f, In p (plan_targets pack) -> fget w p = Some f ->
         exists c g, cache_of (o_world o) = Some c /\ alookup teqb c (hc (f_content f)) = Some g /\
                     f_content g = f_content f).
    Proof.
      intros w rp goal w1 tbl pack ch Hinv Hi Hg Hc. apply (clean_complete_eq _ _ _ _ _ _ _ Hi Hg) in Hc.
      exact (plan_cleans w w1 rp goal tbl pack Hi Hg (proj2 (proj2 (proj2 (start_of_disk_inv _ _ _ Hinv Hi)))) hc_inj ch Hc).
    Qed.

    Theorem clean_fine_complete_run_cleans_coarse : forall (w : world) rp goal w1 tbl pack ch,
      coarse_inv w -> init_dir T w = Ok (w1, tbl) -> get_nodes T w1 rp goal = Ok pack ->
      clean_complete ch w rp goal ->
      let o := clean_fine ch w rp goal in
      o_verdict o = VOk /\
      (forall p, In p (plan_targets pack) -> fget (o_world o) p = None) /\
      (forall p f, In p (plan_targets pack) -> fget w p = Some f ->
         exists c g, cache_of (o_world o) = Some c /\ alookup teqb c (hc (f_content f)) = Some g /\
                     f_content g = f_content f).
    Proof.
      intros w rp goal w1 tbl pack ch Hinv Hi Hg Hc. apply (clean_complete_eq _ _ _ _ _ _ _ Hi Hg) in Hc.
      exact (plan_cleans w w1 rp goal tbl pack Hi Hg (proj2 (proj2 (proj2 (start_of_coarse_inv _ _ _ Hinv Hi)))) hc_inj ch Hc).
    Qed.
  End Injective.
End Theorems.

(* ================================================================== *)
(* K6: the free symbolic hashes                                         *)
(* ================================================================== *)

Notation clean_fine_sym := (clean_fine sym_eqb SContent).
Notation clean_sym := (clean sym_eqb SContent).
Notation clean_complete_sym := (clean_complete sym_eqb SContent).
Notation cstep_sym := (cstep sym_eqb SContent).
Notation crun_sym := (crun sym_eqb SContent).

Theorem clean_fine_serial_sym : forall (w : world sym) rp goal w1 tbl pack,
  init_dir sym w = Ok (w1, tbl) -> get_nodes sym w1 rp goal = Ok pack ->
  clean_fine_sym (cserial (node_blobs SContent tbl (p_nodes pack))) w rp goal = clean_sym w rp goal.
Proof. exact (clean_fine_serial sym sym_eqb SContent). Qed.

Theorem clean_fine_fatal_sym : forall (w : world sym) rp goal ch,
  (forall w1 tbl pack, init_dir sym w = Ok (w1, tbl) -> get_nodes sym w1 rp goal <> Ok pack) ->
  clean_fine_sym ch w rp goal = clean_sym w rp goal.
Proof. exact (clean_fine_fatal sym sym_eqb SContent). Qed.

Theorem clean_serial_complete_sym : forall (w : world sym) rp goal w1 tbl pack,
  init_dir sym w = Ok (w1, tbl) -> get_nodes sym w1 rp goal = Ok pack ->
  clean_complete_sym (cserial (node_blobs SContent tbl (p_nodes pack))) w rp goal.
Proof. exact (clean_serial_complete sym sym_eqb SContent). Qed.

Theorem clean_fine_step_decreases_sym : forall blobs (st : cstate sym) k st',
  cstep_sym blobs st k = Some st' -> cmeasure sym blobs st' < cmeasure sym blobs st.
Proof. exact (clean_fine_step_decreases sym sym_eqb SContent). Qed.

Theorem clean_fine_no_deadlock_sym : forall blobs ch (w1 : world sym),
  let st := crun_sym blobs ch (cinit sym w1 (length blobs)) in
  call_done st = false -> exists k, cstep_sym blobs st k <> None.
Proof. exact (clean_fine_no_deadlock sym sym_eqb SContent). Qed.

Theorem clean_fine_completable_sym : forall blobs ch (w1 : world sym),
  exists ch', call_done (crun_sym blobs (ch ++ ch') (cinit sym w1 (length blobs))) = true.
Proof. exact (clean_fine_completable sym sym_eqb SContent). Qed.

Theorem clean_fine_completable_run_sym : forall (w : world sym) rp goal ch,
  exists ch', clean_complete_sym (ch ++ ch') w rp goal.
Proof. exact (clean_fine_completable_run sym sym_eqb SContent). Qed.

Theorem clean_fine_schedule_independent_sym : forall (w : world sym) rp goal ch1 ch2,
  disk_inv sym_eqb SContent w ->
  clean_complete_sym ch1 w rp goal -> clean_complete_sym ch2 w rp goal ->
  let o1 := clean_fine_sym ch1 w rp goal in
  let o2 := clean_fine_sym ch2 w rp goal in
  o_verdict o1 = o_verdict o2 /\
  (forall p, fget (o_world o1) p = fget (o_world o2) p) /\
  (forall t, cache_content sym_eqb (o_world o1) t = cache_content sym_eqb (o_world o2) t) /\
  rd_hist (w_rd (o_world o1)) = rd_hist (w_rd (o_world o2)) /\
  rd_table (w_rd (o_world o1)) = rd_table (w_rd (o_world o2)).
Proof. exact (clean_fine_schedule_independent sym sym_eqb SContent sym_eqb_spec SContent_inj). Qed.

Theorem clean_fine_schedule_independent_coarse_sym : forall (w : world sym) rp goal ch1 ch2,
  coarse_inv sym_eqb SContent w ->
  clean_complete_sym ch1 w rp goal -> clean_complete_sym ch2 w rp goal ->
  let o1 := clean_fine_sym ch1 w rp goal in
  let o2 := clean_fine_sym ch2 w rp goal in
  o_verdict o1 = o_verdict o2 /\
  (forall p, fget (o_world o1) p = fget (o_world o2) p) /\
  (forall t, cache_content sym_eqb (o_world o1) t = cache_content sym_eqb (o_world o2) t) /\
  rd_hist (w_rd (o_world o1)) = rd_hist (w_rd (o_world o2)) /\
  rd_table (w_rd (o_world o1)) = rd_table (w_rd (o_world o2)).
Proof. exact (clean_fine_schedule_independent_coarse sym sym_eqb SContent sym_eqb_spec SContent_inj). Qed.

Theorem clean_fine_equals_clean_sym : forall (w : world sym) rp goal ch,
  disk_inv sym_eqb SContent w -> clean_complete_sym ch w rp goal ->
  let o1 := clean_fine_sym ch w rp goal in
  let o2 := clean_sym w rp goal in
  o_verdict o1 = o_verdict o2 /\
  (forall p, fget (o_world o1) p = fget (o_world o2) p) /\
  (forall t, cache_content sym_eqb (o_world o1) t = cache_content sym_eqb (o_world o2) t) /\
  rd_hist (w_rd (o_world o1)) = rd_hist (w_rd (o_world o2)) /\
  rd_table (w_rd (o_world o1)) = rd_table (w_rd (o_world o2)).
Proof. exact (clean_fine_equals_clean sym sym_eqb SContent sym_eqb_spec SContent_inj). Qed.

Theorem clean_fine_equals_clean_coarse_sym : forall (w : world sym) rp goal ch,
  coarse_inv sym_eqb SContent w -> clean_complete_sym ch w rp goal ->
  let o1 := clean_fine_sym ch w rp goal in
  let o2 := clean_sym w rp goal in
  o_verdict o1 = o_verdict o2 /\
  (forall p, fget (o_world o1) p = fget (o_world o2) p) /\
  (forall t, cache_content sym_eqb (o_world o1) t = cache_content sym_eqb (o_world o2) t) /\
  rd_hist (w_rd (o_world o1)) = rd_hist (w_rd (o_world o2)) /\
  rd_table (w_rd (o_world o1)) = rd_table (w_rd (o_world o2)).
Proof. exact (clean_fine_equals_clean_coarse sym sym_eqb SContent sym_eqb_spec SContent_inj). Qed.

Theorem clean_fine_verdict_ok_sym : forall (w : world sym) rp goal w1 tbl pack ch,
  disk_inv sym_eqb SContent w -> init_dir sym w = Ok (w1, tbl) -> get_nodes sym w1 rp goal = Ok pack ->
  o_verdict (clean_fine_sym ch w rp goal) = VOk.
Proof. exact (clean_fine_verdict_ok sym sym_eqb SContent sym_eqb_spec). Qed.

Theorem clean_fine_verdict_ok_coarse_sym : forall (w : world sym) rp goal w1 tbl pack ch,
  coarse_inv sym_eqb SContent w -> init_dir sym w = Ok (w1, tbl) -> get_nodes sym w1 rp goal = Ok pack ->
  o_verdict (clean_fine_sym ch w rp goal) = VOk.
Proof. exact (clean_fine_verdict_ok_coarse sym sym_eqb SContent sym_eqb_spec). Qed.

Theorem clean_fine_step_is_step_sym : forall (blobs : list (list (bytes * fstate sym))) (st : cstate sym) k st',
  (forall b, In b blobs -> InvProofs.blob_ok sym sym_eqb SContent (cs_world st) b) ->
  cstep_sym blobs st k = Some st' ->
  cs_world st' = cs_world st \/ step sym_eqb SContent (cs_world st) (cs_world st').
Proof. exact (clean_fine_step_is_step sym sym_eqb SContent). Qed.

Theorem clean_fine_every_state_inv_sym : forall (w : world sym) rp goal w1 tbl pack ch,
  disk_inv sym_eqb SContent w -> init_dir sym w = Ok (w1, tbl) -> get_nodes sym w1 rp goal = Ok pack ->
  let blobs := node_blobs SContent tbl (p_nodes pack) in
  let st := crun_sym blobs ch (cinit sym w1 (length blobs)) in
  disk_inv sym_eqb SContent (cs_world st) /\
  clos_refl_trans (world sym) (step sym_eqb SContent) w (cs_world st).
Proof. exact (clean_fine_every_state_inv sym sym_eqb SContent sym_eqb_spec). Qed.

Theorem clean_fine_world_inv_sym : forall (w : world sym) rp goal ch,
  disk_inv sym_eqb SContent w -> disk_inv sym_eqb SContent (o_world (clean_fine_sym ch w rp goal)).
Proof. exact (clean_fine_world_inv sym sym_eqb SContent sym_eqb_spec). Qed.

Theorem clean_fine_every_state_pre_inv_sym : forall (w : world sym) rp goal w1 tbl pack ch,
  coarse_inv sym_eqb SContent w -> init_dir sym w = Ok (w1, tbl) -> get_nodes sym w1 rp goal = Ok pack ->
  let blobs := node_blobs SContent tbl (p_nodes pack) in
  let st := crun_sym blobs ch (cinit sym w1 (length blobs)) in
  pre_inv sym_eqb SContent (cs_world st).
Proof. exact (clean_fine_every_state_pre_inv sym sym_eqb SContent sym_eqb_spec). Qed.

Theorem clean_fine_world_pre_inv_sym : forall (w : world sym) rp goal ch,
  coarse_inv sym_eqb SContent w -> pre_inv sym_eqb SContent (o_world (clean_fine_sym ch w rp goal)).
Proof. exact (clean_fine_world_pre_inv sym sym_eqb SContent sym_eqb_spec). Qed.

Theorem clean_fine_keeps_content_sym : forall (w : world sym) rp goal w1 tbl pack ch k st',
  disk_inv sym_eqb SContent w -> init_dir sym w = Ok (w1, tbl) -> get_nodes sym w1 rp goal = Ok pack ->
  let blobs := node_blobs SContent tbl (p_nodes pack) in
  let st := crun_sym blobs ch (cinit sym w1 (length blobs)) in
  cstep_sym blobs st k = Some st' ->
  forall paths c, protected_content sym_eqb paths (cs_world st) c -> protected_content sym_eqb paths (cs_world st') c.
Proof. exact (clean_fine_keeps_content sym sym_eqb SContent sym_eqb_spec SContent_inj). Qed.

Theorem clean_fine_keeps_content_coarse_sym : forall (w : world sym) rp goal w1 tbl pack ch k st',
  coarse_inv sym_eqb SContent w -> init_dir sym w = Ok (w1, tbl) -> get_nodes sym w1 rp goal = Ok pack ->
  let blobs := node_blobs SContent tbl (p_nodes pack) in
  let st := crun_sym blobs ch (cinit sym w1 (length blobs)) in
  cstep_sym blobs st k = Some st' ->
  forall paths c, protected_content sym_eqb paths (cs_world st) c -> protected_content sym_eqb paths (cs_world st') c.
Proof. exact (clean_fine_keeps_content_coarse sym sym_eqb SContent sym_eqb_spec SContent_inj). Qed.

Theorem clean_fine_run_keeps_content_sym : forall (w : world sym) rp goal w1 tbl pack ch paths c,
  disk_inv sym_eqb SContent w -> init_dir sym w = Ok (w1, tbl) -> get_nodes sym w1 rp goal = Ok pack ->
  protected_content sym_eqb paths w1 c -> protected_content sym_eqb paths (o_world (clean_fine_sym ch w rp goal)) c.
Proof. exact (clean_fine_run_keeps_content sym sym_eqb SContent sym_eqb_spec SContent_inj). Qed.

Theorem clean_fine_complete_run_cleans_sym : forall (w : world sym) rp goal w1 tbl pack ch,
  disk_inv sym_eqb SContent w -> init_dir sym w = Ok (w1, tbl) -> get_nodes sym w1 rp goal = Ok pack ->
  clean_complete_sym ch w rp goal ->
  let o := clean_fine_sym ch w rp goal in
  o_verdict o = VOk /\
  (forall p, In p (plan_targets pack) -> fget (o_world o) p = None) /\
  (forall p f, In p (plan_targets pack) -> fget w p = Some f ->
     exists c g, cache_of (o_world o) = Some c /\ alookup sym_eqb c (SContent (f_content f)) = Some g /\
                 f_content g = f_content f).
Proof. exact (clean_fine_complete_run_cleans sym sym_eqb SContent sym_eqb_spec SContent_inj). Qed.

Theorem clean_fine_complete_run_cleans_coarse_sym : forall (w : world sym) rp goal w1 tbl pack ch,
  coarse_inv sym_eqb SContent w -> init_dir sym w = Ok (w1, tbl) -> get_nodes sym w1 rp goal = Ok pack ->
  clean_complete_sym ch w rp goal ->
  let o := clean_fine_sym ch w rp goal in
  o_verdict o = VOk /\
  (forall p, In p (plan_targets pack) -> fget (o_world o) p = None) /\
  (forall p f, In p (plan_targets pack) -> fget w p = Some f ->
     exists c g, cache_of (o_world o) = Some c /\ alookup sym_eqb c (SContent (f_content f)) = Some g /\
                 f_content g = f_content f).
Proof. exact (clean_fine_complete_run_cleans_coarse sym sym_eqb SContent sym_eqb_spec SContent_inj). Qed.

Theorem clean_fine_frame_sym : forall (w : world sym) rp goal w1 tbl pack ch p,
  init_dir sym w = Ok (w1, tbl) -> get_nodes sym w1 rp goal = Ok pack ->
  ~ In p (plan_targets pack) ->
  fget (o_world (clean_fine_sym ch w rp goal)) p = fget w p.
Proof. exact (clean_fine_frame sym sym_eqb SContent). Qed.

Theorem clean_fine_frame_fatal_sym : forall (w : world sym) rp goal ch,
  (forall w1 tbl pack, init_dir sym w = Ok (w1, tbl) -> get_nodes sym w1 rp goal <> Ok pack) ->
  w_files (o_world (clean_fine_sym ch w rp goal)) = w_files w.
Proof. exact (clean_fine_frame_fatal sym sym_eqb SContent). Qed.

(* ================================================================== *)
(* K7: three rules, two of them with byte-identical targets             *)
(* ================================================================== *)

(* the file stored in the cache under the name t *)
Definition cache_entry (w : world sym) (t : sym) : option file :=
  match cache_of w with Some c => alookup sym_eqb c t | None => None end.

(* rules: a <- s, b <- s, c <- s; b and c get the same bytes ("x" followed by s), a different ones.
   After the build the three targets carry three different modification times (fine clock).
   Threads of clean: 0 = a, 1 = b, 2 = c; each has one target, hence two steps (the target, the end). *)
Definition kx_rules : bytes := join_with [NL] (map bs
  ["a";":";"s";":";"gen a @s";":";
   "b";":";"s";":";"gen b =x @s";":";
   "c";":";"s";":";"gen c =x @s";":";""]%string).

Definition kx_ops : list (op sym) := [OWrite (bs "s") (bs "1"); OWrite RULES_PATH kx_rules; OBuild None].
Definition kx_w : world sym := run_sym kx_ops (init_world Fine 1).
Definition kx_w1 : world sym := match init_dir sym kx_w with Ok (w1, _) => w1 | Err _ => kx_w end.
Definition kx_tbl : table sym := match init_dir sym kx_w with Ok (_, t) => t | Err _ => [] end.
Definition kx_pack : node_pack :=
  match get_nodes sym kx_w1 RULES_PATH None with Ok p => p | Err _ => mk_pack [] [] end.
Definition kx_blobs : list (blob sym) := node_blobs SContent kx_tbl (p_nodes kx_pack).

Lemma kx_inv : disk_inv sym_eqb SContent kx_w.
Proof. apply (reach_inv_sym 1 kx_ops). repeat constructor. Qed.

Lemma kx_init : init_dir sym kx_w = Ok (kx_w1, kx_tbl).
Proof. vm_compute. reflexivity. Qed.

Lemma kx_nodes : get_nodes sym kx_w1 RULES_PATH None = Ok kx_pack.
Proof. vm_compute. reflexivity. Qed.

Example kx_plan : map n_targets (p_nodes kx_pack) = [[bs "a"]; [bs "b"]; [bs "c"]].
Proof. vm_compute. reflexivity. Qed.

(* b before c (this is the serial run), and c before b with the three threads interleaved *)
Definition kx_bc : list nat := [0; 0; 1; 1; 2; 2].
Definition kx_cb : list nat := [2; 1; 0; 2; 1; 0].

Example kx_serial_choices : cserial kx_blobs = kx_bc.
Proof. vm_compute. reflexivity. Qed.

Example kx_complete : clean_complete_sym kx_bc kx_w RULES_PATH None /\ clean_complete_sym kx_cb kx_w RULES_PATH None.
Proof. split; vm_compute; reflexivity. Qed.

(* a run that stops early is not complete *)
Example kx_incomplete : ~ clean_complete_sym [2; 1; 0; 2] kx_w RULES_PATH None.
Proof. vm_compute. discriminate. Qed.

(* K2 on the example: the measure of the initial state is the length of every run without skipped choices *)
Example kx_measure : cmeasure sym kx_blobs (cinit sym kx_w1 (length kx_blobs)) = 6.
Proof. vm_compute. reflexivity. Qed.

(* the files before the clean *)
Example kx_before :
  fget kx_w (bs "a") = Some (mk_file (bs "1") 2004 false) /\
  fget kx_w (bs "b") = Some (mk_file (bs "x1") 2005 false) /\
  fget kx_w (bs "c") = Some (mk_file (bs "x1") 2006 false) /\
  cache_of kx_w = Some [].
Proof. vm_compute. repeat split; reflexivity. Qed.

(* the final world of the non-serial run, as computed *)
Example kx_final_world :
  let o := clean_fine_sym kx_cb kx_w RULES_PATH None in
  o_verdict o = VOk /\
  fget (o_world o) (bs "a") = None /\ fget (o_world o) (bs "b") = None /\ fget (o_world o) (bs "c") = None /\
  fget (o_world o) (bs "s") = fget kx_w (bs "s") /\ fget (o_world o) RULES_PATH = fget kx_w RULES_PATH /\
  cache_of (o_world o) = Some [(SContent (bs "x1"), mk_file (bs "x1") 2005 false);
                               (SContent (bs "1"), mk_file (bs "1") 2004 false)] /\
  rd_hist (w_rd (o_world o)) = rd_hist (w_rd kx_w) /\ rd_table (w_rd (o_world o)) = rd_table (w_rd kx_w).
Proof. vm_compute. repeat split; reflexivity. Qed.

(* K3 on the example: its hypotheses hold, so its conclusion does *)
Example kx_schedule_independent :
  let o1 := clean_fine_sym kx_bc kx_w RULES_PATH None in
  let o2 := clean_fine_sym kx_cb kx_w RULES_PATH None in
  o_verdict o1 = o_verdict o2 /\
  (forall p, fget (o_world o1) p = fget (o_world o2) p) /\
  (forall t, cache_content sym_eqb (o_world o1) t = cache_content sym_eqb (o_world o2) t) /\
  rd_hist (w_rd (o_world o1)) = rd_hist (w_rd (o_world o2)) /\
  rd_table (w_rd (o_world o1)) = rd_table (w_rd (o_world o2)).
Proof.
  destruct kx_complete as [C1 C2].
  exact (clean_fine_schedule_independent_sym kx_w RULES_PATH None kx_bc kx_cb kx_inv C1 C2).
Qed.

(* ... and it cannot be strengthened to the cache FILES: the two runs leave, under the one name of the bytes "x1",
   the file that was c (b's entry replaced by c's) resp. the file that was b; the bytes are the same, the
   modification times are not *)
Example clean_fine_entry_attributes_depend_on_order :
  let o1 := clean_fine_sym kx_bc kx_w RULES_PATH None in
  let o2 := clean_fine_sym kx_cb kx_w RULES_PATH None in
  clean_complete_sym kx_bc kx_w RULES_PATH None /\ clean_complete_sym kx_cb kx_w RULES_PATH None /\
  cache_entry (o_world o1) (SContent (bs "x1")) = Some (mk_file (bs "x1") 2006 false) /\
  cache_entry (o_world o2) (SContent (bs "x1")) = Some (mk_file (bs "x1") 2005 false) /\
  cache_content sym_eqb (o_world o1) (SContent (bs "x1")) = Some (bs "x1") /\
  cache_content sym_eqb (o_world o2) (SContent (bs "x1")) = Some (bs "x1") /\
  rd_cache (w_rd (o_world o1)) <> rd_cache (w_rd (o_world o2)).
Proof.
  cbv zeta. split; [exact (proj1 kx_complete)|]. split; [exact (proj2 kx_complete)|].
  vm_compute. repeat split; try reflexivity. discriminate.
Qed.

(* K1, K3 (with Build.clean), K5 and K4 on the example *)
Example kx_serial : clean_fine_sym (cserial kx_blobs) kx_w RULES_PATH None = clean_sym kx_w RULES_PATH None.
Proof. exact (clean_fine_serial_sym kx_w RULES_PATH None kx_w1 kx_tbl kx_pack kx_init kx_nodes). Qed.

Example kx_equals_clean :
  let o1 := clean_fine_sym kx_cb kx_w RULES_PATH None in
  let o2 := clean_sym kx_w RULES_PATH None in
  o_verdict o1 = o_verdict o2 /\
  (forall p, fget (o_world o1) p = fget (o_world o2) p) /\
  (forall t, cache_content sym_eqb (o_world o1) t = cache_content sym_eqb (o_world o2) t) /\
  rd_hist (w_rd (o_world o1)) = rd_hist (w_rd (o_world o2)) /\
  rd_table (w_rd (o_world o1)) = rd_table (w_rd (o_world o2)).
Proof. exact (clean_fine_equals_clean_sym kx_w RULES_PATH None kx_cb kx_inv (proj2 kx_complete)). Qed.

Example kx_cleans :
  let o := clean_fine_sym kx_cb kx_w RULES_PATH None in
  o_verdict o = VOk /\
  (forall p, In p (plan_targets kx_pack) -> fget (o_world o) p = None) /\
  (forall p f, In p (plan_targets kx_pack) -> fget kx_w p = Some f ->
     exists c g, cache_of (o_world o) = Some c /\ alookup sym_eqb c (SContent (f_content f)) = Some g /\
                 f_content g = f_content f).
Proof.
  exact (clean_fine_complete_run_cleans_sym kx_w RULES_PATH None kx_w1 kx_tbl kx_pack kx_cb kx_inv kx_init kx_nodes
           (proj2 kx_complete)).
Qed.

Example kx_every_state_inv : forall ch, disk_inv sym_eqb SContent (o_world (clean_fine_sym ch kx_w RULES_PATH None)).
Proof. intro ch. apply clean_fine_world_inv_sym. exact kx_inv. Qed.

(* ---------- the same plan under the coarse clock: b and c share their modification time; c is made executable ---------- *)

Definition kc_ops : list (op sym) := kx_ops ++ [OChmod (bs "c") true].
Definition kc_w : world sym := run_sym kc_ops (init_world Coarse 1).

Lemma kc_confined : confined_history_sym (init_world Coarse 1) kc_ops.
Proof.
  unfold kc_ops, kx_ops. cbn [app CoarseBuildProofs.confined_history CoarseBuildProofs.op_confined].
  repeat (split; [exact I|]).
  split; [apply build_confinedb_sound; vm_compute; reflexivity|].
  repeat (split; [exact I|]). exact I.
Qed.

Lemma kc_inv : coarse_inv sym_eqb SContent kc_w.
Proof. apply (coarse_inv_every_history_sym Coarse 1 kc_ops). exact kc_confined. Qed.

(* a, b and c were written by one build: one modification time, although a's bytes differ (no mt_unique, no disk_inv) *)
Example kc_before :
  fget kc_w (bs "a") = Some (mk_file (bs "1") 2001 false) /\
  fget kc_w (bs "b") = Some (mk_file (bs "x1") 2001 false) /\
  fget kc_w (bs "c") = Some (mk_file (bs "x1") 2001 true) /\
  w_mode kc_w = Coarse.
Proof. vm_compute. repeat split; reflexivity. Qed.

Example kc_not_disk_inv : ~ disk_inv sym_eqb SContent kc_w.
Proof. intros (Hm & _). vm_compute in Hm. discriminate. Qed.

Example kc_complete : clean_complete_sym kx_bc kc_w RULES_PATH None /\ clean_complete_sym kx_cb kc_w RULES_PATH None.
Proof. split; vm_compute; reflexivity. Qed.

Example kc_schedule_independent :
  let o1 := clean_fine_sym kx_bc kc_w RULES_PATH None in
  let o2 := clean_fine_sym kx_cb kc_w RULES_PATH None in
  o_verdict o1 = o_verdict o2 /\
  (forall p, fget (o_world o1) p = fget (o_world o2) p) /\
  (forall t, cache_content sym_eqb (o_world o1) t = cache_content sym_eqb (o_world o2) t) /\
  rd_hist (w_rd (o_world o1)) = rd_hist (w_rd (o_world o2)) /\
  rd_table (w_rd (o_world o1)) = rd_table (w_rd (o_world o2)).
Proof.
  destruct kc_complete as [C1 C2].
  exact (clean_fine_schedule_independent_coarse_sym kc_w RULES_PATH None kx_bc kx_cb kc_inv C1 C2).
Qed.

(* here it is the permission bit of the entry that depends on the order *)
Example kc_entry_attributes_depend_on_order :
  cache_entry (o_world (clean_fine_sym kx_bc kc_w RULES_PATH None)) (SContent (bs "x1")) = Some (mk_file (bs "x1") 2001 true) /\
  cache_entry (o_world (clean_fine_sym kx_cb kc_w RULES_PATH None)) (SContent (bs "x1")) = Some (mk_file (bs "x1") 2001 false).
Proof. vm_compute. split; reflexivity. Qed.

Example kc_every_state_pre_inv : forall ch, pre_inv sym_eqb SContent (o_world (clean_fine_sym ch kc_w RULES_PATH None)).
Proof. intro ch. apply clean_fine_world_pre_inv_sym. exact kc_inv. Qed.

(* ---------- K3 needs an injective hash of contents ---------- *)

(* one hash for everything: both targets go under the one name, the content that stays is that of the LAST one moved.
   The world is reached by user operations only, so disk_inv holds (it does not need injectivity). *)
Definition u_eqb (a b : unit) : bool := true.
Definition u_hc (c : bytes) : unit := tt.

Lemma u_eqb_spec : forall a b : unit, u_eqb a b = true <-> a = b.
Proof. intros [] []. split; reflexivity. Qed.

Definition ku_rules : bytes := join_with [NL] (map bs
  ["a";":";"s";":";"gen a @s";":";
   "b";":";"s";":";"gen b =x @s";":";""]%string).

Definition ku_ops : list (op unit) :=
  [OWrite (bs "s") (bs "1"); OWrite RULES_PATH ku_rules; OWrite (bs "a") (bs "1"); OWrite (bs "b") (bs "x1")].

Definition ku_w : world unit :=
  fold_left (fun w o => fst (apply_op u_eqb u_hc (fun _ => tt) (fun _ => tt) w o)) ku_ops (init_world Fine 1).

Theorem clean_fine_schedule_independent_needs_injective_hash :
  disk_inv u_eqb u_hc ku_w /\
  clean_complete u_eqb u_hc [0; 0; 1; 1] ku_w RULES_PATH None /\
  clean_complete u_eqb u_hc [1; 1; 0; 0] ku_w RULES_PATH None /\
  cache_content u_eqb (o_world (clean_fine u_eqb u_hc [0; 0; 1; 1] ku_w RULES_PATH None)) tt = Some (bs "x1") /\
  cache_content u_eqb (o_world (clean_fine u_eqb u_hc [1; 1; 0; 0] ku_w RULES_PATH None)) tt = Some (bs "1").
Proof.
  split.
  - apply (InvProofs.reach_inv unit u_eqb u_hc u_eqb_spec (fun _ => tt) (fun _ => tt) 1 ku_ops). repeat constructor.
  - vm_compute. repeat split; reflexivity.
Qed.
