(* C01, part 3 (G2 second half, G3): the invariant carried through the serial schedule of build. *)
From Coq Require Import Relations.Relation_Operators Relations.Operators_Properties.
From Ruler Require Import Tactics Bytes AList RuleSyntax TopoSort World Cmdlang Work Build Ops Inv
     BuildSpec Ideal BytesFacts InvFacts C01Script C01Hist.
From Ruler Require BuildFacts.
Local Open Scope N_scope.

(* ================================================================== *)
(* what the theorem needs of a plan (all of it follows from plan_ok)    *)
(* ================================================================== *)

Definition bind_ok (pack : node_pack) (j : nat) (s : bytes) (b : source_index) : Prop :=
  match b with
  | Leaf i => nth_error (p_leaves pack) i = Some s
  | Pair i sub =>
      (i < j)%nat /\ exists n, nth_error (p_nodes pack) i = Some n /\ nth_error (n_targets n) sub = Some s
  end.

Definition plan_wf (pack : node_pack) : Prop :=
  (* no path is a target twice, within a node or across nodes *)
  NoDup (plan_targets pack) /\
  (* no leaf is a target *)
  (forall l, In l (p_leaves pack) -> ~ In l (plan_targets pack)) /\
  (* every source of node j is bound to that leaf, or to that target of an earlier node *)
  (forall j n, nth_error (p_nodes pack) j = Some n ->
               Forall2 (bind_ok pack j) (r_sources (n_rule n)) (n_source_indices n)).

Lemma NoDup_app_disjoint {A} (l1 l2 : list A) x : NoDup (l1 ++ l2) -> In x l1 -> ~ In x l2.
Proof.
  induction l1 as [|a l1 IH]; cbn; intros Hnd Hin; [destruct Hin|].
  inversion Hnd as [|? ? Hna Hnd']; subst. destruct Hin as [-> | Hin].
  - intro H2. apply Hna. apply in_or_app. right. exact H2.
  - apply IH; auto.
Qed.

Lemma NoDup_app_l {A} (l1 l2 : list A) : NoDup (l1 ++ l2) -> NoDup l1.
Proof.
  induction l1 as [|a l1 IH]; cbn; intros Hnd; [constructor|].
  inversion Hnd as [|? ? Hna Hnd']; subst. constructor; [|auto].
  intro H. apply Hna. apply in_or_app. left. exact H.
Qed.

Lemma NoDup_app_r {A} (l1 l2 : list A) : NoDup (l1 ++ l2) -> NoDup l2.
Proof.
  induction l1 as [|a l1 IH]; cbn; intros Hnd; [exact Hnd|].
  inversion Hnd; subst. auto.
Qed.

Lemma plan_targets_split pack done n rest :
  p_nodes pack = done ++ n :: rest ->
  plan_targets pack = flat_map n_targets done ++ n_targets n ++ flat_map n_targets rest.
Proof. intro E. unfold plan_targets. rewrite E, flat_map_app. reflexivity. Qed.

Lemma node_targets_in_plan pack n t : In n (p_nodes pack) -> In t (n_targets n) -> In t (plan_targets pack).
Proof. intros Hn Ht. unfold plan_targets. apply in_flat_map. eauto. Qed.

(* the targets of the node being processed: duplicate-free, and disjoint from those of earlier nodes *)
Lemma plan_wf_node pack done n rest :
  plan_wf pack -> p_nodes pack = done ++ n :: rest ->
  NoDup (n_targets n) /\
  (forall n' t, In n' done -> In t (n_targets n') -> ~ In t (n_targets n)).
Proof.
  intros (Hnd & _) E. rewrite (plan_targets_split _ _ _ _ E) in Hnd. split.
  - apply NoDup_app_r in Hnd. apply NoDup_app_l in Hnd. exact Hnd.
  - intros n' t Hn' Ht Htn. apply (NoDup_app_disjoint _ _ t Hnd).
    + apply in_flat_map. eauto.
    + apply in_or_app. left. exact Htn.
Qed.

(* a source of a node is not one of its targets *)
Lemma plan_wf_self pack done n rest :
  plan_wf pack -> p_nodes pack = done ++ n :: rest ->
  forall s, In s (r_sources (n_rule n)) -> ~ In s (n_targets n).
Proof.
  intros Hwf E s Hs Ht. pose proof Hwf as (Hnd & Hleaf & Hbind).
  assert (nth_error (p_nodes pack) (length done) = Some n) as Hn.
  { rewrite E. rewrite nth_error_app2 by lia. rewrite Nat.sub_diag. reflexivity. }
  assert (In n (p_nodes pack)) as Hin by (eapply nth_error_In; eauto).
  destruct (Forall2_in_l _ _ _ _ (Hbind _ _ Hn) Hs) as (b & _ & Hb).
  destruct b as [i | i sub]; cbn [bind_ok] in Hb.
  - apply (Hleaf s); [eapply nth_error_In; eauto|]. eapply node_targets_in_plan; eauto.
  - destruct Hb as (Hlt & n' & Hn' & Hsub).
    rewrite E in Hn'. rewrite nth_error_app1 in Hn' by exact Hlt.
    destruct (plan_wf_node _ _ _ _ Hwf E) as [_ Hdis].
    apply (Hdis n' s); [eapply nth_error_In; eauto | eapply nth_error_In; eauto | exact Ht].
Qed.

Section BuildInv.
  Variable T : Type.
  Variable teqb : T -> T -> bool.
  Variable hc : bytes -> T.
  Variable hl : list T -> T.
  Variable hr : rule -> T.
  Hypothesis teqb_spec : forall a b, teqb a b = true <-> a = b.
  Hypothesis hc_inj : forall a b, hc a = hc b -> a = b.
  Hypothesis hl_inj : forall a b, hl a = hl b -> a = b.
  Hypothesis hr_inj : forall a b, hr a = hr b -> a = b.

  Notation world := (world T).
  Notation fstate := (fstate T).
  Notation state_ok := (state_ok teqb hc).
  Notation disk_inv := (disk_inv teqb hc).
  Notation steps := (clos_refl_trans world (step teqb hc)).
  Notation blob_ok := (InvProofs.blob_ok T teqb hc).
  Notation has_hash := (has_hash T hc).
  Notation src_contents := (src_contents T).
  Notation hist_ok := (hist_ok T teqb hc hl).
  Notation hist_sound := (hist_sound T teqb hc hl hr).
  Notation rs_inv := (InvProofs.rs_inv T teqb hc).

  (* ================================================================== *)
  (* the from-scratch world, prefix by prefix                             *)
  (* ================================================================== *)

  Definition scratch_from (S : world) (ns : list node) : world :=
    fold_left (fun acc n => snd (run_script acc (script_lines (n_command n)))) ns S.

  Lemma scratch_world_from (w : world) pack :
    scratch_world w pack = scratch_from (strip_targets w pack) (p_nodes pack).
  Proof. reflexivity. Qed.

  Lemma scratch_from_snoc (S : world) ns n :
    scratch_from S (ns ++ [n]) = snd (run_script (scratch_from S ns) (script_lines (n_command n))).
  Proof. unfold scratch_from. rewrite fold_left_app. reflexivity. Qed.

  Lemma alookup_filter_keys (pred : bytes -> bool) (l : list (bytes * file)) p :
    alookup bytes_eqb (filter (fun e => pred (fst e)) l) p = if pred p then alookup bytes_eqb l p else None.
  Proof.
    induction l as [|[k v] l IH]; cbn [filter alookup fst]; [destruct (pred p); reflexivity|].
    destruct (pred k) eqn:Ek; cbn [alookup].
    - destruct (bytes_eqb p k) eqn:E; [|exact IH]. apply bytes_eqb_eq in E. subst k. rewrite Ek. reflexivity.
    - rewrite IH. destruct (bytes_eqb p k) eqn:E; [|reflexivity]. apply bytes_eqb_eq in E. subst k.
      rewrite Ek. reflexivity.
  Qed.

  Lemma existsb_bytes_in p l : existsb (bytes_eqb p) l = true <-> In p l.
  Proof.
    rewrite existsb_exists. split.
    - intros (x & Hx & E). apply bytes_eqb_eq in E. subst x. exact Hx.
    - intro H. exists p. split; [exact H | apply bytes_eqb_refl].
  Qed.

  Lemma strip_content_out (w : world) pack p :
    ~ In p (plan_targets pack) -> content_at (strip_targets w pack) p = content_at w p.
  Proof.
    intro Hp. unfold content_at, fget, strip_targets. cbn [w_files set_files].
    rewrite (alookup_filter_keys (fun k => negb (existsb (bytes_eqb k) (plan_targets pack)))).
    destruct (existsb (bytes_eqb p) (plan_targets pack)) eqn:E; [|reflexivity].
    apply existsb_bytes_in in E. contradiction.
  Qed.

  Lemma strip_content_in (w : world) pack p :
    In p (plan_targets pack) -> content_at (strip_targets w pack) p = None.
  Proof.
    intro Hp. unfold content_at, fget, strip_targets. cbn [w_files set_files].
    rewrite (alookup_filter_keys (fun k => negb (existsb (bytes_eqb k) (plan_targets pack)))).
    apply existsb_bytes_in in Hp. rewrite Hp. reflexivity.
  Qed.

  Lemma node_confined_of_det n : det_node n -> confined (n_targets n) (script_lines (n_command n)).
  Proof. intros ((Hc & _) & -> & ->). exact Hc. Qed.

  (* running further nodes changes nothing outside their targets *)
  Lemma scratch_from_frame ns : forall (S : world) q,
    Forall det_node ns -> ~ In q (flat_map n_targets ns) ->
    content_at (scratch_from S ns) q = content_at S q.
  Proof.
    induction ns as [|n ns IH]; intros S q Hdet Hq; [reflexivity|].
    inversion Hdet as [|? ? Hd Hdet']; subst. cbn [flat_map] in Hq.
    unfold scratch_from. cbn [fold_left]. fold (scratch_from (snd (run_script S (script_lines (n_command n)))) ns).
    rewrite IH; [|exact Hdet'|intro X; apply Hq; apply in_or_app; right; exact X].
    apply (run_script_frame T (n_targets n)); [apply node_confined_of_det; exact Hd|].
    intro X. apply Hq. apply in_or_app. left. exact X.
  Qed.

  (* ================================================================== *)
  (* the invariant                                                        *)
  (* ================================================================== *)

  (* what a leaf thread sent: the hash of the leaf's content *)
  Definition leaf_ok (wc : world) (l : bytes) (o : option (list T)) : Prop :=
    match o with
    | Some ts => exists c, content_at wc l = Some c /\ ts = [hc c]
    | None => True
    end.

  (* what a rule thread sent: the hashes of its targets' contents, which are the from-scratch ones *)
  Definition sent_ok (wc S : world) (n : node) (o : option (list T)) : Prop :=
    match o with
    | Some ts => Forall2 (has_hash wc) (n_targets n) ts /\
                 forall t, In t (n_targets n) -> content_at wc t = content_at S t
    | None => True
    end.

  (* the history a successful rule thread hands to main is sound *)
  Definition res_ok (res : option rule * thread_result T) : Prop :=
    match res with
    | (Some r, TOk wr) => forall h', wr_history wr = Some h' -> det_rule r -> hist_ok r h'
    | _ => True
    end.

  Definition has_err (results : list (option rule * thread_result T)) : Prop :=
    exists r e, In (r, TErr e) results.

  Definition all_sent (l : list (option (list T))) : Prop := Forall (fun o => o <> None) l.

  Record good (w : world) (hist0 : option (list (T * sf (history T)))) (pack : node_pack)
              (done : list node) (st : run_state T) : Prop := mk_good {
    g_rs : rs_inv w st;
    g_hist : rd_hist (w_rd (rs_world T st)) = hist0;
    g_frame : forall p, ~ In p (plan_targets pack) -> content_at (rs_world T st) p = content_at w p;
    g_leaf : Forall2 (leaf_ok (rs_world T st)) (p_leaves pack) (rs_leaf_sent T st);
    g_sent : Forall2 (sent_ok (rs_world T st) (scratch_from (strip_targets w pack) done)) done (rs_node_sent T st);
    g_err : has_err (rs_results T st) \/ (all_sent (rs_leaf_sent T st) /\ all_sent (rs_node_sent T st));
    g_res : Forall res_ok (rs_results T st)
  }.

  (* ---------- what a node receives ---------- *)

  Section Received.
    Variable pack : node_pack.
    Variable done : list node.
    Variable wc S : world.
    Variable leaf_sent node_sent : list (option (list T)).
    Hypothesis Hdone : forall i, (i < length done)%nat -> nth_error (p_nodes pack) i = nth_error done i.
    Hypothesis Hleaf : Forall2 (leaf_ok wc) (p_leaves pack) leaf_sent.
    Hypothesis Hsent : Forall2 (sent_ok wc S) done node_sent.
    Hypothesis HleafS : forall l, In l (p_leaves pack) -> content_at wc l = content_at S l.

    Lemma received_spec srcs idxs :
      Forall2 (bind_ok pack (length done)) srcs idxs ->
      forall tickets, all_some (map (received T leaf_sent node_sent) idxs) = Some tickets ->
        Forall2 (has_hash wc) srcs tickets /\ forall s, In s srcs -> content_at wc s = content_at S s.
    Proof.
      induction 1 as [|s b srcs idxs Hb _ IH]; intros tickets; cbn [map all_some].
      - intro H. injection H as <-. split; [constructor | intros s []].
      - destruct (received T leaf_sent node_sent b) as [tk|] eqn:Er; [|discriminate].
        destruct (all_some (map (received T leaf_sent node_sent) idxs)) as [tks|] eqn:Ea; [|discriminate].
        intro H. injection H as <-. destruct (IH _ eq_refl) as [I1 I2].
        assert (has_hash wc s tk /\ content_at wc s = content_at S s) as [H1 H2].
        { destruct b as [i | i sub]; cbn [bind_ok received] in *.
          - destruct (Forall2_nth_error_l _ _ _ Hleaf _ _ Hb) as (o & Ho & Hok).
            rewrite (nth_error_nth _ _ None Ho) in Er.
            destruct o as [ts|]; [|discriminate]. destruct Hok as (c & Hc & ->). injection Er as <-.
            split; [exists c; auto|]. apply HleafS. eapply nth_error_In; eauto.
          - destruct Hb as (Hlt & n' & Hn' & Hsub). rewrite (Hdone _ Hlt) in Hn'.
            destruct (Forall2_nth_error_l _ _ _ Hsent _ _ Hn') as (o & Ho & Hok).
            rewrite (nth_error_nth _ _ None Ho) in Er.
            destruct o as [ts|]; [|discriminate]. destruct Hok as [Hts Hag].
            split; [eapply Forall2_nth_error; eauto|]. apply Hag. eapply nth_error_In; eauto. }
        split; [constructor; auto|]. intros s' [<- | Hs']; auto.
    Qed.

    Lemma received_total srcs idxs :
      all_sent leaf_sent -> all_sent node_sent ->
      Forall2 (bind_ok pack (length done)) srcs idxs ->
      all_some (map (received T leaf_sent node_sent) idxs) <> None.
    Proof.
      intros Hl Hn. induction 1 as [|s b srcs idxs Hb _ IH]; cbn [map all_some]; [discriminate|].
      assert (received T leaf_sent node_sent b <> None) as Hr.
      { destruct b as [i | i sub]; cbn [bind_ok received] in *.
        - destruct (Forall2_nth_error_l _ _ _ Hleaf _ _ Hb) as (o & Ho & Hok).
          rewrite (nth_error_nth _ _ None Ho).
          assert (o <> None) as Hne.
          { unfold all_sent in Hl. rewrite Forall_forall in Hl. apply Hl. eapply nth_error_In; eauto. }
          destruct o as [ts|]; [|contradiction]. destruct Hok as (c & Hc & ->). discriminate.
        - destruct Hb as (Hlt & n' & Hn' & Hsub). rewrite (Hdone _ Hlt) in Hn'.
          destruct (Forall2_nth_error_l _ _ _ Hsent _ _ Hn') as (o & Ho & Hok).
          rewrite (nth_error_nth _ _ None Ho).
          assert (o <> None) as Hne.
          { unfold all_sent in Hn. rewrite Forall_forall in Hn. apply Hn. eapply nth_error_In; eauto. }
          destruct o as [ts|]; [|contradiction]. destruct Hok as [Hts _].
          destruct (Forall2_nth_error_l _ _ _ Hts _ _ Hsub) as (tk & Htk & _). rewrite Htk. discriminate. }
      destruct (received T leaf_sent node_sent b); [|contradiction].
      destruct (all_some (map (received T leaf_sent node_sent) idxs)); [discriminate | contradiction].
    Qed.
  End Received.

  (* ---------- table blobs ---------- *)

  Lemma take_blob_fst paths : forall (t : table T) b t', take_blob T hc t paths = (b, t') -> map fst b = paths.
  Proof.
    induction paths as [|p rest IH]; intros t b t'; cbn [take_blob].
    - intro H. injection H as <- _. reflexivity.
    - destruct (take_blob T hc (aremove bytes_eqb t p) rest) as [b2 t2] eqn:E2.
      intro H. injection H as <- _. cbn [map fst]. f_equal. eapply IH; eauto.
  Qed.

  (* ---------- moving the invariant's per-node facts to a later world ---------- *)

  Lemma leaf_ok_transport (wc w' : world) leaves sent :
    (forall l, In l leaves -> content_at w' l = content_at wc l) ->
    Forall2 (leaf_ok wc) leaves sent -> Forall2 (leaf_ok w') leaves sent.
  Proof.
    intros E H. eapply Forall2_impl_in; [|exact H]. intros l o Hl Hok.
    destruct o as [ts|]; [|exact I]. destruct Hok as (c & Hc & Hts). exists c. rewrite (E l Hl). auto.
  Qed.

  Lemma sent_ok_transport (wc w' S S' : world) ns sent :
    (forall n t, In n ns -> In t (n_targets n) -> content_at w' t = content_at wc t) ->
    (forall n t, In n ns -> In t (n_targets n) -> content_at S' t = content_at S t) ->
    Forall2 (sent_ok wc S) ns sent -> Forall2 (sent_ok w' S') ns sent.
  Proof.
    intros E ES H. eapply Forall2_impl_in; [|exact H]. intros n o Hn Hok.
    destruct o as [ts|]; [|exact I]. destruct Hok as [Hts Hag]. split.
    - eapply Forall2_impl_in; [|exact Hts]. intros t tk Ht Hh. cbn in *.
      eapply has_hash_content; [|exact Hh]. apply (E n); auto.
    - intros t Ht. rewrite (E n t Hn Ht), (ES n t Hn Ht). apply Hag. exact Ht.
  Qed.

  Lemma has_err_app results x : has_err results -> has_err (results ++ [x]).
  Proof. intros (r & e & H). exists r, e. apply in_or_app. left. exact H. Qed.

  Lemma all_sent_app l o : all_sent l -> o <> None -> all_sent (l ++ [o]).
  Proof. intros H Ho. apply Forall_app. split; [exact H | constructor; [exact Ho | constructor]]. Qed.

  (* ================================================================== *)
  (* one node                                                             *)
  (* ================================================================== *)

  Lemma run_node_good (w : world) hist0 pack done n rest st st' :
    disk_inv w ->
    (forall r hs h, det_rule r -> hist0 = Some hs -> alookup teqb hs (hr r) = Some (SF_ok h) -> hist_ok r h) ->
    plan_wf pack -> Forall det_node (p_nodes pack) ->
    p_nodes pack = done ++ n :: rest ->
    good w hist0 pack done st ->
    run_node T teqb hc hl hr st n = Some st' ->
    good w hist0 pack (done ++ [n]) st'.
  Proof.
    intros Hinv0 Hhist0 Hwf Hdet E [Hrs Hhist Hframe Hleaf Hsent Herr Hres] Hrun.
    pose proof (InvProofs.run_node_inv T teqb hc teqb_spec hl hr w st n st' Hinv0 Hrs Hrun) as Hrs'.
    destruct Hrs as (Hsteps & Htbl & Hresok).
    set (wc := rs_world T st) in *.
    pose proof (inv_steps T teqb hc teqb_spec _ _ Hinv0 Hsteps) as Hinv.
    set (S := scratch_from (strip_targets w pack) done) in *.
    set (S' := scratch_from (strip_targets w pack) (done ++ [n])).
    (* the node and its rule *)
    assert (In n (p_nodes pack)) as Hnin by (rewrite E; apply in_or_app; right; left; reflexivity).
    assert (det_node n) as Hdn by (rewrite Forall_forall in Hdet; apply Hdet; exact Hnin).
    pose proof Hdn as (Hdr & Etg & Ecmd). set (r := n_rule n) in *.
    destruct (plan_wf_node _ _ _ _ Hwf E) as [Hnd Hdis].
    pose proof (plan_wf_self _ _ _ _ Hwf E) as Hself. fold r in Hself.
    assert (nth_error (p_nodes pack) (length done) = Some n) as Hnth.
    { rewrite E. rewrite nth_error_app2 by lia. rewrite Nat.sub_diag. reflexivity. }
    pose proof Hwf as (_ & Hleafnt & Hbind). specialize (Hbind _ _ Hnth). fold r in Hbind.
    assert (forall i, (i < length done)%nat -> nth_error (p_nodes pack) i = nth_error done i) as Hdone.
    { intros i Hi. rewrite E. apply nth_error_app1. exact Hi. }
    assert (Forall det_node done) as Hdetdone.
    { rewrite Forall_forall in *. intros x Hx. apply Hdet. rewrite E. apply in_or_app. left. exact Hx. }
    assert (forall l, In l (p_leaves pack) -> content_at wc l = content_at S l) as HleafS.
    { intros l Hl. rewrite (Hframe l (Hleafnt l Hl)). unfold S.
      rewrite scratch_from_frame; [|exact Hdetdone|].
      - symmetry. apply strip_content_out. apply Hleafnt. exact Hl.
      - intro X. apply (Hleafnt l Hl). apply in_flat_map in X as (n' & Hn' & Ht).
        eapply node_targets_in_plan; [|exact Ht]. rewrite E. apply in_or_app. left. exact Hn'. }
    (* S' is S after the node's command, which changes the node's targets only *)
    assert (S' = snd (run_script S (script_lines (n_command n)))) as ES' by apply scratch_from_snoc.
    assert (forall q, ~ In q (n_targets n) -> content_at S' q = content_at S q) as FS.
    { intros q Hq. rewrite ES'. apply (run_script_frame T (n_targets n)); [|exact Hq].
      apply node_confined_of_det. exact Hdn. }
    (* whatever the thread does, provided it stays within the node's targets *)
    assert (forall w' : world,
              (forall q, ~ In q (n_targets n) -> content_at w' q = content_at wc q) ->
              (forall p, ~ In p (plan_targets pack) -> content_at w' p = content_at w p) /\
              Forall2 (leaf_ok w') (p_leaves pack) (rs_leaf_sent T st) /\
              Forall2 (sent_ok w' S') done (rs_node_sent T st)) as Htransport.
    { intros w' F. split; [|split].
      - intros p Hp. rewrite F; [apply Hframe; exact Hp|].
        intro X. apply Hp. eapply node_targets_in_plan; eauto.
      - eapply leaf_ok_transport; [|exact Hleaf]. intros l Hl. apply F.
        intro X. apply (Hleafnt l Hl). eapply node_targets_in_plan; eauto.
      - eapply sent_ok_transport; [| |exact Hsent].
        + intros n' t Hn' Ht. apply F. eapply Hdis; eauto.
        + intros n' t Hn' Ht. apply FS. eapply Hdis; eauto. }
    revert Hrun. unfold run_node.
    destruct (take_blob T hc (rs_table T st) (n_targets n)) as [b t'] eqn:Etb.
    pose proof (take_blob_fst _ _ _ _ Etb) as Hfst.
    assert (clock_ok teqb wc) as Hk by apply Hinv.
    destruct (InvProofs.take_blob_ok T teqb hc teqb_spec _ _ _ _ _ Htbl Etb) as [Hb _].
    fold wc. fold r.
    destruct (read_history T teqb hr wc r) as [h|] eqn:Erh; [|discriminate].
    assert (hist_ok r h) as Hh.
    { eapply read_history_ok; [|exact Hdr|exact Erh]. intros r0 hs h0 Hd0 Hrd Hl.
      apply (Hhist0 r0 hs h0 Hd0); [rewrite <- Hhist; exact Hrd | exact Hl]. }
    destruct (all_some (map (received T (rs_leaf_sent T st) (rs_node_sent T st)) (n_source_indices n)))
      as [tickets|] eqn:Eall.
    - (* the node runs *)
      destruct (received_spec pack done wc S _ _ Hdone Hleaf Hsent HleafS _ _ Hbind _ Eall) as [Htk HsrcS].
      destruct (src_contents_of_hashes T hc _ _ _ Htk) as (cs & Hcs & ->).
      rewrite Ecmd. rewrite Etg in Hfst, Hnd.
      destruct (handle_rule teqb hc wc b h (hl (map hc cs)) (r_command r)) as [[res w'] script] eqn:Ehr.
      assert (forall s, In s (r_sources r) -> ~ In s (r_targets r)) as Hself'.
      { intros s Hs. rewrite <- Etg. apply Hself. exact Hs. }
      destruct Hdr as [Hconf Hreads].
      destruct (handle_rule_frame T teqb hc teqb_spec _ _ _ _ _ _ _ _ Hinv Hb Hfst Hnd Hconf Ehr) as [F Hh'].
      rewrite <- Etg in F. destruct (Htransport w' F) as (T1 & T2 & T3).
      destruct res as [wr|e]; intro H; injection H as <-; cbn [rs_world rs_table rs_leaf_sent rs_node_sent rs_results] in *.
      + destruct (handle_rule_ok T teqb hc hl teqb_spec hc_inj hl_inj _ _ _ _ _ _ _ _ Hinv Hb Hfst Hnd
                    (conj Hconf Hreads) Hself' Hcs Hh Ehr) as (_ & _ & R3 & R4 & R5).
        constructor; cbn [rs_world rs_table rs_leaf_sent rs_node_sent rs_results].
        * exact Hrs'.
        * congruence.
        * exact T1.
        * exact T2.
        * apply Forall2_app; [exact T3|]. constructor; [|constructor]. cbn [sent_ok]. rewrite Etg. split; [exact R3|].
          intros t Ht. fold S'. rewrite ES', Ecmd. apply R4; [|exact Ht].
          eapply src_contents_transport; [|exact Hcs]. intros s Hs. symmetry. apply HsrcS. exact Hs.
        * destruct Herr as [He | [Hl Hn]]; [left; apply has_err_app; exact He|].
          right. split; [exact Hl|]. apply all_sent_app; [exact Hn | discriminate].
        * apply Forall_app. split; [exact Hres|]. constructor; [|constructor]. cbn [res_ok].
          intros h' Hw _. apply R5. exact Hw.
      + constructor; cbn [rs_world rs_table rs_leaf_sent rs_node_sent rs_results].
        * exact Hrs'.
        * congruence.
        * exact T1.
        * exact T2.
        * apply Forall2_app; [exact T3|]. constructor; [exact I | constructor].
        * left. exists (Some r), e. apply in_or_app. right. left. reflexivity.
        * apply Forall_app. split; [exact Hres|]. constructor; [exact I | constructor].
    - (* cancelled: some error upstream *)
      intro H. injection H as <-.
      destruct (Htransport wc (fun q _ => eq_refl)) as (T1 & T2 & T3).
      constructor; cbn [rs_world rs_table rs_leaf_sent rs_node_sent rs_results].
      + exact Hrs'.
      + exact Hhist.
      + exact T1.
      + exact T2.
      + apply Forall2_app; [exact T3|]. constructor; [exact I | constructor].
      + destruct Herr as [He | [Hl Hn]]; [left; apply has_err_app; exact He|].
        exfalso. eapply (received_total pack done wc S); eauto.
      + apply Forall_app. split; [exact Hres|]. constructor; [exact I | constructor].
  Qed.

  (* ================================================================== *)
  (* all nodes                                                            *)
  (* ================================================================== *)

  Section Nodes.
    Variable w : world.
    Variable hist0 : option (list (T * sf (history T))).
    Variable pack : node_pack.
    Hypothesis Hinv0 : disk_inv w.
    Hypothesis Hhist0 : forall r hs h, det_rule r -> hist0 = Some hs -> alookup teqb hs (hr r) = Some (SF_ok h) -> hist_ok r h.
    Hypothesis Hwf : plan_wf pack.
    Hypothesis Hdet : Forall det_node (p_nodes pack).

    Lemma run_nodes_good : forall rest done st st',
      p_nodes pack = done ++ rest -> good w hist0 pack done st ->
      run_nodes T teqb hc hl hr st rest = Some st' -> good w hist0 pack (p_nodes pack) st'.
    Proof.
      induction rest as [|n rest IH]; intros done st st' E Hg; cbn [run_nodes].
      - intro H. injection H as <-. rewrite E, app_nil_r. exact Hg.
      - destruct (run_node T teqb hc hl hr st n) as [st1|] eqn:E1; [|discriminate].
        intro H. apply (IH (done ++ [n]) st1 st'); [rewrite <- app_assoc; exact E | | exact H].
        eapply run_node_good; eauto.
    Qed.

    (* the loop of `build` that finds the state in which an unreadable history file was met *)
    Lemma upto_good : forall rest done st,
      p_nodes pack = done ++ rest -> good w hist0 pack done st ->
      exists done',
        good w hist0 pack done'
             ((fix upto (st : run_state T) (ns : list node) {struct ns} : run_state T :=
                 match ns with
                 | [] => st
                 | n :: rest => match run_node T teqb hc hl hr st n with
                                | None => st
                                | Some st' => upto st' rest
                                end
                 end) st rest).
    Proof.
      induction rest as [|n rest IH]; intros done st E Hg; [exists done; exact Hg|].
      cbn - [run_node]. destruct (run_node T teqb hc hl hr st n) as [st1|] eqn:E1; [|exists done; exact Hg].
      apply (IH (done ++ [n]) st1); [rewrite <- app_assoc; exact E|]. eapply run_node_good; eauto.
    Qed.
  End Nodes.

  (* ================================================================== *)
  (* the leaves                                                           *)
  (* ================================================================== *)

  Record good_leaves (w w1 : world) (ldone : list bytes) (st : run_state T) : Prop := mk_good_leaves {
    gl_rs : rs_inv w st;
    gl_world : rs_world T st = w1;
    gl_nodes : rs_node_sent T st = [];
    gl_leaf : Forall2 (leaf_ok w1) ldone (rs_leaf_sent T st);
    gl_err : has_err (rs_results T st) \/ all_sent (rs_leaf_sent T st);
    gl_res : Forall res_ok (rs_results T st)
  }.

  Lemma run_leaf_good (w w1 : world) ldone st leaf :
    disk_inv w -> good_leaves w w1 ldone st ->
    good_leaves w w1 (ldone ++ [leaf]) (run_leaf T teqb hc st leaf).
  Proof.
    intros Hinv0 [Hrs Hw Hn Hleaf Herr Hres].
    pose proof (InvProofs.run_leaf_inv T teqb hc teqb_spec w st leaf Hinv0 Hrs) as Hrs'.
    destruct Hrs as (Hsteps & Htbl & _).
    pose proof (inv_steps T teqb hc teqb_spec _ _ Hinv0 Hsteps) as Hinv.
    revert Hrs'. unfold run_leaf.
    destruct (take_blob T hc (rs_table T st) [leaf]) as [b t'] eqn:Etb.
    pose proof (take_blob_fst _ _ _ _ Etb) as Hfst.
    assert (clock_ok teqb (rs_world T st)) as Hk by apply Hinv.
    destruct (InvProofs.take_blob_ok T teqb hc teqb_spec _ _ _ _ _ Htbl Etb) as [Hb _].
    unfold handle_leaf. destruct (current_tickets teqb hc (rs_world T st) b) as [ts|p] eqn:Ect; intro Hrs'.
    - pose proof (current_tickets_hash T teqb hc _ _ _ Hb Ect) as Hts. rewrite Hfst, Hw in Hts.
      assert (exists c, content_at w1 leaf = Some c /\ ts = [hc c]) as (c & Hc & ->).
      { inversion Hts as [|? tk ? ts' (c & Hc & Htk) Hnil]; subst. inversion Hnil; subst. exists c. auto. }
      constructor; cbn [rs_world rs_table rs_leaf_sent rs_node_sent rs_results wr_tickets]; auto.
      + apply Forall2_app; [exact Hleaf|]. constructor; [|constructor]. exists c. auto.
      + destruct Herr as [He | Hl]; [left; apply has_err_app; exact He|].
        right. apply all_sent_app; [exact Hl | discriminate].
      + apply Forall_app. split; [exact Hres|]. constructor; [exact I | constructor].
    - constructor; cbn [rs_world rs_table rs_leaf_sent rs_node_sent rs_results]; auto.
      + apply Forall2_app; [exact Hleaf|]. constructor; [exact I | constructor].
      + left. exists None, (WFileNotFound p). apply in_or_app. right. left. reflexivity.
      + apply Forall_app. split; [exact Hres|]. constructor; [exact I | constructor].
  Qed.

  Lemma run_leaves_good (w w1 : world) leaves : forall ldone st,
    disk_inv w -> good_leaves w w1 ldone st ->
    good_leaves w w1 (ldone ++ leaves) (fold_left (run_leaf T teqb hc) leaves st).
  Proof.
    induction leaves as [|l leaves IH]; intros ldone st Hinv0 Hg; cbn [fold_left].
    - rewrite app_nil_r. exact Hg.
    - replace (ldone ++ l :: leaves) with ((ldone ++ [l]) ++ leaves) by (rewrite <- app_assoc; reflexivity).
      apply IH; [exact Hinv0|]. apply run_leaf_good; auto.
  Qed.

  (* ================================================================== *)
  (* init_dir                                                             *)
  (* ================================================================== *)

  Lemma init_dir_hist (w w1 : world) tbl :
    init_dir T w = Ok (w1, tbl) ->
    rd_hist (w_rd w1) = Some (match rd_hist (w_rd w) with Some h => h | None => [] end).
  Proof.
    unfold init_dir. destruct (rd_table (w_rd w)) as [[t|]|]; intro H; try discriminate;
      injection H as <- _; cbn; destruct (rd_hist (w_rd w)); reflexivity.
  Qed.

  Lemma init_dir_hist_sub (w w1 : world) tbl : init_dir T w = Ok (w1, tbl) -> hist_sub T teqb w w1.
  Proof.
    intros Hi hs' t h Hrd Hl. rewrite (init_dir_hist _ _ _ Hi) in Hrd. injection Hrd as <-.
    destruct (rd_hist (w_rd w)) as [hs|]; [eauto|]. cbn in Hl. discriminate.
  Qed.

  Lemma init_dir_error_hist_sub (w : world) : hist_sub T teqb w (init_dir_world_on_error T w).
  Proof.
    intros hs' t h Hrd Hl. unfold init_dir_world_on_error in Hrd. cbn in Hrd.
    destruct (rd_hist (w_rd w)) as [hs|]; injection Hrd as <-; [eauto|]. cbn in Hl. discriminate.
  Qed.

  (* ================================================================== *)
  (* main's join loop                                                     *)
  (* ================================================================== *)

  Lemma join_one_files js res : w_files (js_world T (join_one T teqb hr js res)) = w_files (js_world T js).
  Proof.
    unfold join_one. destruct res as [r tr]. cbn [fst snd]. destruct tr as [wr|e|]; cbn [js_world]; try reflexivity.
    destruct r as [r0|]; [|reflexivity]. destruct (wr_history wr) as [h|]; [|reflexivity].
    apply (InvProofs.write_history_inv T teqb hr (js_world T js) r0 h).
  Qed.

  Lemma join_all_files results : forall js,
    w_files (js_world T (fold_left (join_one T teqb hr) results js)) = w_files (js_world T js).
  Proof.
    induction results as [|res results IH]; intros js; cbn [fold_left]; [reflexivity|].
    rewrite IH. apply join_one_files.
  Qed.

  Lemma join_all_hist_sound results : forall js,
    Forall res_ok results -> hist_sound (js_world T js) ->
    hist_sound (js_world T (fold_left (join_one T teqb hr) results js)).
  Proof.
    induction results as [|res results IH]; intros js Hres Hs; cbn [fold_left]; [exact Hs|].
    inversion Hres as [|? ? Hr Hres']; subst. apply IH; [exact Hres'|].
    unfold join_one. destruct res as [r tr]. cbn [fst snd]. destruct tr as [wr|e|]; cbn [js_world]; try exact Hs.
    destruct r as [r0|]; [|exact Hs]. destruct (wr_history wr) as [h|] eqn:Eh; [|exact Hs].
    apply (write_history_sound T teqb hc hl hr teqb_spec hr_inj); [exact Hs|].
    intro Hd. cbn [res_ok] in Hr. apply Hr; auto.
  Qed.

  Lemma join_all_errors results : forall js,
    js_errors T js <> [] \/ has_err results ->
    js_errors T (fold_left (join_one T teqb hr) results js) <> [].
  Proof.
    induction results as [|res results IH]; intros js H; cbn [fold_left].
    - destruct H as [H | (r & e & [])]. exact H.
    - apply IH. destruct H as [H | (r & e & [-> | Hin])].
      + left. unfold join_one. destruct (snd res) as [wr|e|]; cbn [js_errors]; try exact H.
        intro X. apply app_eq_nil in X as [X _]. contradiction.
      + left. unfold join_one. cbn [snd js_errors]. intro X. apply app_eq_nil in X as [_ X]. discriminate.
      + right. exists r, e. exact Hin.
  Qed.

  (* ================================================================== *)
  (* build                                                                *)
  (* ================================================================== *)

  Lemma leaves_good (w w1 : world) tbl pack :
    disk_inv w -> init_dir T w = Ok (w1, tbl) ->
    good w (rd_hist (w_rd w1)) pack []
         (fold_left (run_leaf T teqb hc) (p_leaves pack) (mk_rs T w1 tbl [] [] [] [])).
  Proof.
    intros Hinv Hi.
    destruct (InvProofs.init_dir_rs_inv T teqb hc teqb_spec _ _ _ Hinv Hi) as [Hs1 Ht1].
    destruct (InvProofs.init_dir_inv T teqb _ _ _ Hi) as (Hfiles & _).
    assert (good_leaves w w1 [] (mk_rs T w1 tbl [] [] [] [])) as Hg0.
    { constructor; cbn; auto.
      - split; [exact Hs1|]. split; [exact Ht1|]. intros r wr [].
      - right. constructor. }
    pose proof (run_leaves_good w w1 (p_leaves pack) [] _ Hinv Hg0) as Hg1. cbn [app] in Hg1.
    destruct Hg1 as [Hrs Hw Hn Hleaf Herr Hres].
    constructor.
    - exact Hrs.
    - rewrite Hw. reflexivity.
    - intros p _. rewrite Hw. apply content_at_files. exact Hfiles.
    - rewrite Hw. exact Hleaf.
    - rewrite Hn. constructor.
    - destruct Herr as [He | Hl]; [left; exact He|]. right. split; [exact Hl|]. rewrite Hn. constructor.
    - exact Hres.
  Qed.

  Lemma hist0_sound (w w1 : world) tbl :
    hist_sound w -> init_dir T w = Ok (w1, tbl) ->
    forall r hs h, det_rule r -> rd_hist (w_rd w1) = Some hs -> alookup teqb hs (hr r) = Some (SF_ok h) -> hist_ok r h.
  Proof.
    intros Hhs Hi.
    exact (hist_sound_sub T teqb hc hl hr _ _ (init_dir_hist_sub _ _ _ Hi) Hhs).
  Qed.

  Lemma build_run_good (w w1 : world) tbl pack st2 :
    disk_inv w -> hist_sound w -> init_dir T w = Ok (w1, tbl) ->
    plan_wf pack -> Forall det_node (p_nodes pack) ->
    run_nodes T teqb hc hl hr (fold_left (run_leaf T teqb hc) (p_leaves pack) (mk_rs T w1 tbl [] [] [] []))
              (p_nodes pack) = Some st2 ->
    good w (rd_hist (w_rd w1)) pack (p_nodes pack) st2.
  Proof.
    intros Hinv Hhs Hi Hwf Hdet Hrun.
    exact (run_nodes_good w (rd_hist (w_rd w1)) pack Hinv (hist0_sound _ _ _ Hhs Hi) Hwf Hdet
             (p_nodes pack) [] _ st2 eq_refl (leaves_good _ _ _ pack Hinv Hi) Hrun).
  Qed.

  (* G3: the incremental build leaves, at every target of the plan, what the from-scratch build leaves *)
  Theorem build_equals_scratch (w : world) rp goal w1 tbl pack :
    disk_inv w -> hist_sound w ->
    init_dir T w = Ok (w1, tbl) -> get_nodes T w1 rp goal = Ok pack ->
    plan_wf pack -> Forall det_node (p_nodes pack) ->
    o_verdict (build teqb hc hl hr w rp goal) = VOk ->
    forall t, In t (plan_targets pack) ->
      content_at (o_world (build teqb hc hl hr w rp goal)) t = content_at (scratch_world w pack) t.
  Proof.
    intros Hinv Hhs Hi Hgn Hwf Hdet. rewrite (BuildFacts.build_eq T teqb hc hl hr), Hi, Hgn.
    cbv zeta. unfold BuildFacts.st_leaves, BuildFacts.joined.
    destruct (run_nodes T teqb hc hl hr (fold_left (run_leaf T teqb hc) (p_leaves pack) (mk_rs T w1 tbl [] [] [] []))
                        (p_nodes pack)) as [st2|] eqn:Erun; [|cbn; discriminate].
    pose proof (build_run_good _ _ _ _ _ Hinv Hhs Hi Hwf Hdet Erun) as [Hrs Hhist Hframe Hleaf Hsent Herr Hres].
    cbn [o_verdict o_world]. intros Hv t Ht.
    set (js := fold_left (join_one T teqb hr) (rs_results T st2) (mk_js T (rs_world T st2) (rs_table T st2) [] [])) in *.
    assert (content_at (write_table T (js_world T js) (js_table T js)) t = content_at (rs_world T st2) t) as ->.
    { apply content_at_files. cbn. unfold js. rewrite join_all_files. reflexivity. }
    destruct Herr as [He | [_ Hall]].
    - exfalso. apply (join_all_errors (rs_results T st2) (mk_js T (rs_world T st2) (rs_table T st2) [] [])); [right; exact He|].
      fold js. destruct (js_errors T js); [reflexivity | discriminate].
    - unfold plan_targets in Ht. apply in_flat_map in Ht as (n & Hn & Htn).
      destruct (Forall2_in_l _ _ _ _ Hsent Hn) as (o & Ho & Hok).
      unfold all_sent in Hall. rewrite Forall_forall in Hall. specialize (Hall o Ho).
      destruct o as [ts|]; [|contradiction]. destruct Hok as [_ Hag]. rewrite scratch_world_from. apply Hag. exact Htn.
  Qed.

  (* ... and every target of the plan exists after a successful build *)
  Theorem build_targets_exist (w : world) rp goal w1 tbl pack :
    disk_inv w -> hist_sound w ->
    init_dir T w = Ok (w1, tbl) -> get_nodes T w1 rp goal = Ok pack ->
    plan_wf pack -> Forall det_node (p_nodes pack) ->
    o_verdict (build teqb hc hl hr w rp goal) = VOk ->
    forall t, In t (plan_targets pack) ->
      content_at (o_world (build teqb hc hl hr w rp goal)) t <> None.
  Proof.
    intros Hinv Hhs Hi Hgn Hwf Hdet. rewrite (BuildFacts.build_eq T teqb hc hl hr), Hi, Hgn.
    cbv zeta. unfold BuildFacts.st_leaves, BuildFacts.joined.
    destruct (run_nodes T teqb hc hl hr (fold_left (run_leaf T teqb hc) (p_leaves pack) (mk_rs T w1 tbl [] [] [] []))
                        (p_nodes pack)) as [st2|] eqn:Erun; [|cbn; discriminate].
    pose proof (build_run_good _ _ _ _ _ Hinv Hhs Hi Hwf Hdet Erun) as [Hrs Hhist Hframe Hleaf Hsent Herr Hres].
    cbn [o_verdict o_world]. intros Hv t Ht.
    set (js := fold_left (join_one T teqb hr) (rs_results T st2) (mk_js T (rs_world T st2) (rs_table T st2) [] [])) in *.
    assert (content_at (write_table T (js_world T js) (js_table T js)) t = content_at (rs_world T st2) t) as ->.
    { apply content_at_files. cbn. unfold js. rewrite join_all_files. reflexivity. }
    destruct Herr as [He | [_ Hall]].
    - exfalso. apply (join_all_errors (rs_results T st2) (mk_js T (rs_world T st2) (rs_table T st2) [] [])); [right; exact He|].
      fold js. destruct (js_errors T js); [reflexivity | discriminate].
    - unfold plan_targets in Ht. apply in_flat_map in Ht as (n & Hn & Htn).
      destruct (Forall2_in_l _ _ _ _ Hsent Hn) as (o & Ho & Hok).
      unfold all_sent in Hall. rewrite Forall_forall in Hall. specialize (Hall o Ho).
      destruct o as [ts|]; [|contradiction]. destruct Hok as [Hts _].
      destruct (Forall2_in_l _ _ _ _ Hts Htn) as (tk & _ & (c & Hc & _)). rewrite Hc. discriminate.
  Qed.

  (* G2 for build: history soundness is preserved whenever the plan (if there is one) is DET *)
  Theorem build_hist_sound (w : world) rp goal :
    disk_inv w -> hist_sound w ->
    (forall w1 tbl pack, init_dir T w = Ok (w1, tbl) -> get_nodes T w1 rp goal = Ok pack ->
                         plan_wf pack /\ Forall det_node (p_nodes pack)) ->
    hist_sound (o_world (build teqb hc hl hr w rp goal)).
  Proof.
    intros Hinv Hhs Hplan. rewrite (BuildFacts.build_eq T teqb hc hl hr).
    destruct (init_dir T w) as [[w1 tbl]|f] eqn:Hi.
    2:{ cbn [o_world]. eapply hist_sound_sub; [apply init_dir_error_hist_sub | exact Hhs]. }
    pose proof (hist_sound_sub T teqb hc hl hr _ _ (init_dir_hist_sub _ _ _ Hi) Hhs) as Hhs1.
    destruct (get_nodes T w1 rp goal) as [pack|f] eqn:Hgn; [|exact Hhs1].
    destruct (Hplan _ _ _ eq_refl Hgn) as [Hwf Hdet].
    cbv zeta. unfold BuildFacts.st_leaves, BuildFacts.joined.
    destruct (run_nodes T teqb hc hl hr (fold_left (run_leaf T teqb hc) (p_leaves pack) (mk_rs T w1 tbl [] [] [] []))
                        (p_nodes pack)) as [st2|] eqn:Erun.
    - pose proof (build_run_good _ _ _ _ _ Hinv Hhs Hi Hwf Hdet Erun) as [Hrs Hhist Hframe Hleaf Hsent Herr Hres].
      cbn [o_world].
      apply (hist_sound_same T teqb hc hl hr
               (js_world T (fold_left (join_one T teqb hr) (rs_results T st2)
                                      (mk_js T (rs_world T st2) (rs_table T st2) [] [])))); [reflexivity|].
      apply join_all_hist_sound; [exact Hres|]. cbn [js_world].
      eapply hist_sound_same; [|exact Hhs1]. exact Hhist.
    - cbn [o_world].
      (* the leaves phase, then the nodes up to the unreadable history *)
      destruct (upto_good w (rd_hist (w_rd w1)) pack Hinv (hist0_sound _ _ _ Hhs Hi) Hwf Hdet
                  (p_nodes pack) [] _ eq_refl (leaves_good _ _ _ pack Hinv Hi)) as (done' & Hg).
      eapply hist_sound_same; [|exact Hhs1]. apply (g_hist _ _ _ _ _ Hg).
  Qed.
End BuildInv.
