(* C18 under the COARSE clock, part 2 (K2): a build (and a clean) with the saved table and the same build with
   the table erased -- more generally: with any two tables that are sound PER PATH and older than the clock --
   give the same verdict, workspace files, cache, history files, commands and status lines.
   The simulation is the one of Proofs/C18Facts.v with the global `state_ok` replaced by the per-path
   `held_ok` of Proofs/CoarseInv.v; nothing here looks at w_mode. *)
From Ruler Require Import Tactics Bytes AList RuleSyntax Parser TopoSort World Cmdlang Work Build Ops Inv BuildSpec
     BytesFacts InvFacts BuildFacts C01Build C01Plan C18Facts CoarseInv.
Local Open Scope N_scope.

Module C18CoarseProofs.
Import CoarseProofs.

Section Sim.
  Variable T : Type.
  Variable teqb : T -> T -> bool.
  Variable hc : bytes -> T.
  Variable hl : list T -> T.
  Variable hr : rule -> T.
  Hypothesis teqb_spec : forall a b, teqb a b = true <-> a = b.

  Notation world := (world T).
  Notation fstate := (fstate T).
  Notation blob := (blob T).
  Notation history := (World.history T).
  Notation work_result := (work_result T).
  Notation thread_result := (thread_result T).
  Notation run_state := (run_state T).
  Notation join_state := (join_state T).
  Notation state_ok_at := (state_ok_at teqb hc).
  Notation held_ok := (held_ok teqb hc).
  Notation blob_held := (blob_held teqb hc).
  Notation tbl_held := (tbl_held teqb hc).
  Notation wt := (C18Proofs.wt T).
  Notation frame_at := (frame_at T).

  Variable x : option (sf (table T)).

  Notation lw := (C18Proofs.lw T x).

  (* soundness at a path does not look at the table file *)
  Lemma blob_held_wt (w : world) y b : blob_held (wt w y) b <-> blob_held w b.
  Proof. reflexivity. Qed.

  (* ---------- two sound states for one path ---------- *)

  Lemma get_file_ticket_tr (w : world) p a a' :
    state_ok_at w p a -> state_ok_at w p a' ->
    get_file_ticket teqb hc (wt w x) p a' = get_file_ticket teqb hc w p a.
  Proof.
    intros Ha Ha'. change (get_file_ticket teqb hc (wt w x) p a') with (get_file_ticket teqb hc w p a').
    rewrite !(coarse_shortcut_transparent_main T teqb hc) by assumption. reflexivity.
  Qed.

  Lemma get_actual_file_state_tr (w : world) p a a' :
    state_ok_at w p a -> state_ok_at w p a' ->
    get_actual_file_state teqb hc (wt w x) p a' = get_actual_file_state teqb hc w p a.
  Proof.
    intros Ha Ha'.
    change (get_actual_file_state teqb hc (wt w x) p a') with (get_actual_file_state teqb hc w p a').
    rewrite !(coarse_actual_state_transparent T teqb hc) by assumption. reflexivity.
  Qed.

  Lemma resolve_single_tr (w : world) rem p a a' :
    state_ok_at w p a -> state_ok_at w p a' ->
    resolve_single teqb hc (wt w x) rem p a' = lw (resolve_single teqb hc w rem p a).
  Proof.
    intros Ha Ha'. unfold resolve_single. rewrite (get_file_ticket_tr w p a a' Ha Ha').
    destruct (get_file_ticket teqb hc w p a) as [cur|].
    - destruct (teqb rem cur); [reflexivity|]. rewrite C18Proofs.back_up_wt.
      destruct (back_up teqb w cur p) as [w1|]; cbn [option_map];
        [apply C18Proofs.restore_or_rebuild_wt | reflexivity].
    - apply C18Proofs.restore_or_rebuild_wt.
  Qed.

  (* ---------- two sound blobs over the same paths ---------- *)

  Definition blobs_held (w : world) (b b' : blob) : Prop :=
    blob_held w b /\ blob_held w b' /\ map fst b = map fst b'.

  Lemma blobs_held_cons_inv (w : world) p a b p' a' b' :
    blobs_held w ((p, a) :: b) ((p', a') :: b') -> p' = p /\ held_ok w p a /\ held_ok w p a' /\ blobs_held w b b'.
  Proof.
    intros (H1 & H2 & H3). cbn [map fst] in H3. injection H3 as <- H3.
    inversion H1 as [|? ? Ha H1']; subst. inversion H2 as [|? ? Ha' H2']; subst. cbn [fst snd] in *.
    split; [reflexivity|]. split; [exact Ha|]. split; [exact Ha'|]. split; [exact H1'|]. split; [exact H2' | exact H3].
  Qed.

  Lemma blobs_held_nil_l (w : world) b' : blobs_held w [] b' -> b' = [].
  Proof. intros (_ & _ & H). destruct b'; [reflexivity | discriminate]. Qed.

  Lemma blobs_held_nil_r (w : world) p a b : ~ blobs_held w ((p, a) :: b) [].
  Proof. intros (_ & _ & H). discriminate. Qed.

  Lemma blobs_held_frame (w w' : world) ps b b' :
    w_clock w <= w_clock w' -> frame_at ps w w' -> (forall q, In q (map fst b) -> ~ In q ps) ->
    blobs_held w b b' -> blobs_held w' b b'.
  Proof.
    intros Hc Hf Hd (H1 & H2 & H3). split; [|split; [|exact H3]].
    - eapply (blob_held_frame T teqb hc); eauto.
    - eapply (blob_held_frame T teqb hc); eauto. rewrite <- H3. exact Hd.
  Qed.

  Lemma blobs_held_adv (w w' : world) b b' : adv T w w' -> blobs_held w b b' -> blobs_held w' b b'.
  Proof.
    intros Ha (H1 & H2 & H3). split; [|split; [|exact H3]]; eapply (blob_held_adv T teqb hc); eauto.
  Qed.

  Lemma not_in_single (p q : bytes) : q <> p -> ~ In q [p].
  Proof. intros Hne [E | []]. congruence. Qed.

  Lemma resolve_remembered_tr (b : blob) : forall b' (w : world) rem,
    NoDup (map fst b) -> blobs_held w b b' ->
    resolve_remembered teqb hc (wt w x) b' rem = lw (resolve_remembered teqb hc w b rem).
  Proof.
    induction b as [|[p a] rest IH]; intros b' w rem Hnd Hb.
    - apply blobs_held_nil_l in Hb as ->. reflexivity.
    - destruct b' as [|[p' a'] rest']; [destruct (blobs_held_nil_r _ _ _ _ Hb)|].
      apply blobs_held_cons_inv in Hb as (-> & Ha & Ha' & Hrest). cbn [resolve_remembered].
      cbn [map fst] in Hnd. apply NoDup_cons_inv in Hnd as [Hnin Hnd].
      destruct rem as [|r rrest]; [reflexivity|].
      rewrite (resolve_single_tr w (fs_t r) p a a' (proj1 Ha) (proj1 Ha')).
      destruct (resolve_single teqb hc w (fs_t r) p a) as [[res w1]|e] eqn:E1; cbn [C18Proofs.lw]; [|reflexivity].
      destruct (resolve_single_coarse T teqb hc teqb_spec _ _ _ _ _ _ (proj1 Ha) E1) as (Hc1 & _ & _).
      pose proof (resolve_single_frame T teqb hc _ _ _ _ _ _ E1) as Hf1.
      rewrite (IH rest' w1 rrest Hnd).
      + destruct (resolve_remembered teqb hc w1 rest rrest) as [[ress w2]|e]; reflexivity.
      + eapply blobs_held_frame; [| exact Hf1 | | exact Hrest]; [lia|].
        intros q Hq. apply not_in_single. congruence.
  Qed.

  Lemma resolve_fresh_tr (b : blob) : forall b' (w : world),
    NoDup (map fst b) -> blobs_held w b b' ->
    resolve_fresh teqb hc (wt w x) b' = lw (resolve_fresh teqb hc w b).
  Proof.
    induction b as [|[p a] rest IH]; intros b' w Hnd Hb.
    - apply blobs_held_nil_l in Hb as ->. reflexivity.
    - destruct b' as [|[p' a'] rest']; [destruct (blobs_held_nil_r _ _ _ _ Hb)|].
      apply blobs_held_cons_inv in Hb as (-> & Ha & Ha' & Hrest). cbn [resolve_fresh].
      cbn [map fst] in Hnd. apply NoDup_cons_inv in Hnd as [Hnin Hnd].
      rewrite (get_file_ticket_tr w p a a' (proj1 Ha) (proj1 Ha')).
      destruct (get_file_ticket teqb hc w p a) as [cur|] eqn:Eg.
      + rewrite C18Proofs.back_up_wt.
        destruct (back_up teqb w cur p) as [w1|] eqn:Eb; cbn [option_map]; [|reflexivity].
        pose proof (back_up_clock T teqb _ _ _ _ Eb) as Hc1. pose proof (back_up_frame T teqb _ _ _ _ Eb) as Hf1.
        rewrite (IH rest' w1 Hnd).
        * destruct (resolve_fresh teqb hc w1 rest) as [[ress w2]|e]; reflexivity.
        * eapply blobs_held_frame; [| exact Hf1 | | exact Hrest]; [lia|].
          intros q Hq. apply not_in_single. congruence.
      + rewrite (IH rest' w Hnd Hrest).
        destruct (resolve_fresh teqb hc w rest) as [[ress w2]|e]; reflexivity.
  Qed.

  Lemma current_tickets_tr (b : blob) : forall b' (w : world),
    blobs_held w b b' -> current_tickets teqb hc (wt w x) b' = current_tickets teqb hc w b.
  Proof.
    induction b as [|[p a] rest IH]; intros b' w Hb.
    - apply blobs_held_nil_l in Hb as ->. reflexivity.
    - destruct b' as [|[p' a'] rest']; [destruct (blobs_held_nil_r _ _ _ _ Hb)|].
      apply blobs_held_cons_inv in Hb as (-> & Ha & Ha' & Hrest). cbn [current_tickets].
      rewrite (get_file_ticket_tr w p a a' (proj1 Ha) (proj1 Ha')), (IH rest' w Hrest). reflexivity.
  Qed.

  (* the updated blobs are EQUAL (ticket = true hash, time and permission bit = the file's) *)
  Lemma update_blob_tr (b : blob) : forall b' (w : world),
    blobs_held w b b' -> update_blob teqb hc (wt w x) b' = update_blob teqb hc w b.
  Proof.
    induction b as [|[p a] rest IH]; intros b' w Hb.
    - apply blobs_held_nil_l in Hb as ->. reflexivity.
    - destruct b' as [|[p' a'] rest']; [destruct (blobs_held_nil_r _ _ _ _ Hb)|].
      apply blobs_held_cons_inv in Hb as (-> & Ha & Ha' & Hrest). cbn [update_blob].
      rewrite (get_actual_file_state_tr w p a a' (proj1 Ha) (proj1 Ha')), (IH rest' w Hrest). reflexivity.
  Qed.

  Lemma clean_targets_tr (b : blob) : forall b' (w : world),
    NoDup (map fst b) -> blobs_held w b b' ->
    clean_targets teqb hc (wt w x) b' =
    match clean_targets teqb hc w b with Ok w' => Ok (wt w' x) | Err e => Err e end.
  Proof.
    induction b as [|[p a] rest IH]; intros b' w Hnd Hb.
    - apply blobs_held_nil_l in Hb as ->. reflexivity.
    - destruct b' as [|[p' a'] rest']; [destruct (blobs_held_nil_r _ _ _ _ Hb)|].
      apply blobs_held_cons_inv in Hb as (-> & Ha & Ha' & Hrest). cbn [clean_targets].
      cbn [map fst] in Hnd. apply NoDup_cons_inv in Hnd as [Hnin Hnd].
      rewrite (get_file_ticket_tr w p a a' (proj1 Ha) (proj1 Ha')).
      destruct (get_file_ticket teqb hc w p a) as [cur|] eqn:Eg; [|apply IH; assumption].
      rewrite C18Proofs.back_up_wt.
      destruct (back_up teqb w cur p) as [w1|] eqn:Eb; cbn [option_map]; [|reflexivity].
      pose proof (back_up_clock T teqb _ _ _ _ Eb) as Hc1. pose proof (back_up_frame T teqb _ _ _ _ Eb) as Hf1.
      apply IH; [exact Hnd|].
      eapply blobs_held_frame; [| exact Hf1 | | exact Hrest]; [lia|].
      intros q Hq. apply not_in_single. congruence.
  Qed.

  (* ================================================================== *)
  (* one rule thread                                                      *)
  (* ================================================================== *)

  Notation hr_rel := (C18Proofs.hr_rel T x).
  Notation handle_tail := (C18Proofs.handle_tail T teqb hc).
  Notation wr_rel := (C18Proofs.wr_rel T).
  Notation res_rel := (C18Proofs.res_rel T).

  Lemma handle_tail_tr (w : world) R b b' h st cmd :
    (forall ress w1, R = Ok (ress, w1) ->
                     blobs_held w1 (forget_replaced hc b ress) (forget_replaced hc b' ress)) ->
    hr_rel (handle_tail w R b h st cmd) (handle_tail (wt w x) (lw R) b' h st cmd).
  Proof.
    intro HR. destruct R as [[ress w1]|e]; cbn [C18Proofs.lw C18Proofs.handle_tail].
    2:{ split; [reflexivity|]. split; reflexivity. }
    pose proof (HR ress w1 eq_refl) as Hfb.
    set (fb := forget_replaced hc b ress) in *. set (fb' := forget_replaced hc b' ress) in *.
    destruct (needs_rebuild ress).
    - rewrite C18Proofs.run_script_wt.
      pose proof (run_script_adv T teqb hc teqb_spec (script_lines cmd) w1) as Hadv.
      destruct (run_script w1 (script_lines cmd)) as [codes w2] eqn:Er. cbn [fst snd] in *.
      destruct (command_verdict codes) as [e|].
      { split; [reflexivity|]. split; reflexivity. }
      rewrite (update_blob_tr fb fb' w2 (blobs_held_adv _ _ _ _ Hadv Hfb)).
      destruct (update_blob teqb hc w2 fb) as [bu|p].
      2:{ split; [reflexivity|]. split; reflexivity. }
      replace (map fst fb') with (map fst fb) by apply Hfb.
      destruct (history_insert teqb h st (map (fun e => fs_t (snd e)) bu) (map fst fb)) as [h'|e].
      + split; [apply C18Proofs.wr_rel_refl|]. split; reflexivity.
      + split; [reflexivity|]. split; reflexivity.
    - rewrite (current_tickets_tr fb fb' w1 Hfb).
      destruct (current_tickets teqb hc w1 fb) as [ts|p].
      + split; [|split; reflexivity]. cbn [fst C18Proofs.res_rel]. unfold C18Proofs.wr_rel.
        cbn [wr_tickets wr_blob wr_option wr_history].
        split; [reflexivity|]. split; [apply Hfb|]. split; reflexivity.
      + split; [reflexivity|]. split; reflexivity.
  Qed.

  Theorem handle_rule_tr (w : world) b b' h st cmd :
    NoDup (map fst b) -> blobs_held w b b' ->
    hr_rel (handle_rule teqb hc w b h st cmd) (handle_rule teqb hc (wt w x) b' h st cmd).
  Proof.
    intros Hnd Hb. rewrite !C18Proofs.handle_rule_eq.
    assert (resolved_of T teqb hc (wt w x) b' h st = lw (resolved_of T teqb hc w b h st)) as E'.
    { unfold resolved_of. destruct (alookup teqb h st);
        [apply resolve_remembered_tr | apply resolve_fresh_tr]; assumption. }
    rewrite E'. apply handle_tail_tr. intros ress w1 E. rewrite E in E'. cbn [C18Proofs.lw] in E'.
    destruct Hb as (H1 & H2 & H3).
    destruct (resolved_of_coarse T teqb hc teqb_spec _ _ _ _ _ _ Hnd H1 E) as (_ & _ & Hb1).
    assert (NoDup (map fst b')) as Hnd' by (rewrite <- H3; exact Hnd).
    destruct (resolved_of_coarse T teqb hc teqb_spec (wt w x) b' h st ress (wt w1 x) Hnd' H2 E') as (_ & _ & Hb1').
    split; [exact Hb1|]. split; [exact Hb1'|]. rewrite !(forget_replaced_fst T hc). exact H3.
  Qed.

  (* ================================================================== *)
  (* the serial schedule: two runs that differ in the tables only         *)
  (* ================================================================== *)

  Notation rr_rel := (C18Proofs.rr_rel T).

  Definition RI (st st' : run_state) : Prop :=
    rs_world T st' = wt (rs_world T st) x /\
    tbl_held (rs_world T st) (rs_table T st) /\ tbl_held (rs_world T st) (rs_table T st') /\
    rs_leaf_sent T st' = rs_leaf_sent T st /\ rs_node_sent T st' = rs_node_sent T st /\
    rs_commands T st' = rs_commands T st /\ Forall2 rr_rel (rs_results T st) (rs_results T st').

  Lemma take_blobs_held (w : world) t t' paths b t1 b' t1' :
    tbl_held w t -> tbl_held w t' ->
    take_blob T hc t paths = (b, t1) -> take_blob T hc t' paths = (b', t1') ->
    blobs_held w b b' /\ tbl_held w t1 /\ tbl_held w t1' /\ map fst b = paths /\
    (forall q s, alookup bytes_eqb t1 q = Some s -> ~ In q paths) /\
    (forall q s, alookup bytes_eqb t1' q = Some s -> ~ In q paths).
  Proof.
    intros Ht Ht' E E'.
    destruct (take_blob_held T teqb hc teqb_spec _ _ _ _ _ Ht E) as (Hb & Ht1 & Hk1).
    destruct (take_blob_held T teqb hc teqb_spec _ _ _ _ _ Ht' E') as (Hb' & Ht1' & Hk1').
    pose proof (BuildFacts.take_blob_fst T hc paths t) as F. rewrite E in F.
    pose proof (BuildFacts.take_blob_fst T hc paths t') as F'. rewrite E' in F'. cbn [fst] in F, F'.
    split; [split; [exact Hb|]; split; [exact Hb' | exact (eq_trans F (eq_sym F'))]|].
    split; [exact Ht1|]. split; [exact Ht1'|]. split; [exact F|].
    split; intros q s Hl; [apply (Hk1 q s Hl) | apply (Hk1' q s Hl)].
  Qed.

  Lemma run_leaf_RI st st' leaf : RI st st' -> RI (run_leaf T teqb hc st leaf) (run_leaf T teqb hc st' leaf).
  Proof.
    intros (Hw & Ht & Ht' & Hl & Hn & Hc & Hr). unfold run_leaf.
    destruct (take_blob T hc (rs_table T st) [leaf]) as [b t1] eqn:E1.
    destruct (take_blob T hc (rs_table T st') [leaf]) as [b' t1'] eqn:E2.
    destruct (take_blobs_held _ _ _ _ _ _ _ _ Ht Ht' E1 E2) as (Hb & Ht1 & Ht1' & _).
    unfold handle_leaf. rewrite Hw, (current_tickets_tr b b' _ Hb), Hl, Hn, Hc.
    destruct (current_tickets teqb hc (rs_world T st) b) as [ts|p]; unfold RI;
      cbn [rs_world rs_table rs_leaf_sent rs_node_sent rs_results rs_commands];
      (split; [reflexivity|]); (split; [exact Ht1|]); (split; [exact Ht1'|]);
      (split; [reflexivity|]); (split; [reflexivity|]); (split; [reflexivity|]);
      apply C18Proofs.Forall2_snoc; try exact Hr; (split; [reflexivity|]); cbn [snd C18Proofs.tr_rel].
    - unfold C18Proofs.wr_rel. cbn [wr_tickets wr_blob wr_option wr_history].
      split; [reflexivity|]. split; [apply Hb|]. split; reflexivity.
    - reflexivity.
  Qed.

  Lemma run_leaves_RI leaves : forall st st',
    RI st st' -> RI (fold_left (run_leaf T teqb hc) leaves st) (fold_left (run_leaf T teqb hc) leaves st').
  Proof.
    induction leaves as [|l r IH]; intros st st' H; cbn [fold_left]; [exact H|].
    apply IH. apply run_leaf_RI. exact H.
  Qed.

  Definition opt_RI (o o' : option run_state) : Prop :=
    match o, o' with
    | Some a, Some a' => RI a a'
    | None, None => True
    | _, _ => False
    end.

  Notation run_node := (run_node T teqb hc hl hr).
  Notation run_nodes := (run_nodes T teqb hc hl hr).
  Notation upto := (upto T teqb hc hl hr).

  (* what the simulation needs of a node: no target twice (the command may write anywhere) *)
  Definition node_good (n : node) : Prop := NoDup (n_targets n).

  Lemma run_node_RI st st' n : node_good n -> RI st st' -> opt_RI (run_node st n) (run_node st' n).
  Proof.
    intros Hnd (Hw & Ht & Ht' & Hl & Hn & Hc & Hr). unfold Build.run_node.
    destruct (take_blob T hc (rs_table T st) (n_targets n)) as [b t1] eqn:E1.
    destruct (take_blob T hc (rs_table T st') (n_targets n)) as [b' t1'] eqn:E2.
    destruct (take_blobs_held _ _ _ _ _ _ _ _ Ht Ht' E1 E2) as (Hb & Ht1 & Ht1' & Hfst & Hk1 & Hk1').
    rewrite Hw, Hl, Hn, Hc.
    change (read_history T teqb hr (wt (rs_world T st) x) (n_rule n))
      with (read_history T teqb hr (rs_world T st) (n_rule n)).
    destruct (read_history T teqb hr (rs_world T st) (n_rule n)) as [h|]; [|exact I].
    destruct (all_some (map (received T (rs_leaf_sent T st) (rs_node_sent T st)) (n_source_indices n)))
      as [tickets|].
    2:{ unfold opt_RI, RI. cbn [rs_world rs_table rs_leaf_sent rs_node_sent rs_results rs_commands].
        split; [reflexivity|]. split; [exact Ht1|]. split; [exact Ht1'|].
        split; [reflexivity|]. split; [reflexivity|]. split; [reflexivity|].
        apply C18Proofs.Forall2_snoc; [exact Hr|]. split; [reflexivity | exact I]. }
    assert (NoDup (map fst b)) as Hndb by (rewrite Hfst; exact Hnd).
    pose proof (handle_rule_tr (rs_world T st) b b' h (hl tickets) (n_command n) Hndb Hb) as Hh.
    destruct (handle_rule teqb hc (rs_world T st) b h (hl tickets) (n_command n)) as [[r w1] s] eqn:EH.
    destruct (handle_rule teqb hc (wt (rs_world T st) x) b' h (hl tickets) (n_command n)) as [[r' w1'] s'] eqn:EH'.
    destruct Hh as (Hres & Hw1 & Hs). cbn [fst snd] in Hres, Hw1, Hs. subst w1' s'.
    destruct (handle_rule_coarse T teqb hc teqb_spec _ _ _ _ _ _ _ _ Hndb (proj1 Hb) EH) as (Hck & _ & _).
    pose proof (handle_rule_outside T teqb hc teqb_spec _ _ _ _ _ _ _ _ Hndb (proj1 Hb) EH) as Hout.
    rewrite Hfst in Hout.
    assert (tbl_held w1 t1) as Ht2.
    { eapply (tbl_held_transport T teqb hc); [exact Hck | | exact Ht1]. intros q s0 Hl0. apply Hout. eapply Hk1; eauto. }
    assert (tbl_held w1 t1') as Ht2'.
    { eapply (tbl_held_transport T teqb hc); [exact Hck | | exact Ht1']. intros q s0 Hl0. apply Hout. eapply Hk1'; eauto. }
    destruct r as [wr|e], r' as [wr'|e']; cbn [C18Proofs.res_rel] in Hres; try contradiction;
      unfold opt_RI, RI; cbn [rs_world rs_table rs_leaf_sent rs_node_sent rs_results rs_commands];
      (split; [reflexivity|]); (split; [exact Ht2|]); (split; [exact Ht2'|]);
      (split; [reflexivity|]).
    - destruct Hres as (Htk & Hrest). rewrite Htk. split; [reflexivity|]. split; [reflexivity|].
      apply C18Proofs.Forall2_snoc; [exact Hr|]. split; [reflexivity|]. cbn [snd C18Proofs.tr_rel].
      split; [exact Htk | exact Hrest].
    - subst e'. split; [reflexivity|]. split; [reflexivity|].
      apply C18Proofs.Forall2_snoc; [exact Hr|]. split; reflexivity.
  Qed.

  Lemma run_nodes_RI ns : forall st st',
    Forall node_good ns -> RI st st' -> opt_RI (run_nodes st ns) (run_nodes st' ns).
  Proof.
    induction ns as [|n rest IH]; intros st st' Hg H; cbn [Build.run_nodes]; [exact H|].
    inversion Hg as [|? ? Hn Hrest]; subst.
    pose proof (run_node_RI st st' n Hn H) as H1.
    destruct (run_node st n) as [a|], (run_node st' n) as [a'|]; cbn [opt_RI] in H1; try contradiction.
    - apply IH; assumption.
    - exact I.
  Qed.

  Lemma upto_RI ns : forall st st', Forall node_good ns -> RI st st' -> RI (upto st ns) (upto st' ns).
  Proof.
    induction ns as [|n rest IH]; intros st st' Hg H; cbn [BuildFacts.upto]; [exact H|].
    inversion Hg as [|? ? Hn Hrest]; subst.
    pose proof (run_node_RI st st' n Hn H) as H1.
    destruct (run_node st n) as [a|], (run_node st' n) as [a'|]; cbn [opt_RI] in H1; try contradiction.
    - apply IH; assumption.
    - exact H.
  Qed.

  (* ---------- the plan ---------- *)

  Lemma plan_nodes_good pack : plan_wf pack -> Forall node_good (p_nodes pack).
  Proof.
    intros Hwf. apply Forall_forall. intros n Hin.
    destruct (in_split _ _ Hin) as (done & rest & E). apply (plan_wf_node pack done n rest Hwf E).
  Qed.

  (* ---------- build after init_dir ---------- *)

  Notation out_rel := (C18Proofs.out_rel T).
  Notation build_from := (C18Proofs.build_from T teqb hc hl hr).

  Lemma build_from_tr (w1 : world) t t' rp goal :
    tbl_held w1 t -> tbl_held w1 t' ->
    out_rel (build_from w1 t rp goal) (build_from (wt w1 x) t' rp goal).
  Proof.
    intros Ht Ht'. unfold C18Proofs.build_from.
    change (get_nodes T (wt w1 x) rp goal) with (get_nodes T w1 rp goal).
    destruct (get_nodes T w1 rp goal) as [pack|f] eqn:Eg.
    2:{ repeat split. }
    cbv zeta.
    pose proof (plan_nodes_good pack (get_nodes_plan_wf T _ _ _ _ Eg)) as Hgood.
    assert (RI (st_leaves T teqb hc w1 t pack) (st_leaves T teqb hc (wt w1 x) t' pack)) as H1.
    { unfold st_leaves. apply run_leaves_RI. unfold RI.
      cbn [rs_world rs_table rs_leaf_sent rs_node_sent rs_results rs_commands].
      split; [reflexivity|]. split; [exact Ht|]. split; [exact Ht'|].
      split; [reflexivity|]. split; [reflexivity|]. split; [reflexivity|]. constructor. }
    pose proof (run_nodes_RI (p_nodes pack) _ _ Hgood H1) as H2.
    pose proof (upto_RI (p_nodes pack) _ _ Hgood H1) as H3.
    destruct (run_nodes (st_leaves T teqb hc w1 t pack) (p_nodes pack)) as [st2|],
             (run_nodes (st_leaves T teqb hc (wt w1 x) t' pack) (p_nodes pack)) as [st2'|];
      cbn [opt_RI] in H2; try contradiction.
    - destruct H2 as (Hw & _ & _ & _ & _ & Hc & Hr).
      assert (C18Proofs.JI T x (joined T teqb hr st2) (joined T teqb hr st2')) as (HJw & HJs & HJe).
      { unfold joined. apply C18Proofs.join_all_JI; [exact Hr|]. unfold C18Proofs.JI.
        cbn [js_world js_status js_errors]. split; [exact Hw|]. split; reflexivity. }
      unfold C18Proofs.out_rel. cbn [o_verdict o_world o_commands o_status]. rewrite HJw, HJs, HJe, Hc.
      repeat split.
    - destruct H3 as (Hw & _ & _ & _ & _ & Hc & _).
      unfold C18Proofs.out_rel. cbn [o_verdict o_world o_commands o_status]. rewrite Hw, Hc. repeat split.
  Qed.

  (* ---------- clean after init_dir ---------- *)

  Notation clean_nodes := (clean_nodes T teqb hc).
  Notation clean_from := (C18Proofs.clean_from T teqb hc).

  Lemma clean_nodes_tr ns : forall (w : world) t t' errs,
    Forall (fun n => NoDup (n_targets n)) ns -> tbl_held w t -> tbl_held w t' ->
    clean_nodes (wt w x) t' ns errs = (wt (fst (clean_nodes w t ns errs)) x, snd (clean_nodes w t ns errs)).
  Proof.
    induction ns as [|n rest IH]; intros w t t' errs Hg Ht Ht'; cbn [Build.clean_nodes]; [reflexivity|].
    inversion Hg as [|? ? Hnd Hrest]; subst.
    destruct (take_blob T hc t (n_targets n)) as [b t1] eqn:E1.
    destruct (take_blob T hc t' (n_targets n)) as [b' t1'] eqn:E2.
    destruct (take_blobs_held _ _ _ _ _ _ _ _ Ht Ht' E1 E2) as (Hb & Ht1 & Ht1' & Hfst & _).
    assert (NoDup (map fst b)) as Hndb by (rewrite Hfst; exact Hnd).
    rewrite (clean_targets_tr b b' w Hndb Hb).
    destruct (clean_targets teqb hc w b) as [w'|e] eqn:Ec.
    - destruct (clean_targets_coarse T teqb hc teqb_spec _ _ _ Hndb (proj1 Hb) Ec) as (Hck & _ & Hsub).
      apply IH; [exact Hrest | |]; eapply (tbl_held_sub T teqb hc); eauto; lia.
    - apply IH; assumption.
  Qed.

  Lemma clean_from_tr (w1 : world) t t' rp goal :
    tbl_held w1 t -> tbl_held w1 t' ->
    out_rel (clean_from w1 t rp goal) (clean_from (wt w1 x) t' rp goal).
  Proof.
    intros Ht Ht'. unfold C18Proofs.clean_from.
    change (get_nodes T (wt w1 x) rp goal) with (get_nodes T w1 rp goal).
    destruct (get_nodes T w1 rp goal) as [pack|f] eqn:Eg.
    2:{ repeat split. }
    assert (Forall (fun n => NoDup (n_targets n)) (p_nodes pack)) as Hg.
    { apply Forall_forall. intros n Hin. destruct (in_split _ _ Hin) as (done & rest & E).
      apply (plan_wf_node pack done n rest (get_nodes_plan_wf T _ _ _ _ Eg) E). }
    rewrite (clean_nodes_tr (p_nodes pack) w1 t t' [] Hg Ht Ht'). cbn [fst snd]. repeat split.
  Qed.

End Sim.

(* ================================================================== *)
(* the whole build, the whole clean                                     *)
(* ================================================================== *)

Section Whole.
  Variable T : Type.
  Variable teqb : T -> T -> bool.
  Variable hc : bytes -> T.
  Variable hl : list T -> T.
  Variable hr : rule -> T.
  Hypothesis teqb_spec : forall a b, teqb a b = true <-> a = b.

  Notation world := (world T).
  Notation tbl_held := (tbl_held teqb hc).
  Notation wt := (C18Proofs.wt T).
  Notation out_rel := (C18Proofs.out_rel T).

  Lemma init_dir_erase (w : world) t :
    rd_table (w_rd w) = Some (SF_ok t) ->
    exists w1, init_dir T w = Ok (w1, t) /\ init_dir T (wt w None) = Ok (wt w1 (Some (SF_ok [])), []) /\
               w_files w1 = w_files w /\ w_clock w1 = w_clock w.
  Proof.
    intro E. unfold init_dir. cbv zeta. change (rd_table (w_rd (wt w None))) with (@None (sf (table T))).
    rewrite E. eexists. split; [reflexivity|]. split; [reflexivity|]. split; reflexivity.
  Qed.

  Lemma tbl_held_nil (w : world) : tbl_held w [].
  Proof. intros q s H. discriminate. Qed.

  Lemma tbl_held_same (w w' : world) t :
    w_files w' = w_files w -> w_clock w' = w_clock w -> tbl_held w t -> tbl_held w' t.
  Proof.
    intros Hf Hc. apply (tbl_held_sub T teqb hc); [lia|]. intro q. left. unfold fget. rewrite Hf. reflexivity.
  Qed.

  Theorem c18_coarse_main (w : world) rp goal :
    coarse_inv teqb hc w ->
    out_rel (build teqb hc hl hr w rp goal) (build teqb hc hl hr (erase_table T w) rp goal).
  Proof.
    intros Hinv. unfold C18Proofs.erase_table.
    destruct (rd_table (w_rd w)) as [[t|]|] eqn:Et; try apply C18Proofs.out_rel_refl.
    destruct (init_dir_erase w t Et) as (w1 & E1 & E2 & Hf & Hc).
    rewrite !C18Proofs.build_eq', E1, E2.
    apply (build_from_tr T teqb hc hl hr teqb_spec).
    - eapply tbl_held_same; eauto. eapply coarse_inv_tbl_held; eauto.
    - apply tbl_held_nil.
  Qed.

  Theorem c18_coarse_clean_main (w : world) rp goal :
    coarse_inv teqb hc w ->
    out_rel (clean teqb hc w rp goal) (clean teqb hc (erase_table T w) rp goal).
  Proof.
    intros Hinv. unfold C18Proofs.erase_table.
    destruct (rd_table (w_rd w)) as [[t|]|] eqn:Et; try apply C18Proofs.out_rel_refl.
    destruct (init_dir_erase w t Et) as (w1 & E1 & E2 & Hf & Hc).
    rewrite !C18Proofs.clean_eq', E1, E2.
    apply (clean_from_tr T teqb hc teqb_spec).
    - eapply tbl_held_same; eauto. eapply coarse_inv_tbl_held; eauto.
    - apply tbl_held_nil.
  Qed.
End Whole.

End C18CoarseProofs.

(* ================================================================== *)
(* ==== RESULTS (K1, K2) ==== *)
(* ================================================================== *)

Section Results.
  Variable T : Type.
  Variable teqb : T -> T -> bool.
  Variable hc : bytes -> T.
  Variable hl : list T -> T.
  Variable hr : rule -> T.
  Hypothesis teqb_spec : forall a b, teqb a b = true <-> a = b.

  (* K1 *)
  Theorem coarse_shortcut_transparent : forall w p st,
    state_ok_at teqb hc w p st ->
    get_file_ticket teqb hc w p st = option_map (fun f => hc (f_content f)) (fget w p).
  Proof. exact (coarse_shortcut_transparent_main T teqb hc). Qed.

  (* K2 *)
  Theorem c18_coarse : forall (w : world T) rp goal,
    coarse_inv teqb hc w ->
    (forall w1 tbl pack, init_dir T w = Ok (w1, tbl) -> get_nodes T w1 rp goal = Ok pack ->
                         Forall node_confined (p_nodes pack)) ->
    let o1 := build teqb hc hl hr w rp goal in
    let o2 := build teqb hc hl hr (erase_table T w) rp goal in
    o_verdict o1 = o_verdict o2 /\ w_files (o_world o1) = w_files (o_world o2) /\
    rd_cache (w_rd (o_world o1)) = rd_cache (w_rd (o_world o2)) /\
    rd_hist (w_rd (o_world o1)) = rd_hist (w_rd (o_world o2)) /\
    o_commands o1 = o_commands o2 /\ o_status o1 = o_status o2.
  Proof. intros w rp goal Hinv _. exact (C18CoarseProofs.c18_coarse_main T teqb hc hl hr teqb_spec w rp goal Hinv). Qed.

  (* the confinement of the commands is not needed for K2 (it is for K3): whatever a command writes outside its
     rule's targets is newer than every remembered state still to be consulted *)
  Theorem c18_coarse_strong : forall (w : world T) rp goal,
    coarse_inv teqb hc w ->
    let o1 := build teqb hc hl hr w rp goal in
    let o2 := build teqb hc hl hr (erase_table T w) rp goal in
    o_verdict o1 = o_verdict o2 /\ w_files (o_world o1) = w_files (o_world o2) /\
    rd_cache (w_rd (o_world o1)) = rd_cache (w_rd (o_world o2)) /\
    rd_hist (w_rd (o_world o1)) = rd_hist (w_rd (o_world o2)) /\
    o_commands o1 = o_commands o2 /\ o_status o1 = o_status o2.
  Proof. exact (C18CoarseProofs.c18_coarse_main T teqb hc hl hr teqb_spec). Qed.

  Theorem c18_coarse_clean : forall (w : world T) rp goal,
    coarse_inv teqb hc w ->
    let o1 := clean teqb hc w rp goal in
    let o2 := clean teqb hc (erase_table T w) rp goal in
    o_verdict o1 = o_verdict o2 /\ w_files (o_world o1) = w_files (o_world o2) /\
    rd_cache (w_rd (o_world o1)) = rd_cache (w_rd (o_world o2)) /\
    rd_hist (w_rd (o_world o1)) = rd_hist (w_rd (o_world o2)) /\
    o_commands o1 = o_commands o2 /\ o_status o1 = o_status o2.
  Proof. exact (C18CoarseProofs.c18_coarse_clean_main T teqb hc teqb_spec). Qed.
End Results.
