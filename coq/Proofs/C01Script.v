(* C01, part 1 (G1): the command mini-language is a function of what it reads.
   - content_at through the primitive file operations;
   - every script line is one of four actions (nothing / gen / chmod / rm);
   - run_script_det    : worlds that agree on sources and targets give the same exit codes and agree afterwards;
   - run_script_below  : a successful run from a world that is "below" another one (same sources, each
                         target either absent or equal) is reproduced by the other world;
   - run_script_frame  : nothing outside the targets changes. *)
From Ruler Require Import Tactics Bytes AList RuleSyntax TopoSort World Cmdlang Work Build Ops Inv
     BuildSpec Ideal BytesFacts InvFacts.
Local Open Scope N_scope.

Lemma bytes_dec (a b : bytes) : {a = b} + {a <> b}.
Proof. apply (list_eq_dec N.eq_dec). Qed.

Lemma in_bytes_dec (a : bytes) (l : list bytes) : {In a l} + {~ In a l}.
Proof. apply (in_dec bytes_dec). Qed.

Section Content.
  Variable T : Type.
  Notation world := (world T).

  Lemma content_at_fget (w : world) p f : fget w p = Some f -> content_at w p = Some (f_content f).
  Proof. unfold content_at. intros ->. reflexivity. Qed.

  Lemma content_at_none (w : world) p : fget w p = None -> content_at w p = None.
  Proof. unfold content_at. intros ->. reflexivity. Qed.

  Lemma content_at_some_inv (w : world) p c :
    content_at w p = Some c -> exists f, fget w p = Some f /\ f_content f = c.
  Proof.
    unfold content_at. destruct (fget w p) as [f|]; cbn; [|discriminate].
    intro H. injection H as <-. eauto.
  Qed.

  Lemma content_at_none_inv (w : world) p : content_at w p = None -> fget w p = None.
  Proof. unfold content_at. destruct (fget w p); cbn; [discriminate | reflexivity]. Qed.

  Lemma content_at_files (w w' : world) : w_files w' = w_files w -> forall p, content_at w' p = content_at w p.
  Proof. intros H p. unfold content_at, fget. rewrite H. reflexivity. Qed.

  (* ---------- write ---------- *)

  Lemma write_file_files (w : world) p c :
    exists t x, w_files (write_file w p c) = ainsert bytes_eqb (w_files w) p (mk_file c t x).
  Proof. unfold write_file, stamp. destruct (w_mode w); cbn; eauto. Qed.

  Lemma content_write_eq (w : world) p c : content_at (write_file w p c) p = Some c.
  Proof.
    destruct (write_file_files w p c) as (t & x & E). unfold content_at, fget. rewrite E.
    rewrite (alookup_ainsert_eq _ bytes_eqb_eq). reflexivity.
  Qed.

  Lemma content_write_neq (w : world) p c q : q <> p -> content_at (write_file w p c) q = content_at w q.
  Proof.
    intro Hne. destruct (write_file_files w p c) as (t & x & E). unfold content_at, fget. rewrite E.
    rewrite (alookup_ainsert_neq _ bytes_eqb_eq _ _ _ _ Hne). reflexivity.
  Qed.

  Lemma write_file_rd (w : world) p c : w_rd (write_file w p c) = w_rd w.
  Proof. unfold write_file, stamp. destruct (w_mode w); reflexivity. Qed.

  (* ---------- remove ---------- *)

  Lemma content_remove_eq (w : world) p : content_at (remove_file w p) p = None.
  Proof. unfold content_at, fget. cbn. rewrite alookup_aremove_eq. reflexivity. Qed.

  Lemma content_remove_neq (w : world) p q : q <> p -> content_at (remove_file w p) q = content_at w q.
  Proof.
    intro Hne. unfold content_at, fget. cbn. rewrite (alookup_aremove_neq _ bytes_eqb_eq _ _ _ Hne). reflexivity.
  Qed.

  (* ---------- chmod ---------- *)

  Lemma content_set_exec (w : world) p x q : content_at (set_exec w p x) q = content_at w q.
  Proof.
    unfold set_exec. destruct (fget w p) as [f|] eqn:Ef; [|reflexivity].
    destruct (bytes_dec q p) as [->|Hne].
    - unfold content_at at 1. unfold fget. cbn. rewrite (alookup_ainsert_eq _ bytes_eqb_eq). cbn.
      rewrite (content_at_fget _ _ _ Ef). reflexivity.
    - unfold content_at, fget. cbn. rewrite (alookup_ainsert_neq _ bytes_eqb_eq _ _ _ _ Hne). reflexivity.
  Qed.

  Lemma set_exec_rd (w : world) p x : w_rd (set_exec w p x) = w_rd w.
  Proof. unfold set_exec. destruct (fget w p); reflexivity. Qed.

  (* ================================================================== *)
  (* script lines as actions                                              *)
  (* ================================================================== *)

  Inductive action :=
  | ANop (code : N)
  | AGen (out : bytes) (pieces : list bytes)
  | AChmod (p : bytes)
  | ARm (p : bytes).

  Definition line_action (line : bytes) : action :=
    match tokens line with
    | [] => ANop 0
    | op :: args =>
        if bytes_eqb op [116; 114; 117; 101] then ANop 0
        else if bytes_eqb op [102; 97; 105; 108] then ANop 1
        else if bytes_eqb op [103; 101; 110] then
          match args with
          | [] => ANop 2
          | out :: pieces => AGen out pieces
          end
        else if bytes_eqb op [99; 104; 109; 111; 100] then
          match args with
          | [p] => AChmod p
          | _ => ANop 2
          end
        else if bytes_eqb op [114; 109] then
          match args with
          | [p] => ARm p
          | _ => ANop 2
          end
        else ANop 127
    end.

  Definition exec (w : world) (a : action) : N * world :=
    match a with
    | ANop c => (c, w)
    | AGen out pieces =>
        match gather w pieces with
        | inl e => (e, w)
        | inr d => (0, write_file w out d)
        end
    | AChmod p => match fget w p with Some _ => (0, set_exec w p true) | None => (1, w) end
    | ARm p => (0, remove_file w p)
    end.

  Lemma run_line_exec (w : world) line : run_line w line = exec w (line_action line).
  Proof.
    unfold run_line, line_action. destruct (tokens line) as [|op args]; [reflexivity|].
    destruct (bytes_eqb op [116; 114; 117; 101]); [reflexivity|].
    destruct (bytes_eqb op [102; 97; 105; 108]); [reflexivity|].
    destruct (bytes_eqb op [103; 101; 110]).
    { destruct args as [|out pieces]; reflexivity. }
    destruct (bytes_eqb op [99; 104; 109; 111; 100]).
    { destruct args as [|p [|q r]]; reflexivity. }
    destruct (bytes_eqb op [114; 109]).
    { destruct args as [|p [|q r]]; reflexivity. }
    reflexivity.
  Qed.

  Definition piece_reads (pieces : list bytes) : list bytes :=
    flat_map (fun p => match p with
                       | c :: body => if c =? AT then [body] else []
                       | [] => []
                       end) pieces.

  Definition action_writes (a : action) : option bytes :=
    match a with
    | ANop _ => None
    | AGen out _ => Some out
    | AChmod p => Some p
    | ARm p => Some p
    end.

  Definition action_reads (a : action) : list bytes :=
    match a with
    | AGen _ pieces => piece_reads pieces
    | _ => []
    end.

  Lemma line_action_writes line p : action_writes (line_action line) = Some p -> line_writes line = Some p.
  Proof.
    unfold line_action, line_writes. destruct (tokens line) as [|op args]; [discriminate|].
    destruct (bytes_eqb op [116; 114; 117; 101]); [discriminate|].
    destruct (bytes_eqb op [102; 97; 105; 108]); [discriminate|].
    destruct (bytes_eqb op [103; 101; 110]).
    { destruct args as [|out pieces]; [discriminate|]. cbn. auto. }
    destruct (bytes_eqb op [99; 104; 109; 111; 100]).
    { destruct args as [|q [|q' r]]; try discriminate. cbn. auto. }
    destruct (bytes_eqb op [114; 109]).
    { destruct args as [|q [|q' r]]; try discriminate. cbn. auto. }
    discriminate.
  Qed.

  Lemma line_action_reads line p : In p (action_reads (line_action line)) -> In p (line_reads line).
  Proof.
    unfold line_action, line_reads. destruct (tokens line) as [|op args]; [intros []|].
    destruct (bytes_eqb op [116; 114; 117; 101]); [intros []|].
    destruct (bytes_eqb op [102; 97; 105; 108]); [intros []|].
    destruct (bytes_eqb op [103; 101; 110]).
    { destruct args as [|out pieces]; [intros []|]. cbn [action_reads]. unfold piece_reads. auto. }
    destruct (bytes_eqb op [99; 104; 109; 111; 100]).
    { destruct args as [|q [|q' r]]; intros []. }
    destruct (bytes_eqb op [114; 109]).
    { destruct args as [|q [|q' r]]; intros []. }
    intros [].
  Qed.

  (* ================================================================== *)
  (* one action                                                           *)
  (* ================================================================== *)

  Definition agree_on (ps : list bytes) (w w' : world) : Prop :=
    forall p, In p ps -> content_at w p = content_at w' p.

  Lemma agree_on_refl ps w : agree_on ps w w.
  Proof. intros p _. reflexivity. Qed.

  Lemma agree_on_sym ps w w' : agree_on ps w w' -> agree_on ps w' w.
  Proof. intros H p Hp. symmetry. auto. Qed.

  Lemma agree_on_trans ps w1 w2 w3 : agree_on ps w1 w2 -> agree_on ps w2 w3 -> agree_on ps w1 w3.
  Proof. intros H1 H2 p Hp. rewrite (H1 p Hp). auto. Qed.

  Lemma gather_agree (w w' : world) pieces :
    agree_on (piece_reads pieces) w w' -> gather w pieces = gather w' pieces.
  Proof.
    induction pieces as [|pc r IH]; intro H; cbn [gather]; [reflexivity|].
    destruct pc as [|c body]; [reflexivity|].
    assert (agree_on (piece_reads r) w w') as Hr.
    { intros p Hp. apply H. unfold piece_reads. cbn [flat_map]. apply in_or_app. right. exact Hp. }
    destruct (c =? AT) eqn:Ec.
    - assert (content_at w body = content_at w' body) as Hb.
      { apply H. unfold piece_reads. cbn [flat_map]. rewrite Ec. left. reflexivity. }
      unfold content_at in Hb. rewrite (IH Hr).
      destruct (fget w body) as [f|], (fget w' body) as [f'|]; cbn in Hb; try discriminate; [|reflexivity].
      injection Hb as ->. reflexivity.
    - rewrite (IH Hr). reflexivity.
  Qed.

  (* nothing outside what the action writes changes *)
  Lemma exec_frame (w : world) a q :
    action_writes a <> Some q -> content_at (snd (exec w a)) q = content_at w q.
  Proof.
    destruct a as [c | out pieces | p | p]; cbn [exec action_writes]; intro Hne.
    - reflexivity.
    - destruct (gather w pieces) as [e|d]; cbn [snd]; [reflexivity|].
      apply content_write_neq. congruence.
    - destruct (fget w p); cbn [snd]; [apply content_set_exec | reflexivity].
    - cbn [snd]. apply content_remove_neq. congruence.
  Qed.

  Lemma exec_rd (w : world) a : w_rd (snd (exec w a)) = w_rd w.
  Proof.
    destruct a as [c | out pieces | p | p]; cbn [exec].
    - reflexivity.
    - destruct (gather w pieces); cbn [snd]; [reflexivity | apply write_file_rd].
    - destruct (fget w p); cbn [snd]; [apply set_exec_rd | reflexivity].
    - reflexivity.
  Qed.

  (* worlds that agree on everything the action reads or writes *)
  Lemma exec_agree (w w' : world) a ps :
    (forall p, action_writes a = Some p -> In p ps) ->
    (forall p, In p (action_reads a) -> In p ps) ->
    agree_on ps w w' ->
    fst (exec w a) = fst (exec w' a) /\ agree_on ps (snd (exec w a)) (snd (exec w' a)).
  Proof.
    intros Hw Hr Hag. destruct a as [c | out pieces | p | p]; cbn [exec action_writes action_reads] in *.
    - split; [reflexivity | exact Hag].
    - assert (gather w pieces = gather w' pieces) as Eg.
      { apply gather_agree. intros p Hp. apply Hag. apply Hr. exact Hp. }
      rewrite <- Eg. destruct (gather w pieces) as [e|d]; cbn [fst snd]; split; auto.
      intros q Hq. destruct (bytes_dec q out) as [->|Hne].
      + rewrite !content_write_eq. reflexivity.
      + rewrite !content_write_neq by exact Hne. auto.
    - assert (content_at w p = content_at w' p) as Hp by (apply Hag; apply Hw; reflexivity).
      unfold content_at in Hp.
      destruct (fget w p) as [f|], (fget w' p) as [f'|]; cbn in Hp; try discriminate; cbn [fst snd].
      + split; [reflexivity|]. intros q Hq. rewrite !content_set_exec. auto.
      + split; [reflexivity | exact Hag].
    - cbn [fst snd]. split; [reflexivity|]. intros q Hq. destruct (bytes_dec q p) as [->|Hne].
      + rewrite !content_remove_eq. reflexivity.
      + rewrite !content_remove_neq by exact Hne. auto.
  Qed.

  (* w is below w': same sources, and each target is absent from w or the same in both *)
  Definition below (srcs tgts : list bytes) (w w' : world) : Prop :=
    agree_on srcs w w' /\
    forall t, In t tgts -> content_at w t = None \/ content_at w t = content_at w' t.

  Lemma agree_below srcs tgts w w' : agree_on (srcs ++ tgts) w w' -> below srcs tgts w w'.
  Proof.
    intro H. split.
    - intros p Hp. apply H. apply in_or_app. left. exact Hp.
    - intros t Ht. right. apply H. apply in_or_app. right. exact Ht.
  Qed.

  Lemma exec_below (w w' : world) a srcs tgts :
    (forall p, action_writes a = Some p -> In p tgts) ->
    (forall p, In p (action_reads a) -> In p srcs) ->
    below srcs tgts w w' ->
    fst (exec w a) = 0 ->
    fst (exec w' a) = 0 /\ below srcs tgts (snd (exec w a)) (snd (exec w' a)).
  Proof.
    intros Hw Hr [Hs Ht] H0. destruct a as [c | out pieces | p | p]; cbn [exec action_writes action_reads] in *.
    - split; [exact H0 | split; assumption].
    - assert (gather w pieces = gather w' pieces) as Eg.
      { apply gather_agree. intros p Hp. apply Hs. apply Hr. exact Hp. }
      rewrite <- Eg. destruct (gather w pieces) as [e|d]; cbn [fst snd] in *.
      + split; [exact H0 | split; assumption].
      + split; [reflexivity|]. split.
        * intros q Hq. destruct (bytes_dec q out) as [->|Hne].
          -- rewrite !content_write_eq. reflexivity.
          -- rewrite !content_write_neq by exact Hne. auto.
        * intros q Hq. destruct (bytes_dec q out) as [->|Hne].
          -- right. rewrite !content_write_eq. reflexivity.
          -- rewrite !content_write_neq by exact Hne. auto.
    - assert (In p tgts) as Hp by (apply Hw; reflexivity).
      destruct (fget w p) as [f|] eqn:Ef; cbn [fst snd] in *; [|lia].
      destruct (Ht p Hp) as [Hn | He].
      + rewrite (content_at_fget _ _ _ Ef) in Hn. discriminate.
      + rewrite (content_at_fget _ _ _ Ef) in He. symmetry in He.
        apply content_at_some_inv in He as (f' & Ef' & _). rewrite Ef'. cbn [fst snd].
        split; [reflexivity|]. split.
        * intros q Hq. rewrite !content_set_exec. auto.
        * intros q Hq. rewrite !content_set_exec. auto.
    - cbn [fst snd]. split; [reflexivity|]. split.
      + intros q Hq. destruct (bytes_dec q p) as [->|Hne].
        * rewrite !content_remove_eq. reflexivity.
        * rewrite !content_remove_neq by exact Hne. auto.
      + intros q Hq. destruct (bytes_dec q p) as [->|Hne].
        * left. apply content_remove_eq.
        * rewrite !content_remove_neq by exact Hne. auto.
  Qed.

  (* ================================================================== *)
  (* whole scripts                                                        *)
  (* ================================================================== *)

  Definition reads_in (srcs : list bytes) (script : list bytes) : Prop :=
    forall line p, In line script -> In p (line_reads line) -> In p srcs.

  Lemma confined_cons tgts l r : confined tgts (l :: r) -> confined tgts r.
  Proof. intros H line p Hin. apply H. right. exact Hin. Qed.

  Lemma reads_in_cons srcs l r : reads_in srcs (l :: r) -> reads_in srcs r.
  Proof. intros H line p Hin. apply H. right. exact Hin. Qed.

  Lemma confined_action tgts l r p :
    confined tgts (l :: r) -> action_writes (line_action l) = Some p -> In p tgts.
  Proof. intros H Hw. apply (H l p); [left; reflexivity | apply line_action_writes; exact Hw]. Qed.

  Lemma reads_in_action srcs l r p :
    reads_in srcs (l :: r) -> In p (action_reads (line_action l)) -> In p srcs.
  Proof. intros H Hr. apply (H l p); [left; reflexivity | apply line_action_reads; exact Hr]. Qed.

  Lemma run_script_cons (w : world) l r :
    run_script w (l :: r) =
    (fst (run_line w l) :: fst (run_script (snd (run_line w l)) r),
     snd (run_script (snd (run_line w l)) r)).
  Proof.
    cbn [run_script]. destruct (run_line w l) as [code w1]. cbn [fst snd].
    destruct (run_script w1 r) as [codes w2]. reflexivity.
  Qed.

  (* frame: a confined script changes nothing outside its targets *)
  Theorem run_script_frame tgts script : forall (w : world) q,
    confined tgts script -> ~ In q tgts ->
    content_at (snd (run_script w script)) q = content_at w q.
  Proof.
    induction script as [|l r IH]; intros w q Hc Hq; [reflexivity|].
    rewrite run_script_cons. cbn [snd]. rewrite (IH _ _ (confined_cons _ _ _ Hc) Hq).
    rewrite run_line_exec. apply exec_frame. intro Hw. apply Hq. eapply confined_action; eauto.
  Qed.

  Lemma run_script_rd script : forall (w : world), w_rd (snd (run_script w script)) = w_rd w.
  Proof.
    induction script as [|l r IH]; intros w; [reflexivity|].
    rewrite run_script_cons. cbn [snd]. rewrite IH. rewrite run_line_exec. apply exec_rd.
  Qed.

  (* G1, symmetric form: same content at every source and target before -> same exit codes, and same
     content at every source and target afterwards *)
  Theorem run_script_det srcs tgts script : forall (w w' : world),
    confined tgts script -> reads_in srcs script ->
    agree_on (srcs ++ tgts) w w' ->
    fst (run_script w script) = fst (run_script w' script) /\
    agree_on (srcs ++ tgts) (snd (run_script w script)) (snd (run_script w' script)).
  Proof.
    induction script as [|l r IH]; intros w w' Hc Hr Hag.
    - cbn. split; [reflexivity | exact Hag].
    - rewrite !run_script_cons. cbn [fst snd]. rewrite !run_line_exec.
      destruct (exec_agree w w' (line_action l) (srcs ++ tgts)) as [E1 Hag1].
      + intros p Hp. apply in_or_app. right. eapply confined_action; eauto.
      + intros p Hp. apply in_or_app. left. eapply reads_in_action; eauto.
      + exact Hag.
      + destruct (IH _ _ (confined_cons _ _ _ Hc) (reads_in_cons _ _ _ Hr) Hag1) as [E2 Hag2].
        split; [congruence | exact Hag2].
  Qed.

  (* G1, one-sided form: a run in which every line succeeds is reproduced by every world above *)
  Theorem run_script_below srcs tgts script : forall (w w' : world),
    confined tgts script -> reads_in srcs script ->
    below srcs tgts w w' ->
    forallb (fun c => c =? 0) (fst (run_script w script)) = true ->
    fst (run_script w' script) = fst (run_script w script) /\
    below srcs tgts (snd (run_script w script)) (snd (run_script w' script)).
  Proof.
    induction script as [|l r IH]; intros w w' Hc Hr Hb H0.
    - cbn. split; [reflexivity | exact Hb].
    - rewrite !run_script_cons in *. cbn [fst snd forallb] in *. rewrite !run_line_exec in *.
      apply andb_true_iff in H0 as [H0 H1].
      destruct (exec_below w w' (line_action l) srcs tgts) as [E1 Hb1].
      + intros p Hp. eapply confined_action; eauto.
      + intros p Hp. eapply reads_in_action; eauto.
      + exact Hb.
      + lia.
      + destruct (IH _ _ (confined_cons _ _ _ Hc) (reads_in_cons _ _ _ Hr) Hb1 H1) as [E2 Hb2].
        split; [|exact Hb2]. rewrite E1, E2. f_equal. lia.
  Qed.

  (* a target that a run from below leaves present is the same above *)
  Lemma below_present srcs tgts (w w' : world) t c :
    below srcs tgts w w' -> In t tgts -> content_at w t = Some c -> content_at w' t = Some c.
  Proof.
    intros [_ H] Ht Hc. destruct (H t Ht) as [Hn | He]; [congruence|]. congruence.
  Qed.
End Content.

Arguments agree_on {T}.
Arguments below {T}.
