(* C02, history level, part 2 (A2): repeating a successful build with nothing changed runs no command and
   modifies no file outside the ruler directory.  hist_sound is NOT assumed: the proof only uses what the
   first build itself wrote into the history (first_build_settled) and what a build does in a world where
   every rule has an entry for the present sources that remembers the present targets (settled_build_noop). *)
From Coq Require Import Relations.Relation_Operators Relations.Operators_Properties.
From Ruler Require Import Tactics Bytes AList RuleSyntax Parser TopoSort TopoSpec World Cmdlang Work Build Ops Inv
     BuildSpec Ideal BytesFacts InvFacts TopoSortFacts BuildFacts C01Script C01Hist C01Build C01Plan C02Extra
     C11Facts C02Hist.
Local Open Scope N_scope.

(* ================================================================== *)
(* what the plan of a build is                                          *)
(* ================================================================== *)

Lemma get_nodes_plan_ok T (w : world T) rp goal pack :
  get_nodes T w rp goal = Ok pack ->
  exists rs, Forall (fun r => r_targets r <> []) rs /\ plan_ok rs goal pack.
Proof.
  intro H. apply get_nodes_inv in H as (f & rs & _ & Hp & Ht).
  assert (Forall (fun r => r_targets r <> []) rs) as Hne by (eapply parse_targets_nonempty; eauto).
  exists rs. split; [exact Hne|]. apply c12_plan_correct; assumption.
Qed.

Lemma get_nodes_rules_nodup T (w : world T) rp goal pack :
  get_nodes T w rp goal = Ok pack -> NoDup (map n_rule (p_nodes pack)).
Proof. intro H. apply get_nodes_plan_ok in H as (rs & _ & Hok). apply Hok. Qed.

Lemma get_nodes_targets_ne T (w : world T) rp goal pack :
  get_nodes T w rp goal = Ok pack -> forall n, In n (p_nodes pack) -> n_targets n <> [].
Proof.
  intro H. apply get_nodes_plan_ok in H as (rs & Hne & (_ & Hscope & Hnode & _)). intros n Hn.
  destruct (proj1 (Hscope (n_rule n))) as (r & Hsc & E); [apply in_map; exact Hn|].
  apply In_nth_error in Hn as (j & Hj). destruct (Hnode j n Hj) as (Htg & _).
  apply in_scope_in in Hsc. rewrite Forall_forall in Hne. specialize (Hne r Hsc).
  rewrite Htg, E. destruct (r_targets r) as [|x xs] eqn:Er; [contradiction|].
  intro X. assert (In x (r_targets (canon_rule r))) as Hx by (apply canon_targets_in; rewrite Er; left; reflexivity).
  rewrite X in Hx. destruct Hx.
Qed.

(* the plan depends on the content of the rules file only *)
Lemma get_nodes_content T (w w' : world T) rp goal :
  content_at w' rp = content_at w rp -> get_nodes T w' rp goal = get_nodes T w rp goal.
Proof.
  unfold get_nodes, content_at. destruct (fget w' rp) as [f'|], (fget w rp) as [f|]; cbn [option_map];
    intro H; try discriminate; [|reflexivity]. injection H as ->. reflexivity.
Qed.

Lemma fget_content T (w w' : world T) p : fget w' p = fget w p -> content_at w' p = content_at w p.
Proof. unfold content_at. intros ->. reflexivity. Qed.

Lemma Forall2_in_r {A B} (R : A -> B -> Prop) l m b :
  Forall2 R l m -> In b m -> exists a, In a l /\ R a b.
Proof.
  induction 1 as [|x y l m Hxy _ IH]; intros Hin; [destruct Hin|].
  destruct Hin as [<- | Hin].
  - exists x. split; [left; reflexivity | exact Hxy].
  - destruct (IH Hin) as (a & Ha & HR). exists a. split; [right; exact Ha | exact HR].
Qed.

Section Repeat.
  Variable T : Type.
  Variable teqb : T -> T -> bool.
  Variable hc : bytes -> T.
  Variable hl : list T -> T.
  Variable hr : rule -> T.
  Hypothesis teqb_spec : forall a b, teqb a b = true <-> a = b.
  Hypothesis hr_inj : forall a b, hr a = hr b -> a = b.

  Notation world := (world T).
  Notation fstate := (fstate T).
  Notation state_ok := (state_ok teqb hc).
  Notation disk_inv := (disk_inv teqb hc).
  Notation steps := (clos_refl_trans world (step teqb hc)).
  Notation blob_ok := (InvProofs.blob_ok T teqb hc).
  Notation tbl_ok := (InvProofs.tbl_ok T teqb hc).
  Notation has_hash := (has_hash T hc).
  Notation rs_inv := (InvProofs.rs_inv T teqb hc).
  Notation leaf_ok := (leaf_ok T hc).
  Notation sent_ok := (sent_ok T hc).
  Notation has_err := (has_err T).
  Notation all_sent := (all_sent T).
  Notation gft := (get_file_ticket teqb hc).
  Notation run_node := (run_node T teqb hc hl hr).
  Notation run_nodes := (run_nodes T teqb hc hl hr).
  Notation run_leaf := (run_leaf T teqb hc).
  Notation join_one := (join_one T teqb hr).
  Notation build := (build teqb hc hl hr).
  Notation hist_of := (hist_of T).
  Notation hist_at := (hist_at T teqb).

  (* ================================================================== *)
  (* definitions                                                          *)
  (* ================================================================== *)

  (* history h of node n has an entry for the sources as they are in wc, which remembers the targets as
     they are in wc *)
  Definition node_rec (wc : world) (n : node) (h : history T) : Prop :=
    exists tickets rem,
      Forall2 (has_hash wc) (r_sources (n_rule n)) tickets /\
      alookup teqb h (hl tickets) = Some rem /\
      Forall2p (fun t o => has_hash wc t (fs_t o)) (n_targets n) rem.

  (* every leaf exists; the ruler directory is complete; every rule of the plan has such a history *)
  Definition settled (w2 : world) (pack : node_pack) : Prop :=
    (forall l, In l (p_leaves pack) -> content_at w2 l <> None) /\
    exists c hs t,
      rd_cache (w_rd w2) = Some c /\ rd_hist (w_rd w2) = Some hs /\ rd_table (w_rd w2) = Some (SF_ok t) /\
      forall n, In n (p_nodes pack) ->
        exists h, alookup teqb hs (hr (n_rule n)) = Some (SF_ok h) /\ node_rec w2 n h.

  Lemma node_rec_transport (wc w' : world) n h :
    (forall q, In q (r_sources (n_rule n)) \/ In q (n_targets n) -> content_at w' q = content_at wc q) ->
    node_rec wc n h -> node_rec w' n h.
  Proof.
    intros E (tickets & rem & H1 & H2 & H3). exists tickets, rem. split; [|split; [exact H2|]].
    - eapply Forall2_impl_in; [|exact H1]. intros s t Hs Hh. cbn in *.
      eapply has_hash_content; [|exact Hh]. apply E. left. exact Hs.
    - eapply Forall2p_impl; [|exact H3]. intros t o Ht Hh. cbn in *.
      eapply has_hash_content; [|exact Hh]. apply E. right. exact Ht.
  Qed.

  Lemma settled_same (w w' : world) pack :
    w_files w' = w_files w -> w_rd w' = w_rd w -> settled w pack -> settled w' pack.
  Proof.
    intros Hf Hrd (Hl & c & hs & t & Hc & Hh & Ht & Hn).
    pose proof (content_at_files T w w' Hf) as Hca.
    split; [intros l Hin; rewrite Hca; apply Hl; exact Hin|].
    exists c, hs, t. rewrite Hrd. repeat (split; [assumption|]).
    intros n Hin. destruct (Hn n Hin) as (h & Hlk & Hrec). exists h. split; [exact Hlk|].
    eapply node_rec_transport; [|exact Hrec]. intros q _. apply Hca.
  Qed.

  (* a thread result that is a success and prints only "up to date" lines (none at all for a leaf) *)
  Definition quiet_res (res : option rule * thread_result T) : Prop :=
    exists wr, snd res = TOk wr /\ Forall (fun s => fst s = BUpToDate) (status_lines T wr).

  (* ================================================================== *)
  (* the leaves (either build)                                            *)
  (* ================================================================== *)

  Record leaves_inv (w1 : world) (ldone : list bytes) (st : run_state T) : Prop := mk_leaves_inv {
    li_world : rs_world T st = w1;
    li_tbl : tbl_ok w1 (rs_table T st);
    li_nodes : rs_node_sent T st = [];
    li_cmds : rs_commands T st = [];
    li_leaf : Forall2 (leaf_ok w1) ldone (rs_leaf_sent T st);
    li_fst : Forall (fun x => fst x = None) (rs_results T st);
    li_err : has_err (rs_results T st) \/ all_sent (rs_leaf_sent T st);
    li_quiet : (forall l, In l ldone -> content_at w1 l <> None) ->
               all_sent (rs_leaf_sent T st) /\ Forall quiet_res (rs_results T st)
  }.

  Lemma run_leaf_inv1 (w1 : world) ldone st leaf :
    disk_inv w1 -> leaves_inv w1 ldone st -> leaves_inv w1 (ldone ++ [leaf]) (run_leaf st leaf).
  Proof.
    intros Hinv [Hw Htbl Hn Hc Hleaf Hfst Herr Hq]. unfold Build.run_leaf.
    destruct (take_blob T hc (rs_table T st) [leaf]) as [b t'] eqn:Etb.
    pose proof (C01Build.take_blob_fst T hc _ _ _ _ Etb) as Hb1.
    assert (clock_ok teqb w1) as Hk by apply Hinv.
    destruct (InvProofs.take_blob_ok T teqb hc teqb_spec _ _ _ _ _ Htbl Etb) as [Hb Ht'].
    destruct b as [|[p a] [|x b']]; cbn [map fst] in Hb1; try discriminate. injection Hb1 as ->.
    assert (state_ok w1 a) as Ha by (apply (Hb leaf a); left; reflexivity).
    unfold handle_leaf. cbn [current_tickets]. rewrite Hw.
    destruct (gft w1 leaf a) as [t|] eqn:Eg.
    - pose proof (gft_hash T teqb hc _ _ _ _ Ha Eg) as (c & Hcc & ->).
      constructor; cbn [rs_world rs_table rs_leaf_sent rs_node_sent rs_results rs_commands wr_tickets]; auto.
      + apply Forall2_app; [exact Hleaf|]. constructor; [|constructor]. exists c. auto.
      + apply Forall_app. split; [exact Hfst|]. constructor; [reflexivity | constructor].
      + destruct Herr as [He | Hl]; [left; apply has_err_app; exact He|].
        right. apply all_sent_app; [exact Hl | discriminate].
      + intro Hex. destruct Hq as [Q1 Q2]; [intros l Hl; apply Hex; apply in_or_app; left; exact Hl|].
        split; [apply all_sent_app; [exact Q1 | discriminate]|].
        apply Forall_app. split; [exact Q2|]. constructor; [|constructor].
        eexists. split; [reflexivity|]. constructor.
    - constructor; cbn [rs_world rs_table rs_leaf_sent rs_node_sent rs_results rs_commands]; auto.
      + apply Forall2_app; [exact Hleaf|]. constructor; [exact I | constructor].
      + apply Forall_app. split; [exact Hfst|]. constructor; [reflexivity | constructor].
      + left. exists None, (WFileNotFound leaf). apply in_or_app. right. left. reflexivity.
      + intro Hex. exfalso. apply (Hex leaf); [apply in_or_app; right; left; reflexivity|].
        eapply gft_none; eauto.
  Qed.

  Lemma run_leaves_inv1 (w1 : world) leaves : forall ldone st,
    disk_inv w1 -> leaves_inv w1 ldone st ->
    leaves_inv w1 (ldone ++ leaves) (fold_left run_leaf leaves st).
  Proof.
    induction leaves as [|l leaves IH]; intros ldone st Hinv Hg; cbn [fold_left].
    - rewrite app_nil_r. exact Hg.
    - replace (ldone ++ l :: leaves) with ((ldone ++ [l]) ++ leaves) by (rewrite <- app_assoc; reflexivity).
      apply IH; [exact Hinv|]. apply run_leaf_inv1; auto.
  Qed.

  Lemma st_leaves_inv1 (w1 : world) tbl pack :
    disk_inv w1 -> tbl_ok w1 tbl -> leaves_inv w1 (p_leaves pack) (st_leaves T teqb hc w1 tbl pack).
  Proof.
    intros Hinv Ht. apply (run_leaves_inv1 w1 (p_leaves pack) [] _ Hinv).
    constructor; cbn; auto. right. constructor. intros _. split; constructor.
  Qed.

  (* ================================================================== *)
  (* the first build: what it records                                     *)
  (* ================================================================== *)

  (* h keeps every entry of the history file that rule n had in w *)
  Definition grows_from (w : world) (n : node) (h : history T) : Prop :=
    forall h0 k v, hist_at w (hr (n_rule n)) = Some (SF_ok h0) ->
                   alookup teqb h0 k = Some v -> alookup teqb h k = Some v.

  Definition node_res (w wc : world) (n : node) (res : option rule * thread_result T) : Prop :=
    fst res = Some (n_rule n) /\
    match snd res with
    | TOk wr => exists h, wr_history wr = Some h /\ node_rec wc n h /\ grows_from w n h
    | _ => True
    end.

  Lemma read_history_hist_at (w : world) r h0 :
    hist_at w (hr r) = Some (SF_ok h0) -> read_history T teqb hr w r = Some h0.
  Proof.
    unfold BuildFacts.hist_at, BuildFacts.hist_of, read_history.
    destruct (rd_hist (w_rd w)) as [hs|]; [|discriminate]. intros ->. reflexivity.
  Qed.

  Definition res_is_ok (res : option rule * thread_result T) : Prop := exists wr, snd res = TOk wr.

  Record good1 (w : world) (pack : node_pack) (done : list node) (st : run_state T) : Prop := mk_good1 {
    g1_rs : rs_inv w st;
    g1_cache : cache_of (rs_world T st) <> None;
    g1_hist : forall k, hist_at (rs_world T st) k = hist_at w k;
    g1_frame : forall p, ~ In p (plan_targets pack) -> content_at (rs_world T st) p = content_at w p;
    g1_leaf : Forall2 (leaf_ok (rs_world T st)) (p_leaves pack) (rs_leaf_sent T st);
    g1_sent : Forall2 (sent_ok (rs_world T st) (rs_world T st)) done (rs_node_sent T st);
    g1_res : exists lr nres,
        rs_results T st = lr ++ nres /\ Forall (fun x => fst x = None) lr /\
        Forall2 (node_res w (rs_world T st)) done nres /\
        (has_err (rs_results T st) \/
         (all_sent (rs_leaf_sent T st) /\ all_sent (rs_node_sent T st) /\ Forall res_is_ok nres))
  }.

  Lemma ruler_step_cache (w w' : world) : ruler_step T teqb hc w w' -> cache_of w <> None -> cache_of w' <> None.
  Proof.
    intros [w0 p a t w1 H1 H2 H3 | w0 t p w1 H | w0 p c | w0 p | w0 p x | w0 tbl H | w0 hr0 r h
           | w0 w1 tbl H | w0] Hc.
    - apply back_up_spec in H3 as (c & f & _ & _ & ->). cbn. discriminate.
    - apply restore_spec in H as (c & f & _ & _ & ->). cbn. discriminate.
    - unfold cache_of. rewrite (InvProofs.write_file_rd T). exact Hc.
    - exact Hc.
    - unfold cache_of. rewrite (InvProofs.set_exec_rd T). exact Hc.
    - exact Hc.
    - unfold cache_of, write_history. destruct (rd_hist (w_rd w0)); exact Hc.
    - apply (init_dir_ok T teqb) in H. apply H.
    - exact Hc.
  Qed.

  Lemma rsteps_cache (w w' : world) :
    clos_refl_trans world (ruler_step T teqb hc) w w' -> cache_of w <> None -> cache_of w' <> None.
  Proof.
    induction 1 as [x y H | x | x y z _ IH1 _ IH2]; intro Hc; auto. eapply ruler_step_cache; eauto.
  Qed.

  Lemma frame_content (ps : list bytes) (w w' : world) :
    frame_at T ps w w' -> forall q, ~ In q ps -> content_at w' q = content_at w q.
  Proof. intros [_ F] q Hq. apply fget_content. apply F. exact Hq. Qed.

  Lemma run_node_good1 (w : world) pack done n rest st st' :
    disk_inv w -> plan_wf pack -> Forall node_confined (p_nodes pack) ->
    (forall n0, In n0 (p_nodes pack) -> n_targets n0 <> []) ->
    p_nodes pack = done ++ n :: rest ->
    good1 w pack done st -> run_node st n = Some st' -> good1 w pack (done ++ [n]) st'.
  Proof.
    intros Hinv0 Hwf Hconf Hne E [Hrs Hcache Hhist0 Hframe Hleaf Hsent Hres] Hrun.
    pose proof (InvProofs.run_node_inv T teqb hc teqb_spec hl hr w st n st' Hinv0 Hrs Hrun) as Hrs'.
    destruct Hrs as (Hsteps & Htbl & Hresok).
    set (wc := rs_world T st) in *.
    pose proof (inv_steps T teqb hc teqb_spec _ _ Hinv0 Hsteps) as Hinv.
    assert (In n (p_nodes pack)) as Hnin by (rewrite E; apply in_or_app; right; left; reflexivity).
    assert (node_confined n) as Hcn by (rewrite Forall_forall in Hconf; apply Hconf; exact Hnin).
    destruct (plan_wf_node _ _ _ _ Hwf E) as [Hnd Hdis].
    pose proof (plan_wf_self _ _ _ _ Hwf E) as Hself.
    assert (nth_error (p_nodes pack) (length done) = Some n) as Hnth.
    { rewrite E. rewrite nth_error_app2 by lia. rewrite Nat.sub_diag. reflexivity. }
    pose proof Hwf as (_ & Hleafnt & Hbind). pose proof (Hbind _ _ Hnth) as Hbindn.
    assert (forall i, (i < length done)%nat -> nth_error (p_nodes pack) i = nth_error done i) as Hdone.
    { intros i Hi. rewrite E. apply nth_error_app1. exact Hi. }
    (* a source of an earlier node is not a target of this one *)
    assert (forall n0 s, In n0 done -> In s (r_sources (n_rule n0)) -> ~ In s (n_targets n)) as Hsrc.
    { intros n0 s Hn0 Hs Ht. apply In_nth_error in Hn0 as (j & Hj).
      assert (j < length done)%nat as Hjlt by (apply nth_error_Some; congruence).
      assert (nth_error (p_nodes pack) j = Some n0) as Hj' by (rewrite (Hdone j Hjlt); exact Hj).
      destruct (Forall2_in_l _ _ _ _ (Hbind _ _ Hj') Hs) as (bd & _ & Hb).
      destruct bd as [i | i sub]; cbn [bind_ok] in Hb.
      - apply (Hleafnt s); [eapply nth_error_In; eauto|]. eapply node_targets_in_plan; eauto.
      - destruct Hb as (Hlt & n' & Hn' & Hsub).
        assert (i < length done)%nat as Hilt by lia. rewrite (Hdone i Hilt) in Hn'.
        apply (Hdis n' s); [eapply nth_error_In; eauto | eapply nth_error_In; eauto | exact Ht]. }
    (* whatever the thread does, provided it stays within the node's targets *)
    assert (forall w' : world,
              (forall q, ~ In q (n_targets n) -> content_at w' q = content_at wc q) ->
              (forall p, ~ In p (plan_targets pack) -> content_at w' p = content_at w p) /\
              Forall2 (leaf_ok w') (p_leaves pack) (rs_leaf_sent T st) /\
              Forall2 (sent_ok w' w') done (rs_node_sent T st) /\
              (forall nres, Forall2 (node_res w wc) done nres -> Forall2 (node_res w w') done nres) /\
              (forall tickets, Forall2 (has_hash wc) (r_sources (n_rule n)) tickets ->
                               Forall2 (has_hash w') (r_sources (n_rule n)) tickets)) as Htransport.
    { intros w' F. split; [|split; [|split; [|split]]].
      - intros p Hp. rewrite F; [apply Hframe; exact Hp|].
        intro X. apply Hp. eapply node_targets_in_plan; eauto.
      - eapply leaf_ok_transport; [|exact Hleaf]. intros l Hl. apply F.
        intro X. apply (Hleafnt l Hl). eapply node_targets_in_plan; eauto.
      - eapply sent_ok_transport; [| |exact Hsent].
        + intros n' t Hn' Ht. apply F. eapply Hdis; eauto.
        + intros n' t Hn' Ht. apply F. eapply Hdis; eauto.
      - intros nres Hn. eapply Forall2_impl_in; [|exact Hn]. intros n0 res Hn0 [H1 H2]. split; [exact H1|].
        destruct (snd res) as [wr|e|]; auto. destruct H2 as (h & Hh & Hrec & Hgr). exists h. split; [exact Hh|].
        split; [|exact Hgr].
        eapply node_rec_transport; [|exact Hrec]. intros q [Hq | Hq]; apply F.
        + eapply Hsrc; eauto.
        + eapply Hdis; eauto.
      - intros tickets Htk. eapply Forall2_impl_in; [|exact Htk]. intros s t Hs Hh. cbn in *.
        eapply has_hash_content; [|exact Hh]. apply F. apply Hself. exact Hs. }
    destruct Hres as (lr & nres & Eres & Hlr & Hnres & Herr).
    revert Hrun. unfold Build.run_node.
    destruct (take_blob T hc (rs_table T st) (n_targets n)) as [b t'] eqn:Etb.
    pose proof (C01Build.take_blob_fst T hc _ _ _ _ Etb) as Hfst.
    assert (clock_ok teqb wc) as Hk by apply Hinv.
    destruct (InvProofs.take_blob_ok T teqb hc teqb_spec _ _ _ _ _ Htbl Etb) as [Hb _].
    fold wc.
    destruct (read_history T teqb hr wc (n_rule n)) as [h|] eqn:Erh; [|discriminate].
    destruct (all_some (map (received T (rs_leaf_sent T st) (rs_node_sent T st)) (n_source_indices n)))
      as [tickets|] eqn:Eall.
    - (* the node runs *)
      destruct (received_spec T hc pack done wc wc _ _ Hdone Hleaf Hsent (fun l _ => eq_refl) _ _ Hbindn _ Eall)
        as [Htk _].
      destruct (handle_rule teqb hc wc b h (hl tickets) (n_command n)) as [[res w'] script] eqn:Ehr.
      assert (confined (map fst b) (script_lines (n_command n))) as Hcb by (rewrite Hfst; exact Hcn).
      pose proof (frame_content _ _ _ (BuildFacts.handle_rule_frame T teqb hc _ _ _ _ _ _ _ _ Ehr Hcb)) as F.
      rewrite Hfst in F. destruct (Htransport w' F) as (T1 & T2 & T3 & T4 & T5).
      assert (cache_of w' <> None) as Hcache'.
      { eapply rsteps_cache; [|exact Hcache]. eapply handle_rule_rsteps; eauto. }
      assert (forall k, hist_at w' k = hist_at w k) as Hhist'.
      { intro k. rewrite <- (Hhist0 k). apply hist_at_of. eapply handle_rule_hist; eauto. }
      destruct res as [wr|e]; intro H; injection H as <-;
        cbn [rs_world rs_table rs_leaf_sent rs_node_sent rs_results rs_commands] in *.
      + assert (b <> []) as Hbne.
        { intro X. subst b. cbn in Hfst. apply (Hne n Hnin). congruence. }
        rewrite <- Hfst in Hnd.
        destruct (handle_rule_records T teqb hc teqb_spec _ _ _ _ _ _ _ _ Hinv Hb Hnd Hbne Ehr)
          as (R1 & h' & rem & R2 & R3 & R4).
        rewrite Hfst in R1, R4.
        constructor; cbn [rs_world rs_table rs_leaf_sent rs_node_sent rs_results rs_commands].
        * exact Hrs'.
        * exact Hcache'.
        * exact Hhist'.
        * exact T1.
        * exact T2.
        * apply Forall2_app; [exact T3|]. constructor; [|constructor]. cbn [C01Build.sent_ok].
          split; [exact R1 | reflexivity].
        * exists lr, (nres ++ [(Some (n_rule n), TOk wr)]). split; [rewrite Eres, app_assoc; reflexivity|].
          split; [exact Hlr|]. split.
          -- apply Forall2_app; [apply T4; exact Hnres|]. constructor; [|constructor].
             split; [reflexivity|]. cbn [snd]. exists h'. split; [exact R2|]. split.
             ++ exists tickets, rem. split; [apply T5; exact Htk|]. split; [exact R3 | exact R4].
             ++ destruct (handle_rule_history_grows T teqb hc teqb_spec _ _ _ _ _ _ _ _ Ehr) as (h'' & G1 & G2).
                rewrite R2 in G1. injection G1 as <-.
                intros h0 k0 v0 H0 Hk0. apply G2. rewrite <- (Hhist0 (hr (n_rule n))) in H0.
                apply read_history_hist_at in H0. fold wc in H0. rewrite Erh in H0. injection H0 as ->. exact Hk0.
          -- destruct Herr as [He | (Hl & Hn & Hok)]; [left; apply has_err_app; exact He|].
             right. split; [exact Hl|]. split; [apply all_sent_app; [exact Hn | discriminate]|].
             apply Forall_app. split; [exact Hok|]. constructor; [|constructor]. exists wr. reflexivity.
      + constructor; cbn [rs_world rs_table rs_leaf_sent rs_node_sent rs_results rs_commands].
        * exact Hrs'.
        * exact Hcache'.
        * exact Hhist'.
        * exact T1.
        * exact T2.
        * apply Forall2_app; [exact T3|]. constructor; [exact I | constructor].
        * exists lr, (nres ++ [(Some (n_rule n), TErr e)]). split; [rewrite Eres, app_assoc; reflexivity|].
          split; [exact Hlr|]. split.
          -- apply Forall2_app; [apply T4; exact Hnres|]. constructor; [|constructor]. split; [reflexivity | exact I].
          -- left. exists (Some (n_rule n)), e. apply in_or_app. right. left. reflexivity.
    - (* cancelled: some error upstream *)
      intro H. injection H as <-.
      constructor; cbn [rs_world rs_table rs_leaf_sent rs_node_sent rs_results rs_commands]; fold wc.
      + exact Hrs'.
      + exact Hcache.
      + exact Hhist0.
      + exact Hframe.
      + exact Hleaf.
      + apply Forall2_app; [exact Hsent|]. constructor; [exact I | constructor].
      + exists lr, (nres ++ [(Some (n_rule n), TCanceled)]). split; [rewrite Eres, app_assoc; reflexivity|].
        split; [exact Hlr|]. split.
        * apply Forall2_app; [exact Hnres|]. constructor; [|constructor]. split; [reflexivity | exact I].
        * destruct Herr as [He | (Hl & Hn & _)]; [left; apply has_err_app; exact He|].
          exfalso. eapply (received_total T hc pack done wc wc); eauto.
  Qed.

  Lemma run_nodes_good1 (w : world) pack :
    disk_inv w -> plan_wf pack -> Forall node_confined (p_nodes pack) ->
    (forall n0, In n0 (p_nodes pack) -> n_targets n0 <> []) ->
    forall rest done st st',
      p_nodes pack = done ++ rest -> good1 w pack done st ->
      run_nodes st rest = Some st' -> good1 w pack (p_nodes pack) st'.
  Proof.
    intros Hinv Hwf Hconf Hne. induction rest as [|n rest IH]; intros done st st' E Hg; cbn [Build.run_nodes].
    - intro H. injection H as <-. rewrite E, app_nil_r. exact Hg.
    - destruct (run_node st n) as [st1|] eqn:E1; [|discriminate].
      intro H. apply (IH (done ++ [n]) st1 st'); [rewrite <- app_assoc; exact E | | exact H].
      eapply run_node_good1; eauto.
  Qed.

  (* ---------- the leaves of the first build ---------- *)

  Lemma leaves_good1 (w w1 : world) tbl pack :
    disk_inv w -> init_dir T w = Ok (w1, tbl) -> good1 w pack [] (st_leaves T teqb hc w1 tbl pack).
  Proof.
    intros Hinv Hi.
    destruct (InvProofs.init_dir_rs_inv T teqb hc teqb_spec _ _ _ Hinv Hi) as [Hs1 Ht1].
    pose proof (inv_steps T teqb hc teqb_spec _ _ Hinv Hs1) as Hinv1.
    destruct (init_dir_ok T teqb _ _ _ Hi) as (Hfiles & Hhk & Hc1 & _).
    destruct (st_leaves_inv1 w1 tbl pack Hinv1 Ht1) as [Hw Htbl Hn Hc Hleaf Hfst Herr _].
    constructor.
    - apply (InvProofs.run_leaves_inv T teqb hc teqb_spec w (p_leaves pack) _ Hinv).
      split; [exact Hs1|]. split; [exact Ht1|]. intros r wr [].
    - rewrite Hw. exact Hc1.
    - rewrite Hw. exact Hhk.
    - intros p _. rewrite Hw. apply content_at_files. exact Hfiles.
    - rewrite Hw. exact Hleaf.
    - rewrite Hn. constructor.
    - exists (rs_results T (st_leaves T teqb hc w1 tbl pack)), []. split; [rewrite app_nil_r; reflexivity|].
      split; [exact Hfst|]. split; [constructor|].
      destruct Herr as [He | Hl]; [left; exact He|]. right. split; [exact Hl|]. rewrite Hn. split; constructor.
  Qed.

  (* ---------- main's join loop ---------- *)

  Lemma join_one_cache js res : cache_of (js_world T (join_one js res)) = cache_of (js_world T js).
  Proof.
    unfold Build.join_one. destruct (snd res) as [wr|e|]; cbn [js_world]; try reflexivity.
    destruct (fst res) as [r|]; [|reflexivity]. destruct (wr_history wr) as [h|]; [|reflexivity].
    unfold write_history, cache_of. destruct (rd_hist (w_rd (js_world T js))); reflexivity.
  Qed.

  Lemma join_all_cache results : forall js,
    cache_of (js_world T (fold_left join_one results js)) = cache_of (js_world T js).
  Proof.
    induction results as [|res rest IH]; intro js; cbn [fold_left]; [reflexivity|].
    rewrite IH. apply join_one_cache.
  Qed.

  Lemma join_one_hist_some js res :
    hist_of (js_world T js) <> None -> hist_of (js_world T (join_one js res)) <> None.
  Proof.
    intro H. unfold Build.join_one. destruct (snd res) as [wr|e|]; cbn [js_world]; try exact H.
    destruct (fst res) as [r|]; [|exact H]. destruct (wr_history wr) as [h|]; [|exact H].
    unfold write_history, BuildFacts.hist_of in *. destruct (rd_hist (w_rd (js_world T js))); [cbn; discriminate | contradiction].
  Qed.

  Lemma join_all_hist_some results : forall js,
    hist_of (js_world T js) <> None -> hist_of (js_world T (fold_left join_one results js)) <> None.
  Proof.
    induction results as [|res rest IH]; intros js H; cbn [fold_left]; [exact H|].
    apply IH. apply join_one_hist_some. exact H.
  Qed.

  (* each rule's history file holds what the rule's thread handed to main *)
  Lemma join_nodes_hist (done : list node) nres :
    Forall2 (fun n res => fst res = Some (n_rule n)) done nres -> NoDup (map n_rule done) ->
    forall js, hist_of (js_world T js) <> None ->
    Forall2 (fun n (res : option rule * thread_result T) =>
               forall wr h, snd res = TOk wr -> wr_history wr = Some h ->
                 hist_at (js_world T (fold_left join_one nres js)) (hr (n_rule n)) = Some (SF_ok h)) done nres.
  Proof.
    induction 1 as [|n0 res0 done nres H0 HF IH]; intros Hnd js Hhs; [constructor|].
    cbn [map] in Hnd. inversion Hnd as [|? ? Hnotin Hnd']; subst. cbn [fold_left]. constructor.
    - intros wr h Hs Hh.
      rewrite (join_all_hist_at_neq T teqb hr teqb_spec).
      + destruct res0 as [r tr]. cbn [fst snd] in *. subst tr. subst r.
        unfold Build.join_one. cbn [fst snd js_world]. rewrite Hh.
        destruct (hist_of (js_world T js)) as [hs|] eqn:Ehs; [|contradiction].
        eapply write_history_hist_at_eq; eauto.
      + intros r wr' Hin Hk. apply hr_inj in Hk. subst r. apply Hnotin.
        destruct (Forall2_in_r _ _ _ _ HF Hin) as (n' & Hn' & Hf). cbn [fst] in Hf. injection Hf as ->.
        apply in_map. exact Hn'.
    - apply IH; [exact Hnd'|]. apply join_one_hist_some. exact Hhs.
  Qed.

  (* ---------- the world a successful build leaves ---------- *)

  (* settled, and every rule's history file has kept the entries it had before the build *)
  Definition settled_from (w w2 : world) (pack : node_pack) : Prop :=
    (forall l, In l (p_leaves pack) -> content_at w2 l <> None) /\
    exists c hs t,
      rd_cache (w_rd w2) = Some c /\ rd_hist (w_rd w2) = Some hs /\ rd_table (w_rd w2) = Some (SF_ok t) /\
      forall n, In n (p_nodes pack) ->
        exists h, alookup teqb hs (hr (n_rule n)) = Some (SF_ok h) /\ node_rec w2 n h /\ grows_from w n h.

  Lemma settled_from_settled (w w2 : world) pack : settled_from w w2 pack -> settled w2 pack.
  Proof.
    intros (Hl & c & hs & t & Hc & Hh & Ht & Hn). split; [exact Hl|]. exists c, hs, t.
    repeat (split; [assumption|]). intros n Hin. destruct (Hn n Hin) as (h & H1 & H2 & _). eauto.
  Qed.

  Theorem first_build_summary (w : world) rp goal w1 tbl pack :
    disk_inv w -> init_dir T w = Ok (w1, tbl) -> get_nodes T w1 rp goal = Ok pack ->
    Forall node_confined (p_nodes pack) ->
    o_verdict (build w rp goal) = VOk ->
    settled_from w (o_world (build w rp goal)) pack.
  Proof.
    intros Hinv Hi Hg Hconf.
    pose proof (get_nodes_plan_wf T _ _ _ _ Hg) as Hwf.
    pose proof (get_nodes_rules_nodup T _ _ _ _ Hg) as Hnr.
    pose proof (get_nodes_targets_ne T _ _ _ _ Hg) as Hne.
    rewrite (build_eq T teqb hc hl hr), Hi, Hg. cbv zeta.
    destruct (run_nodes (st_leaves T teqb hc w1 tbl pack) (p_nodes pack)) as [st2|] eqn:Erun; [|cbn; discriminate].
    cbn [o_verdict o_world]. intro Hv.
    pose proof (run_nodes_good1 w pack Hinv Hwf Hconf Hne (p_nodes pack) [] _ st2 eq_refl
                  (leaves_good1 _ _ _ pack Hinv Hi) Erun) as [Hrs Hcache Hhist0 Hframe Hleaf Hsent Hres].
    destruct Hres as (lr & nres & Eres & Hlr & Hnres & Herr).
    destruct (run_nodes_spec T teqb hc hl hr _ _ _ Erun) as (_ & _ & _ & Hh2 & _).
    rewrite st_leaves_world in Hh2.
    destruct (init_dir_ok T teqb _ _ _ Hi) as (_ & _ & _ & Hh1).
    unfold joined in *.
    set (js0 := mk_js T (rs_world T st2) (rs_table T st2) [] []) in *.
    set (js := fold_left join_one (rs_results T st2) js0) in *.
    destruct Herr as [He | (Hal & Han & Hok)].
    { exfalso. apply (join_all_errors T teqb hr (rs_results T st2) js0); [right; exact He|].
      fold js. destruct (js_errors T js); [reflexivity | discriminate]. }
    assert (w_files (js_world T js) = w_files (rs_world T st2)) as Hfiles.
    { unfold js. rewrite BuildFacts.join_all_files. reflexivity. }
    assert (forall q, content_at (write_table T (js_world T js) (js_table T js)) q = content_at (rs_world T st2) q) as Hca.
    { apply content_at_files. exact Hfiles. }
    split.
    - intros l Hl. rewrite Hca.
      destruct (Forall2_in_l _ _ _ _ Hleaf Hl) as (o & Ho & Hok').
      unfold C01Build.all_sent in Hal. rewrite Forall_forall in Hal. specialize (Hal o Ho).
      destruct o as [ts|]; [|contradiction]. destruct Hok' as (c & Hc & _). rewrite Hc. discriminate.
    - assert (cache_of (js_world T js) <> None) as Hcj.
      { unfold js. rewrite join_all_cache. exact Hcache. }
      assert (hist_of (js_world T js) <> None) as Hhj.
      { unfold js. apply join_all_hist_some. cbn [js_world js0]. rewrite Hh2. exact Hh1. }
      unfold cache_of in Hcj. unfold BuildFacts.hist_of in Hhj.
      destruct (rd_cache (w_rd (js_world T js))) as [c|] eqn:Ec; [|contradiction].
      destruct (rd_hist (w_rd (js_world T js))) as [hs|] eqn:Eh; [|contradiction].
      exists c, hs, (js_table T js). cbn [write_table w_rd set_rd rd_cache rd_hist rd_table].
      rewrite Ec, Eh. repeat (split; [reflexivity|]).
      intros n Hn. apply In_nth_error in Hn as (i & Hi').
      destruct (Forall2_nth_error_l _ _ _ Hnres _ _ Hi') as (res & Hres & [Hf Hnr']).
      assert (Forall2 (fun n res => fst res = Some (n_rule n)) (p_nodes pack) nres) as Hkeys.
      { eapply Forall2_impl; [|exact Hnres]. intros a b0 [X _]. exact X. }
      assert (hist_of (js_world T (fold_left join_one lr js0)) <> None) as Hh3.
      { apply join_all_hist_some. cbn [js_world js0]. rewrite Hh2. exact Hh1. }
      pose proof (join_nodes_hist _ _ Hkeys Hnr _ Hh3) as Hj.
      pose proof (Forall2_nth_error _ _ _ Hj _ _ _ Hi' Hres) as Hjn. cbn beta in Hjn.
      rewrite <- fold_left_app, <- Eres in Hjn. fold js in Hjn.
      rewrite Forall_forall in Hok. destruct (Hok res (nth_error_In _ _ Hres)) as (wr & Hwr).
      rewrite Hwr in Hnr'. destruct Hnr' as (h & Hh & Hrec & Hgr).
      specialize (Hjn wr h Hwr Hh). unfold BuildFacts.hist_at, BuildFacts.hist_of in Hjn. rewrite Eh in Hjn.
      exists h. split; [exact Hjn|]. split; [|exact Hgr].
      eapply node_rec_transport; [|exact Hrec]. intros q _. apply Hca.
  Qed.

  Theorem first_build_settled (w : world) rp goal w1 tbl pack :
    disk_inv w -> init_dir T w = Ok (w1, tbl) -> get_nodes T w1 rp goal = Ok pack ->
    Forall node_confined (p_nodes pack) ->
    o_verdict (build w rp goal) = VOk ->
    settled (o_world (build w rp goal)) pack.
  Proof. intros. eapply settled_from_settled. eapply first_build_summary; eauto. Qed.

  (* ================================================================== *)
  (* a build in a settled world                                           *)
  (* ================================================================== *)

  Record quiet (w2 : world) (pack : node_pack) (done : list node) (st : run_state T) : Prop := mk_quiet {
    q_world : rs_world T st = w2;
    q_tbl : tbl_ok w2 (rs_table T st);
    q_cmds : rs_commands T st = [];
    q_leaf : Forall2 (leaf_ok w2) (p_leaves pack) (rs_leaf_sent T st);
    q_sent : Forall2 (sent_ok w2 w2) done (rs_node_sent T st);
    q_all : all_sent (rs_leaf_sent T st) /\ all_sent (rs_node_sent T st);
    q_res : Forall quiet_res (rs_results T st)
  }.

  Lemma status_all_correct (b : blob T) ts h :
    Forall (fun s => fst s = BUpToDate)
           (status_lines T (mk_wr ts b (Resolutions (repeat AlreadyCorrect (length b))) h)).
  Proof.
    unfold status_lines. cbn [wr_option wr_blob]. induction b as [|x b IH]; cbn [length repeat combine map]; constructor.
    - reflexivity.
    - exact IH.
  Qed.

  Lemma run_node_quiet (w2 : world) hs pack done n rest st :
    disk_inv w2 -> rd_hist (w_rd w2) = Some hs -> plan_wf pack -> p_nodes pack = done ++ n :: rest ->
    (exists h, alookup teqb hs (hr (n_rule n)) = Some (SF_ok h) /\ node_rec w2 n h) ->
    quiet w2 pack done st ->
    exists st', run_node st n = Some st' /\ quiet w2 pack (done ++ [n]) st'.
  Proof.
    intros Hinv Hhs Hwf E (h & Hh & tickets & rem & Hsrc & Hl & Htg) [Hw Htbl Hc Hleaf Hsent [Hal Han] Hres].
    assert (nth_error (p_nodes pack) (length done) = Some n) as Hnth.
    { rewrite E. rewrite nth_error_app2 by lia. rewrite Nat.sub_diag. reflexivity. }
    pose proof Hwf as (_ & _ & Hbind). pose proof (Hbind _ _ Hnth) as Hbindn.
    assert (forall i, (i < length done)%nat -> nth_error (p_nodes pack) i = nth_error done i) as Hdone.
    { intros i Hi. rewrite E. apply nth_error_app1. exact Hi. }
    unfold Build.run_node. rewrite Hw.
    destruct (take_blob T hc (rs_table T st) (n_targets n)) as [b t'] eqn:Etb.
    pose proof (C01Build.take_blob_fst T hc _ _ _ _ Etb) as Hfst.
    assert (clock_ok teqb w2) as Hk by apply Hinv.
    destruct (InvProofs.take_blob_ok T teqb hc teqb_spec _ _ _ _ _ Htbl Etb) as [Hb Ht'].
    assert (read_history T teqb hr w2 (n_rule n) = Some h) as ->.
    { unfold read_history. rewrite Hhs, Hh. reflexivity. }
    destruct (all_some (map (received T (rs_leaf_sent T st) (rs_node_sent T st)) (n_source_indices n)))
      as [tk2|] eqn:Eall.
    2:{ exfalso. eapply (received_total T hc pack done w2 w2); eauto. }
    destruct (received_spec T hc pack done w2 w2 _ _ Hdone Hleaf Hsent (fun l _ => eq_refl) _ _ Hbindn _ Eall)
      as [Htk2 _].
    assert (tk2 = tickets) as ->.
    { eapply (Forall2_fun (has_hash w2)); [apply has_hash_fun | exact Htk2 | exact Hsrc]. }
    rewrite <- Hfst in Htg.
    pose proof (holds_of_hashes T teqb hc _ _ _ Hb Htg) as Hholds.
    rewrite (handle_rule_uptodate T teqb hc teqb_spec _ _ _ _ (n_command n) _ Hl Hholds).
    eexists. split; [reflexivity|].
    constructor; cbn [rs_world rs_table rs_leaf_sent rs_node_sent rs_results rs_commands wr_tickets].
    - reflexivity.
    - exact Ht'.
    - rewrite Hc. reflexivity.
    - exact Hleaf.
    - apply Forall2_app; [exact Hsent|]. constructor; [|constructor]. cbn [C01Build.sent_ok].
      split; [|reflexivity].
      pose proof (Forall2p_firstn _ _ _ Htg) as X. rewrite map_length, Hfst in X.
      exact (proj1 (Forall2_map_r (has_hash w2) fs_t _ _) X).
    - split; [exact Hal|]. apply all_sent_app; [exact Han | discriminate].
    - apply Forall_app. split; [exact Hres|]. constructor; [|constructor].
      eexists. split; [reflexivity|]. apply status_all_correct.
  Qed.

  Lemma run_nodes_quiet (w2 : world) hs pack :
    disk_inv w2 -> rd_hist (w_rd w2) = Some hs -> plan_wf pack ->
    (forall n, In n (p_nodes pack) ->
       exists h, alookup teqb hs (hr (n_rule n)) = Some (SF_ok h) /\ node_rec w2 n h) ->
    forall rest done st,
      p_nodes pack = done ++ rest -> quiet w2 pack done st ->
      exists st', run_nodes st rest = Some st' /\ quiet w2 pack (p_nodes pack) st'.
  Proof.
    intros Hinv Hhs Hwf Hn. induction rest as [|n rest IH]; intros done st E Hq; cbn [Build.run_nodes].
    - exists st. split; [reflexivity|]. rewrite E, app_nil_r. exact Hq.
    - destruct (run_node_quiet w2 hs pack done n rest st Hinv Hhs Hwf E) as (st1 & E1 & Hq1); [|exact Hq|].
      { apply Hn. rewrite E. apply in_or_app. right. left. reflexivity. }
      rewrite E1. apply (IH (done ++ [n]) st1); [rewrite <- app_assoc; exact E | exact Hq1].
  Qed.

  Lemma join_quiet results : Forall quiet_res results -> forall js,
    js_errors T (fold_left join_one results js) = js_errors T js /\
    Forall (fun s => fst s = BUpToDate) (flat_map (result_status T) results).
  Proof.
    induction 1 as [|res results (wr & Hwr & Hst) _ IH]; intro js; cbn [fold_left flat_map].
    - split; [reflexivity | constructor].
    - destruct (IH (join_one js res)) as [I1 I2]. split.
      + rewrite I1. unfold Build.join_one. rewrite Hwr. reflexivity.
      + apply Forall_app. split; [|exact I2]. unfold result_status. rewrite Hwr. exact Hst.
  Qed.

  Theorem settled_build_noop (w2 : world) rp goal pack :
    disk_inv w2 -> get_nodes T w2 rp goal = Ok pack -> settled w2 pack ->
    let o2 := build w2 rp goal in
    o_verdict o2 = VOk /\ o_commands o2 = [] /\
    w_files (o_world o2) = w_files w2 /\
    rd_cache (w_rd (o_world o2)) = rd_cache (w_rd w2) /\
    Forall (fun s => fst s = BUpToDate) (o_status o2).
  Proof.
    intros Hinv Hg (Hl & c & hs & t & Hc & Hh & Ht & Hn). cbv zeta.
    set (w2' := set_rd w2 (mk_rdir true (Some c) (Some hs) (Some (SF_ok t)))).
    assert (init_dir T w2 = Ok (w2', t)) as Hi by (unfold init_dir; rewrite Hc, Hh, Ht; reflexivity).
    destruct (InvProofs.init_dir_rs_inv T teqb hc teqb_spec _ _ _ Hinv Hi) as [Hs1 Ht1].
    pose proof (inv_steps T teqb hc teqb_spec _ _ Hinv Hs1) as Hinv'.
    assert (forall q, content_at w2' q = content_at w2 q) as Hca by (intro q; reflexivity).
    assert (get_nodes T w2' rp goal = Ok pack) as Hg' by (rewrite <- Hg; apply get_nodes_content; apply Hca).
    pose proof (get_nodes_plan_wf T _ _ _ _ Hg) as Hwf.
    rewrite (build_eq T teqb hc hl hr), Hi, Hg'. cbv zeta.
    destruct (st_leaves_inv1 w2' t pack Hinv' Ht1) as [Hw Htbl Hnn Hcc Hleaf Hfst Herr Hq].
    destruct Hq as [Hal Hqr]; [intros l Hin; rewrite Hca; apply Hl; exact Hin|].
    assert (quiet w2' pack [] (st_leaves T teqb hc w2' t pack)) as Hq0.
    { constructor; auto; rewrite Hnn; [constructor | split; [exact Hal | constructor]]. }
    destruct (run_nodes_quiet w2' hs pack Hinv' eq_refl Hwf) with (rest := p_nodes pack) (done := @nil node)
      (st := st_leaves T teqb hc w2' t pack) as (st2 & Erun & [Qw Qt Qc _ _ _ Qr]); [|reflexivity|exact Hq0|].
    { intros n Hin. destruct (Hn n Hin) as (h & Hlk & Hrec). exists h. split; [exact Hlk|].
      eapply node_rec_transport; [|exact Hrec]. intros q _. apply Hca. }
    rewrite Erun. cbn [o_verdict o_commands o_world o_status]. unfold joined.
    destruct (join_quiet _ Qr (mk_js T (rs_world T st2) (rs_table T st2) [] [])) as [J1 J2].
    split; [rewrite J1; reflexivity|]. split; [exact Qc|]. split; [|split].
    - cbn [write_table w_files set_rd]. rewrite BuildFacts.join_all_files. cbn [js_world]. rewrite Qw. reflexivity.
    - change (cache_of (js_world T (fold_left join_one (rs_results T st2)
                (mk_js T (rs_world T st2) (rs_table T st2) [] []))) = rd_cache (w_rd w2)).
      rewrite join_all_cache. cbn [js_world]. rewrite Qw, Hc. reflexivity.
    - rewrite join_all_status. cbn [js_status app]. exact J2.
  Qed.

  (* ================================================================== *)
  (* A2                                                                   *)
  (* ================================================================== *)

  Theorem repeat_build_noop_confined : forall (w : world) rp goal w1 tbl pack,
    disk_inv w -> init_dir T w = Ok (w1, tbl) -> get_nodes T w1 rp goal = Ok pack ->
    Forall node_confined (p_nodes pack) -> ~ In rp (plan_targets pack) ->
    o_verdict (build w rp goal) = VOk ->
    forall w2, w2 = o_world (build w rp goal) \/ w2 = tick (o_world (build w rp goal)) ->
    let o2 := build w2 rp goal in
    o_verdict o2 = VOk /\ o_commands o2 = [] /\
    w_files (o_world o2) = w_files w2 /\
    rd_cache (w_rd (o_world o2)) = rd_cache (w_rd w2) /\
    Forall (fun s => fst s = BUpToDate) (o_status o2).
  Proof.
    intros w rp goal w1 tbl pack Hinv Hi Hg Hconf Hrp Hv w2 Hw2.
    set (wF := o_world (build w rp goal)) in *.
    pose proof (first_build_settled w rp goal w1 tbl pack Hinv Hi Hg Hconf Hv) as Hset. fold wF in Hset.
    pose proof (InvProofs.build_steps T teqb hc teqb_spec hl hr w rp goal Hinv) as Hsteps. fold wF in Hsteps.
    pose proof (inv_steps T teqb hc teqb_spec _ _ Hinv Hsteps) as HinvF.
    assert (get_nodes T wF rp goal = Ok pack) as HgF.
    { rewrite <- Hg. apply get_nodes_content. apply fget_content.
      unfold wF. rewrite (build_frame T teqb hc hl hr _ _ _ _ _ _ _ Hi Hg Hconf Hrp).
      symmetry. apply files_fget. apply (init_dir_ok T teqb _ _ _ Hi). }
    destruct Hw2 as [-> | ->].
    - apply (settled_build_noop wF rp goal pack); assumption.
    - apply (settled_build_noop (tick wF) rp goal pack).
      + eapply InvProofs.step_preserves_inv; [exact teqb_spec | exact HinvF | apply STick].
      + rewrite <- HgF. apply get_nodes_content. reflexivity.
      + eapply settled_same; [| |exact Hset]; reflexivity.
  Qed.

  Theorem repeat_build_noop : forall (w : world) rp goal w1 tbl pack,
    disk_inv w -> init_dir T w = Ok (w1, tbl) -> get_nodes T w1 rp goal = Ok pack ->
    Forall det_node (p_nodes pack) -> ~ In rp (plan_targets pack) ->
    o_verdict (build w rp goal) = VOk ->
    forall w2, w2 = o_world (build w rp goal) \/ w2 = tick (o_world (build w rp goal)) ->
    let o2 := build w2 rp goal in
    o_verdict o2 = VOk /\ o_commands o2 = [] /\
    w_files (o_world o2) = w_files w2 /\
    rd_cache (w_rd (o_world o2)) = rd_cache (w_rd w2) /\
    Forall (fun s => fst s = BUpToDate) (o_status o2).
  Proof.
    intros w rp goal w1 tbl pack Hinv Hi Hg Hdet. apply (repeat_build_noop_confined w rp goal w1 tbl pack); try assumption.
    eapply Forall_impl; [|exact Hdet]. intros n Hn. apply node_confined_of_det. exact Hn.
  Qed.

End Repeat.
