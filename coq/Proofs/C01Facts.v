(* C01 — a successful incremental build equals a from-scratch build.
   Part 5: history soundness along every history of operations (G2), the theorem (G3), its corollaries
   (G4), the instance with free symbolic hashes, and two literal statements that are FALSE of the model
   (refuted on a concrete history).  The requested statements are restated, closed, in the RESULTS
   block at the end.

   Files: C01Script.v (G1: the command mini-language), C01Hist.v (hist_sound, one rule thread),
          C01Build.v (the invariant of the serial schedule), C01Plan.v (plan_ok -> plan_wf). *)
From Coq Require Import String Ascii.
From Coq Require Import Relations.Relation_Operators Relations.Operators_Properties.
From Ruler Require Import Tactics Bytes AList RuleSyntax Parser TopoSort TopoSpec World Cmdlang Work Build Ops Inv
     BuildSpec Ideal BytesFacts InvFacts TopoSortFacts C01Script C01Hist C01Build C01Plan.
Local Open Scope N_scope.

(* ================================================================== *)
(* DET, decidably                                                       *)
(* ================================================================== *)

Definition mem_path (p : bytes) (l : list bytes) : bool := existsb (bytes_eqb p) l.

Definition det_ruleb (r : rule) : bool :=
  forallb (fun line =>
             match line_writes line with Some p => mem_path p (r_targets r) | None => true end &&
             forallb (fun p => mem_path p (r_sources r)) (line_reads line))
          (script_lines (r_command r)).

Definition det_nodeb (n : node) : bool :=
  det_ruleb (n_rule n) && strs_eqb (n_targets n) (r_targets (n_rule n)) &&
  strs_eqb (n_command n) (r_command (n_rule n)).

Lemma mem_path_in p l : mem_path p l = true -> In p l.
Proof.
  unfold mem_path. rewrite existsb_exists. intros (x & Hx & E). apply bytes_eqb_eq in E. subst x. exact Hx.
Qed.

Lemma det_ruleb_sound r : det_ruleb r = true -> det_rule r.
Proof.
  unfold det_ruleb. rewrite forallb_forall. intro H. split.
  - intros line p Hl Hw. specialize (H line Hl). apply andb_true_iff in H as [H _]. rewrite Hw in H.
    apply mem_path_in. exact H.
  - intros line p Hl Hp. specialize (H line Hl). apply andb_true_iff in H as [_ H].
    rewrite forallb_forall in H. apply mem_path_in. apply H. exact Hp.
Qed.

Lemma det_nodeb_sound n : det_nodeb n = true -> det_node n.
Proof.
  unfold det_nodeb. intro H. apply andb_true_iff in H as [H H3]. apply andb_true_iff in H as [H1 H2].
  split; [apply det_ruleb_sound; exact H1|]. split; apply strs_eqb_spec; assumption.
Qed.

Lemma det_nodesb_sound ns : forallb det_nodeb ns = true -> Forall det_node ns.
Proof.
  rewrite forallb_forall. intro H. apply Forall_forall. intros n Hn. apply det_nodeb_sound. auto.
Qed.

(* ================================================================== *)
(* generic in the hashes                                                *)
(* ================================================================== *)

Section Final.
  Variable T : Type.
  Variable teqb : T -> T -> bool.
  Variable hc : bytes -> T.
  Variable hl : list T -> T.
  Variable hr : rule -> T.
  Hypothesis teqb_spec : forall a b, teqb a b = true <-> a = b.
  Hypothesis hc_inj : forall a b, hc a = hc b -> a = b.
  Hypothesis hl_inj : forall a b, hl a = hl b -> a = b.
  Hypothesis hr_inj : forall a b, hr a = hr b -> a = b.

  Notation world := (world T).
  Notation disk_inv := (disk_inv teqb hc).
  Notation steps := (clos_refl_trans world (step teqb hc)).
  Notation has_hash := (has_hash T hc).
  Notation src_contents := (src_contents T).
  Notation entry_true := (entry_true T hc hl).
  Notation hist_ok := (hist_ok T teqb hc hl).
  Notation hist_sound := (hist_sound T teqb hc hl hr).
  Notation hist_sub := (hist_sub T teqb).
  Notation build := (build teqb hc hl hr).
  Notation clean := (clean teqb hc).
  Notation apply_op := (apply_op teqb hc hl hr).
  Notation run_ops ops w0 := (fold_left (fun w o => fst (apply_op w o)) ops w0).

  (* ---------- G1 for a DET rule ---------- *)

  (* two worlds with the same content at every source and every target of the rule: same exit codes,
     and the same content at every source and target afterwards *)
  Theorem det_rule_functional (r : rule) (w w' : world) :
    det_rule r ->
    agree_on (r_sources r ++ r_targets r) w w' ->
    fst (run_script w (script_lines (r_command r))) = fst (run_script w' (script_lines (r_command r))) /\
    agree_on (r_sources r ++ r_targets r)
             (snd (run_script w (script_lines (r_command r)))) (snd (run_script w' (script_lines (r_command r)))).
  Proof. intros [Hc Hr]. apply run_script_det; assumption. Qed.

  (* the same sources, the targets absent from w: if the command succeeds in w and leaves every target
     present, then it succeeds in w' too and leaves the same content at every target, whatever w' had
     at the targets before *)
  Theorem det_rule_from_absent (r : rule) (w w' : world) :
    det_rule r ->
    agree_on (r_sources r) w w' ->
    (forall t, In t (r_targets r) -> content_at w t = None) ->
    command_verdict (fst (run_script w (script_lines (r_command r)))) = None ->
    (forall t, In t (r_targets r) -> content_at (snd (run_script w (script_lines (r_command r)))) t <> None) ->
    command_verdict (fst (run_script w' (script_lines (r_command r)))) = None /\
    forall t, In t (r_targets r) ->
      content_at (snd (run_script w' (script_lines (r_command r)))) t =
      content_at (snd (run_script w (script_lines (r_command r)))) t.
  Proof.
    intros [Hc Hr] Hs Habs Hv Hpres.
    assert (below (r_sources r) (r_targets r) w w') as Hb.
    { split; [exact Hs|]. intros t Ht. left. apply Habs. exact Ht. }
    destruct (run_script_below T _ _ _ w w' Hc Hr Hb (command_verdict_none _ Hv)) as [Ec Hb2].
    split; [rewrite Ec; exact Hv|]. intros t Ht.
    destruct (content_at (snd (run_script w (script_lines (r_command r)))) t) as [c|] eqn:E.
    - eapply below_present; eauto.
    - exfalso. apply (Hpres t Ht). exact E.
  Qed.

  Theorem det_rule_frame (r : rule) (w : world) q :
    det_rule r -> ~ In q (r_targets r) ->
    content_at (snd (run_script w (script_lines (r_command r)))) q = content_at w q.
  Proof. intros [Hc _] Hq. apply (run_script_frame T (r_targets r)); assumption. Qed.

  (* ---------- G2: the initial world, user operations, clean ---------- *)

  Lemma hist_sound_init mode t0 : hist_sound (init_world mode t0).
  Proof. intros r hs h _ H. cbn in H. discriminate. Qed.

  Lemma clean_targets_hist b : forall (w w' : world),
    clean_targets teqb hc w b = Ok w' -> rd_hist (w_rd w') = rd_hist (w_rd w).
  Proof.
    induction b as [|[p a] rest IH]; intros w w'; cbn [clean_targets].
    - intro H. injection H as <-. reflexivity.
    - destruct (get_file_ticket teqb hc w p a) as [t|]; [|apply IH].
      destruct (back_up teqb w t p) as [w1|] eqn:Eb; [|discriminate].
      intro H. rewrite (IH _ _ H). apply (back_up_content T teqb _ _ _ _ Eb).
  Qed.

  Lemma clean_nodes_hist ns : forall (w : world) t errs w' errs',
    clean_nodes T teqb hc w t ns errs = (w', errs') -> rd_hist (w_rd w') = rd_hist (w_rd w).
  Proof.
    induction ns as [|n ns IH]; intros w t errs w' errs'; cbn [clean_nodes].
    - intro H. injection H as <- _. reflexivity.
    - destruct (take_blob T hc t (n_targets n)) as [b t'].
      destruct (clean_targets teqb hc w b) as [w1|e] eqn:Ec.
      + intro H. rewrite (IH _ _ _ _ _ H). eapply clean_targets_hist; eauto.
      + apply IH.
  Qed.

  Theorem clean_hist_sound (w : world) rp goal : hist_sound w -> hist_sound (o_world (clean w rp goal)).
  Proof.
    intro Hs. unfold Build.clean.
    destruct (init_dir T w) as [[w1 tbl]|f] eqn:Hi.
    2:{ cbn [o_world]. eapply hist_sound_sub; [apply init_dir_error_hist_sub | exact Hs]. }
    pose proof (hist_sound_sub T teqb hc hl hr _ _ (init_dir_hist_sub T teqb _ _ _ Hi) Hs) as Hs1.
    destruct (get_nodes T w1 rp goal) as [pack|f]; [|exact Hs1].
    destruct (clean_nodes T teqb hc w1 tbl (p_nodes pack) []) as [w2 errs] eqn:Ec. cbn [o_world].
    eapply hist_sound_same; [|exact Hs1]. eapply clean_nodes_hist; eauto.
  Qed.

  (* the plan of a build is DET (if there is a plan at all) *)
  Definition build_det (w : world) (goal : option bytes) : Prop :=
    forall w1 tbl pack, init_dir T w = Ok (w1, tbl) -> get_nodes T w1 RULES_PATH goal = Ok pack ->
                        Forall det_node (p_nodes pack).

  Definition op_det (w : world) (o : op T) : Prop :=
    match o with
    | OBuild goal => build_det w goal
    | _ => True
    end.

  Theorem build_hist_sound_det (w : world) goal :
    disk_inv w -> hist_sound w -> build_det w goal -> hist_sound (o_world (build w RULES_PATH goal)).
  Proof.
    intros Hinv Hs Hd. apply (build_hist_sound T teqb hc hl hr teqb_spec hc_inj hl_inj hr_inj); auto.
    intros w1 tbl pack Hi Hg. split; [eapply get_nodes_plan_wf; eauto | eapply Hd; eauto].
  Qed.

  Lemma tick_hist_sound (w : world) : hist_sound w -> hist_sound (tick w).
  Proof. apply hist_sound_same. reflexivity. Qed.

  Theorem apply_op_hist_sound (w : world) (o : op T) :
    disk_inv w -> hist_sound w -> safe_op T o -> op_det w o -> hist_sound (fst (apply_op w o)).
  Proof.
    intros Hinv Hs Hsafe Hdet.
    destruct o as [p c | p | p x | p q | t | | | | | t | v | t v | goal | goal];
      cbn [Ops.apply_op fst]; unfold upd_rd; try apply tick_hist_sound.
    - eapply hist_sound_same; [|exact Hs]. rewrite C01Script.write_file_rd. reflexivity.
    - eapply hist_sound_same; [|exact Hs]. reflexivity.
    - eapply hist_sound_same; [|exact Hs]. rewrite C01Script.set_exec_rd. reflexivity.
    - eapply hist_sound_same; [|exact Hs]. rewrite InvProofs.move_file_rd. reflexivity.
    - eapply hist_sound_same; [|exact Hs]. reflexivity.
    - intros r hs h _ H. cbn in H. discriminate.
    - eapply hist_sound_same; [|exact Hs]. reflexivity.
    - intros r hs h _ H. cbn in H. discriminate.
    - eapply hist_sound_same; [|exact Hs]. reflexivity.
    - eapply hist_sound_sub; [|exact Hs]. intros hs' t' h Hrd Hl. cbn in Hrd.
      destruct (rd_hist (w_rd w)) as [hs|]; [|discriminate]. injection Hrd as <-.
      apply (InvProofs.alookup_aremove_some _ teqb_spec) in Hl as [_ Hl]. eauto.
    - eapply hist_sound_same; [|exact Hs]. cbn. destruct (rd_exists (w_rd w)); reflexivity.
    - destruct v as [h0|]; [destruct Hsafe|].
      eapply hist_sound_sub; [|exact Hs]. intros hs' t' h Hrd Hl. cbn in Hrd.
      destruct (rd_hist (w_rd w)) as [hs|]; [|discriminate]. injection Hrd as <-.
      apply (InvProofs.alookup_ainsert_some _ teqb_spec) in Hl as [[_ Hl] | [_ Hl]]; [discriminate|]. eauto.
    - apply build_hist_sound_det; auto.
    - apply clean_hist_sound. exact Hs.
  Qed.

  (* every user operation (anything but a ruler invocation) preserves history soundness *)
  Corollary user_op_hist_sound (w : world) (o : op T) :
    disk_inv w -> hist_sound w -> safe_op T o ->
    (forall goal, o <> OBuild goal) -> hist_sound (fst (apply_op w o)).
  Proof.
    intros Hinv Hs Hsafe Hnb. apply apply_op_hist_sound; auto.
    destruct o; cbn [op_det]; auto. exfalso. eapply Hnb. reflexivity.
  Qed.

  (* ---------- histories ---------- *)

  (* a history of safe operations in which every build runs a DET plan *)
  Fixpoint det_history (w : world) (ops : list (op T)) : Prop :=
    match ops with
    | [] => True
    | o :: rest => safe_op T o /\ op_det w o /\ det_history (fst (apply_op w o)) rest
    end.

  Lemma det_history_safe ops : forall w, det_history w ops -> Forall (safe_op T) ops.
  Proof.
    induction ops as [|o rest IH]; intros w H; [constructor|]. destruct H as (H1 & _ & H3).
    constructor; [exact H1 | eapply IH; eauto].
  Qed.

  Lemma history_inv ops : forall w : world,
    disk_inv w -> hist_sound w -> det_history w ops ->
    disk_inv (run_ops ops w) /\ hist_sound (run_ops ops w).
  Proof.
    induction ops as [|o rest IH]; intros w Hinv Hs Hd; cbn [fold_left]; [auto|].
    destruct Hd as (Hsafe & Hdet & Hrest). apply IH; [| |exact Hrest].
    - eapply (InvProofs.steps_preserve_inv T teqb hc teqb_spec); [exact Hinv|].
      apply (InvProofs.apply_op_steps T teqb hc teqb_spec); assumption.
    - apply apply_op_hist_sound; assumption.
  Qed.

  Theorem reach_hist_sound_det t0 (ops : list (op T)) :
    det_history (init_world Fine t0) ops ->
    disk_inv (run_ops ops (init_world Fine t0)) /\ hist_sound (run_ops ops (init_world Fine t0)).
  Proof.
    intros Hd. apply history_inv; [|apply hist_sound_init|exact Hd].
    apply (InvProofs.c07_init T teqb hc).
  Qed.

  (* ---------- G3 ---------- *)

  Theorem incremental_equals_scratch (w : world) rp goal w1 tbl pack :
    disk_inv w -> hist_sound w ->
    init_dir T w = Ok (w1, tbl) -> get_nodes T w1 rp goal = Ok pack ->
    Forall det_node (p_nodes pack) ->
    o_verdict (build w rp goal) = VOk ->
    forall t, In t (plan_targets pack) ->
      content_at (o_world (build w rp goal)) t = content_at (scratch_world w pack) t.
  Proof.
    intros Hinv Hs Hi Hg Hdet. apply (build_equals_scratch T teqb hc hl hr teqb_spec hc_inj hl_inj hr_inj) with (w1 := w1) (tbl := tbl); auto.
    eapply get_nodes_plan_wf; eauto.
  Qed.

  Theorem targets_exist (w : world) rp goal w1 tbl pack :
    disk_inv w -> hist_sound w ->
    init_dir T w = Ok (w1, tbl) -> get_nodes T w1 rp goal = Ok pack ->
    Forall det_node (p_nodes pack) ->
    o_verdict (build w rp goal) = VOk ->
    forall t, In t (plan_targets pack) -> content_at (o_world (build w rp goal)) t <> None.
  Proof.
    intros Hinv Hs Hi Hg Hdet. apply (build_targets_exist T teqb hc hl hr teqb_spec hc_inj hl_inj hr_inj) with (w1 := w1) (tbl := tbl); auto.
    eapply get_nodes_plan_wf; eauto.
  Qed.

  (* ---------- G4 ---------- *)

  (* with a goal, the plan is the goal's sub-plan and the goal is one of its targets *)
  Lemma goal_in_plan (w1 : world) rp g pack :
    get_nodes T w1 rp (Some g) = Ok pack -> In g (plan_targets pack).
  Proof.
    intro H. apply get_nodes_inv in H as (f & rs & _ & Hp & Ht).
    pose proof (parse_targets_nonempty _ _ Hp) as Hne.
    pose proof (c12_plan_correct _ _ _ Hne Ht) as (_ & Hscope & Hnode & _).
    assert (valid rs (Some g)) as (_ & Hgoal & _) by (apply c12_accepts_iff_unconditional; eauto).
    cbn [goal_ok] in Hgoal. unfold all_targets in Hgoal. apply in_flat_map in Hgoal as (r & Hr & Hgr).
    assert (in_scope rs (Some g) r) as Hsc.
    { exists r. split; [split; assumption | apply rt_refl]. }
    assert (In (canon_rule r) (map n_rule (p_nodes pack))) as Hin by (apply Hscope; exists r; auto).
    apply in_map_iff in Hin as (n & En & Hn). apply In_nth_error in Hn as (j & Hj).
    pose proof (Hnode j n Hj) as Hk. unfold node_ok in Hk. destruct Hk as (Etg & _).
    unfold plan_targets. apply in_flat_map. exists n. split; [eapply nth_error_In; eauto|].
    rewrite Etg, En. apply canon_targets_in. exact Hgr.
  Qed.

  Theorem goal_restricted (w : world) rp g w1 tbl pack :
    disk_inv w -> hist_sound w ->
    init_dir T w = Ok (w1, tbl) -> get_nodes T w1 rp (Some g) = Ok pack ->
    Forall det_node (p_nodes pack) ->
    o_verdict (build w rp (Some g)) = VOk ->
    In g (plan_targets pack) /\
    forall t, In t (plan_targets pack) ->
      content_at (o_world (build w rp (Some g))) t = content_at (scratch_world w pack) t.
  Proof.
    intros Hinv Hs Hi Hg Hdet Hv. split; [eapply goal_in_plan; eauto|].
    eapply incremental_equals_scratch; eauto.
  Qed.

  Theorem every_history t0 (ops : list (op T)) goal w1 tbl pack :
    det_history (init_world Fine t0) ops ->
    init_dir T (run_ops ops (init_world Fine t0)) = Ok (w1, tbl) ->
    get_nodes T w1 RULES_PATH goal = Ok pack ->
    Forall det_node (p_nodes pack) ->
    o_verdict (build (run_ops ops (init_world Fine t0)) RULES_PATH goal) = VOk ->
    forall t, In t (plan_targets pack) ->
      content_at (o_world (build (run_ops ops (init_world Fine t0)) RULES_PATH goal)) t =
      content_at (scratch_world (run_ops ops (init_world Fine t0)) pack) t.
  Proof.
    intros Hd. destruct (reach_hist_sound_det t0 ops Hd) as [Hinv Hs].
    intros Hi Hg Hdet. eapply incremental_equals_scratch; eauto.
  Qed.
End Final.

(* ================================================================== *)
(* the free symbolic hashes                                             *)
(* ================================================================== *)

Lemma SList_inj a b : SList a = SList b -> a = b.
Proof. intro H. injection H as H. exact H. Qed.

Lemma SRule_inj a b : SRule a = SRule b -> a = b.
Proof. intro H. injection H as H. exact H. Qed.

Notation hist_sound_sym := (hist_sound sym sym_eqb SContent SList SRule).
Notation build_sym := (build sym_eqb SContent SList SRule).
Notation apply_sym := (apply_op sym_eqb SContent SList SRule).
Notation run_sym ops w0 := (fold_left (fun w o => fst (apply_sym w o)) ops w0).
Notation det_history_sym := (det_history sym sym_eqb SContent SList SRule).

(* ================================================================== *)
(* a concrete history on which the literal statements fail              *)
(* ================================================================== *)

(* Build 1 runs a plan that is NOT DET: rule b's command overwrites a, the target of rule a, after a was
   hashed.  Rule c (which is DET) reads the overwritten a but is keyed by the ticket of the original a:
   its history now holds a false entry.  The user then repairs rule b; the second plan is DET, the
   second build succeeds, finds c "up to date" through the false entry, and leaves c different from what
   a from-scratch build produces. *)

Fixpoint bs (s : string) : bytes :=
  match s with EmptyString => [] | String a r => N_of_ascii a :: bs r end.

Definition cx_rules1 : bytes := join_with [NL] (map bs
  ["a";":";"s";":";"gen a @s";":";
   "b";":";"a";":";"gen a =evil";";";"gen b @a";":";
   "c";":";"a";":";"gen c @a";":";""]%string).

Definition cx_rules2 : bytes := join_with [NL] (map bs
  ["a";":";"s";":";"gen a @s";":";
   "b";":";"a";":";"gen b @a";":";
   "c";":";"a";":";"gen c @a";":";""]%string).

Definition cx_ops : list (op sym) :=
  [OWrite (bs "s") (bs "1"); OWrite RULES_PATH cx_rules1; OBuild None; OWrite RULES_PATH cx_rules2].

Definition cx_w : world sym := run_sym cx_ops (init_world Fine 1).

Definition cx_w1 : world sym := match init_dir sym cx_w with Ok (w1, _) => w1 | Err _ => cx_w end.
Definition cx_tbl : table sym := match init_dir sym cx_w with Ok (_, t) => t | Err _ => [] end.
Definition cx_pack : node_pack :=
  match get_nodes sym cx_w1 RULES_PATH None with Ok p => p | Err _ => mk_pack [] [] end.

Lemma cx_safe : Forall (safe_op sym) cx_ops.
Proof. repeat constructor. Qed.

Lemma cx_init : init_dir sym cx_w = Ok (cx_w1, cx_tbl).
Proof. vm_compute. reflexivity. Qed.

Lemma cx_nodes : get_nodes sym cx_w1 RULES_PATH None = Ok cx_pack.
Proof. vm_compute. reflexivity. Qed.

Lemma cx_det : Forall det_node (p_nodes cx_pack).
Proof. apply det_nodesb_sound. vm_compute. reflexivity. Qed.

Lemma cx_ok : o_verdict (build_sym cx_w RULES_PATH None) = VOk.
Proof. vm_compute. reflexivity. Qed.

Lemma cx_target : In (bs "c") (plan_targets cx_pack).
Proof. vm_compute. right. right. left. reflexivity. Qed.

Lemma cx_differs :
  content_at (o_world (build_sym cx_w RULES_PATH None)) (bs "c") <> content_at (scratch_world cx_w cx_pack) (bs "c").
Proof. vm_compute. discriminate. Qed.

(* what the two sides are *)
Lemma cx_values :
  content_at (o_world (build_sym cx_w RULES_PATH None)) (bs "c") = Some (bs "evil") /\
  content_at (scratch_world cx_w cx_pack) (bs "c") = Some (bs "1").
Proof. vm_compute. split; reflexivity. Qed.

(* G4 as literally stated (only the LAST plan is DET) is false *)
Theorem c01_every_history_sym_refuted :
  ~ (forall t0 (ops : list (op sym)) goal w1 tbl pack,
       Forall (safe_op sym) ops ->
       init_dir sym (run_sym ops (init_world Fine t0)) = Ok (w1, tbl) ->
       get_nodes sym w1 RULES_PATH goal = Ok pack ->
       Forall det_node (p_nodes pack) ->
       o_verdict (build_sym (run_sym ops (init_world Fine t0)) RULES_PATH goal) = VOk ->
       forall t, In t (plan_targets pack) ->
         content_at (o_world (build_sym (run_sym ops (init_world Fine t0)) RULES_PATH goal)) t =
         content_at (scratch_world (run_sym ops (init_world Fine t0)) pack) t).
Proof.
  intro H. apply cx_differs.
  apply (H 1 cx_ops None cx_w1 cx_tbl cx_pack); [exact cx_safe | exact cx_init | exact cx_nodes
                                                 | exact cx_det | exact cx_ok | exact cx_target].
Qed.

(* G2's reach_hist_sound as literally stated (all histories of safe operations) is false: a build over
   a plan that is not DET can record a false entry in the history of a DET rule *)
Lemma reach_hist_sound_refuted_core : ~ hist_sound_sym cx_w.
Proof.
  intro H. apply cx_differs.
  apply (incremental_equals_scratch sym sym_eqb SContent SList SRule sym_eqb_spec SContent_inj SList_inj SRule_inj
           cx_w RULES_PATH None cx_w1 cx_tbl cx_pack).
  - apply (reach_inv sym sym_eqb SContent sym_eqb_spec SList SRule 1 cx_ops); exact cx_safe.
  - exact H.
  - exact cx_init.
  - exact cx_nodes.
  - exact cx_det.
  - exact cx_ok.
  - exact cx_target.
Qed.

Theorem reach_hist_sound_refuted :
  ~ (forall t0 (ops : list (op sym)),
       Forall (safe_op sym) ops -> hist_sound_sym (run_sym ops (init_world Fine t0))).
Proof.
  intro H. apply reach_hist_sound_refuted_core. apply (H 1 cx_ops); exact cx_safe.
Qed.

(* G2's "build preserves hist_sound" without the hypothesis that the plan is DET is false: the first
   build of the history above starts from a sound world and leaves an unsound one *)
Definition cx_ops0 : list (op sym) := [OWrite (bs "s") (bs "1"); OWrite RULES_PATH cx_rules1].
Definition cx_w0 : world sym := run_sym cx_ops0 (init_world Fine 1).

Lemma cx_w_eq : cx_w = fst (apply_sym (fst (apply_sym cx_w0 (OBuild None))) (OWrite RULES_PATH cx_rules2)).
Proof. reflexivity. Qed.

Theorem hist_sound_build_refuted :
  ~ (forall (w : world sym) goal,
       disk_inv sym_eqb SContent w -> hist_sound_sym w ->
       hist_sound_sym (o_world (build_sym w RULES_PATH goal))).
Proof.
  intro H. apply reach_hist_sound_refuted_core.
  assert (disk_inv sym_eqb SContent cx_w0) as Hinv0.
  { apply (reach_inv sym sym_eqb SContent sym_eqb_spec SList SRule 1 cx_ops0); repeat constructor. }
  assert (hist_sound_sym cx_w0) as Hs0.
  { apply (reach_hist_sound_det sym sym_eqb SContent SList SRule sym_eqb_spec SContent_inj SList_inj SRule_inj 1 cx_ops0);
      cbn; auto. }
  rewrite cx_w_eq.
  apply (user_op_hist_sound sym sym_eqb SContent SList SRule sym_eqb_spec SContent_inj SList_inj SRule_inj).
  - apply (reach_inv sym sym_eqb SContent sym_eqb_spec SList SRule 1 (cx_ops0 ++ [OBuild None])); repeat constructor.
  - cbn [Ops.apply_op fst]. apply (hist_sound_same sym sym_eqb SContent SList SRule (o_world (build_sym cx_w0 RULES_PATH None))); [reflexivity|].
    apply H; assumption.
  - exact I.
  - intros goal. discriminate.
Qed.

(* ================================================================== *)
(* ==== RESULTS ==== *)
(* ================================================================== *)

Section Results.
  Variable T : Type.
  Variable teqb : T -> T -> bool.
  Variable hc : bytes -> T.
  Variable hl : list T -> T.
  Variable hr : rule -> T.
  Hypothesis teqb_spec : forall a b, teqb a b = true <-> a = b.
  Hypothesis hc_inj : forall a b, hc a = hc b -> a = b.
  Hypothesis hl_inj : forall a b, hl a = hl b -> a = b.
  Hypothesis hr_inj : forall a b, hr a = hr b -> a = b.

  Local Notation hist_sound := (hist_sound T teqb hc hl hr).
  Local Notation build := (build teqb hc hl hr).
  Local Notation apply_op := (apply_op teqb hc hl hr).
  Local Notation run_ops ops w0 := (fold_left (fun w o => fst (apply_op w o)) ops w0).

  (* ---- G1 ---- *)

  (* a script that writes only `tgts` and reads only `srcs`, in two worlds with the same content at
     every path of srcs and tgts: same exit codes, same content at srcs and tgts afterwards *)
  Theorem G1_script_functional : forall srcs tgts script (w w' : world T),
    confined tgts script ->
    (forall line p, In line script -> In p (line_reads line) -> In p srcs) ->
    (forall p, In p (srcs ++ tgts) -> content_at w p = content_at w' p) ->
    fst (run_script w script) = fst (run_script w' script) /\
    forall p, In p (srcs ++ tgts) -> content_at (snd (run_script w script)) p = content_at (snd (run_script w' script)) p.
  Proof. intros srcs tgts script w w' Hc Hr Ha. apply (run_script_det T srcs tgts script w w' Hc Hr Ha). Qed.

  (* one-sided: w and w' have the same sources, each target is absent from w or equal in both; if every
     line succeeds in w, the run in w' has the same exit codes and the relation holds afterwards (so
     every target present after the run in w has the same content after the run in w') *)
  Theorem G1_script_from_below : forall srcs tgts script (w w' : world T),
    confined tgts script ->
    (forall line p, In line script -> In p (line_reads line) -> In p srcs) ->
    below srcs tgts w w' ->
    forallb (fun c => c =? 0) (fst (run_script w script)) = true ->
    fst (run_script w' script) = fst (run_script w script) /\
    below srcs tgts (snd (run_script w script)) (snd (run_script w' script)).
  Proof. intros srcs tgts script w w' Hc Hr Hb. apply (run_script_below T srcs tgts script w w' Hc Hr Hb). Qed.

  (* frame: a confined script changes nothing outside its targets *)
  Theorem G1_script_frame : forall tgts script (w : world T) q,
    confined tgts script -> ~ In q tgts -> content_at (snd (run_script w script)) q = content_at w q.
  Proof. exact (run_script_frame T). Qed.

  Theorem G1_det_rule_functional : forall (r : rule) (w w' : world T),
    det_rule r ->
    (forall p, In p (r_sources r ++ r_targets r) -> content_at w p = content_at w' p) ->
    fst (run_script w (script_lines (r_command r))) = fst (run_script w' (script_lines (r_command r))) /\
    forall p, In p (r_sources r ++ r_targets r) ->
      content_at (snd (run_script w (script_lines (r_command r)))) p =
      content_at (snd (run_script w' (script_lines (r_command r)))) p.
  Proof. exact (det_rule_functional T). Qed.

  Theorem G1_det_rule_from_absent : forall (r : rule) (w w' : world T),
    det_rule r ->
    (forall s, In s (r_sources r) -> content_at w s = content_at w' s) ->
    (forall t, In t (r_targets r) -> content_at w t = None) ->
    command_verdict (fst (run_script w (script_lines (r_command r)))) = None ->
    (forall t, In t (r_targets r) -> content_at (snd (run_script w (script_lines (r_command r)))) t <> None) ->
    command_verdict (fst (run_script w' (script_lines (r_command r)))) = None /\
    forall t, In t (r_targets r) ->
      content_at (snd (run_script w' (script_lines (r_command r)))) t =
      content_at (snd (run_script w (script_lines (r_command r)))) t.
  Proof. exact (det_rule_from_absent T). Qed.

  Theorem G1_det_rule_frame : forall (r : rule) (w : world T) q,
    det_rule r -> ~ In q (r_targets r) ->
    content_at (snd (run_script w (script_lines (r_command r)))) q = content_at w q.
  Proof. exact (det_rule_frame T). Qed.

  (* ---- G2 ---- *)

  (* hist_sound w (C01Hist.v): for every rule r with det_rule r, every entry key |-> outs of the history
     file stored under hr r is true: in EVERY world w0 in which the sources of r exist with contents cs
     and key = hl (map hc cs), the command of r succeeds and leaves every target t present with
     fs_t out_t = hc (content of t).  (No disjointness premise on r is needed.) *)
  Theorem hist_sound_unfold : forall w : world T,
    hist_sound w <->
    forall r hs h key outs,
      det_rule r -> rd_hist (w_rd w) = Some hs -> alookup teqb hs (hr r) = Some (SF_ok h) ->
      alookup teqb h key = Some outs ->
      forall (w0 : world T) cs,
        Forall2 (fun s c => content_at w0 s = Some c) (r_sources r) cs -> key = hl (map hc cs) ->
        command_verdict (fst (run_script w0 (script_lines (r_command r)))) = None /\
        Forall2 (fun t o => exists c, content_at (snd (run_script w0 (script_lines (r_command r)))) t = Some c /\
                                      fs_t o = hc c)
                (r_targets r) outs.
  Proof.
    intro w. split.
    - intros H r hs h key outs Hd Hrd Hl Hk. exact (H r hs h Hd Hrd Hl key outs Hk).
    - intros H r hs h Hd Hrd Hl key outs Hk. exact (H r hs h key outs Hd Hrd Hl Hk).
  Qed.

  Theorem hist_sound_init_world : forall mode t0, hist_sound (init_world mode t0).
  Proof. exact (hist_sound_init T teqb hc hl hr). Qed.

  Theorem hist_sound_user_op : forall (w : world T) (o : op T),
    disk_inv teqb hc w -> hist_sound w -> safe_op T o -> (forall goal, o <> OBuild goal) ->
    hist_sound (fst (apply_op w o)).
  Proof. exact (user_op_hist_sound T teqb hc hl hr teqb_spec hc_inj hl_inj hr_inj). Qed.

  Theorem hist_sound_clean : forall (w : world T) rp goal,
    hist_sound w -> hist_sound (o_world (clean teqb hc w rp goal)).
  Proof. exact (clean_hist_sound T teqb hc hl hr). Qed.

  (* hist_sound_build_partial: build preserves history soundness whenever its plan (if it gets one) is
     DET, whatever the verdict.  Missing for the unconditional statement: nothing can be — it is false
     (hist_sound_build_refuted). *)
  Theorem hist_sound_build_partial : forall (w : world T) goal,
    disk_inv teqb hc w -> hist_sound w ->
    (forall w1 tbl pack, init_dir T w = Ok (w1, tbl) -> get_nodes T w1 RULES_PATH goal = Ok pack ->
                         Forall det_node (p_nodes pack)) ->
    hist_sound (o_world (build w RULES_PATH goal)).
  Proof. exact (build_hist_sound_det T teqb hc hl hr teqb_spec hc_inj hl_inj hr_inj). Qed.

  (* reach_hist_sound_partial: along every history of safe operations IN WHICH EVERY BUILD RUNS A DET
     PLAN (det_history), the disk invariant and history soundness hold.
     Missing for the statement over ALL histories of safe operations: nothing can be — that statement
     is false (reach_hist_sound_refuted): a build whose plan is not DET can record a false entry
     in the history of a DET rule. *)
  Theorem reach_hist_sound_partial : forall t0 (ops : list (op T)),
    det_history T teqb hc hl hr (init_world Fine t0) ops ->
    disk_inv teqb hc (run_ops ops (init_world Fine t0)) /\ hist_sound (run_ops ops (init_world Fine t0)).
  Proof. exact (reach_hist_sound_det T teqb hc hl hr teqb_spec hc_inj hl_inj hr_inj). Qed.

  (* ---- G3 ---- *)

  Theorem c01_incremental_equals_scratch : forall w rp goal w1 tbl pack,
    disk_inv teqb hc w -> hist_sound w ->
    init_dir T w = Ok (w1, tbl) -> get_nodes T w1 rp goal = Ok pack ->
    Forall det_node (p_nodes pack) ->
    o_verdict (build w rp goal) = VOk ->
    forall t, In t (plan_targets pack) ->
      content_at (o_world (build w rp goal)) t = content_at (scratch_world w pack) t.
  Proof. exact (incremental_equals_scratch T teqb hc hl hr teqb_spec hc_inj hl_inj hr_inj). Qed.

  (* every target of the plan exists after the successful build (so the equality above is between
     two existing files) *)
  Theorem c01_targets_exist : forall w rp goal w1 tbl pack,
    disk_inv teqb hc w -> hist_sound w ->
    init_dir T w = Ok (w1, tbl) -> get_nodes T w1 rp goal = Ok pack ->
    Forall det_node (p_nodes pack) ->
    o_verdict (build w rp goal) = VOk ->
    forall t, In t (plan_targets pack) -> content_at (o_world (build w rp goal)) t <> None.
  Proof. exact (targets_exist T teqb hc hl hr teqb_spec hc_inj hl_inj hr_inj). Qed.

  (* the plan facts used, extracted from C12 *)
  Theorem c01_plan_ok_plan_wf : forall rs goal pack, NoDup (all_targets rs) -> plan_ok rs goal pack -> plan_wf pack.
  Proof. exact plan_ok_wf. Qed.

  Theorem c01_get_nodes_plan_wf : forall (w : world T) rp goal pack, get_nodes T w rp goal = Ok pack -> plan_wf pack.
  Proof. exact (get_nodes_plan_wf T). Qed.

  (* ---- G4 ---- *)

  Theorem c01_goal_restricted : forall w rp g w1 tbl pack,
    disk_inv teqb hc w -> hist_sound w ->
    init_dir T w = Ok (w1, tbl) -> get_nodes T w1 rp (Some g) = Ok pack ->
    Forall det_node (p_nodes pack) ->
    o_verdict (build w rp (Some g)) = VOk ->
    In g (plan_targets pack) /\
    forall t, In t (plan_targets pack) ->
      content_at (o_world (build w rp (Some g))) t = content_at (scratch_world w pack) t.
  Proof. exact (goal_restricted T teqb hc hl hr teqb_spec hc_inj hl_inj hr_inj). Qed.
End Results.

(* ---- closed statements: the instance with free symbolic hashes ---- *)

Theorem G1_det_rule_functional_sym : forall (r : rule) (w w' : world sym),
  det_rule r ->
  (forall p, In p (r_sources r ++ r_targets r) -> content_at w p = content_at w' p) ->
  fst (run_script w (script_lines (r_command r))) = fst (run_script w' (script_lines (r_command r))) /\
  forall p, In p (r_sources r ++ r_targets r) ->
    content_at (snd (run_script w (script_lines (r_command r)))) p =
    content_at (snd (run_script w' (script_lines (r_command r)))) p.
Proof. exact (G1_det_rule_functional sym). Qed.

Theorem hist_sound_init_world_sym : forall mode t0, hist_sound_sym (init_world mode t0).
Proof. exact (hist_sound_init_world sym sym_eqb SContent SList SRule). Qed.

Theorem hist_sound_build_partial_sym : forall (w : world sym) goal,
  disk_inv sym_eqb SContent w -> hist_sound_sym w ->
  (forall w1 tbl pack, init_dir sym w = Ok (w1, tbl) -> get_nodes sym w1 RULES_PATH goal = Ok pack ->
                       Forall det_node (p_nodes pack)) ->
  hist_sound_sym (o_world (build_sym w RULES_PATH goal)).
Proof. exact (hist_sound_build_partial sym sym_eqb SContent SList SRule sym_eqb_spec SContent_inj SList_inj SRule_inj). Qed.

Theorem reach_hist_sound_partial_sym : forall t0 (ops : list (op sym)),
  det_history_sym (init_world Fine t0) ops ->
  disk_inv sym_eqb SContent (run_sym ops (init_world Fine t0)) /\ hist_sound_sym (run_sym ops (init_world Fine t0)).
Proof. exact (reach_hist_sound_partial sym sym_eqb SContent SList SRule sym_eqb_spec SContent_inj SList_inj SRule_inj). Qed.

Theorem c01_incremental_equals_scratch_sym : forall (w : world sym) rp goal w1 tbl pack,
  disk_inv sym_eqb SContent w -> hist_sound_sym w ->
  init_dir sym w = Ok (w1, tbl) -> get_nodes sym w1 rp goal = Ok pack ->
  Forall det_node (p_nodes pack) ->
  o_verdict (build_sym w rp goal) = VOk ->
  forall t, In t (plan_targets pack) ->
    content_at (o_world (build_sym w rp goal)) t = content_at (scratch_world w pack) t.
Proof.
  exact (c01_incremental_equals_scratch sym sym_eqb SContent SList SRule sym_eqb_spec SContent_inj SList_inj SRule_inj).
Qed.

Theorem c01_goal_restricted_sym : forall (w : world sym) rp g w1 tbl pack,
  disk_inv sym_eqb SContent w -> hist_sound_sym w ->
  init_dir sym w = Ok (w1, tbl) -> get_nodes sym w1 rp (Some g) = Ok pack ->
  Forall det_node (p_nodes pack) ->
  o_verdict (build_sym w rp (Some g)) = VOk ->
  In g (plan_targets pack) /\
  forall t, In t (plan_targets pack) ->
    content_at (o_world (build_sym w rp (Some g))) t = content_at (scratch_world w pack) t.
Proof.
  exact (c01_goal_restricted sym sym_eqb SContent SList SRule sym_eqb_spec SContent_inj SList_inj SRule_inj).
Qed.

(* C01 over every history: safe operations from the empty world, EVERY build of the history over a DET
   plan (det_history: each operation is safe, and each OBuild's plan — if parsing and sorting succeed —
   satisfies Forall det_node), then one more build with a DET plan that succeeds: at every target of the
   plan the content is the from-scratch content.
   The statement with only the LAST plan DET is false: c01_every_history_sym_refuted. *)
Theorem c01_every_history_sym_partial : forall t0 (ops : list (op sym)) goal w1 tbl pack,
  det_history_sym (init_world Fine t0) ops ->
  init_dir sym (run_sym ops (init_world Fine t0)) = Ok (w1, tbl) ->
  get_nodes sym w1 RULES_PATH goal = Ok pack ->
  Forall det_node (p_nodes pack) ->
  o_verdict (build_sym (run_sym ops (init_world Fine t0)) RULES_PATH goal) = VOk ->
  forall t, In t (plan_targets pack) ->
    content_at (o_world (build_sym (run_sym ops (init_world Fine t0)) RULES_PATH goal)) t =
    content_at (scratch_world (run_sym ops (init_world Fine t0)) pack) t.
Proof. exact (every_history sym sym_eqb SContent SList SRule sym_eqb_spec SContent_inj SList_inj SRule_inj). Qed.

(* refuted (see above): c01_every_history_sym_refuted, reach_hist_sound_refuted, hist_sound_build_refuted *)
